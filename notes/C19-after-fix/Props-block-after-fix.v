(* replaces the import of Sys.ConfigDeviations and everything between BEGIN block / END block in coq/Props/C19.v;
   also replace cwd_file_wins and documented_sections_participate by the versions below *)
From NB Require Import Sys.ConfigConformsAll.

Theorem effective_value_spec :
  forall ep o files flags,
    In ep ep_names -> In o (options ep) -> o <> kIgnore ->
    wf_filesb files = true ->
    effective ep files flags o = Ok (spec_effective ep files flags o).
Proof. exact effective_value_spec_all. Qed.
Print Assumptions effective_value_spec.

Theorem cwd_file_wins :
  forall ep o cwd rest flags,
    In ep ep_names -> In o (options ep) -> o <> kIgnore ->
    wf_filesb (cwd :: rest) = true ->
    (forall S f, In S (spec_sections ep) -> In f rest -> file_get f S o <> None -> file_get cwd S o <> None) ->
    effective ep (cwd :: rest) flags o = effective ep [cwd] flags o.
Proof. exact cwd_file_wins_all. Qed.
Print Assumptions cwd_file_wins.

Theorem documented_sections_participate :
  forall S cn, In (S, cn) doc_pairs -> participates S cn = true.
Proof. exact documented_sections_participate_all. Qed.
Print Assumptions documented_sections_participate.
