(* C19 -- AFTER nbdime is repaired (notes/C19-fix-1.diff or equivalent): copy this file to coq/Sys/ConfigConformsAll.v,
   delete coq/Sys/ConfigDeviations.v, and swap the marked block of coq/Props/C19.v for Props-block-after-fix.v.
   The class tables then conform to the documented rule for EVERY entry point and option (decided by vm_compute over the
   regenerated tables), so the exception hypotheses disappear. *)
From Coq Require Import List NArith ZArith Bool String Lia.
From NB Require Import Base.Json.
From NB Require Import Base.Res.
From NB Require Import Diff.Codec.
From NB Require Import Gen.ConfigClasses.
From NB Require Import Sys.Config.
From NB Require Import Sys.ConfigProofs.
Import ListNotations.
Local Open Scope list_scope.

Lemma conforms_all ep o : In ep ep_names -> In o (options ep) -> conforms ep o = true.
Proof.
  intros Hep Ho.
  assert (T : forallb (fun ep => forallb (conforms ep) (options ep)) ep_names = true) by (vm_compute; reflexivity).
  rewrite forallb_forall in T. specialize (T ep Hep). rewrite forallb_forall in T. apply T; exact Ho.
Qed.

Lemma effective_value_spec_all ep o files flags :
  In ep ep_names -> In o (options ep) -> o <> kIgnore -> wf_filesb files = true ->
  effective ep files flags o = Ok (spec_effective ep files flags o).
Proof. intros Hep Ho N W. apply effective_value_spec_lemma; auto. apply conforms_all; auto. Qed.

Lemma cwd_file_wins_all ep o cwd rest flags :
  In ep ep_names -> In o (options ep) -> o <> kIgnore -> wf_filesb (cwd :: rest) = true ->
  (forall S f, In S (spec_sections ep) -> In f rest -> file_get f S o <> None -> file_get cwd S o <> None) ->
  effective ep (cwd :: rest) flags o = effective ep [cwd] flags o.
Proof. intros Hep Ho N W H. apply cwd_file_wins_lemma; auto. apply conforms_all; auto. Qed.

Lemma documented_sections_participate_all S cn : In (S, cn) doc_pairs -> participates S cn = true.
Proof.
  intros I.
  assert (T : forallb (fun p => participates (fst p) (snd p)) doc_pairs = true) by (vm_compute; reflexivity).
  rewrite forallb_forall in T. apply (T _ I).
Qed.
