(* BLOCK B of coq/Props/C04.v: paste in place of BLOCK A once the fix is applied (after the fixes (cell_marker_id = MarkerIdIffPayload, similar_insert_id = SimIdLocal)) *)
Theorem marker_cell_valid : forall k cid text, k <= 5 -> id_ok cid -> cell_valid k (cell_marker (Nat.leb 5 k) cid text).
Proof. exact marker_iff_valid. Qed.
Print Assumptions marker_cell_valid.

Theorem inline_cells_valid : forall k id0 id1 id2 base lvals rvals start lr rr,
  k <= 5 -> id_ok id0 -> id_ok id1 -> id_ok id2 ->
  Forall (cell_valid k) base -> Forall (cell_valid k) lvals -> Forall (cell_valid k) rvals ->
  forallb (has_key k_id) ((lvals ++ firstn (lr - rr) (skipn start base)) ++ (rvals ++ firstn (rr - lr) (skipn start base))) = Nat.leb 5 k ->
  Forall (cell_valid k) (make_inline_cell_conflict (id0, id1, id2) base lvals rvals start lr rr).
Proof. exact inline_cells_valid_iff. Qed.
Print Assumptions inline_cells_valid.

Theorem similar_insert_value_valid : forall k T key s lv rv src v, k <= 5 -> In T cell_type_defs ->
  prop_schema (nb_defs k) T key = Some s -> validate (nb_defs k) F s lv = Some true ->
  similar_value similar_insert_id key lv rv src = Some v -> validate (nb_defs k) F s v = Some true.
Proof. exact similar_value_valid_local. Qed.
Print Assumptions similar_insert_value_valid.
