(* BLOCK B of coq/Props/C09.v: paste in place of BLOCK A once the fix is applied (after the fix) *)
Theorem emitted_subset_schema : subset py_emitted schema_actions = true.
Proof. exact (eq_refl true <: subset py_emitted schema_actions = true). Qed.
Print Assumptions emitted_subset_schema.
