#!/bin/bash
# run_seeds.sh [dir ...] : apply each seeded patch to /repo, run the property's quick check (and any
# extra property listed in seeded/<id>/also.txt), undo the patch, record what the checks said in
# seeded/<id>/meta.json (checks_run).  Evidence files written meanwhile are discarded (restored).
# Never run while another check uses /repo.
cd /verif
dirs="$@"; [ -z "$dirs" ] && dirs=$(ls -d seeded/C*_m* | sort)
rm -rf /tmp/nbv_ev_backup /tmp/nbv_rp_backup; cp -r evidence /tmp/nbv_ev_backup; cp -r replays /tmp/nbv_rp_backup 2>/dev/null
if [ -n "$(git -C /repo status --porcelain)" ]; then echo "/repo not clean"; exit 2; fi
for d in $dirs; do
  id=$(basename $d); prop=${id%%_*}
  props="$prop"; [ -f $d/also.txt ] && props="$props $(cat $d/also.txt)"
  git -C /repo apply /verif/$d/patch.diff || { echo "$id: patch does not apply"; continue; }
  for p in $props; do
    log=/tmp/nbv_seed_${id}_$p.log
    start=$(date +%s)
    VERIF_SEED=${VERIF_SEED:-0} timeout 3000 bin/check $p --tier quick > $log 2>&1; rc=$?
    secs=$(( $(date +%s) - start ))
    python3 - "$d" "$p" "$rc" "$log" "$secs" <<'PY'
import json, sys, re
d, p, rc, log, secs = sys.argv[1:]
txt = open(log, errors='replace').read()
viol = [l.strip() for l in txt.splitlines() if l.startswith('VIOLATION')]
kf = [l.strip() for l in txt.splitlines() if l.startswith('KNOWN-FINDING')]
kind = 'missed'
if viol:
    kind = 'broken-obligation-only' if all(l.endswith('no-failing-input-found') for l in viol) else 'failing-input'
meta = json.load(open(d + '/meta.json'))
runs = [r for r in meta.get('checks_run', []) if r.get('check') != p]
replays = []
for l in viol[:3]:
    m = re.search(r'replay=(\S+)', l)
    if m:
        try:
            body = json.load(open(m.group(1)))
            import shutil, os
            keep = d + '/replay_' + p + '_' + str(len(replays)) + '.json'
            if os.path.getsize(m.group(1)) < 200000: shutil.copy(m.group(1), keep)
            replays.append({'signature': body.get('signature') or body.get('obligation'), 'replay_copy': keep if os.path.exists(keep) else None})
        except Exception: replays.append({'path': m.group(1)})
runs.append({'check': p, 'tier': 'quick', 'seed': 0, 'exit': int(rc), 'seconds': int(secs), 'result': kind,
             'violation_lines': len(viol), 'first_violations': viol[:3], 'what_failed': replays})
meta['checks_run'] = runs
meta['detected_by'] = sorted({r['check'] for r in runs if r['result'] != 'missed'})
json.dump(meta, open(d + '/meta.json', 'w'), indent=1)
print(d, p, 'rc=' + rc, kind, secs + 's')
PY
  done
  git -C /repo checkout -- . ; git -C /repo clean -fdq -- nbdime 2>/dev/null
done
rm -rf evidence; mv /tmp/nbv_ev_backup evidence
[ -d /tmp/nbv_rp_backup ] && { rm -rf replays; mv /tmp/nbv_rp_backup replays; }
( cd /verif && make -s gen >/dev/null 2>&1 )
echo seeds-done
