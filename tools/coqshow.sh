#!/bin/sh
# usage: coqshow.sh File.v LINE  -- print the goals after line LINE of File.v (run from /verif/coq)
f=$1; n=$2
tmp=$(dirname $f)/ShowTmp_$$.v
head -n $n $f > $tmp
echo "Show." >> $tmp
timeout 300 coqc -Q . NB $tmp 2>&1 | grep -v conda | head -${3:-80}
rm -f $tmp $(dirname $f)/ShowTmp_$$.* $(dirname $f)/.ShowTmp_$$.aux
