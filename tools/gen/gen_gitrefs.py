#!/venv/bin/python
"""Gen/GitRefsFacts.v (C17): the source facts the model Sys/GitRefs.v branches on, read off the ASTs of
nbdime/utils.py (pushd), nbdime/gitfiles.py (_get_diff_entry_stream) and nbdime/args.py (resolve_diff_args).
Fail-closed: a shape that is not recognised is an error, never a guess.  No import of nbdime is needed."""
import sys, os, ast
sys.path.insert(0, os.path.dirname(os.path.abspath(__file__)))
from common import *

OUTPUTS = ['GitRefsFacts.v']


def parse(rel):
    p = os.path.join(REPO, rel)
    try:
        return ast.parse(open(p, encoding='utf-8').read(), p)
    except (OSError, SyntaxError) as e:
        raise GenError('cannot parse %s: %s' % (rel, e))


def func(tree, name, rel):
    fs = [n for n in tree.body if isinstance(n, ast.FunctionDef) and n.name == name]
    if len(fs) != 1:
        raise GenError('%s: expected exactly one top-level def %s, found %d' % (rel, name, len(fs)))
    return fs[0]


def dotted(e):
    if isinstance(e, ast.Name): return e.id
    if isinstance(e, ast.Attribute):
        b = dotted(e.value)
        return None if b is None else b + '.' + e.attr
    return None


def is_call(e, name, nargs=None):
    return isinstance(e, ast.Call) and dotted(e.func) == name and not e.keywords and (nargs is None or len(e.args) == nargs)


CUR = ("os.curdir",)


def is_curdir(e):
    return dotted(e) in CUR or (isinstance(e, ast.Constant) and e.value == '.')


def classify_saved(e):
    """what `old = <e>` remembers"""
    if is_curdir(e): return 'Curdir'
    if is_call(e, 'os.getcwd', 0) or is_call(e, 'os.getcwdu', 0): return 'Getcwd'
    for f in ('os.path.abspath', 'os.path.realpath'):
        if is_call(e, f, 1) and (is_curdir(e.args[0]) or is_call(e.args[0], 'os.getcwd', 0)): return 'Getcwd'
    if is_call(e, 'Path.cwd', 0) or is_call(e, 'pathlib.Path.cwd', 0): return 'Getcwd'
    raise GenError('utils.pushd: do not know what `%s` saves' % ast.unparse(e))


def strip_doc(body):
    if body and isinstance(body[0], ast.Expr) and isinstance(body[0].value, ast.Constant) and isinstance(body[0].value.value, str):
        return body[1:]
    return body


def pushd_facts():
    rel = 'nbdime/utils.py'
    f = func(parse(rel), 'pushd', rel)
    if [dotted(d) for d in f.decorator_list] not in (['contextmanager'], ['contextlib.contextmanager']):
        raise GenError('utils.pushd: expected a single @contextmanager decorator')
    if len(f.args.args) != 1 or f.args.vararg or f.args.kwarg or f.args.kwonlyargs or f.args.defaults:
        raise GenError('utils.pushd: expected exactly one plain parameter')
    arg = f.args.args[0].arg
    body = strip_doc(f.body)

    def is_chdir(s, what):
        return isinstance(s, ast.Expr) and is_call(s.value, 'os.chdir', 1) and isinstance(s.value.args[0], ast.Name) and s.value.args[0].id == what

    def is_yield(s):
        return isinstance(s, ast.Expr) and isinstance(s.value, ast.Yield) and s.value.value is None

    if not (body and isinstance(body[0], ast.Assign) and len(body[0].targets) == 1 and isinstance(body[0].targets[0], ast.Name)):
        raise GenError('utils.pushd: expected `old = ...` as the first statement')
    old = body[0].targets[0].id
    saved = classify_saved(body[0].value)
    rest = body[1:]
    # shape A: try: chdir(path); yield   finally: chdir(old)
    # shape B: chdir(path); try: yield finally: chdir(old)
    # shape C: chdir(path); yield; chdir(old)          (no finally)
    if len(rest) == 1 and isinstance(rest[0], ast.Try) and not rest[0].handlers and not rest[0].orelse:
        t = rest[0]
        if len(t.body) == 2 and is_chdir(t.body[0], arg) and is_yield(t.body[1]) and len(t.finalbody) == 1 and is_chdir(t.finalbody[0], old):
            return saved, True
    if len(rest) == 2 and is_chdir(rest[0], arg) and isinstance(rest[1], ast.Try) and not rest[1].handlers and not rest[1].orelse:
        t = rest[1]
        if len(t.body) == 1 and is_yield(t.body[0]) and len(t.finalbody) == 1 and is_chdir(t.finalbody[0], old):
            return saved, True
    if len(rest) == 3 and is_chdir(rest[0], arg) and is_yield(rest[1]) and is_chdir(rest[2], old):
        return saved, False
    raise GenError('utils.pushd: body shape not recognised:\n' + ast.unparse(f))


def suffix_fact():
    rel = 'nbdime/gitfiles.py'
    f = func(parse(rel), '_get_diff_entry_stream', rel)
    if [a.arg for a in f.args.args][:1] != ['path']:
        raise GenError('gitfiles._get_diff_entry_stream: first parameter is not `path`')
    found = []
    for n in ast.walk(f):
        if isinstance(n, ast.Call) and isinstance(n.func, ast.Attribute) and n.func.attr == 'endswith':
            if not (isinstance(n.func.value, ast.Name) and n.func.value.id == 'path' and len(n.args) == 1
                    and isinstance(n.args[0], ast.Constant) and isinstance(n.args[0].value, str)):
                raise GenError('gitfiles._get_diff_entry_stream: unrecognised endswith test: ' + ast.unparse(n))
            found.append(n.args[0].value)
    if len(found) != 1:
        raise GenError('gitfiles._get_diff_entry_stream: expected exactly one path.endswith(<literal>), found %d' % len(found))
    if not found[0] or '/' in found[0]:
        raise GenError('gitfiles._get_diff_entry_stream: notebook suffix %r is empty or contains a slash' % found[0])
    # the working-tree read must sit inside `with pushd(repo_dir)`
    withs = [n for n in ast.walk(f) if isinstance(n, ast.With) and len(n.items) == 1 and is_call(n.items[0].context_expr, 'pushd', 1)]
    if len(withs) != 1:
        raise GenError('gitfiles._get_diff_entry_stream: expected exactly one `with pushd(...)`')
    opens = [n for n in ast.walk(f) if isinstance(n, ast.Call) and dotted(n.func) in ('io.open', 'open')]
    inside = [n for n in ast.walk(withs[0]) if isinstance(n, ast.Call) and dotted(n.func) in ('io.open', 'open')]
    if len(opens) != 1 or len(inside) != 1:
        raise GenError('gitfiles._get_diff_entry_stream: the single open() of the working-tree file is not inside `with pushd(...)`')
    return found[0]


def is_none_test(e):
    """`<name> is None` -> name"""
    if isinstance(e, ast.Compare) and len(e.ops) == 1 and isinstance(e.ops[0], ast.Is) and isinstance(e.left, ast.Name) \
            and isinstance(e.comparators[0], ast.Constant) and e.comparators[0].value is None:
        return e.left.id
    return None


def skip_fact():
    """changed_notebooks: which `continue` tests guard the yield inside `for entry in diff`"""
    rel = 'nbdime/gitfiles.py'
    f = func(parse(rel), 'changed_notebooks', rel)
    loops = [n for n in f.body if isinstance(n, ast.For)]
    if len(loops) != 1:
        raise GenError('gitfiles.changed_notebooks: expected exactly one top-level for loop')
    loop = loops[0]
    calls = {}
    for st in loop.body:
        if isinstance(st, ast.Assign) and len(st.targets) == 1 and isinstance(st.targets[0], ast.Name) and is_call_kw(st.value, '_get_diff_entry_stream'):
            side = dotted(st.value.args[0]) if st.value.args else None
            calls[st.targets[0].id] = side
    sides = {v.split('.')[-1]: k for k, v in calls.items() if v}
    if set(sides) != {'a_path', 'b_path'}:
        raise GenError('gitfiles.changed_notebooks: expected one _get_diff_entry_stream call per side, found %r' % calls)
    va, vb = sides['a_path'], sides['b_path']
    tests = []
    for st in loop.body:
        if isinstance(st, ast.If):
            if not (len(st.body) == 1 and isinstance(st.body[0], ast.Continue) and not st.orelse):
                raise GenError('gitfiles.changed_notebooks: unrecognised if-statement in the loop: ' + ast.unparse(st)[:200])
            n = is_none_test(st.test)
            if n is not None: tests.append(frozenset([n]))
            elif isinstance(st.test, ast.BoolOp) and isinstance(st.test.op, ast.And) and all(is_none_test(v) for v in st.test.values):
                tests.append(('and', frozenset(is_none_test(v) for v in st.test.values)))
            else:
                raise GenError('gitfiles.changed_notebooks: unrecognised skip test: ' + ast.unparse(st.test))
    if tests == [frozenset([va]), frozenset([vb])]:
        # the first `continue` must precede the second _get_diff_entry_stream call (the model evaluates the base side first)
        order = [type(st).__name__ for st in loop.body if isinstance(st, (ast.Assign, ast.If))]
        if order[:4] != ['Assign', 'If', 'Assign', 'If']:
            raise GenError('gitfiles.changed_notebooks: statement order in the loop not recognised: %r' % order)
        ys = [st for st in loop.body if isinstance(st, ast.Expr) and isinstance(st.value, ast.Yield)]
        if len(ys) != 1 or ast.unparse(ys[0].value.value).replace(' ', '') != '(%s,%s)' % (va, vb):
            raise GenError('gitfiles.changed_notebooks: yield shape not recognised')
        return False
    if tests == [('and', frozenset([va, vb]))]:
        return True      # the yielded expression is compared by the correspondence check (None sides become the null file)
    raise GenError('gitfiles.changed_notebooks: skip tests not recognised: %r' % (tests,))


def is_call_kw(e, name):
    return isinstance(e, ast.Call) and dotted(e.func) == name


def filter_try_fact():
    """_get_diff_entry_stream: is apply_possible_filter(path) called inside the try whose handler catches IOError/OSError?"""
    rel = 'nbdime/gitfiles.py'
    f = func(parse(rel), '_get_diff_entry_stream', rel)
    calls = [n for n in ast.walk(f) if isinstance(n, ast.Call) and dotted(n.func) == 'apply_possible_filter']
    if len(calls) != 1:
        raise GenError('gitfiles._get_diff_entry_stream: expected exactly one apply_possible_filter call')
    tries = [n for n in ast.walk(f) if isinstance(n, ast.Try)]
    io_tries = []
    for t in tries:
        for h in t.handlers:
            names = [dotted(h.type)] if h.type is not None and not isinstance(h.type, ast.Tuple) else [dotted(x) for x in (h.type.elts if h.type is not None else [])]
            if any(n in ('IOError', 'OSError', 'FileNotFoundError', 'EnvironmentError') for n in names):
                io_tries.append(t)
    if len(io_tries) != 1:
        raise GenError('gitfiles._get_diff_entry_stream: expected exactly one try/except IOError')
    inside = any(c is n for st in io_tries[0].body for n in ast.walk(st) for c in calls)
    return inside


def deleted_fact():
    """Is the working-tree side of an entry that git reports as deleted the missing file without a look at the disk?
    Two shapes are known (anything else is an error):
      old : `def _get_diff_entry_stream(path, blob, ref_name, repo_dir)`, no name `deleted` anywhere, both calls in
            changed_notebooks positional                                                              -> False
      new : a fifth parameter `deleted=False`; the branch `if ref_name is GitRefWorkingTree:` STARTS with
            `if deleted: return EXPLICIT_MISSING_FILE` (before anything touches the disk) and `deleted` is used nowhere else;
            in changed_notebooks the base-side call does not pass it and the remote-side call passes exactly
            `deleted=<loop variable>.deleted_file`                                                     -> True"""
    rel = 'nbdime/gitfiles.py'
    tree = parse(rel)
    f = func(tree, '_get_diff_entry_stream', rel)
    a = f.args
    if a.vararg or a.kwarg or a.kwonlyargs or a.posonlyargs:
        raise GenError('gitfiles._get_diff_entry_stream: unexpected parameter kinds')
    names = [x.arg for x in a.args]
    uses = [n for n in ast.walk(f) if isinstance(n, ast.Name) and n.id == 'deleted']
    cn = func(tree, 'changed_notebooks', rel)
    loops = [n for n in cn.body if isinstance(n, ast.For)]
    if len(loops) != 1 or not isinstance(loops[0].target, ast.Name):
        raise GenError('gitfiles.changed_notebooks: expected exactly one top-level `for <name> in ...` loop')
    var = loops[0].target.id
    calls = [n for n in ast.walk(cn) if isinstance(n, ast.Call) and dotted(n.func) == '_get_diff_entry_stream']
    if len(calls) != 2 or any(not any(c is n for n in ast.walk(loops[0])) for c in calls):
        raise GenError('gitfiles.changed_notebooks: expected exactly two _get_diff_entry_stream calls, both inside the loop')
    by_side = {}
    for c in calls:
        if len(c.args) != 4 or any(isinstance(x, ast.Starred) for x in c.args) or any(k.arg is None for k in c.keywords):
            raise GenError('gitfiles.changed_notebooks: _get_diff_entry_stream call shape not recognised: ' + ast.unparse(c))
        by_side[dotted(c.args[0])] = c
    if set(by_side) != {var + '.a_path', var + '.b_path'}:
        raise GenError('gitfiles.changed_notebooks: expected one _get_diff_entry_stream call per side of `%s`' % var)
    ca, cb = by_side[var + '.a_path'], by_side[var + '.b_path']
    if names == ['path', 'blob', 'ref_name', 'repo_dir'] and not a.defaults:
        if uses or ca.keywords or cb.keywords:
            raise GenError('gitfiles: four-parameter _get_diff_entry_stream, but `deleted` or keyword arguments are in use')
        return False
    if names != ['path', 'blob', 'ref_name', 'repo_dir', 'deleted'] or len(a.defaults) != 1 \
            or not (isinstance(a.defaults[0], ast.Constant) and a.defaults[0].value is False):
        raise GenError('gitfiles._get_diff_entry_stream: parameter list not recognised: ' + ast.unparse(a))
    # the working-tree branch
    wt = [n for n in ast.walk(f) if isinstance(n, ast.If) and isinstance(n.test, ast.Compare) and len(n.test.ops) == 1
          and isinstance(n.test.ops[0], (ast.Is, ast.Eq)) and dotted(n.test.left) == 'ref_name'
          and dotted(n.test.comparators[0]) == 'GitRefWorkingTree']
    if len(wt) != 1:
        raise GenError('gitfiles._get_diff_entry_stream: expected exactly one `if ref_name is GitRefWorkingTree:`')
    body = wt[0].body
    g = body[0] if body else None
    ok = (isinstance(g, ast.If) and isinstance(g.test, ast.Name) and g.test.id == 'deleted' and not g.orelse
          and len(g.body) == 1 and isinstance(g.body[0], ast.Return) and dotted(g.body[0].value) == 'EXPLICIT_MISSING_FILE')
    if not ok or len(uses) != 1:
        raise GenError('gitfiles._get_diff_entry_stream: `deleted` is not used as `if deleted: return EXPLICIT_MISSING_FILE` '
                       'at the start of the working-tree branch (and nowhere else)')
    if ca.keywords:
        raise GenError('gitfiles.changed_notebooks: the base-side call passes keyword arguments: ' + ast.unparse(ca))
    if len(cb.keywords) != 1 or cb.keywords[0].arg != 'deleted' or dotted(cb.keywords[0].value) != var + '.deleted_file':
        raise GenError('gitfiles.changed_notebooks: the remote-side call does not pass exactly deleted=%s.deleted_file: %s'
                       % (var, ast.unparse(cb)))
    return True


def allpaths_fact():
    """resolve_diff_args: what the branch `base and remote` / `not is_gitref(base)` assigns to base."""
    rel = 'nbdime/args.py'
    f = func(parse(rel), 'resolve_diff_args', rel)
    hits = []
    for n in ast.walk(f):
        if isinstance(n, ast.If) and isinstance(n.test, ast.UnaryOp) and isinstance(n.test.op, ast.Not) \
                and is_call(n.test.operand, 'is_gitref', 1) and dotted(n.test.operand.args[0]) == 'base':
            env = {}
            for s in n.body:
                if isinstance(s, ast.Assign):
                    for t in s.targets:
                        if isinstance(t, ast.Name): env[t.id] = s.value
            v = env.get('paths')
            if isinstance(v, ast.BinOp) and isinstance(v.op, ast.Add) and isinstance(v.left, ast.List):
                hits.append(env)
    if len(hits) != 1:
        raise GenError('args.resolve_diff_args: expected exactly one all-paths branch (`if not is_gitref(base): paths = [base, remote] + paths ...`), found %d' % len(hits))
    env = hits[0]
    if [dotted(e) for e in env['paths'].left.elts] != ['base', 'remote'] or dotted(env['paths'].right) != 'paths':
        raise GenError('args.resolve_diff_args: all-paths branch builds paths as ' + ast.unparse(env['paths']))
    b, r = env.get('base'), env.get('remote')
    if not (isinstance(r, ast.Constant) and r.value is None):
        raise GenError('args.resolve_diff_args: all-paths branch does not set remote = None')
    if isinstance(b, ast.Constant) and b.value is None: return 'BaseNone'
    if isinstance(b, ast.Constant) and b.value == 'HEAD': return 'BaseHead'
    raise GenError('args.resolve_diff_args: all-paths branch sets base = ' + (ast.unparse(b) if b is not None else '<nothing>'))


def main():
    saved, fin = pushd_facts()
    suf = suffix_fact()
    ap = allpaths_fact()
    skip_both = skip_fact()
    filt_try = filter_try_fact()
    del_missing = deleted_fact()
    text = '''(* GENERATED by tools/gen/gen_gitrefs.py from /repo -- do not edit *)
From Coq Require Import List NArith.
From NB Require Import Base.Json.
From NB Require Import Sys.GitRefs.
Import ListNotations.

Definition src_facts : facts := {|
  f_pushd_saves := %s;
  f_pushd_finally := %s;
  f_nb_suffix := %s;
  f_allpaths_base := %s;
  f_skip_both := %s;
  f_filter_in_try := %s;
  f_deleted_missing := %s |}.
''' % (saved, coq_bool(fin), '[' + '; '.join('%d' % ord(c) for c in suf) + ']%N', ap, coq_bool(skip_both), coq_bool(filt_try),
       coq_bool(del_missing))
    if '--stdout' in sys.argv[1:]:
        sys.stdout.write(text)
    else:
        write_if_changed('GitRefsFacts.v', text)


if __name__ == '__main__':
    try:
        main()
    except GenError as e:
        print('GENERROR gen_gitrefs: %s' % e, file=sys.stderr)
        sys.exit(2)
