#!/venv/bin/python
"""Gen/RenderFilter.v (property C16): the parts of nbdime/prettyprint.py that are data or straight-line decisions.
 * PrettyPrintConfig.should_ignore_path      AST  -> decision list over prefixes of the starred path
 * diff_render                               AST  -> renderer selection rules
 * pretty_print_source                       AST  -> the condition under which pygments highlighting is applied
 * external_diff_render                      AST  -> whether/when the "No newline" strip and its assertion are applied
 * col_const, DIFF_ENTRY_END, command lines  by execution (git command line for the 4 colour settings)
Fail-closed: any construct outside the recognised shapes raises GenError (exit 2, GENERROR line)."""
import sys, os, ast
sys.path.insert(0, os.path.dirname(os.path.abspath(__file__)))
from common import *

OUTPUTS = ['RenderFilter.v']

CATS = {'sources': 'Sources', 'outputs': 'Outputs', 'attachments': 'Attachments', 'metadata': 'Metadata', 'id': 'Id', 'details': 'Details'}

def src_tree():
    path = os.path.join(REPO, 'nbdime', 'prettyprint.py')
    return ast.parse(open(path, encoding='utf8').read(), path)

def find_func(tree, name, cls=None):
    scope = tree.body
    if cls:
        cs = [n for n in tree.body if isinstance(n, ast.ClassDef) and n.name == cls]
        if len(cs) != 1: raise GenError('class %s not found exactly once' % cls)
        scope = cs[0].body
    fs = [n for n in scope if isinstance(n, ast.FunctionDef) and n.name == name]
    if len(fs) != 1: raise GenError('function %s not found exactly once' % name)
    return fs[0]

def body_nodoc(f):
    b = f.body
    if b and isinstance(b[0], ast.Expr) and isinstance(getattr(b[0], 'value', None), ast.Constant) and isinstance(b[0].value.value, str):
        b = b[1:]
    return b

def is_attr(n, obj, attr=None):
    return isinstance(n, ast.Attribute) and isinstance(n.value, ast.Name) and n.value.id == obj and (attr is None or n.attr == attr)

# ------------------------------------------------------------------ should_ignore_path
def bexp(n):
    if isinstance(n, ast.UnaryOp) and isinstance(n.op, ast.Not) and is_attr(n.operand, 'self') and n.operand.attr in CATS:
        return '(BNotFlag %s)' % CATS[n.operand.attr]
    if isinstance(n, ast.BoolOp):
        parts = [bexp(v) for v in n.values]
        op = 'BOr' if isinstance(n.op, ast.Or) else 'BAnd'
        out = parts[-1]
        for p in reversed(parts[:-1]): out = '(%s %s %s)' % (op, p, out)
        return out
    if (isinstance(n, ast.Compare) and len(n.ops) == 1 and isinstance(n.ops[0], ast.Eq) and isinstance(n.left, ast.Name)
            and n.left.id == 'starred' and isinstance(n.comparators[0], ast.Constant) and isinstance(n.comparators[0].value, str)):
        return '(BStarredEq %s)' % coq_str(n.comparators[0].value)
    if isinstance(n, ast.Constant) and isinstance(n.value, bool):
        return '(BConst %s)' % coq_bool(n.value)
    raise GenError('should_ignore_path: unrecognised result expression: ' + ast.dump(n)[:200])

def startswith_prefix(n):
    if (isinstance(n, ast.Call) and is_attr(n.func, 'starred', 'startswith') and len(n.args) == 1 and not n.keywords
            and isinstance(n.args[0], ast.Constant) and isinstance(n.args[0].value, str)):
        return n.args[0].value
    raise GenError('should_ignore_path: unrecognised condition: ' + ast.dump(n)[:200])

def tr_should_ignore(tree):
    f = find_func(tree, 'should_ignore_path', 'PrettyPrintConfig')
    if [a.arg for a in f.args.args] != ['self', 'path']: raise GenError('should_ignore_path: signature changed')
    b = body_nodoc(f)
    first = b[0]
    expect = "Assign(targets=[Name(id='starred', ctx=Store())], value=Call(func=Name(id='star_path', ctx=Load()), args=[Call(func=Name(id='split_path', ctx=Load()), args=[Name(id='path', ctx=Load())], keywords=[])], keywords=[]))"
    if ast.dump(first) != expect: raise GenError('should_ignore_path: first statement is not starred = star_path(split_path(path))')
    rules = []; default = None
    for st in b[1:]:
        if default is not None: raise GenError('should_ignore_path: statement after the final return')
        if isinstance(st, ast.If):
            if st.orelse or len(st.body) != 1 or not isinstance(st.body[0], ast.Return): raise GenError('should_ignore_path: if-shape')
            t = st.test
            prefixes = [startswith_prefix(v) for v in t.values] if isinstance(t, ast.BoolOp) and isinstance(t.op, ast.Or) else [startswith_prefix(t)]
            rules.append((prefixes, bexp(st.body[0].value)))
        elif isinstance(st, ast.Return):
            default = bexp(st.value)
        else:
            raise GenError('should_ignore_path: unrecognised statement ' + type(st).__name__)
    if default is None: raise GenError('should_ignore_path: no final return')
    return rules, default

# ------------------------------------------------------------------ diff_render
TCOND = {('config', 'use_git'): 'TUseGit', ('config', 'use_diff'): 'TUseDiff'}
RENDER = {'diff_render_with_git': 'RGit', 'diff_render_with_diff': 'RDiff', 'diff_render_with_difflib': 'RDifflib'}

def tcond(n):
    if isinstance(n, ast.Attribute) and isinstance(n.value, ast.Name) and (n.value.id, n.attr) in TCOND: return TCOND[(n.value.id, n.attr)]
    if (isinstance(n, ast.Call) and isinstance(n.func, ast.Name) and n.func.id == 'which' and len(n.args) == 1
            and isinstance(n.args[0], ast.Constant) and n.args[0].value in ('git', 'diff')):
        return 'THasGit' if n.args[0].value == 'git' else 'THasDiff'
    raise GenError('diff_render: unrecognised condition atom ' + ast.dump(n)[:200])

def ret_renderer(body):
    if len(body) == 1 and isinstance(body[0], ast.Return) and isinstance(body[0].value, ast.Call) and isinstance(body[0].value.func, ast.Name) \
            and body[0].value.func.id in RENDER:
        return RENDER[body[0].value.func.id]
    raise GenError('diff_render: unrecognised branch body')

def tr_diff_render(tree):
    f = find_func(tree, 'diff_render')
    b = body_nodoc(f)
    if len(b) != 1 or not isinstance(b[0], ast.If): raise GenError('diff_render: body is not a single if-chain')
    rules = []; st = b[0]
    while True:
        t = st.test
        conds = [tcond(v) for v in t.values] if isinstance(t, ast.BoolOp) and isinstance(t.op, ast.And) else [tcond(t)]
        rules.append((conds, ret_renderer(st.body)))
        if len(st.orelse) == 1 and isinstance(st.orelse[0], ast.If): st = st.orelse[0]; continue
        default = ret_renderer(st.orelse)
        break
    return rules, default

# ------------------------------------------------------------------ pretty_print_source
def hexp(n):
    if isinstance(n, ast.BoolOp):
        parts = [hexp(v) for v in n.values]
        op = 'HOr' if isinstance(n.op, ast.Or) else 'HAnd'
        out = parts[-1]
        for p in reversed(parts[:-1]): out = '(%s %s %s)' % (op, p, out)
        return out
    if isinstance(n, ast.UnaryOp) and isinstance(n.op, ast.Not):
        o = n.operand
        if isinstance(o, ast.Call) and is_attr(o.func, 'prefix', 'strip') and not o.args and not o.keywords: return 'HPrefixBlank'
        return '(HNot %s)' % hexp(o)
    if isinstance(n, ast.Name) and n.id == 'is_markdown': return 'HMarkdown'
    if is_attr(n, 'config', 'language'): return 'HLanguage'
    if is_attr(n, 'config', 'use_color'): return 'HUseColor'
    if isinstance(n, ast.Constant) and isinstance(n.value, bool): return '(HConst %s)' % coq_bool(n.value)
    raise GenError('pretty_print_source: unrecognised condition ' + ast.dump(n)[:200])

def tr_source(tree):
    f = find_func(tree, 'pretty_print_source')
    ifs = [st for st in body_nodoc(f) if isinstance(st, ast.If)]
    cands = [st for st in ifs if any(isinstance(x, ast.Call) and isinstance(x.func, ast.Name) and x.func.id == 'colorize_source' for x in ast.walk(st))]
    calls = [x for x in ast.walk(f) if isinstance(x, ast.Call) and isinstance(x.func, ast.Name) and x.func.id == 'colorize_source']
    if not calls: return '(HConst false)'
    if len(cands) != 1 or len(calls) != 1: raise GenError('pretty_print_source: colorize_source is not called under exactly one if')
    st = cands[0]
    if any(isinstance(x, ast.Call) and isinstance(x.func, ast.Name) and x.func.id == 'colorize_source' for s in st.orelse for x in ast.walk(s)):
        raise GenError('pretty_print_source: colorize_source in an else branch')
    if any(isinstance(s, ast.If) for s in st.body): raise GenError('pretty_print_source: nested condition around colorize_source')
    return hexp(st.test)

# ------------------------------------------------------------------ external_diff_render
def tr_strip(tree):
    f = find_func(tree, 'external_diff_render')
    asserts = []   # (assert node, chain of enclosing ifs)
    def walk(stmts, ifs):
        for st in stmts:
            if isinstance(st, ast.Assert):
                t = st.test
                if isinstance(t, ast.Compare) and isinstance(t.left, ast.Name) and t.left.id == 'n': asserts.append((st, list(ifs)))
            elif isinstance(st, ast.If):
                walk(st.body, ifs + [st.test]); walk(st.orelse, ifs + [ast.UnaryOp(op=ast.Not(), operand=st.test)])
            elif isinstance(st, (ast.Try, ast.With)):
                walk(st.body, ifs)
                if isinstance(st, ast.Try): walk(st.finalbody, ifs)
            elif isinstance(st, (ast.For, ast.While, ast.FunctionDef)):
                raise GenError('external_diff_render: unexpected compound statement')
    walk(body_nodoc(f), [])
    subn = [x for x in ast.walk(f) if isinstance(x, ast.Call) and isinstance(x.func, ast.Attribute) and x.func.attr in ('subn', 'sub')]
    if len(subn) > 1: raise GenError('external_diff_render: more than one substitution')
    if not asserts:
        return 'StripNoAssert', 0
    if len(asserts) != 1: raise GenError('external_diff_render: more than one assertion on n')
    st, ifs = asserts[0]
    t = st.test
    if not (len(t.ops) == 1 and isinstance(t.ops[0], ast.LtE) and isinstance(t.comparators[0], ast.Constant) and isinstance(t.comparators[0].value, int)):
        raise GenError('external_diff_render: assertion is not n <= <int>')
    bound = t.comparators[0].value
    if not ifs: return 'StripAlways', bound
    if len(ifs) == 1:
        g = ifs[0]
        if (isinstance(g, ast.Compare) and len(g.ops) == 1 and isinstance(g.ops[0], ast.NotIn) and isinstance(g.left, ast.Constant)
                and g.left.value == '--color-words' and isinstance(g.comparators[0], ast.Name) and g.comparators[0].id == 'cmd'):
            return 'StripUnlessWordDiff', bound
    raise GenError('external_diff_render: unrecognised guard around the assertion')

# ------------------------------------------------------------------ executed facts
CODE = r'''
import json, io
import nbdime.prettyprint as pp
rec = []
pp.external_diff_render = lambda cmd, a, b: (rec.append(list(cmd)) or ("", 0))
cmds = {}
for uc in (False, True):
    for cw in (False, True):
        cfg = pp.PrettyPrintConfig(out=io.StringIO(), use_color=uc, color_words=cw)
        del rec[:]
        pp.diff_render_with_git("a\n", "b\n", cfg)
        assert len(rec) == 1
        cmds["%d%d" % (uc, cw)] = rec[0]
del rec[:]
pp.diff_render_with_diff("a\n", "b\n")
assert len(rec) == 1
out = {"git": cmds, "diff": rec[0],
       "col": {str(int(k)): list(pp.col_const[k]) for k in (False, True)}, "fields": list(pp.ColoredConstants._fields),
       "end": pp.DIFF_ENTRY_END}
print(json.dumps(out))
'''

def main():
    tree = src_tree()
    rules, default = tr_should_ignore(tree)
    rrules, rdefault = tr_diff_render(tree)
    hcond = tr_source(tree)
    smode, bound = tr_strip(tree)
    ex = run_in_repo(CODE)
    if ex['fields'] != ['KEEP', 'REMOVE', 'ADD', 'INFO', 'RESET']: raise GenError('ColoredConstants fields changed: %r' % ex['fields'])
    L = []
    L.append('(* GENERATED by tools/gen/gen_renderfilter.py from /repo -- do not edit *)')
    L.append('From Coq Require Import List NArith String.')
    L.append('From NB Require Import Base.Json.')
    L.append('From NB Require Import Diff.Codec.')
    L.append('From NB Require Import Sys.RenderTypes.')
    L.append('Import ListNotations.')
    L.append('')
    L.append('Definition ignore_rules : list rule := [')
    L.append(';\n'.join('  {| r_prefixes := %s; r_result := %s |}' % (coq_list([coq_str(p) for p in ps]), e) for ps, e in rules))
    L.append('].')
    L.append('Definition ignore_default : bexp := %s.' % default)
    L.append('')
    L.append('Definition renderer_rules : list (list tcond * renderer) := %s.' %
             coq_list(['(%s, %s)' % (coq_list(cs), rn) for cs, rn in rrules]))
    L.append('Definition renderer_default : renderer := %s.' % rdefault)
    L.append('')
    L.append('(* argv of the git renderer, indexed by (use_color, color_words) *)')
    for k in ('00', '01', '10', '11'):
        L.append('Definition git_cmd_%s : list pystr := %s.' % (k, coq_list([coq_str(x) for x in ex['git'][k]])))
    L.append('Definition diff_cmd : list pystr := %s.' % coq_list([coq_str(x) for x in ex['diff']]))
    L.append('')
    L.append('(* col_const[False] / col_const[True]: KEEP REMOVE ADD INFO RESET *)')
    L.append('Definition col_nocolor : list pystr := %s.' % coq_list([coq_str(x) for x in ex['col']['0']]))
    L.append('Definition col_color : list pystr := %s.' % coq_list([coq_str(x) for x in ex['col']['1']]))
    L.append('Definition diff_entry_end : pystr := %s.' % coq_str(ex['end']))
    L.append('')
    L.append('Definition highlight_cond : hexp := %s.' % hcond)
    L.append('Definition strip_assert : strip_mode := %s.' % smode)
    L.append('Definition strip_bound : nat := %d.' % bound)
    write_if_changed('RenderFilter.v', '\n'.join(L) + '\n')

if __name__ == '__main__':
    try:
        main()
    except GenError as e:
        print('GENERROR gen_renderfilter: %s' % e, file=sys.stderr)
        sys.exit(2)
