#!/venv/bin/python
"""Gen/Actions.v: the merge-decision action vocabularies of both sides (property C15).
  py_emitted     -- every action the Python merger can put into a decision: string constants bound to `action` /
                    `<x>.action` / passed as `action=` in nbdime/merging/*.py (AST), plus the `use-*` strategies
                    for the one dynamic site `strategy.replace("use-", "")`
  py_handled     -- constants compared with `a` in merging/decisions.py:resolve_action
  ts_accepted    -- the whitelist of validateAction in packages/nbdime/src/merge/decisions.ts
  ts_handled     -- constants compared with `a` in resolveAction of the same file
  schema_actions -- the enum of nbdime/merge_format.schema.json
Fail-closed: any other way of producing an action value is an error."""
import sys, os, ast, re, json, glob
sys.path.insert(0, os.path.dirname(os.path.abspath(__file__)))
from common import *

OUTPUTS = ['Actions.v']

def is_action_target(t):
    return (isinstance(t, ast.Name) and t.id == 'action') or (isinstance(t, ast.Attribute) and t.attr == 'action')

def classify(v, where, out, strategies):
    """v: AST of an expression whose value becomes an action"""
    if isinstance(v, ast.Constant):
        if v.value is None: return
        if isinstance(v.value, str): out.add(v.value); return
        raise GenError('%s: non-string action constant %r' % (where, v.value))
    if isinstance(v, ast.Name) and v.id == 'action': return                 # flows from a site handled elsewhere
    if isinstance(v, ast.Attribute) and v.attr == 'action': return          # copy of another decision's action
    if isinstance(v, ast.Call):
        f = v.func
        if isinstance(f, ast.Attribute) and f.attr == 'tryresolve': return  # returns a value bound to `action` inside tryresolve
        if (isinstance(f, ast.Attribute) and f.attr == 'replace' and isinstance(f.value, ast.Name) and f.value.id == 'strategy'
                and len(v.args) == 2 and all(isinstance(a, ast.Constant) for a in v.args)
                and v.args[0].value == 'use-' and v.args[1].value == ''):
            for s in strategies:
                if s.startswith('use-'): out.add(s[len('use-'):])
            return
    raise GenError('%s: unrecognised action expression %s' % (where, ast.dump(v)[:200]))

def py_side():
    mdir = os.path.join(REPO, 'nbdime', 'merging')
    files = sorted(glob.glob(os.path.join(mdir, '*.py')))
    if not files: raise GenError('no nbdime/merging/*.py')
    # strategy vocabulary (for the use-* site)
    nb = ast.parse(open(os.path.join(mdir, 'notebooks.py')).read())
    strategies = None
    for n in ast.walk(nb):
        if isinstance(n, ast.Assign) and len(n.targets) == 1 and isinstance(n.targets[0], ast.Name) and n.targets[0].id == 'generic_conflict_strategies':
            if not isinstance(n.value, ast.Tuple) or not all(isinstance(e, ast.Constant) and isinstance(e.value, str) for e in n.value.elts):
                raise GenError('generic_conflict_strategies is not a tuple of strings')
            strategies = [e.value for e in n.value.elts]
    if strategies is None: raise GenError('generic_conflict_strategies not found')
    emitted = set(); handled = None
    for f in files:
        tree = ast.parse(open(f).read())
        rel = os.path.relpath(f, REPO)
        for n in ast.walk(tree):
            if isinstance(n, ast.Assign):
                for t in n.targets:
                    if is_action_target(t): classify(n.value, '%s:%d' % (rel, n.lineno), emitted, strategies)
                    if isinstance(t, ast.Tuple) and any(is_action_target(e) for e in t.elts):
                        raise GenError('%s:%d: tuple assignment to action' % (rel, n.lineno))
            elif isinstance(n, (ast.AugAssign, ast.AnnAssign)) and is_action_target(n.target):
                raise GenError('%s:%d: unsupported assignment to action' % (rel, n.lineno))
            elif isinstance(n, ast.Call):
                for kw in n.keywords:
                    if kw.arg == 'action': classify(kw.value, '%s:%d' % (rel, n.lineno), emitted, strategies)
                    if kw.arg is None: pass
                if isinstance(n.func, ast.Name) and n.func.id == 'setattr':
                    raise GenError('%s:%d: setattr' % (rel, n.lineno))
            elif isinstance(n, ast.FunctionDef) and n.name == 'resolve_action' and rel.endswith('decisions.py'):
                handled = set()
                for c in ast.walk(n):
                    if isinstance(c, ast.Compare) and isinstance(c.left, ast.Name) and c.left.id == 'a':
                        for comp in c.comparators:
                            if isinstance(comp, ast.Constant) and isinstance(comp.value, str): handled.add(comp.value)
                            elif isinstance(comp, ast.Tuple) and all(isinstance(e, ast.Constant) and isinstance(e.value, str) for e in comp.elts):
                                handled.update(e.value for e in comp.elts)
                            else: raise GenError('%s:%d: unrecognised comparison in resolve_action' % (rel, c.lineno))
    # MergeDecisionBuilder.custom(...) and friends pass action through the local `action` variable: covered above.
    if handled is None: raise GenError('resolve_action not found')
    if not emitted: raise GenError('no emitted actions found')
    return sorted(emitted), sorted(handled)

def ts_side():
    p = os.path.join(REPO, 'packages', 'nbdime', 'src', 'merge', 'decisions.ts')
    src = open(p).read()
    src_nc = re.sub(r'//[^\n]*', '', re.sub(r'/\*.*?\*/', '', src, flags=re.S))
    m = re.search(r'function\s+validateAction\s*\([^)]*\)\s*:\s*Action\s*\{(.*?)\n\}', src_nc, re.S)
    if not m: raise GenError('validateAction not found in decisions.ts')
    body = m.group(1)
    m2 = re.search(r'valueIn\(\s*action\s*,\s*\[(.*?)\]\s*,?\s*\)', body, re.S)
    if not m2 or body.count('valueIn') != 1 or 'throw new Error' not in body:
        raise GenError('validateAction has an unrecognised shape')
    items = [x.strip() for x in m2.group(1).split(',') if x.strip()]
    acc = []
    for it in items:
        mm = re.fullmatch(r"'([A-Za-z_]+)'|\"([A-Za-z_]+)\"", it)
        if not mm: raise GenError('validateAction: unrecognised whitelist item %r' % it)
        acc.append(mm.group(1) or mm.group(2))
    m3 = re.search(r'function\s+resolveAction\s*\([^)]*\)\s*:\s*IDiffEntry\[\]\s*\{(.*?)\n\}', src_nc, re.S)
    if not m3: raise GenError('resolveAction not found in decisions.ts')
    rb = m3.group(1)
    handled = re.findall(r"\ba\s*===\s*'([A-Za-z_]+)'", rb)
    if not handled or not re.search(r"else\s*\{\s*throw new Error\('The action", rb):
        raise GenError('resolveAction has an unrecognised shape')
    # the constructor must pass JSON actions through validateAction
    if not re.search(r'action\s*=\s*validateAction\(\s*valueOrDefault\(\s*obj\.action\s*,\s*action\s*\)\s*\)', src_nc):
        raise GenError('MergeDecision constructor no longer calls validateAction(valueOrDefault(obj.action, action))')
    return sorted(set(acc)), sorted(set(handled))

def schema_side():
    p = os.path.join(REPO, 'nbdime', 'merge_format.schema.json')
    s = json.load(open(p))
    try:
        en = s['definitions']['decision']['properties']['action']['enum']
    except Exception as e:
        raise GenError('merge_format.schema.json: no action enum (%r)' % e)
    if not all(isinstance(x, str) for x in en): raise GenError('schema enum has non-strings')
    return sorted(en)

def main():
    try:
        emitted, py_handled = py_side()
        ts_acc, ts_handled = ts_side()
        schema = schema_side()
        for nm in emitted + py_handled + ts_acc + ts_handled + schema:
            if not re.fullmatch(r'[A-Za-z_]+', nm): raise GenError('odd action name %r' % nm)
        L = lambda xs: coq_list([coq_str(x) for x in xs])
        text = ('(* GENERATED by tools/gen/gen_actions.py from /repo -- do not edit *)\n'
                'From Coq Require Import List NArith String.\nFrom NB Require Import Base.Json Diff.Codec.\nImport ListNotations.\n\n'
                'Definition py_emitted : list pystr := %s.\n'
                'Definition py_handled : list pystr := %s.\n'
                'Definition ts_accepted : list pystr := %s.\n'
                'Definition ts_handled : list pystr := %s.\n'
                'Definition schema_actions : list pystr := %s.\n' % (L(emitted), L(py_handled), L(ts_acc), L(ts_handled), L(schema)))
        write_if_changed('Actions.v', text)
    except GenError as e:
        print('GENERROR gen_actions: %s' % e); sys.exit(2)

if __name__ == '__main__':
    main()
