"""Shared helpers for the translators that regenerate coq/Gen/*.v from /repo's working tree.
Translators are fail-closed: anything unrecognised raises GenError."""
import os, sys, json, subprocess, hashlib

REPO = os.environ.get('NBDIME_REPO', '/repo')
VERIF = os.path.dirname(os.path.dirname(os.path.dirname(os.path.abspath(__file__))))
GEN_DIR = os.path.join(VERIF, 'coq', 'Gen')
PY = '/venv/bin/python'

class GenError(Exception):
    pass

def run_in_repo(code, extra_env=None):
    """Run python code in a fresh interpreter with nbdime imported from REPO; returns parsed JSON
    printed on the last stdout line."""
    env = dict(os.environ, PYTHONPATH=REPO, PYTHONHASHSEED='0', NBDIME_VERIF='1')
    if extra_env:
        env.update(extra_env)
    p = subprocess.run([PY, '-c', code], env=env, capture_output=True, text=True, cwd='/')
    if p.returncode != 0:
        raise GenError('introspection failed:\n' + p.stderr[-3000:])
    return json.loads(p.stdout.strip().splitlines()[-1])

def coq_str(s):
    """Coq term of type pystr for a Python str."""
    if all(32 <= ord(c) < 127 and c != '"' for c in s):
        return '(of_ascii "%s")' % s
    return '[' + '; '.join('%d%%N' % ord(c) for c in s) + ']'

def coq_list(items):
    return '[' + '; '.join(items) + ']'

def coq_bool(b):
    return 'true' if b else 'false'

def write_if_changed(name, text):
    os.makedirs(GEN_DIR, exist_ok=True)
    path = os.path.join(GEN_DIR, name)
    old = None
    if os.path.exists(path):
        old = open(path).read()
    if old != text:
        with open(path, 'w') as f:
            f.write(text)
    return path
