#!/venv/bin/python
"""Run every translator tools/gen/gen_*.py.  A translator that fails closed (non-zero exit) has its
declared outputs (a line `OUTPUTS = ['Name.v', ...]` in its source) replaced by a file that does not
compile, so that exactly the theorems depending on it become broken obligations instead of being
re-checked against stale generated text.  A failing translator without an OUTPUTS line fails the run."""
import os, re, sys, subprocess, glob, time
from concurrent.futures import ThreadPoolExecutor
HERE = os.path.dirname(os.path.abspath(__file__))
GEN = os.path.join(os.path.dirname(os.path.dirname(HERE)), 'coq', 'Gen')
os.makedirs(GEN, exist_ok=True)

def run(script):
    t0 = time.time()
    p = subprocess.run(['/venv/bin/python', script], capture_output=True, text=True)
    return script, p.returncode, (p.stderr + p.stdout)[-2000:], time.time() - t0

scripts = sorted(glob.glob(os.path.join(HERE, 'gen_*.py')))
with ThreadPoolExecutor(max_workers=8) as ex:
    results = list(ex.map(run, scripts))
rc = 0
status = []
for script, code, out, dt in results:
    name = os.path.basename(script)
    if code == 0:
        status.append('%s ok %.1fs' % (name, dt)); continue
    m = re.search(r'^OUTPUTS\s*=\s*\[([^\]]*)\]', open(script).read(), re.M)
    outs = re.findall(r'[\'"]([\w.]+\.v)[\'"]', m.group(1)) if m else []
    status.append('%s FAILED rc=%d outputs=%s' % (name, code, outs))
    sys.stderr.write('GENERROR %s: %s\n' % (name, out.strip().splitlines()[-1] if out.strip() else ''))
    if not outs:
        rc = 2; continue
    msg = out.replace('*)', '* )')
    for o in outs:
        text = '(* GENERROR: %s failed closed on the current /repo tree:\n%s\n*)\nDefinition translator_failed_closed : False := I.\n' % (name, msg)
        path = os.path.join(GEN, o)
        if not os.path.exists(path) or open(path).read() != text:
            open(path, 'w').write(text)
open(os.path.join(GEN, '.status'), 'w').write('\n'.join(status) + '\n')
sys.exit(rc)
