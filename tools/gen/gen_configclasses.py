#!/venv/bin/python
"""Gen/ConfigClasses.v (property C19): the configuration class tables of /repo's nbdime.config read by introspection
(entry points, reversed MROs, each class's own config traits and defaults, every class's full trait set), the pure
argparse defaults of each entry point's real parser, the documented section -> entry point table parsed from
docs/source/config.rst, and the layering shape of build_config read off its AST (fail-closed)."""
import sys, os, re, ast
sys.path.insert(0, os.path.dirname(os.path.abspath(__file__)))
from common import *

OUTPUTS = ['ConfigClasses.v']

HARNESS = os.path.join(VERIF, 'harness')

CODE = r'''
import sys, os, json
sys.path.insert(0, %r)
import c19_stubs
c19_stubs.install_stubs()
import nbdime.config as C
import nbdime.args as A
cwd = os.getcwd()
def val(name, v):
    if name == 'workdirectory' and v == cwd: return '<cwd>'
    return v
classes = {}
mros = {}
eps = []
def visit(c):
    if c.__name__ in classes: return
    inst = c()
    classes[c.__name__] = {
        'own': {n: val(n, getattr(inst, n)) for n in sorted(c.class_own_traits(config=True))},
        'traits': sorted(c.class_traits(config=True)),
    }
for ep, cls in C.entrypoint_configurables.items():
    eps.append([ep, cls.__name__])
    m = [c for c in reversed(cls.mro()) if issubclass(c, C.NbdimeConfigurable)]
    mros[ep] = [c.__name__ for c in m]
    for c in m: visit(c)
# every NbdimeConfigurable subclass defined in the module (documented sections need not be in any MRO)
for name in dir(C):
    o = getattr(C, name)
    if isinstance(o, type) and issubclass(o, C.NbdimeConfigurable): visit(o)
# pure argparse defaults: the real parsers with the config lookup answering "no such entry point"
def no_config(entrypoint): raise ValueError(entrypoint)
A.get_defaults_for_argparse = no_config
pdefs = {}
for ep in c19_stubs.EP_MAIN:
    r = c19_stubs.capture(ep, [])
    if 'err' in r: raise SystemExit('parser of %%s: %%r' %% (ep, r))
    pdefs[ep] = {k: val(k, v) for k, v in r['ns'].items()}
print(json.dumps({'classes': classes, 'mros': mros, 'eps': eps, 'pdefs': pdefs}))
''' % HARNESS

SHAPE_INTERLEAVED = '''
for c in reversed(configurable.mro()):
    if issubclass(c, NbdimeConfigurable):
        recursive_update(config, config_instance(c).configured_traits(c), include_none)
        if (c.__name__ in disk_config):
            recursive_update(config, disk_config[c.__name__], include_none)
'''
SHAPE_DEFAULTS_FIRST = '''
for c in reversed(configurable.mro()):
    if issubclass(c, NbdimeConfigurable):
        recursive_update(config, config_instance(c).configured_traits(c), include_none)
for c in reversed(configurable.mro()):
    if issubclass(c, NbdimeConfigurable):
        if (c.__name__ in disk_config):
            recursive_update(config, disk_config[c.__name__], include_none)
'''

def dump(nodes):
    return [ast.dump(n) for n in nodes]

def layering_fact():
    """Which of the two recognised layerings does build_config use?  True: per class, defaults then that class's disk
    section (the pinned code).  False: all class defaults first, then all disk sections.  Anything else: fail."""
    path = os.path.join(REPO, 'nbdime', 'config.py')
    tree = ast.parse(open(path).read())
    fns = [n for n in tree.body if isinstance(n, ast.FunctionDef) and n.name == 'build_config']
    if len(fns) != 1: raise GenError('nbdime/config.py: build_config not found exactly once')
    loops = [n for n in fns[0].body if isinstance(n, ast.For) and 'mro' in ast.dump(n.iter)]
    got = dump(loops)
    if got == dump(ast.parse(SHAPE_INTERLEAVED).body): return True
    if got == dump(ast.parse(SHAPE_DEFAULTS_FIRST).body): return False
    raise GenError('nbdime/config.py: build_config layers classes in an unrecognised way:\n' +
                   '\n'.join(ast.unparse(l) for l in loops))

def documented_sections():
    """Parse the 'Sections' part of docs/source/config.rst: a definition list  Name / indented text with the entry
    points in parentheses ('all commands' for Global)."""
    txt = open(os.path.join(REPO, 'docs', 'source', 'config.rst')).read()
    m = re.search(r'^Sections\n-+\n(.*?)^\.\. note::', txt, re.S | re.M)
    if not m: raise GenError('config.rst: Sections part not found')
    out = []
    for name, body in re.findall(r'^([A-Z][A-Za-z]+)\n((?:[ \t]+\S.*\n)+)', m.group(1), re.M):
        body = ' '.join(body.split())
        p = re.search(r'\(([^)]*)\)', body)
        if p:
            eps = [x.strip() for x in p.group(1).split(',') if x.strip()]
        elif re.search(r'\ball commands\b', body):
            eps = None
        else:
            raise GenError('config.rst: cannot read the entry points of section %s: %r' % (name, body))
        out.append((name, eps))
    if not out: raise GenError('config.rst: no documented sections found')
    return out

def coq_json(v):
    if v is None: return 'JNull'
    if v is True: return '(JBool true)'
    if v is False: return '(JBool false)'
    if isinstance(v, int): return '(JInt (%d)%%Z)' % v
    if isinstance(v, str): return '(JStr %s)' % coq_str(v)
    if isinstance(v, list): return '(JArr %s)' % coq_list(coq_json(x) for x in v)
    if isinstance(v, dict):
        if set(v) == {'__obj__'} or set(v) == {'__float__'}: return '(JStr %s)' % coq_str('<%s>' % list(v.values())[0])
        return '(JObj %s)' % coq_list('(%s, %s)' % (coq_str(k), coq_json(x)) for k, x in sorted(v.items()))
    raise GenError('value %r has no JSON rendering' % (v,))

def main():
    d = run_in_repo(CODE)
    interleaved = layering_fact()
    docs = documented_sections()
    ep_classes = [c for _, c in d['eps']]
    for name, eps in docs:
        if name not in d['classes']: raise GenError('config.rst documents section %s, which is no config class' % name)
        for e in (eps or []):
            if e not in ep_classes: raise GenError('config.rst: section %s names unknown entry point %s' % (name, e))
    L = []
    L.append('(* GENERATED by tools/gen/gen_configclasses.py from the nbdime working tree -- do not edit *)')
    L.append('From Coq Require Import List NArith ZArith String.')
    L.append('From NB Require Import Base.Json Diff.Codec.')
    L.append('Import ListNotations.')
    L.append('')
    L.append('(* build_config: per class "defaults, then that class\'s disk section" (true) or "all defaults, then all sections" (false) *)')
    L.append('Definition layering_interleaved : bool := %s.' % coq_bool(interleaved))
    L.append('')
    L.append('(* entry point name -> configurable class name (nbdime.config.entrypoint_configurables) *)')
    L.append('Definition entrypoints : list (pystr * pystr) :=\n  ' + coq_list('(%s, %s)' % (coq_str(e), coq_str(c)) for e, c in d['eps']) + '.')
    L.append('')
    L.append('(* entry point name -> reversed MRO restricted to NbdimeConfigurable subclasses (least specific first) *)')
    L.append('Definition ep_mro : list (pystr * list pystr) :=\n  ' + coq_list(
        '(%s, %s)' % (coq_str(e), coq_list(coq_str(c) for c in d['mros'][e])) for e, _ in d['eps']) + '.')
    L.append('')
    L.append('(* class name -> own config traits with the default of an instance (None = JNull) *)')
    L.append('Definition class_own : list (pystr * list (pystr * json)) :=\n  ' + coq_list(
        '\n   (%s, %s)' % (coq_str(c), coq_list('(%s, %s)' % (coq_str(n), coq_json(v)) for n, v in sorted(info['own'].items())))
        for c, info in sorted(d['classes'].items())) + '.')
    L.append('')
    L.append('(* class name -> all config traits, inherited ones included *)')
    L.append('Definition class_traits : list (pystr * list pystr) :=\n  ' + coq_list(
        '\n   (%s, %s)' % (coq_str(c), coq_list(coq_str(n) for n in info['traits'])) for c, info in sorted(d['classes'].items())) + '.')
    L.append('')
    L.append('(* docs/source/config.rst, "Sections": section -> entry point classes it is documented to apply to *)')
    L.append('Definition documented : list (pystr * list pystr) :=\n  ' + coq_list(
        '\n   (%s, %s)' % (coq_str(s), coq_list(coq_str(e) for e in (eps if eps is not None else ep_classes))) for s, eps in docs) + '.')
    L.append('')
    L.append('(* entry point -> argparse defaults of its real parser (config lookup disabled), config option names only *)')
    rows = []
    for e, c in d['eps']:
        traits = set(d['classes'][c]['traits'])
        pd = d['pdefs'].get(e, {})
        rows.append('\n   (%s, %s)' % (coq_str(e), coq_list('(%s, %s)' % (coq_str(k), coq_json(v)) for k, v in sorted(pd.items()) if k in traits or k == 'log_level')))
    L.append('Definition parser_defaults : list (pystr * list (pystr * json)) :=\n  ' + coq_list(rows) + '.')
    write_if_changed('ConfigClasses.v', '\n'.join(L) + '\n')

if __name__ == '__main__':
    try:
        main()
    except GenError as e:
        print('GENERROR gen_configclasses: %s' % e)
        sys.exit(2)
