#!/venv/bin/python
"""Gen/NbSchemas.v: the installed nbformat v4.0 .. v4.5 JSON schemas and nbdime's diff_format / merge_format schemas
as terms of the schema ADT of coq/Schema/Schema.v.  Fail-closed: any keyword, regex, enum value or $ref shape that the
Coq validator does not implement is a GENERROR.  The schemas are data: nbformat's come from the package installed in
/venv (found without importing it), nbdime's from $NBDIME_REPO/nbdime."""
import sys, os, json, importlib.util
sys.path.insert(0, os.path.dirname(os.path.abspath(__file__)))
from common import *

OUTPUTS = ['NbSchemas.v']

# keyword -> handled below; everything else inside a schema object must be in IGNORED
ANNOTATIONS = {'description', 'title', '$schema', 'definitions'}
# non-keywords that occur in nbformat's schema files (typos / misplaced properties); jsonschema ignores unknown keywords
BOGUS = {'item', 'source_hidden', 'outputs_hidden'}
KEYWORDS = {'type', 'enum', 'properties', 'patternProperties', 'additionalProperties', 'required', 'items', 'allOf',
            'anyOf', 'oneOf', 'not', 'minimum', 'maximum', 'minLength', 'maxLength', 'minItems', 'pattern',
            'uniqueItems', '$ref'}
TYPES = {'null': 'TNull', 'boolean': 'TBool', 'integer': 'TInt', 'number': 'TNum', 'string': 'TStr',
         'array': 'TArr', 'object': 'TObj'}
PATTERNS = {'.*': 'PAny', '^.*$': 'PLine', '^.+$': 'PNonEmptyLine', '^[^,]+$': 'PNoComma',
            '^[a-zA-Z0-9-_]+$': 'PCellId', '^application/(.*\\+)?json$': 'PJsonMime'}


def coq_enum_value(v, where):
    # restricted to values on which jsonschema's enum comparison coincides with syntactic equality
    if v is None: return 'JNull'
    if v is True: return 'JBool true'
    if v is False: return 'JBool false'
    if isinstance(v, str): return 'JStr ' + coq_str(v)
    raise GenError('enum value %r at %s: only strings, booleans and null are supported' % (v, where))


def nat(v, where):
    if isinstance(v, bool) or not isinstance(v, int) or v < 0 or v > 100000:
        raise GenError('expected a small natural number at %s, got %r' % (where, v))
    return '%d' % v


def zint(v, where):
    if isinstance(v, bool) or not isinstance(v, int):
        raise GenError('expected an integer bound at %s, got %r' % (where, v))
    return '(%d)%%Z' % v


class Doc:
    def __init__(self, name, data):
        self.name, self.data = name, data


class Translator:
    """Translates a set of documents; every `$ref` target becomes an entry of the flat definition table."""
    def __init__(self, docs):
        self.docs = {d.name: d for d in docs}
        self.defs = {}          # absolute name -> coq term
        self.todo = []

    def pointer(self, doc, ptr, where):
        node = self.docs[doc].data
        if ptr in ('', '/'): return node
        if not ptr.startswith('/'): raise GenError('unsupported JSON pointer %r at %s' % (ptr, where))
        for part in ptr[1:].split('/'):
            part = part.replace('~1', '/').replace('~0', '~')
            if not isinstance(node, dict) or part not in node:
                raise GenError('dangling $ref %s#%s at %s' % (doc, ptr, where))
            node = node[part]
        return node

    def absref(self, doc, ref, where):
        if not isinstance(ref, str) or '#' not in ref: raise GenError('unsupported $ref %r at %s' % (ref, where))
        d, ptr = ref.split('#', 1)
        if d == '': d = doc
        if d not in self.docs: raise GenError('$ref into unknown document %r at %s' % (ref, where))
        name = d + '#' + ptr
        if name not in self.defs:
            self.defs[name] = None
            self.todo.append((d, ptr, name))
        return name

    def drain(self):
        while self.todo:
            d, ptr, name = self.todo.pop()
            self.defs[name] = self.schema(d, self.pointer(d, ptr, name), name)

    def schema(self, doc, s, where):
        if not isinstance(s, dict): raise GenError('schema at %s is not an object: %r' % (where, s))
        for k in s:
            if k not in KEYWORDS and k not in ANNOTATIONS and k not in BOGUS:
                raise GenError('unsupported schema keyword %r at %s' % (k, where))
        if '$ref' in s:
            # draft-04: siblings of $ref are ignored by the validator; only annotations may accompany it here
            for k in s:
                if k != '$ref' and k not in ANNOTATIONS:
                    raise GenError('$ref with sibling keyword %r at %s' % (k, where))
            return 'SRef ' + coq_str(self.absref(doc, s['$ref'], where))
        kws = []
        if 'type' in s:
            t = s['type']; ts = t if isinstance(t, list) else [t]
            for x in ts:
                if x not in TYPES: raise GenError('unsupported type %r at %s' % (x, where))
            kws.append('SType ' + coq_list([TYPES[x] for x in ts]))
        if 'enum' in s:
            if not isinstance(s['enum'], list): raise GenError('enum is not a list at %s' % where)
            kws.append('SEnum ' + coq_list([coq_enum_value(v, where) for v in s['enum']]))
        if 'properties' in s or 'patternProperties' in s or 'additionalProperties' in s:
            props = s.get('properties', {}); pp = s.get('patternProperties', {}); ap = s.get('additionalProperties', True)
            if not isinstance(props, dict) or not isinstance(pp, dict): raise GenError('properties not objects at %s' % where)
            ptxt = coq_list(['(%s, %s)' % (coq_str(k), self.schema(doc, v, where + '/properties/' + k)) for k, v in props.items()])
            for rx in pp:
                if rx not in PATTERNS: raise GenError('unsupported patternProperties regex %r at %s' % (rx, where))
            pptxt = coq_list(['(%s, %s)' % (PATTERNS[rx], self.schema(doc, v, where + '/patternProperties/' + rx)) for rx, v in pp.items()])
            if ap is True: atxt = 'None'
            elif ap is False: atxt = '(Some SFalse)'
            elif isinstance(ap, dict): atxt = '(Some (%s))' % self.schema(doc, ap, where + '/additionalProperties')
            else: raise GenError('unsupported additionalProperties %r at %s' % (ap, where))
            kws.append('SProps %s %s %s' % (ptxt, pptxt, atxt))
        if 'required' in s:
            r = s['required']
            if not isinstance(r, list) or not all(isinstance(x, str) for x in r): raise GenError('bad required at %s' % where)
            kws.append('SRequired ' + coq_list([coq_str(x) for x in r]))
        if 'items' in s:
            if not isinstance(s['items'], dict): raise GenError('tuple-form items unsupported at %s' % where)
            kws.append('SItems (%s)' % self.schema(doc, s['items'], where + '/items'))
        for kw, con in (('allOf', 'SAllOf'), ('anyOf', 'SAnyOf'), ('oneOf', 'SOneOf')):
            if kw in s:
                if not isinstance(s[kw], list) or not s[kw]: raise GenError('bad %s at %s' % (kw, where))
                kws.append('%s %s' % (con, coq_list([self.schema(doc, x, '%s/%s/%d' % (where, kw, i)) for i, x in enumerate(s[kw])])))
        if 'not' in s: kws.append('SNot (%s)' % self.schema(doc, s['not'], where + '/not'))
        if 'minimum' in s: kws.append('SMinimum ' + zint(s['minimum'], where))
        if 'maximum' in s: kws.append('SMaximum ' + zint(s['maximum'], where))
        if 'minLength' in s: kws.append('SMinLength ' + nat(s['minLength'], where))
        if 'maxLength' in s: kws.append('SMaxLength ' + nat(s['maxLength'], where))
        if 'minItems' in s: kws.append('SMinItems ' + nat(s['minItems'], where))
        if 'pattern' in s:
            if s['pattern'] not in PATTERNS: raise GenError('unsupported pattern regex %r at %s' % (s['pattern'], where))
            kws.append('SPattern ' + PATTERNS[s['pattern']])
        if 'uniqueItems' in s:
            if s['uniqueItems'] is True: kws.append('SUnique')
            elif s['uniqueItems'] is not False: raise GenError('bad uniqueItems at %s' % where)
        if len(kws) == 1: return kws[0]
        return 'SAllOf ' + coq_list(kws)

    def add_definitions(self, doc):
        """every schema below /definitions gets a table entry (so theorems can name e.g. markdown_cell), containers
        of schemas (nbformat's "misc") are descended into"""
        def walk(node, ptr):
            if not isinstance(node, dict): raise GenError('definition %s#%s is not an object' % (doc, ptr))
            if node and not (set(node) & (KEYWORDS | ANNOTATIONS)):
                for k, v in node.items(): walk(v, ptr + '/' + k.replace('~', '~0').replace('/', '~1'))
            else:
                self.absref(doc, '#' + ptr, 'definitions')
        for k, v in self.docs[doc].data.get('definitions', {}).items():
            walk(v, '/definitions/' + k)


def table(tr, root_doc):
    root = tr.schema(root_doc, tr.docs[root_doc].data, root_doc + '#')
    for d in tr.docs: tr.add_definitions(d)
    tr.drain()
    names = sorted(tr.defs)
    return root, names, [tr.defs[n] for n in names]


def nbformat_dir():
    spec = importlib.util.find_spec('nbformat')
    if spec is None or not spec.submodule_search_locations: raise GenError('nbformat is not installed in /venv')
    return os.path.join(list(spec.submodule_search_locations)[0], 'v4')


def load(path):
    try:
        with open(path, encoding='utf-8') as f: return json.load(f)
    except Exception as e:
        raise GenError('cannot read schema %s: %s' % (path, e))


def main():
    out = ['(* GENERATED by tools/gen/gen_schemas.py from the installed nbformat package and %s/nbdime/*.schema.json -- do not edit *)' % 'NBDIME_REPO',
           'From Coq Require Import List NArith ZArith String.', 'From NB Require Import Base.Json Diff.Codec Schema.Schema.',
           'Import ListNotations.', 'Local Open Scope string_scope.', '']
    nbdir = nbformat_dir()
    for k in range(6):
        data = load(os.path.join(nbdir, 'nbformat.v4.%d.schema.json' % k))
        tr = Translator([Doc('nb', data)])
        root, names, terms = table(tr, 'nb')
        out.append('Definition nb_defs_%d : defs := [' % k)
        out.append(';\n'.join('  (%s,\n    %s)' % (coq_str(n), t) for n, t in zip(names, terms)))
        out.append('].')
        out.append('Definition nb_root_%d : schema :=\n  %s.\n' % (k, root))
    out.append('Definition nb_defs (k : nat) : defs :=\n  match k with 0 => nb_defs_0 | 1 => nb_defs_1 | 2 => nb_defs_2 | 3 => nb_defs_3 | 4 => nb_defs_4 | _ => nb_defs_5 end.')
    out.append('Definition nb_root (k : nat) : schema :=\n  match k with 0 => nb_root_0 | 1 => nb_root_1 | 2 => nb_root_2 | 3 => nb_root_3 | 4 => nb_root_4 | _ => nb_root_5 end.\n')
    dfile = os.path.join(REPO, 'nbdime', 'diff_format.schema.json'); mfile = os.path.join(REPO, 'nbdime', 'merge_format.schema.json')
    ddata, mdata = load(dfile), load(mfile)
    tr = Translator([Doc('diff_format.schema.json', ddata)])
    root, names, terms = table(tr, 'diff_format.schema.json')
    out.append('Definition diff_defs : defs := [')
    out.append(';\n'.join('  (%s,\n    %s)' % (coq_str(n), t) for n, t in zip(names, terms)))
    out.append('].')
    out.append('Definition diff_root : schema :=\n  %s.\n' % root)
    tr = Translator([Doc('merge_format.schema.json', mdata), Doc('diff_format.schema.json', ddata)])
    root, names, terms = table(tr, 'merge_format.schema.json')
    out.append('Definition merge_defs : defs := [')
    out.append(';\n'.join('  (%s,\n    %s)' % (coq_str(n), t) for n, t in zip(names, terms)))
    out.append('].')
    out.append('Definition merge_root : schema :=\n  %s.\n' % root)
    # the action vocabulary of the published schema (used by Gen/Actions.v's theorem through this constant)
    try:
        enum = mdata['definitions']['decision']['properties']['action']['enum']
    except Exception:
        raise GenError('merge_format.schema.json: definitions/decision/properties/action/enum not found')
    if not all(isinstance(x, str) for x in enum): raise GenError('non-string action in merge schema enum')
    out.append('Definition merge_action_enum : list pystr := %s.' % coq_list([coq_str(x) for x in enum]))
    write_if_changed('NbSchemas.v', '\n'.join(out) + '\n')


if __name__ == '__main__':
    try:
        main()
    except GenError as e:
        print('GENERROR gen_schemas: %s' % e, file=sys.stderr)
        sys.exit(2)
