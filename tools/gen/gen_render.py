#!/venv/bin/python
"""Gen/RenderFacts.v: source facts about the conflict renderers of nbdime/merging/strategies.py (read from the AST) and
about what nbformat.v4.new_markdown_cell / new_output really build in the installed nbformat (introspected in a
subprocess).  Fail-closed: a renderer whose shape is neither the pinned one nor the reviewed fix is a GENERROR."""
import sys, os, ast, json, subprocess
sys.path.insert(0, os.path.dirname(os.path.abspath(__file__)))
from common import *

OUTPUTS = ['RenderFacts.v']

NBF_CODE = r'''
import json, nbformat
from nbformat.v4 import new_markdown_cell, new_output
a = dict(new_markdown_cell(source="S")); b = dict(new_markdown_cell(source="S"))
o = dict(new_output("stream", name="stderr", text="T"))
print(json.dumps({"cell": a, "cell2": b, "out": o, "version": nbformat.__version__}))
'''


def fn(tree, name):
    for n in tree.body:
        if isinstance(n, ast.FunctionDef) and n.name == name: return n
    raise GenError('strategies.py: function %s not found' % name)


def body_dump(f):
    body = f.body
    if body and isinstance(body[0], ast.Expr) and isinstance(getattr(body[0], 'value', None), ast.Constant) and isinstance(body[0].value.value, str):
        body = body[1:]
    return [ast.dump(x) for x in body]


def snippet(src):
    return [ast.dump(x) for x in ast.parse(src).body]


def const_assign(f, name):
    vals = []
    for n in ast.walk(f):
        if isinstance(n, ast.Assign) and len(n.targets) == 1 and isinstance(n.targets[0], ast.Name) and n.targets[0].id == name:
            if not isinstance(n.value, ast.Constant): raise GenError('%s.%s is not a constant' % (f.name, name))
            vals.append(n.value.value)
    if len(set(vals)) != 1: raise GenError('%s: expected exactly one constant assignment to %s, got %r' % (f.name, name, vals))
    return vals[0]


def main():
    path = os.path.join(REPO, 'nbdime', 'merging', 'strategies.py')
    try:
        tree = ast.parse(open(path, encoding='utf8').read())
    except Exception as e:
        raise GenError('cannot parse %s: %s' % (path, e))
    # ---- cell_marker / _cell_marker_format / output_marker
    cm = fn(tree, 'cell_marker')
    args = [a.arg for a in cm.args.args]
    pinned = snippet('return nbformat.v4.new_markdown_cell(source=_cell_marker_format(text))')
    fixed = snippet("cell = nbformat.v4.new_markdown_cell(source=_cell_marker_format(text))\nif not with_id:\n    cell.pop('id', None)\nreturn cell")
    mic = fn(tree, 'make_inline_cell_conflict')
    mic_calls = [n for n in ast.walk(mic) if isinstance(n, ast.Call) and isinstance(n.func, ast.Name) and n.func.id == 'cell_marker']
    if len(mic_calls) != 3: raise GenError('make_inline_cell_conflict: expected three cell_marker calls, found %d' % len(mic_calls))
    if body_dump(cm) == pinned and args == ['text'] and all(len(c.args) == 1 and not c.keywords for c in mic_calls):
        policy = 'MarkerIdAlways'
    elif body_dump(cm) == fixed and args == ['text', 'with_id']:
        want = ast.dump(ast.parse("all('id' in c for c in lcells + rcells)").body[0].value)
        assigns = [n for n in ast.walk(mic) if isinstance(n, ast.Assign) and len(n.targets) == 1 and isinstance(n.targets[0], ast.Name) and n.targets[0].id == 'with_id']
        if len(assigns) != 1 or ast.dump(assigns[0].value) != want:
            raise GenError("make_inline_cell_conflict: with_id must be `all('id' in c for c in lcells + rcells)`")
        for c in mic_calls:
            ok = (len(c.args) == 2 and isinstance(c.args[1], ast.Name) and c.args[1].id == 'with_id' and not c.keywords) or \
                 (len(c.args) == 1 and len(c.keywords) == 1 and c.keywords[0].arg == 'with_id' and isinstance(c.keywords[0].value, ast.Name) and c.keywords[0].value.id == 'with_id')
            if not ok: raise GenError('make_inline_cell_conflict: a cell_marker call does not pass with_id')
        policy = 'MarkerIdIffPayload'
    else:
        raise GenError('cell_marker has an unrecognised shape: %s' % ast.unparse(cm)[:300])
    cmf = fn(tree, '_cell_marker_format')
    b = cmf.body
    ok = (len(b) == 1 and isinstance(b[0], ast.Return) and isinstance(b[0].value, ast.Call) and isinstance(b[0].value.func, ast.Attribute)
          and b[0].value.func.attr == 'format' and isinstance(b[0].value.func.value, ast.Constant) and isinstance(b[0].value.func.value.value, str)
          and len(b[0].value.args) == 1 and isinstance(b[0].value.args[0], ast.Name) and b[0].value.args[0].id == 'text')
    if not ok: raise GenError('_cell_marker_format has an unrecognised shape')
    fmt = b[0].value.func.value.value
    if fmt.count('{0}') != 1 or '{' in fmt.replace('{0}', '') or '}' in fmt.replace('{0}', ''): raise GenError('unrecognised marker format %r' % fmt)
    prefix, suffix = fmt.split('{0}')
    om = fn(tree, 'output_marker')
    if body_dump(om) != snippet('return nbformat.v4.new_output("stream", name="stderr", text=text)') or [a.arg for a in om.args.args] != ['text']:
        raise GenError('output_marker has an unrecognised shape: %s' % ast.unparse(om)[:300])
    # ---- marker strings
    consts = {}
    for f in (mic, fn(tree, 'make_inline_output_conflict')):
        for nm in ('local_title', 'remote_title', 'marker_size'):
            v = const_assign(f, nm)
            if consts.setdefault(nm, v) != v: raise GenError('%s differs between the cell and output renderers' % nm)
    if not isinstance(consts['marker_size'], int) or not (1 <= consts['marker_size'] <= 40): raise GenError('odd marker_size')
    # ---- similar inserts
    rec = fn(tree, 'resolve_strategy_inline_recurse')
    found = {}
    for n in ast.walk(rec):
        if isinstance(n, ast.If) and isinstance(n.test, ast.Compare) and isinstance(n.test.left, ast.Name) and n.test.left.id == 'k' \
           and len(n.test.ops) == 1 and isinstance(n.test.ops[0], ast.Eq) and isinstance(n.test.comparators[0], ast.Constant):
            key = n.test.comparators[0].value
            if key == 'attachments':
                # branch added by the fix "similar concurrent cell inserts may differ in attachments"
                found[key] = [ast.dump(x) for x in n.body]
                continue
            stmts = [x for x in n.body if not isinstance(x, ast.Pass) and not (isinstance(x, ast.Expr) and isinstance(x.value, ast.Constant))]
            if len(stmts) != 1 or not isinstance(stmts[0], ast.Assign) or ast.dump(stmts[0].targets[0]) != ast.dump(ast.parse('cell[k] = 0').body[0].targets[0]):
                raise GenError('similar-insert branch for %r is not a single `cell[k] = ...`' % key)
            found[key] = ast.dump(stmts[0].value)
    def expr(src): return ast.dump(ast.parse(src).body[0].value)
    want = {'source': expr("merge_render('', lcell[k], rcell[k], None)[0]"),
            'metadata': expr('{"local_metadata": lcell[k], "remote_metadata": rcell[k]}'),
            'execution_count': expr('None'), 'outputs': expr('[]')}
    for k, v in want.items():
        if found.get(k) != v: raise GenError('similar-insert branch for %r has an unrecognised right-hand side' % k)
    if found.get('id') == expr('{"local_id": lcell[k], "remote_id": rcell[k]}'): simid = 'SimIdDict'
    elif found.get('id') == expr('lcell[k]'): simid = 'SimIdLocal'
    elif found.get('id') == expr('lcell[k] if k in lcell else rcell[k]'): simid = 'SimIdLocalElseRemote'
    else: raise GenError("similar-insert branch for 'id' has an unrecognised right-hand side")
    ATT = '''latt = lcell.get(k) or {}
ratt = rcell.get(k) or {}
cell[k] = {}
for name in sorted(set(latt) | set(ratt)):
    if name in latt and name in ratt and latt[name] != ratt[name]:
        cell[k]["LOCAL_" + name] = latt[name]
        cell[k]["REMOTE_" + name] = ratt[name]
    elif name in latt:
        cell[k][name] = latt[name]
    else:
        cell[k][name] = ratt[name]
'''
    if 'attachments' not in found: simatt = 'SimAttUnsupported'       # falls through to ValueError
    elif found.pop('attachments') == snippet(ATT): simatt = 'SimAttKeepBoth'
    else: raise GenError("similar-insert branch for 'attachments' has an unrecognised body")
    found.pop('attachments', None)
    if set(found) != set(want) | {'id'}: raise GenError('similar-insert branches: unexpected key set %r' % sorted(found))
    # ---- record-conflict / attachments literals
    src = open(path, encoding='utf8').read()
    rsc = ast.unparse(fn(tree, 'resolve_strategy_record_conflicts'))
    for lit in ("'nbdime-conflicts'", "'local_diff': local_conflict_diffs", "'remote_diff': remote_conflict_diffs"):
        if lit not in rsc: raise GenError('resolve_strategy_record_conflicts: %s not found' % lit)
    rsa = ast.unparse(fn(tree, 'resolve_strategy_inline_attachments'))
    for lit in ("local_name = 'LOCAL_' + key", "remote_name = 'REMOTE_' + key"):
        if lit not in rsa: raise GenError('resolve_strategy_inline_attachments: %s not found' % lit)
    # ---- nbformat helpers (installed package)
    p = subprocess.run([PY, '-c', NBF_CODE], capture_output=True, text=True, cwd='/', env=dict(os.environ, PYTHONHASHSEED='0'))
    if p.returncode != 0: raise GenError('nbformat introspection failed: ' + p.stderr[-800:])
    info = json.loads(p.stdout.strip().splitlines()[-1])
    cell = dict(info['cell']); has_id = 'id' in cell
    cid = cell.pop('id', None)
    if cell != {'cell_type': 'markdown', 'source': 'S', 'metadata': {}}: raise GenError('new_markdown_cell builds unexpected fields: %r' % info['cell'])
    if has_id and (not isinstance(cid, str) or cid == info['cell2'].get('id')): raise GenError('new_markdown_cell id is not a fresh string: %r' % cid)
    if info['out'] != {'output_type': 'stream', 'name': 'stderr', 'text': 'T'}: raise GenError('new_output builds unexpected fields: %r' % info['out'])
    out = ['(* GENERATED by tools/gen/gen_render.py from nbdime/merging/strategies.py and the installed nbformat %s -- do not edit *)' % info['version'],
           'From Coq Require Import List NArith String.', 'From NB Require Import Base.Json Diff.Codec.', 'Import ListNotations.',
           'Local Open Scope string_scope.', '',
           'Inductive marker_id_policy := MarkerIdAlways | MarkerIdIffPayload.',
           'Inductive similar_id_policy := SimIdDict | SimIdLocal | SimIdLocalElseRemote.',
           'Inductive similar_att_policy := SimAttUnsupported | SimAttKeepBoth.', '',
           '(* nbformat.v4.new_markdown_cell(source=s) = {cell_type: markdown, metadata: {}, source: s} plus a fresh id iff: *)',
           'Definition new_markdown_cell_adds_id : bool := %s.' % coq_bool(has_id),
           '(* strategies.cell_marker *)',
           'Definition cell_marker_id : marker_id_policy := %s.' % policy,
           'Definition marker_prefix : pystr := %s.' % coq_str(prefix),
           'Definition marker_suffix : pystr := %s.' % coq_str(suffix),
           'Definition marker_size : nat := %d.' % consts['marker_size'],
           'Definition local_title : pystr := %s.' % coq_str(consts['local_title']),
           'Definition remote_title : pystr := %s.' % coq_str(consts['remote_title']),
           '(* strategies.resolve_strategy_inline_recurse, conflicting ids of similar inserts *)',
           'Definition similar_insert_id : similar_id_policy := %s.' % simid,
           '(* the same builder, key attachments: no branch (ValueError) | both sides kept, differing ones as LOCAL_/REMOTE_ *)',
           'Definition similar_insert_attachments : similar_att_policy := %s.' % simatt, '']
    write_if_changed('RenderFacts.v', '\n'.join(out) + '\n')


if __name__ == '__main__':
    try:
        main()
    except GenError as e:
        print('GENERROR gen_render: %s' % e, file=sys.stderr)
        sys.exit(2)
