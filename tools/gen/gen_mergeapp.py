#!/venv/bin/python
"""Gen/MergeAppFacts.v: the facts about nbdime/nbmergeapp.py (main_merge, _handle_agreed_deletion),
nbdime/vcs/git/mergedriver.py (main) and the installed nbformat.write that Sys/MergeApp.v branches on.
Read off the AST; anything that does not have one of the recognised shapes fails closed (GENERROR, exit 2)."""
import sys, os, ast
OUTPUTS = ['MergeAppFacts.v']
sys.path.insert(0, os.path.dirname(os.path.abspath(__file__)))
from common import *


def fail(msg):
    raise GenError('gen_mergeapp: ' + msg)


def func(tree, name, fn):
    fs = [n for n in tree.body if isinstance(n, ast.FunctionDef) and n.name == name]
    if len(fs) != 1: fail('%s: expected exactly one top-level def %s' % (fn, name))
    return fs[0]


def const(node, what):
    if isinstance(node, ast.Constant): return node.value
    fail('%s: expected a literal, got %s' % (what, ast.dump(node)[:80]))


def kw(call, name, default):
    for k in call.keywords:
        if k.arg == name: return const(k.value, name)
        if k.arg is None: fail('**kwargs in read_notebook call')
    return default


def calls(node, pred):
    return [n for n in ast.walk(node) if isinstance(n, ast.Call) and pred(n.func)]


def is_name(f, name): return isinstance(f, ast.Name) and f.id == name
def is_attr(f, base, attr): return isinstance(f, ast.Attribute) and f.attr == attr and isinstance(f.value, ast.Name) and f.value.id == base


def rc_nat(v, what):
    if isinstance(v, bool) or not isinstance(v, int) or v < 0 or v > 255: fail('%s: return code %r' % (what, v))
    return v


def read_fact(call, what):
    on_null = kw(call, 'on_null', None)
    if len(call.args) >= 2: on_null = const(call.args[1], 'on_null')
    if on_null != 'minimal': fail('%s: on_null=%r is not modelled' % (what, on_null))
    on_empty = kw(call, 'on_empty', None)
    if len(call.args) >= 3: on_empty = const(call.args[2], 'on_empty')
    if on_empty not in (None, 'minimal'): fail('%s: on_empty=%r is not modelled' % (what, on_empty))
    return on_empty == 'minimal'


STDOUT_PRELUDE_CALLS = {'getattr', 'locale.getpreferredencoding', 'codecs.lookup'}


def stdout_prelude(mm):
    """The statements that may precede `nbformat.write(merged, sys.stdout[, ensure_ascii=<flag expr>])` in its block:
    nothing (the write alone, no keyword), or exactly
        <enc> = <expression whose only calls are getattr / locale.getpreferredencoding / codecs.lookup>
        try: <flag> = <such an expression>
        except LookupError: <flag> = <literal bool>
    (is the stream's encoding UTF-8?) with ensure_ascii=<flag> or ensure_ascii=not <flag>.  These statements touch no file
    and catch nothing but LookupError, so they are no boundary of the model.  Returns the ids of all their AST nodes."""
    def pure(e, what):
        for n in ast.walk(e):
            if isinstance(n, ast.Call):
                if ast.unparse(n.func) not in STDOUT_PRELUDE_CALLS or any(k.arg is None for k in n.keywords) or any(isinstance(a, ast.Starred) for a in n.args):
                    fail('main_merge: %s calls %s' % (what, ast.unparse(n.func)))
            elif isinstance(n, (ast.Lambda, ast.Await, ast.Yield, ast.YieldFrom, ast.NamedExpr, ast.ListComp, ast.SetComp, ast.DictComp, ast.GeneratorExp)):
                fail('main_merge: %s is not a plain expression' % what)
    def simple_assign(st, what):
        if not (isinstance(st, ast.Assign) and len(st.targets) == 1 and isinstance(st.targets[0], ast.Name)): fail('main_merge: %s' % what)
        return st.targets[0].id
    blocks = []
    for n in ast.walk(mm):
        for fld in ('body', 'orelse', 'finalbody'):
            b = getattr(n, fld, None)
            if isinstance(b, list): blocks.append(b)
    found = []
    for b in blocks:
        for i, st in enumerate(b):
            if isinstance(st, ast.Expr) and isinstance(st.value, ast.Call) and is_attr(st.value.func, 'nbformat', 'write') \
               and len(st.value.args) == 2 and is_attr(st.value.args[1], 'sys', 'stdout'):
                found.append((b, i, st.value))
    if len(found) != 1: fail('main_merge: expected exactly one statement `nbformat.write(merged, sys.stdout, ...)`, found %d' % len(found))
    b, i, call = found[0]
    if i != len(b) - 1: fail('main_merge: statements after the write to sys.stdout in its block')
    pre = b[:i]
    if not call.keywords:
        if pre: fail('main_merge: statements before the unguarded write to sys.stdout: %s' % ast.unparse(pre[0])[:60])
        return set()
    if len(call.keywords) != 1 or call.keywords[0].arg != 'ensure_ascii': fail('main_merge: keywords of the write to sys.stdout: %s' % ast.unparse(call))
    if len(pre) != 2 or not isinstance(pre[1], ast.Try): fail('main_merge: the guard before the write to sys.stdout is not `<enc> = ...; try: <flag> = ... except LookupError: <flag> = <bool>`')
    enc = simple_assign(pre[0], 'first statement of the stdout guard is not a simple assignment')
    pure(pre[0].value, 'the stream-encoding expression')
    tr = pre[1]
    if len(tr.body) != 1 or tr.orelse or tr.finalbody or len(tr.handlers) != 1: fail('main_merge: shape of the try statement of the stdout guard')
    flag = simple_assign(tr.body[0], 'try body of the stdout guard is not a simple assignment')
    pure(tr.body[0].value, 'the is-it-UTF-8 expression')
    h = tr.handlers[0]
    if not is_name(h.type, 'LookupError') or h.name is not None or len(h.body) != 1: fail('main_merge: the stdout guard may only catch LookupError')
    if simple_assign(h.body[0], 'handler of the stdout guard') != flag or not isinstance(h.body[0].value, ast.Constant) or not isinstance(h.body[0].value.value, bool):
        fail('main_merge: the LookupError handler must set the flag to a literal bool')
    if enc == flag or enc in ('merged', 'decisions', 'conflicted') or flag in ('merged', 'decisions', 'conflicted'): fail('main_merge: names used by the stdout guard')
    v = call.keywords[0].value
    if not (is_name(v, flag) or (isinstance(v, ast.UnaryOp) and isinstance(v.op, ast.Not) and is_name(v.operand, flag))):
        fail('main_merge: ensure_ascii=%s is not the flag of the stdout guard (or its negation)' % ast.unparse(v))
    return {id(n) for st in pre for n in ast.walk(st)}


def mergeapp_facts():
    fn = os.path.join(REPO, 'nbdime', 'nbmergeapp.py')
    tree = ast.parse(open(fn, encoding='utf8').read())
    mm = func(tree, 'main_merge', fn)
    # local names for args.base/local/remote/out
    var = {}
    for st in mm.body:
        if isinstance(st, ast.Assign) and len(st.targets) == 1 and isinstance(st.targets[0], ast.Name) \
           and isinstance(st.value, ast.Attribute) and is_name(st.value.value, mm.args.args[0].arg):
            var[st.targets[0].id] = st.value.attr
    inv = {v: k for k, v in var.items()}
    for need in ('base', 'local', 'remote', 'out'):
        if need not in inv: fail('main_merge: no local name for args.%s' % need)
    F = {}
    # reads, in source order base < local < remote
    rd = calls(mm, lambda f: is_name(f, 'read_notebook'))
    roles = []
    for c in sorted(rd, key=lambda c: (c.lineno, c.col_offset)):
        if not c.args or not isinstance(c.args[0], ast.Name) or var.get(c.args[0].id) not in ('base', 'local', 'remote'):
            fail('main_merge: read_notebook of something that is not base/local/remote')
        role = var[c.args[0].id]; roles.append(role)
        F['%s_on_empty_minimal' % role] = read_fact(c, 'main_merge read of ' + role)
    if roles != ['base', 'local', 'remote']: fail('main_merge: reads are %r, expected base, local, remote once each in this order' % roles)
    # missing input -> return constant ; agreed deletion -> return constant
    rc_missing = rc_del = None
    for n in ast.walk(mm):
        if isinstance(n, ast.If):
            src = ast.unparse(n.test)
            rets = [s for s in n.body if isinstance(s, ast.Return)]
            if 'os.path.exists' in src and 'EXPLICIT_MISSING_FILE' in src and rets and src.startswith('not '):
                rc_missing = rc_nat(const(rets[0].value, 'missing'), 'missing input')
            if src == '%s == %s == EXPLICIT_MISSING_FILE' % (inv['local'], inv['remote']):
                hd = calls(n, lambda f: is_name(f, '_handle_agreed_deletion'))
                if len(hd) != 1 or not rets or n.body.index(rets[0]) < max(i for i, s in enumerate(n.body) if hd[0] in ast.walk(s)):
                    fail('main_merge: agreed-deletion branch shape')
                a = hd[0].args
                if len(a) < 2 or not (is_name(a[0], inv['base']) and is_name(a[1], inv['out'])): fail('agreed-deletion arguments')
                F['deletion_passes_args'] = len(a) >= 3 or any(k.arg == 'args' for k in hd[0].keywords)
                rc_del = rc_nat(const(rets[0].value, 'deletion'), 'agreed deletion')
    if rc_missing is None: fail('main_merge: missing-input check not found')
    if rc_del is None: fail('main_merge: agreed-deletion branch not found')
    F['rc_missing'], F['rc_deletion'] = rc_missing, rc_del
    # return code from conflicted decisions
    rc = None
    for st in ast.walk(mm):
        if isinstance(st, ast.Assign) and isinstance(st.targets[0], ast.Name):
            if isinstance(st.value, ast.IfExp) and is_name(st.value.test, 'conflicted'):
                rc = (st.targets[0].id, 'RcConst', rc_nat(const(st.value.body, 'rc'), 'rc'), rc_nat(const(st.value.orelse, 'rc'), 'rc'))
            elif ast.unparse(st.value) == 'len(conflicted)':
                rc = (st.targets[0].id, 'RcCount', 1, 0)
    if rc is None: fail('main_merge: neither `<rc> = <n> if conflicted else <m>` nor `<rc> = len(conflicted)` found')
    cf = [st for st in ast.walk(mm) if isinstance(st, ast.Assign) and is_name(st.targets[0], 'conflicted')]
    if len(cf) != 1 or ast.unparse(cf[0].value).replace(' ', '') != '[dfordindecisionsifd.conflict]': fail('main_merge: definition of conflicted')
    last = mm.body[-1]
    if not (isinstance(last, ast.Return) and is_name(last.value, rc[0])): fail('main_merge: last statement is not `return %s`' % rc[0])
    guard = stdout_prelude(mm)      # ids of the nodes of the recognised is-stdout-UTF-8 guard (empty for the unguarded write)
    if any(isinstance(n, (ast.Try, ast.Raise)) and id(n) not in guard for n in ast.walk(mm)): fail('main_merge: try/raise is not modelled')
    for n in ast.walk(mm):          # the names the guard assigns are its own
        if isinstance(n, ast.Name) and isinstance(n.ctx, (ast.Store, ast.Del)) and id(n) not in guard and \
           n.id in {m.id for m in ast.walk(mm) if isinstance(m, ast.Name) and isinstance(m.ctx, ast.Store) and id(m) in guard}:
            fail('main_merge: %s is assigned outside the stdout guard too' % n.id)
    F['rc_mode'], F['rc_conflict'], F['rc_clean'] = rc[1], rc[2], rc[3]
    # how the merged notebook reaches the output file
    wr = calls(mm, lambda f: is_attr(f, 'nbformat', 'write'))
    via = None
    withs = {id(c): w for w in ast.walk(mm) if isinstance(w, ast.With) for c in ast.walk(w) if isinstance(c, ast.Call)}
    for c in wr:
        if len(c.args) != 2 or not is_name(c.args[0], 'merged'): fail('nbformat.write call shape')
        t = c.args[1]
        if c.keywords and not (is_attr(t, 'sys', 'stdout') and guard):       # (shape of that one keyword: stdout_prelude)
            fail('nbformat.write with keyword arguments: %s' % ast.unparse(c))
        if is_name(t, inv['out']) and id(c) not in withs:
            via = 'WritePath' if via in (None, 'WritePath') else fail('two writes of the output')
        elif is_attr(t, 'sys', 'stdout'):
            pass
        elif isinstance(t, ast.Name) and id(c) in withs:
            w = withs[id(c)]
            it = w.items[0]
            ok = isinstance(it.context_expr, ast.Call) and (is_name(it.context_expr.func, 'open') or is_attr(it.context_expr.func, 'io', 'open')) \
                and it.context_expr.args and is_name(it.context_expr.args[0], inv['out']) and is_name(it.optional_vars, t.id)
            if not ok: fail('nbformat.write into an unrecognised file object')
            via = 'WriteOpened' if via in (None, 'WriteOpened') else fail('two writes of the output')
        else:
            fail('nbformat.write target %s' % ast.unparse(t))
    if via is None: fail('main_merge: no nbformat.write(merged, <output>)')
    F['write_via'] = via
    mg = calls(mm, lambda f: is_name(f, 'merge_notebooks'))
    if len(mg) != 1 or not all(m.lineno < c.lineno for m in mg for c in wr) or not all(r.lineno < mg[0].lineno for r in rd):
        fail('main_merge: order reads < merge_notebooks < nbformat.write')
    # nothing else in main_merge may touch files: every call must be one of the recognised ones
    allowed = {'process_diff_flags', 'os.path.exists', '_handle_agreed_deletion', 'read_notebook', 'merge_notebooks', 'io.open', 'open',
               'json.dump', 'outfile.write', 'prettyprint_config_from_args', 'io.StringIO', 'pretty_print_merge_decisions',
               'config.out.getvalue', 'nbformat.write'}
    seen = {}
    for c in calls(mm, lambda f: True):
        nm = ast.unparse(c.func)
        seen[nm] = seen.get(nm, 0) + 1
        if id(c) in guard:
            if nm not in STDOUT_PRELUDE_CALLS: fail('main_merge: call of %s in the stdout guard' % nm)
            continue
        if nm not in allowed and not nm.startswith('logger.'):
            fail('main_merge: call of %s is not modelled' % nm)
    if seen.get('io.open', 0) + seen.get('open', 0) > 1 + (via == 'WriteOpened') or seen.get('nbformat.write', 0) != 2 or seen.get('json.dump', 0) > 1:
        fail('main_merge: unexpected number of open/write/dump calls %r' % seen)
    for w in ast.walk(mm):
        if isinstance(w, ast.With) and via == 'WritePath' and not any(isinstance(x, ast.Call) and ast.unparse(x.func) == 'json.dump' for x in ast.walk(w)):
            fail('main_merge: a with-block other than the decisions writer')
    # _handle_agreed_deletion
    hd = func(tree, '_handle_agreed_deletion', fn)
    r = calls(hd, lambda f: is_name(f, 'read_notebook'))
    if len(r) != 1 or not is_name(r[0].args[0], hd.args.args[0].arg): fail('_handle_agreed_deletion: read of base')
    F['del_base_on_empty_minimal'] = read_fact(r[0], '_handle_agreed_deletion')
    rm = calls(hd, lambda f: is_attr(f, 'os', 'remove') or is_attr(f, 'os', 'unlink'))
    if len(rm) != 1 or not is_name(rm[0].args[0], hd.args.args[1].arg): fail('_handle_agreed_deletion: os.remove(output)')
    guard = [n for n in ast.walk(hd) if isinstance(n, ast.If) and rm[0] in list(ast.walk(n)) and ast.unparse(n.test) == 'os.path.exists(%s)' % hd.args.args[1].arg]
    F['del_checks_exists'] = bool(guard)
    F['del_asserts_base'] = any(isinstance(n, ast.Assert) and 'EXPLICIT_MISSING_FILE' in ast.unparse(n.test) for n in hd.body)
    # main(): return main_merge(parsed arguments)
    mn = func(tree, 'main', fn)
    if not (isinstance(mn.body[-1], ast.Return) and isinstance(mn.body[-1].value, ast.Call) and is_name(mn.body[-1].value.func, 'main_merge')):
        fail('nbmergeapp.main does not end with `return main_merge(...)`')
    return F


def driver_facts():
    fn = os.path.join(REPO, 'nbdime', 'vcs', 'git', 'mergedriver.py')
    tree = ast.parse(open(fn, encoding='utf8').read())
    mn = func(tree, 'main', fn)
    br = [n for n in ast.walk(mn) if isinstance(n, ast.If) and ast.unparse(n.test) == "opts.subcommand == 'merge'"]
    if len(br) != 1: fail("mergedriver.main: branch `opts.subcommand == 'merge'`")
    out = 'DOutArg'; dec = None
    for st in br[0].body:
        if isinstance(st, ast.Assign) and is_attr(st.targets[0], 'opts', 'out'):
            if is_attr(st.value, 'opts', 'local'): out = 'DOutLocal'
            else: fail('mergedriver: opts.out = %s' % ast.unparse(st.value))
        elif isinstance(st, ast.Assign) and is_attr(st.targets[0], 'opts', 'decisions'):
            dec = const(st.value, 'opts.decisions')
        elif isinstance(st, ast.Return):
            if ast.unparse(st.value) != 'nbmergeapp.main_merge(opts)': fail('mergedriver: merge branch returns %s' % ast.unparse(st.value))
        elif isinstance(st, ast.Expr) and isinstance(st.value, ast.Constant):
            pass
        else:
            fail('mergedriver: unrecognised statement in merge branch: %s' % ast.unparse(st)[:60])
    if not isinstance(br[0].body[-1], ast.Return): fail('mergedriver: merge branch does not return')
    if not isinstance(dec, bool): fail('mergedriver: opts.decisions is not set to a literal bool')
    return {'driver_out': out, 'driver_decisions': dec}


def nbformat_facts():
    src = run_in_repo('import nbformat, inspect, json; print(json.dumps(inspect.getsource(nbformat.write)))')
    f = ast.parse(src).body[0]
    body = [s for s in f.body if not (isinstance(s, ast.Expr) and isinstance(s.value, ast.Constant))]
    first = body[0]
    ser = isinstance(first, ast.Assign) and isinstance(first.value, ast.Call) and is_name(first.value.func, 'writes')
    opens = [c for c in ast.walk(f) if isinstance(c, ast.Call) and isinstance(c.func, ast.Attribute) and c.func.attr == 'open']
    if not ser or len(opens) != 1 or opens[0].lineno < first.lineno or const(opens[0].args[0], 'mode') != 'w':
        fail('installed nbformat.write no longer has the shape `s = writes(nb, ...)` followed by open("w")')
    return {'nbformat_serialises_first': True}


def main():
    F = {}
    F.update(mergeapp_facts()); F.update(driver_facts()); F.update(nbformat_facts())
    L = ['(* GENERATED by tools/gen/gen_mergeapp.py from nbdime/nbmergeapp.py, nbdime/vcs/git/mergedriver.py and the installed',
         '   nbformat.write -- do not edit.  Facts the model Sys/MergeApp.v branches on. *)',
         'Inductive write_via := WritePath | WriteOpened.',
         'Inductive driver_out := DOutLocal | DOutArg.',
         'Inductive rc_mode := RcConst | RcCount.   (* rc = <n> if conflicted else <m>  |  rc = len(conflicted) *)']
    for k in sorted(F):
        v = F[k]
        if isinstance(v, bool): ty, tv = 'bool', coq_bool(v)
        elif k in ('write_via', 'driver_out', 'rc_mode'): ty, tv = k, v
        elif isinstance(v, int): ty, tv = 'nat', str(v)
        elif k == 'write_via': ty, tv = 'write_via', v
        elif k == 'driver_out': ty, tv = 'driver_out', v
        elif k == 'rc_mode': ty, tv = 'rc_mode', v
        else: fail('internal: fact %s' % k)
        L.append('Definition fact_%s : %s := %s.' % (k, ty, tv))
    text = '\n'.join(L) + '\n'
    alt = os.environ.get('C08_GEN_DIR')          # private build of the C08 closure (see harness/props/c08.py: build)
    if alt:
        os.makedirs(alt, exist_ok=True)
        with open(os.path.join(alt, 'MergeAppFacts.v'), 'w') as f: f.write(text)
    else:
        write_if_changed('MergeAppFacts.v', text)


if __name__ == '__main__':
    try:
        main()
    except GenError as e:
        print('GENERROR', e, file=sys.stderr); sys.exit(2)
    except Exception as e:
        print('GENERROR gen_mergeapp: %s: %s' % (type(e).__name__, e), file=sys.stderr); sys.exit(2)
