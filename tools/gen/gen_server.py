#!/venv/bin/python
"""Gen/ServerFacts.v: what coq/Sys/Server.v (property C20) takes from nbdime/webapp/nbdimeserver.py.

Pure `ast` (nothing is imported or executed).  Read off the source:
  * the route table of make_app and the base_url prefix rule,
  * which HTTP methods each handler class implements,
  * the HTTP status of every `raise web.HTTPError(N, ...)` the model depends on, by site,
  * the names/order of the notebook arguments of the diff and merge endpoints, the fail_on_empty flags,
  * where the store handler writes (must be os.path.join(self.curdir, <outputfilename parameter>), nothing taken
    from the request) and in which ORDER it opens the file and serialises the notebook,
  * the guard of the close handler,
  * EXPLICIT_MISSING_FILE (posix branch).
Fail-closed: any shape not recognised below is a GENERROR (exit 2)."""
import sys, os, ast
sys.path.insert(0, os.path.dirname(os.path.abspath(__file__)))
from common import *

OUTPUTS = ['ServerFacts.v']
SRC = 'nbdime/webapp/nbdimeserver.py'
HANDLERS = {'MainHandler': 'HMain', 'MainDiffHandler': 'HMainDiff', 'MainDifftoolHandler': 'HMainDifftool',
            'MainMergeHandler': 'HMainMerge', 'MainMergetoolHandler': 'HMainMergetool', 'ApiDiffHandler': 'HApiDiff',
            'ApiMergeHandler': 'HApiMerge', 'ApiMergeStoreHandler': 'HApiStore', 'ApiCloseHandler': 'HApiClose'}
METHODS = ('get', 'post', 'put', 'delete', 'patch', 'head', 'options')


def U(n):
    return ast.unparse(n)


def fail(msg):
    raise GenError('%s: %s' % (SRC, msg))


def one(xs, what):
    xs = list(xs)
    if len(xs) != 1: fail('expected exactly one %s, found %d' % (what, len(xs)))
    return xs[0]


def sstr(s):
    if not all(32 <= ord(c) < 127 and c not in '"\\' for c in s):
        fail('non-printable string constant %r' % s)
    return '(sf_str "%s")' % s


def http_error_code(node, what):
    """node: ast.Raise of web.HTTPError(<int>, ...)"""
    if not (isinstance(node, ast.Raise) and isinstance(node.exc, ast.Call) and U(node.exc.func) == 'web.HTTPError'
            and node.exc.args and isinstance(node.exc.args[0], ast.Constant) and type(node.exc.args[0].value) is int):
        fail('%s: expected `raise web.HTTPError(<int>, ...)`, found %s' % (what, U(node)[:80]))
    code = node.exc.args[0].value
    if not 100 <= code <= 599: fail('%s: status %r out of range' % (what, code))
    return code


def raises_in(nodes):
    out = []
    for n in nodes:
        for x in ast.walk(n):
            if isinstance(x, ast.Raise) and x.exc is not None: out.append(x)
    return out


def method(cls, name):
    ms = [n for n in cls.body if isinstance(n, ast.FunctionDef) and n.name == name]
    return ms[0] if len(ms) == 1 else None


def translate(tree):
    classes = {n.name: n for n in tree.body if isinstance(n, ast.ClassDef)}
    funcs = {n.name: n for n in tree.body if isinstance(n, ast.FunctionDef)}
    facts = {}
    for c in list(HANDLERS) + ['NbdimeHandler']:
        if c not in classes: fail('class %s not found' % c)

    # ---- routes and prefix rule (make_app)
    ma = funcs.get('make_app') or fail('make_app not found')
    pops = [n for n in ast.walk(ma) if isinstance(n, ast.Assign) and U(n.targets[0]) == 'base_url']
    if [U(n.value) for n in pops] != ["params.pop('base_url', '/')"]:
        fail('make_app: base_url is not `params.pop(\'base_url\', \'/\')`')
    hl = [n for n in ma.body if isinstance(n, ast.Assign) and U(n.targets[0]) == 'handlers' and isinstance(n.value, ast.List)]
    hl = one(hl, 'literal `handlers = [...]` in make_app')
    routes = []
    for el in hl.value.elts:
        if not (isinstance(el, ast.Tuple) and len(el.elts) == 3 and isinstance(el.elts[0], ast.Constant)
                and isinstance(el.elts[0].value, str) and isinstance(el.elts[1], ast.Name) and U(el.elts[2]) == 'params'):
            fail('make_app: unrecognised route entry %s' % U(el))
        pat, cls = el.elts[0].value, el.elts[1].id
        if cls not in HANDLERS: fail('make_app: unknown handler class %s' % cls)
        if any(ch in pat for ch in '()[]{}.*+?^$|\\'):
            fail('make_app: route pattern %r is a regular expression; only literal paths are modelled' % pat)
        routes.append((pat, HANDLERS[cls]))
    ifs = [n for n in ma.body if isinstance(n, ast.If) and 'prefix' in U(n)]
    pif = one(ifs, '`if base_url != \'/\'` prefix block in make_app')
    if U(pif.test) != "base_url != '/'": fail('make_app: prefix condition is %s' % U(pif.test))
    body_src = [U(s) for s in pif.body]
    if body_src != ["prefix = base_url.rstrip('/')", 'handlers = [(prefix + path, cls, params) for path, cls, params in handlers]']:
        fail('make_app: unrecognised prefix rule %r' % body_src)
    if [U(s) for s in pif.orelse] != ["prefix = ''"]: fail('make_app: unrecognised else branch of the prefix rule')
    app = [n for n in ast.walk(ma) if isinstance(n, ast.Call) and U(n.func) == 'web.Application']
    app = one(app, 'web.Application(...) call')
    if not (app.args and U(app.args[0]) == 'handlers'): fail('web.Application is not built from `handlers`')
    facts['routes'] = routes

    # ---- methods per handler
    base_methods = [m for m in METHODS if method(classes['NbdimeHandler'], m)]
    if base_methods: fail('NbdimeHandler defines HTTP methods %r' % base_methods)
    facts['methods'] = {}
    for c, k in HANDLERS.items():
        bases = [U(b) for b in classes[c].bases]
        if bases not in (['NbdimeHandler'], ['NbdimeHandler', 'APIHandler']): fail('%s: unexpected bases %r' % (c, bases))
        ms = [m for m in METHODS if method(classes[c], m)]
        if not set(ms) <= {'get', 'post'}: fail('%s implements %r; only get/post are modelled' % (c, ms))
        facts['methods'][k] = ms
    for c, k in HANDLERS.items():
        if k.startswith('HMain') and facts['methods'][k] != ['get']: fail('%s: page handler with methods %r' % (c, facts['methods'][k]))
        if k.startswith('HApi') and facts['methods'][k] != ['post']: fail('%s: API handler with methods %r' % (c, facts['methods'][k]))

    # ---- NbdimeHandler.read_notebook: statuses
    rn = method(classes['NbdimeHandler'], 'read_notebook') or fail('read_notebook not found')
    a = rn.args
    if [x.arg for x in a.args] != ['self', 'arg', 'fail_on_empty'] or [U(d) for d in a.defaults] != ['True']:
        fail('read_notebook signature changed: %s' % U(a))
    first_if = [n for n in rn.body if isinstance(n, ast.If)]
    if not first_if or U(first_if[0].test) != 'not isinstance(arg, str)':
        fail('read_notebook: first guard is not `if not isinstance(arg, str)`')
    facts['st_arg_not_str'] = http_error_code(one(raises_in(first_if[0].body), 'raise in the str guard'), 'read_notebook/str guard')
    tr = one([n for n in rn.body if isinstance(n, ast.Try)], 'try statement in read_notebook')
    hs = {U(h.type) if h.type is not None else None: h for h in tr.handlers}
    if list(hs) != ['requests.exceptions.HTTPError', 'Exception']:
        fail('read_notebook: except clauses are %r' % list(hs))
    facts['st_unreadable_http'] = http_error_code(one(raises_in(hs['requests.exceptions.HTTPError'].body), 'raise'), 'read_notebook/except HTTPError')
    facts['st_unreadable'] = http_error_code(one(raises_in(hs['Exception'].body), 'raise'), 'read_notebook/except Exception')
    if tr.orelse or tr.finalbody: fail('read_notebook: try has else/finally')
    tsrc = U(tr)
    for needle in ('if arg == EXPLICIT_MISSING_FILE:', 'path = os.path.join(self.curdir, arg)', 'if not os.path.exists(path):',
                   "if '://' not in arg:", 'nb = nbformat.v4.new_notebook()', 'nb = nbformat.read(path, as_version=4)',
                   'except nbformat.reader.NotJSONError:', 'if fail_on_empty:', 'if len(fo.read(10)) != 0:',
                   'nb = nbformat.reads(r.text, as_version=4)', 'r = requests.get(arg)', 'r.raise_for_status()'):
        if needle not in tsrc: fail('read_notebook: statement `%s` not found' % needle)
    if U(rn.body[-1]) != 'return nb': fail('read_notebook does not end with `return nb`')
    cd = method(classes['NbdimeHandler'], 'curdir') or fail('curdir property not found')
    if [U(s) for s in cd.body] != ["return self.params.get('cwd', os.curdir)"]: fail('curdir is not params.get(\'cwd\', os.curdir)')
    ini = method(classes['NbdimeHandler'], 'initialize') or fail('initialize not found')
    if [U(s) for s in ini.body] != ['self.params = params']: fail('initialize does not store params')

    # ---- get_notebook_argument (request body form)
    g = method(classes['NbdimeHandler'], 'get_notebook_argument') or fail('get_notebook_argument not found')
    gb = [U(s) for s in g.body if not (isinstance(s, ast.Expr) and isinstance(s.value, ast.Constant))]
    if gb != ['body = json.loads(escape.to_unicode(self.request.body))', 'arg = body[argname]', 'return self.read_notebook(arg)']:
        fail('NbdimeHandler.get_notebook_argument changed: %r' % gb)

    def tool_override(cname, key):
        m = method(classes[cname], 'get_notebook_argument') or fail('%s.get_notebook_argument not found' % cname)
        top = [s for s in m.body if not (isinstance(s, ast.Expr) and isinstance(s.value, ast.Constant))]
        if not (len(top) == 2 and isinstance(top[0], ast.If) and U(top[0].test) == "%r in self.params" % key
                and U(top[1]) == 'return super(%s, self).get_notebook_argument(argname)' % cname):
            fail('%s.get_notebook_argument: unrecognised structure' % cname)
        if U(top[0].body[0]) != "arg = self.params[%r][argname]" % key: fail('%s: tool argument lookup changed' % cname)
        calls = [n for n in ast.walk(top[0]) if isinstance(n, ast.Call) and U(n.func) == 'self.read_notebook']
        call = one(calls, 'read_notebook call in %s' % cname)
        if [U(x) for x in call.args] != ['arg']: fail('%s: read_notebook called with %s' % (cname, U(call)))
        foe = True
        for kw in call.keywords:
            if kw.arg != 'fail_on_empty' or not isinstance(kw.value, ast.Constant) or type(kw.value.value) is not bool:
                fail('%s: unrecognised keyword in %s' % (cname, U(call)))
            foe = kw.value.value
        return foe
    facts['difftool_fail_on_empty'] = tool_override('ApiDiffHandler', 'difftool_args')
    facts['mergetool_fail_on_empty'] = tool_override('ApiMergeHandler', 'mergetool_args')

    def api_post(cname, libcall, result_key):
        p = method(classes[cname], 'post')
        names = []
        for s in p.body:
            if isinstance(s, ast.Assign) and isinstance(s.value, ast.Call) and U(s.value.func) == 'self.get_notebook_argument':
                arg = s.value.args[0]
                if not (isinstance(arg, ast.Constant) and isinstance(arg.value, str)): fail('%s.post: non-literal argument name' % cname)
                names.append((arg.value, U(s.targets[0])))
        tr = one([s for s in p.body if isinstance(s, ast.Try)], 'try in %s.post' % cname)
        if [U(h.type) for h in tr.handlers] != ['Exception']: fail('%s.post: except clauses changed' % cname)
        code = http_error_code(one(raises_in(tr.handlers[0].body), 'raise'), '%s.post/except' % cname)
        call = one([n for n in ast.walk(tr) if isinstance(n, ast.Call) and U(n.func) == libcall], '%s call' % libcall)
        if [U(x) for x in call.args] != [v for _, v in names]: fail('%s.post: %s is not called on the arguments in order' % (cname, libcall))
        data = one([s for s in p.body if isinstance(s, ast.Assign) and U(s.targets[0]) == 'data'], 'data = {...}')
        if not isinstance(data.value, ast.Dict) or [U(k) for k in data.value.keys] != ["'base'", repr(result_key)]:
            fail('%s.post: response keys changed: %s' % (cname, U(data.value)))
        if U(data.value.values[0]) != names[0][1]: fail('%s.post: response base is %s' % (cname, U(data.value.values[0])))
        if U(p.body[-1]) != 'self.finish(data)': fail('%s.post does not end with self.finish(data)' % cname)
        return [n for n, _ in names], code
    facts['diff_args'], facts['st_diff_fail'] = api_post('ApiDiffHandler', 'diff_notebooks', 'diff')
    facts['merge_args'], facts['st_merge_fail'] = api_post('ApiMergeHandler', 'decide_notebook_merge', 'merge_decisions')
    if facts['diff_args'] != ['base', 'remote'] or facts['merge_args'] != ['base', 'local', 'remote']:
        fail('argument names of the diff/merge endpoints changed: %r %r' % (facts['diff_args'], facts['merge_args']))

    # ---- store handler
    sp = method(classes['ApiMergeStoreHandler'], 'post')
    assigns = {}
    for n in ast.walk(sp):
        if isinstance(n, (ast.Assign, ast.AugAssign, ast.AnnAssign, ast.NamedExpr)):
            tgts = n.targets if isinstance(n, ast.Assign) else [n.target]
            for t in tgts:
                for nm in ast.walk(t):
                    if isinstance(nm, ast.Name): assigns.setdefault(nm.id, []).append(n)
    def sole(name):
        if len(assigns.get(name, [])) != 1: fail('store: `%s` is not assigned exactly once' % name)
        return assigns[name][0]
    if U(sole('fn').value) != "self.params.get('outputfilename', None)": fail('store: fn is %s' % U(sole('fn').value))
    if U(sole('path').value) != 'os.path.join(self.curdir, fn)': fail('store: path is %s' % U(sole('path').value))
    if U(sole('body').value) != 'json.loads(escape.to_unicode(self.request.body))': fail('store: body is %s' % U(sole('body').value))
    if U(sole('merged').value) != "body['merged']": fail('store: merged is %s' % U(sole('merged').value))
    if U(sole('merged_nb').value) != 'nbformat.from_dict(merged)': fail('store: merged_nb is %s' % U(sole('merged_nb').value))
    top = [s for s in sp.body if not (isinstance(s, ast.Expr) and isinstance(s.value, ast.Constant))]
    idx = {id(s): i for i, s in enumerate(top)}
    guard = one([s for s in top if isinstance(s, ast.If)], 'if statement in store handler')
    if U(guard.test) != 'not fn' or guard.orelse: fail('store: refusal guard is %s' % U(guard.test))
    facts['st_store_refuse'] = http_error_code(one(raises_in(guard.body), 'raise'), 'store/refusal')
    if len(raises_in(top)) != 1: fail('store: more raise statements than the refusal')
    w = one([s for s in top if isinstance(s, ast.With)], 'with statement in store handler')
    if len(w.items) != 1 or w.items[0].optional_vars is None: fail('store: unrecognised with header')
    ctx, fvar = w.items[0].context_expr, U(w.items[0].optional_vars)
    if not (isinstance(ctx, ast.Call) and U(ctx.func) in ('io.open', 'open') and len(ctx.args) >= 2 and U(ctx.args[0]) == 'path'
            and U(ctx.args[1]) == "'w'"):
        fail('store: file is opened by %s' % U(ctx))
    # no other way to reach the file system
    for n in ast.walk(sp):
        if isinstance(n, ast.Call) and n is not ctx:
            f = U(n.func)
            if f.split('.')[-1] in ('open', 'remove', 'unlink', 'rename', 'replace', 'makedirs', 'mkdir', 'rmtree', 'copy', 'copyfile', 'move', 'system', 'run', 'Popen', 'write_text', 'write_bytes', 'truncate') :
                fail('store: additional file-system call %s' % U(n))
    if not (idx[id(guard)] < idx[id(sole('path'))] < idx[id(w)] and idx[id(sole('merged_nb'))] < idx[id(w)]):
        fail('store: statement order not recognised')
    if U(top[-1]) != 'self.finish()' or idx[id(w)] != len(top) - 2: fail('store: tail of the handler changed')
    wb = [U(s) for s in w.body]
    if wb == ['nbformat.write(merged_nb, %s)' % fvar]:
        facts['store_order'] = 'OpenThenSerialise'
    else:
        # serialise-first shape:  <something calling nbformat.write/writes on merged_nb> before the with; inside only f.write(<data>)
        ok = len(w.body) in (1, 2) and all(isinstance(s, ast.Expr) and isinstance(s.value, ast.Call) and U(s.value.func) == fvar + '.write' for s in w.body)
        inner_calls = [U(n.func) for s in w.body for a in s.value.args for n in ast.walk(a) if isinstance(n, ast.Call)] if ok else ['?']
        if not ok or any(not c.endswith('.getvalue') for c in inner_calls):
            fail('store: unrecognised body of the with statement: %r' % wb)
        ser = [s for s in top[:idx[id(w)]] for n in ast.walk(s) if isinstance(n, ast.Call) and U(n.func) in ('nbformat.write', 'nbformat.writes')
               and n.args and U(n.args[0]) == 'merged_nb']
        if len(ser) != 1: fail('store: serialisation of merged_nb before the with statement not found')
        facts['store_order'] = 'SerialiseThenOpen'

    # ---- close handler
    cp = method(classes['ApiCloseHandler'], 'post')
    ctop = [s for s in cp.body if not (isinstance(s, ast.Expr) and isinstance(s.value, ast.Constant))]
    if not isinstance(ctop[0], ast.If): fail('close: first statement is not the closable guard')
    gt = U(ctop[0].test)
    if gt == "self.params.get('closable', False) is not True": pass
    elif gt == "not self.params.get('closable', False)": pass
    else: fail('close: guard is %s' % gt)
    facts['st_close_refuse'] = http_error_code(one(raises_in(ctop[0].body), 'raise'), 'close/guard')
    rest = [U(s) for s in ctop[1:]]
    want = ["fallback = int(self.request.headers.get('exit_code', 1))",
            None,
            'if isinstance(self.application.exit_code, str):\n    self.application.exit_code = int(self.application.exit_code, 10)',
            None, 'self.finish()', 'ioloop.IOLoop.current().stop()']
    if len(rest) != len(want) or any(w_ is not None and r != w_ for r, w_ in zip(rest, want)):
        fail('close: handler body changed: %r' % rest)
    trysrc = rest[1]
    for needle in ("self.application.exit_code = self.get_argument('exitCode')", 'except web.MissingArgumentError:',
                   "self.application.exit_code = json.loads(self.request.body).get('exitCode', fallback)",
                   'except json.JSONDecodeError:', 'self.application.exit_code = fallback'):
        if needle not in trysrc: fail('close: `%s` not found' % needle)
    if not rest[3].startswith('_logger.info('): fail('close: unexpected statement %s' % rest[3])
    stops = [n for n in ast.walk(tree) if isinstance(n, ast.Call) and U(n.func).endswith('.stop') and 'IOLoop' in U(n.func)]
    if len(stops) != 1: fail('IOLoop stop is called at %d sites' % len(stops))

    # ---- init_app / main_server: closable reaches the handlers, exit code returned
    ia = funcs.get('init_app') or fail('init_app not found')
    if "params.update({'closable': closable})" not in [U(s) for s in ia.body]: fail('init_app no longer stores closable into params')
    if 'app = make_app(**params)' not in [U(s) for s in ia.body]: fail('init_app no longer calls make_app(**params)')
    ms = funcs.get('main_server') or fail('main_server not found')
    if U(ms.body[-1]) != 'return app.exit_code': fail('main_server does not return app.exit_code')
    return facts


def missing_file_const():
    tree = ast.parse(open(os.path.join(REPO, 'nbdime/utils.py')).read())
    for n in tree.body:
        if isinstance(n, ast.If) and U(n.test) == "os.name == 'nt'":
            for s in n.orelse:
                if isinstance(s, ast.Assign) and U(s.targets[0]) == 'EXPLICIT_MISSING_FILE' and isinstance(s.value, ast.Constant) and isinstance(s.value.value, str):
                    return s.value.value
    raise GenError('nbdime/utils.py: EXPLICIT_MISSING_FILE (posix) not found')


def render():
    """text of Gen/ServerFacts.v for the current working tree of REPO"""
    tree = ast.parse(open(os.path.join(REPO, SRC)).read())
    f = translate(tree)
    f['explicit_missing'] = missing_file_const()
    hs = list(dict.fromkeys(HANDLERS.values()))
    L = []
    L.append('(* GENERATED by tools/gen/gen_server.py from nbdime/webapp/nbdimeserver.py -- do not edit *)')
    L.append('From Coq Require Import List NArith String Ascii.')
    L.append('From NB Require Import Base.Json.')
    L.append('Import ListNotations.')
    L.append('')
    L.append('Fixpoint sf_str (s : string) : pystr :=')
    L.append('  match s with EmptyString => [] | String c r => N_of_ascii c :: sf_str r end.')
    L.append('')
    L.append('Inductive handler := ' + ' | '.join(hs) + '.')
    L.append('Inductive store_order_t := OpenThenSerialise | SerialiseThenOpen.')
    L.append('')
    L.append('Definition routes : list (pystr * handler) :=')
    L.append('  [' + ';\n   '.join('(%s, %s)' % (sstr(p), h) for p, h in f['routes']) + '].')
    for m in ('get', 'post'):
        L.append('Definition has_%s (h : handler) : bool :=' % m)
        L.append('  match h with ' + ' | '.join('%s => %s' % (h, coq_bool(m in f['methods'][h])) for h in hs) + ' end.')
    for k in ('st_arg_not_str', 'st_unreadable_http', 'st_unreadable', 'st_diff_fail', 'st_merge_fail', 'st_store_refuse', 'st_close_refuse'):
        L.append('Definition %s : N := %d%%N.' % (k, f[k]))
    L.append('Definition store_order : store_order_t := %s.' % f['store_order'])
    L.append('Definition explicit_missing : pystr := %s.' % sstr(f['explicit_missing']))
    L.append('Definition diff_arg_names : list pystr := %s.' % coq_list(sstr(x) for x in f['diff_args']))
    L.append('Definition merge_arg_names : list pystr := %s.' % coq_list(sstr(x) for x in f['merge_args']))
    L.append('Definition difftool_fail_on_empty : bool := %s.' % coq_bool(f['difftool_fail_on_empty']))
    L.append('Definition mergetool_fail_on_empty : bool := %s.' % coq_bool(f['mergetool_fail_on_empty']))
    return '\n'.join(L) + '\n'


def main():
    write_if_changed('ServerFacts.v', render())


if __name__ == '__main__':
    try:
        main()
    except GenError as e:
        print('GENERROR gen_server: %s' % e, file=sys.stderr)
        sys.exit(2)
    except (SyntaxError, OSError, KeyError, IndexError, AttributeError, TypeError) as e:
        print('GENERROR gen_server: %s: %s' % (type(e).__name__, e), file=sys.stderr)
        sys.exit(2)
