#!/venv/bin/python
"""Gen/GitCfg.v: the enable()/disable() functions of nbdime/vcs/git/{diffdriver,mergedriver,difftool,mergetool}.py,
how each main() calls them, and the order in which `nbdime config-git` runs them, translated from the Python AST of
$NBDIME_REPO into programs of the language of coq/Sys/GitCfg.v.  Fail-closed: any statement whose shape is not one of
the patterns below is an error (exit 2, GENERROR line), never a guess."""
import sys, os, ast
sys.path.insert(0, os.path.dirname(os.path.abspath(__file__)))
from common import *

OUTPUTS = ['GitCfg.v']
MODULES = [('DiffDriver', 'diffdriver'), ('MergeDriver', 'mergedriver'), ('DiffTool', 'difftool'), ('MergeTool', 'mergetool')]

def U(n):
    return ast.unparse(n)

def fail(where, node, why):
    raise GenError('%s line %s: %s: %s' % (where, getattr(node, 'lineno', '?'), why, U(node)[:200] if node is not None else ''))

def const_str(n):
    return isinstance(n, ast.Constant) and isinstance(n.value, str)

def is_cpe_handler(h):
    return isinstance(h, ast.ExceptHandler) and isinstance(h.type, ast.Name) and h.type.id == 'CalledProcessError' and h.name is None

def cmd_prefix(n, where):
    """cmd -> True (scoped); ['git','config'] or ['git','config','--get'] -> False (unscoped)"""
    if isinstance(n, ast.Name) and n.id == 'cmd':
        return True
    if isinstance(n, ast.List) and all(const_str(e) for e in n.elts):
        vals = [e.value for e in n.elts]
        if vals in (['git', 'config'], ['git', 'config', '--get']):
            return False
    fail(where, n, 'unrecognised git command prefix')

def split_key(k, where, node):
    if k.count('.') < 1 or k != k.strip() or not k or any(ord(c) < 33 or ord(c) > 126 for c in k):
        fail(where, node, 'unrecognised config key %r' % k)
    sec, var = k.rsplit('.', 1)
    if sec != sec.lower() or var != var.lower():
        fail(where, node, 'config key with upper-case letters (git folds case; not modelled) %r' % k)
    return (sec, var)

def parse_git_call(call, fname, where):
    """fname(PREFIX + [args...]) -> (scoped, args) ; only positional single argument, no keywords"""
    if not (isinstance(call, ast.Call) and isinstance(call.func, ast.Name) and call.func.id == fname
            and len(call.args) == 1 and not call.keywords):
        fail(where, call, 'expected %s(cmd + [...])' % fname)
    a = call.args[0]
    if not (isinstance(a, ast.BinOp) and isinstance(a.op, ast.Add) and isinstance(a.right, ast.List)
            and all(const_str(e) for e in a.right.elts)):
        fail(where, call, 'expected %s(cmd + [constant strings])' % fname)
    return cmd_prefix(a.left, where), [e.value for e in a.right.elts]

def parse_action(stmt, where):
    """a statement that is exactly check_call(cmd + [...]) -> (scoped, action)"""
    if not isinstance(stmt, ast.Expr):
        fail(where, stmt, 'expected a check_call statement')
    scoped, args = parse_git_call(stmt.value, 'check_call', where)
    if len(args) == 2 and args[0] == '--unset':
        return scoped, ('AUnset', split_key(args[1], where, stmt))
    if len(args) == 2 and args[0] == '--remove-section':
        if '.' in args[1] and args[1] != args[1].strip():
            fail(where, stmt, 'bad section')
        return scoped, ('ARmSec', args[1])
    if len(args) == 2 and not args[0].startswith('-'):
        if args[1] != args[1].strip() or '\n' in args[1]:
            fail(where, stmt, 'value with surrounding blanks or newline (git would normalise it; not modelled)')
        return scoped, ('ASet', split_key(args[0], where, stmt), args[1])
    fail(where, stmt, 'unrecognised git config invocation')

def parse_simple(stmt, where):
    """check_call(...)  or  try: check_call(...) except CalledProcessError: pass|return   -> (handler, scoped, action)"""
    if isinstance(stmt, ast.Expr):
        scoped, act = parse_action(stmt, where)
        return ('Propagate', scoped, act)
    if isinstance(stmt, ast.Try):
        if len(stmt.body) != 1 or len(stmt.handlers) != 1 or stmt.orelse or stmt.finalbody or not is_cpe_handler(stmt.handlers[0]):
            fail(where, stmt, 'unrecognised try statement')
        hb = stmt.handlers[0].body
        if len(hb) == 1 and isinstance(hb[0], ast.Pass):
            h = 'Ignore'
        elif len(hb) == 1 and isinstance(hb[0], ast.Return) and hb[0].value is None:
            h = 'ReturnOnFail'
        else:
            fail(where, stmt, 'unrecognised except body')
        scoped, act = parse_action(stmt.body[0], where)
        return (h, scoped, act)
    fail(where, stmt, 'unrecognised statement')

def parse_get_guard(stmt, where):
    """try: X = check_output(P + [K]).decode('utf8','replace').strip()
       except CalledProcessError: pass
       else:
           if X == 'V': <one simple statement>"""
    if not (len(stmt.body) == 1 and len(stmt.handlers) == 1 and is_cpe_handler(stmt.handlers[0]) and not stmt.finalbody
            and len(stmt.handlers[0].body) == 1 and isinstance(stmt.handlers[0].body[0], ast.Pass) and len(stmt.orelse) == 1):
        fail(where, stmt, 'unrecognised try/else statement')
    asg = stmt.body[0]
    if not (isinstance(asg, ast.Assign) and len(asg.targets) == 1 and isinstance(asg.targets[0], ast.Name)):
        fail(where, asg, 'expected VAR = check_output(...)...')
    var = asg.targets[0].id
    v = asg.value
    # .strip()
    if not (isinstance(v, ast.Call) and isinstance(v.func, ast.Attribute) and v.func.attr == 'strip' and not v.args and not v.keywords):
        fail(where, asg, 'expected .strip() on the output')
    v = v.func.value
    if not (isinstance(v, ast.Call) and isinstance(v.func, ast.Attribute) and v.func.attr == 'decode'
            and all(const_str(a) for a in v.args) and not v.keywords and (not v.args or v.args[0].value.lower().replace('-', '') == 'utf8')):
        fail(where, asg, 'expected .decode(...) of the output')
    scoped, args = parse_git_call(v.func.value, 'check_output', where)
    if len(args) == 2 and args[0] == '--get':
        args = args[1:]
    if len(args) != 1 or args[0].startswith('-'):
        fail(where, asg, 'expected a plain value query')
    key = split_key(args[0], where, asg)
    iff = stmt.orelse[0]
    if not (isinstance(iff, ast.If) and not iff.orelse and len(iff.body) == 1 and isinstance(iff.test, ast.Compare)
            and len(iff.test.ops) == 1 and isinstance(iff.test.ops[0], ast.Eq)
            and isinstance(iff.test.left, ast.Name) and iff.test.left.id == var and const_str(iff.test.comparators[0])):
        fail(where, iff, 'expected `if VAR == CONST:` with one statement')
    val = iff.test.comparators[0].value
    if val != val.strip():
        fail(where, iff, 'comparison value with surrounding blanks')
    h, wscoped, act = parse_simple(iff.body[0], where)
    return ('IfGetEq', scoped, key, val), h, wscoped, act

ATTR_TEMPLATE = '''gitattributes = locate_gitattributes(scope)
if gitattributes is None:
    assert scope is None
    print()
    return
if os.path.exists(gitattributes):
    with io.open(gitattributes, encoding='utf8') as f:
        if NEEDLE in f.read():
            return
else:
    ensure_dir_exists(os.path.dirname(gitattributes))
with io.open(gitattributes, 'a', encoding='utf8') as f:
    f.write(LINE)'''

class Lit(ast.NodeTransformer):
    """replace the two string constants of the attributes block by placeholders, collecting them"""
    def __init__(self): self.found = {}
    def visit_Assert(self, n):      # the message is incidental
        return ast.Assert(test=n.test, msg=None)
    def visit_Expr(self, n):        # so is what is printed on stderr
        if isinstance(n.value, ast.Call) and isinstance(n.value.func, ast.Name) and n.value.func.id == 'print':
            return ast.Expr(value=ast.Call(func=n.value.func, args=[], keywords=[]))
        return self.generic_visit(n)
    def visit_Compare(self, n):
        if len(n.ops) == 1 and isinstance(n.ops[0], ast.In) and const_str(n.left):
            self.found['needle'] = n.left.value
            return ast.Compare(left=ast.Name(id='NEEDLE', ctx=ast.Load()), ops=n.ops, comparators=n.comparators)
        return self.generic_visit(n)
    def visit_Call(self, n):
        if isinstance(n.func, ast.Attribute) and n.func.attr == 'write' and len(n.args) == 1 and const_str(n.args[0]) and not n.keywords:
            self.found['line'] = n.args[0].value
            return ast.Call(func=n.func, args=[ast.Name(id='LINE', ctx=ast.Load())], keywords=[])
        return self.generic_visit(n)

def parse_attr_block(stmts, where):
    lit = Lit()
    mod = ast.Module(body=[lit.visit(s) for s in stmts], type_ignores=[])
    got = U(ast.fix_missing_locations(mod))
    want = U(ast.parse(ATTR_TEMPLATE))
    if got != want or set(lit.found) != {'needle', 'line'}:
        fail(where, stmts[0], 'attributes block differs from the modelled pattern')
    for s in lit.found.values():
        if any(ord(c) > 126 or (ord(c) < 32 and c not in '\n\t') for c in s):
            fail(where, stmts[0], 'unexpected character in attributes text')
    return lit.found['needle'], lit.found['line']

def parse_function(fn, where, second_arg):
    a = fn.args
    names = [x.arg for x in a.args]
    if a.vararg or a.kwarg or a.kwonlyargs or a.posonlyargs or names[:1] != ['scope'] or len(names) > 2:
        fail(where, fn, 'unrecognised signature')
    defaults = [U(d) for d in a.defaults]
    if len(names) == 1 and defaults != ['None']:
        fail(where, fn, 'unrecognised defaults')
    if len(names) == 2 and (names[1] not in second_arg or defaults not in (['None', 'False'], ['None', 'None'])):
        fail(where, fn, 'unrecognised second parameter')
    flagname = names[1] if len(names) == 2 else None
    body = list(fn.body)
    if body and isinstance(body[0], ast.Expr) and const_str(body[0].value):
        body = body[1:]
    if len(body) < 2 or U(body[0]) != "cmd = ['git', 'config']":
        fail(where, body[0] if body else fn, "expected cmd = ['git', 'config']")
    s = body[1]
    ok = isinstance(s, ast.If) and U(s.test) == 'scope' and not s.orelse
    if ok:
        inner = list(s.body)
        if inner and isinstance(inner[0], ast.Assert):
            if U(inner[0].test) != "scope in ('global', 'system')":
                ok = False
            inner = inner[1:]
        ok = ok and len(inner) == 1 and U(inner[0]) in ("cmd.append('--%s' % scope)", "cmd.append('--' + scope)")
    if not ok:
        fail(where, s, 'expected `if scope: cmd.append("--" + scope)`')
    cmds = []
    tail = None
    rest = body[2:]
    i = 0
    while i < len(rest):
        st = rest[i]
        if isinstance(st, ast.Assign) and U(st).startswith('gitattributes = '):
            tail = parse_attr_block(rest[i:], where)
            break
        if isinstance(st, ast.If):
            if not (flagname == 'set_default' and U(st.test) == 'set_default' and not st.orelse and st.body):
                fail(where, st, 'unrecognised if statement')
            for inner in st.body:
                h, scoped, act = parse_simple(inner, where)
                cmds.append((('IfFlag',), h, scoped, act))
        elif isinstance(st, ast.Try) and st.orelse:
            g, h, scoped, act = parse_get_guard(st, where)
            cmds.append((g, h, scoped, act))
        else:
            h, scoped, act = parse_simple(st, where)
            cmds.append((('Always',), h, scoped, act))
        i += 1
    return cmds, tail, flagname

def parse_main(tree, where):
    """the config branch of main(): opts.config_func(opts.scope[, opts.set_default]); return 0
       and add_git_config_subcommand(subparsers, enable, disable, ...)"""
    fns = [n for n in ast.walk(tree) if isinstance(n, ast.FunctionDef) and n.name == 'main']
    if len(fns) != 1:
        raise GenError(where + ': main() not found exactly once')
    branch = []
    for n in ast.walk(fns[0]):
        if isinstance(n, ast.If) and U(n.test) == "opts.subcommand == 'config'":
            branch.append(n.body)
    if len(branch) != 1 or len(branch[0]) != 2 or U(branch[0][1]) != 'return 0':
        raise GenError(where + ': config branch of main() not recognised')
    call = U(branch[0][0])
    if call == 'opts.config_func(opts.scope)':
        takes = False
    elif call == 'opts.config_func(opts.scope, opts.set_default)':
        takes = True
    else:
        raise GenError(where + ': unrecognised call in config branch: ' + call)
    regs = [n for n in ast.walk(tree) if isinstance(n, ast.Call) and isinstance(n.func, ast.Name) and n.func.id == 'add_git_config_subcommand']
    if len(regs) != 1 or [U(a) for a in regs[0].args[:3]] != ['subparsers', 'enable', 'disable']:
        raise GenError(where + ': add_git_config_subcommand(subparsers, enable, disable, ...) not recognised')
    kw = {k.arg for k in regs[0].keywords}
    if len(regs[0].args) != 3 or not kw <= {'subparser_help', 'enable_help', 'disable_help'}:
        raise GenError(where + ': add_git_config_subcommand called with unexpected arguments')
    sd = [n for n in ast.walk(tree) if isinstance(n, ast.Call) and isinstance(n.func, ast.Attribute) and n.func.attr == 'add_argument'
          and n.args and const_str(n.args[0]) and n.args[0].value == '--set-default']
    if takes:
        if len(sd) != 1 or {k.arg: U(k.value) for k in sd[0].keywords if k.arg in ('action', 'dest')} != {'action': "'store_true'", 'dest': "'set_default'"}:
            raise GenError(where + ': --set-default option not recognised')
    elif sd:
        raise GenError(where + ': --set-default declared but not passed on')
    return takes

def parse_args_helper():
    """add_git_config_subcommand: --global -> scope 'global', --enable -> enable, --disable -> disable"""
    where = 'nbdime/args.py'
    tree = ast.parse(open(os.path.join(REPO, where)).read())
    fns = [n for n in ast.walk(tree) if isinstance(n, ast.FunctionDef) and n.name == 'add_git_config_subcommand']
    if len(fns) != 1 or [a.arg for a in fns[0].args.args][:3] != ['subparsers', 'enable', 'disable']:
        raise GenError(where + ': add_git_config_subcommand not recognised')
    seen = {}
    for n in ast.walk(fns[0]):
        if isinstance(n, ast.Call) and isinstance(n.func, ast.Attribute) and n.func.attr == 'add_argument' and n.args and const_str(n.args[0]):
            seen[n.args[0].value] = {k.arg: U(k.value) for k in n.keywords if k.arg in ('action', 'dest', 'const')}
    want = {'--global': {'action': "'store_const'", 'dest': "'scope'", 'const': "'global'"},
            '--system': {'action': "'store_const'", 'dest': "'scope'", 'const': "'system'"},
            '--enable': {'action': "'store_const'", 'dest': "'config_func'", 'const': 'enable'},
            '--disable': {'action': "'store_const'", 'dest': "'config_func'", 'const': 'disable'}}
    if seen != want:
        raise GenError(where + ': options of the config sub-command differ from the modelled ones: %r' % seen)

def parse_dispatch():
    where = 'nbdime/__main__.py'
    tree = ast.parse(open(os.path.join(REPO, where)).read())
    hits = [n for n in ast.walk(tree) if isinstance(n, ast.If) and U(n.test) == "cmd == 'config-git'"]
    if len(hits) != 1:
        raise GenError(where + ': config-git branch not found exactly once')
    alias = {}
    rest = []
    for st in hits[0].body:
        if isinstance(st, ast.ImportFrom) and len(st.names) == 1 and st.names[0].name == 'main' and st.names[0].asname and st.level == 0:
            alias[st.names[0].asname] = st.module
        else:
            rest.append(st)
    if len(rest) != 2 or U(rest[0]) != "args = ['config'] + args" or not isinstance(rest[1], ast.Return) or not isinstance(rest[1].value, ast.BoolOp) \
            or not isinstance(rest[1].value.op, ast.Or):
        raise GenError(where + ': config-git branch not recognised')
    order = []
    for v in rest[1].value.values:
        if not (isinstance(v, ast.Call) and isinstance(v.func, ast.Name) and v.func.id in alias and U(v) == v.func.id + '(args)'):
            raise GenError(where + ': unrecognised call in config-git chain: ' + U(v))
        mod = alias[v.func.id]
        names = {'nbdime.vcs.git.' + m: t for t, m in MODULES}
        if mod not in names:
            raise GenError(where + ': unknown module in config-git chain: ' + mod)
        order.append(names[mod])
    if len(set(order)) != len(order):
        raise GenError(where + ': a tool is configured twice by config-git')
    return order

def cstr(s):
    if all(32 <= ord(c) < 127 and c != '"' for c in s):
        return '(asc "%s")' % s
    return '[' + '; '.join('%d%%N' % ord(c) for c in s) + ']'

def ckey(k):
    return '(%s, %s)' % (cstr(k[0]), cstr(k[1]))

def cact(a):
    if a[0] == 'ASet': return '(ASet %s %s)' % (ckey(a[1]), cstr(a[2]))
    if a[0] == 'AUnset': return '(AUnset %s)' % ckey(a[1])
    return '(ARmSec %s)' % cstr(a[1])

def cguard(g):
    if g[0] == 'IfGetEq': return '(IfGetEq %s %s %s)' % (coq_bool(g[1]), ckey(g[2]), cstr(g[3]))
    return g[0]

def cprog(cmds, tail):
    cs = coq_list('Cmd %s %s %s %s' % (cguard(g), h, coq_bool(sc), cact(a)) for g, h, sc, a in cmds)
    t = 'None' if tail is None else 'Some (%s, %s)' % (cstr(tail[0]), cstr(tail[1]))
    return '{| body := %s;\n     tail := %s |}' % (cs, t)

def main():
    out = ['(* GENERATED by tools/gen/gen_gitcfg.py from %s -- do not edit *)' % REPO,
           'From Coq Require Import String List NArith.', 'From NB Require Import Base.Json.', 'From NB Require Import Sys.GitCfg.',
           'Import ListNotations.', 'Local Open Scope string_scope.', '']
    takes = {}
    for tool, mod in MODULES:
        rel = 'nbdime/vcs/git/%s.py' % mod
        tree = ast.parse(open(os.path.join(REPO, rel)).read())
        top = {n.name: n for n in tree.body if isinstance(n, ast.FunctionDef)}
        for fname in ('enable', 'disable'):
            if fname not in top:
                raise GenError('%s: no top-level %s()' % (rel, fname))
            cmds, tail, flagname = parse_function(top[fname], rel + ':' + fname, ('set_default', '_'))
            out.append('Definition %s_%s : prog :=\n  %s.' % (mod, fname, cprog(cmds, tail)))
            takes[(tool, fname)] = flagname
        t = parse_main(tree, rel)
        nargs = {takes[(tool, 'enable')] is not None, takes[(tool, 'disable')] is not None}
        if nargs != {t}:
            raise GenError('%s: main() and enable/disable disagree on the number of arguments' % rel)
        takes[tool] = t
        out.append('')
    parse_args_helper()
    order = parse_dispatch()
    out.append('Definition gen_prog_of (t : tool) (en : bool) : prog :=\n  match t, en with')
    for tool, mod in MODULES:
        out.append('  | %s, true => %s_enable | %s, false => %s_disable' % (tool, mod, tool, mod))
    out.append('  end.')
    out.append('Definition gen_takes_flag (t : tool) : bool :=\n  match t with %s end.' %
               ' | '.join('%s => %s' % (tool, coq_bool(takes[tool])) for tool, _ in MODULES))
    out.append('Definition tbl : table := Table gen_prog_of %s gen_takes_flag.' % coq_list(order))
    text = '\n'.join(out) + '\n'
    if len(sys.argv) == 3 and sys.argv[1] == '--out':      # private copy for the correspondence run (harness/props/c18.py)
        open(sys.argv[2], 'w').write(text)
    else:
        write_if_changed('GitCfg.v', text)

if __name__ == '__main__':
    try:
        main()
    except GenError as e:
        print('GENERROR gen_gitcfg:', e, file=sys.stderr)
        sys.exit(2)
    except (OSError, SyntaxError) as e:
        print('GENERROR gen_gitcfg: cannot read sources:', e, file=sys.stderr)
        sys.exit(2)
