#!/venv/bin/python
"""Gen/Strategies.v: the strategy layer of nbdime's three-way merge, as data.

(1) the result of nbdime.merging.notebooks.notebook_merge_strategies(args) for EVERY combination of
    --merge-strategy x --input-strategy x --output-strategy x --no-ignore-transients that the nbmerge command line
    accepts (choices read from the real parser by introspection, args built by the real parse_args), plus the web
    tool's configuration (ApiMergeHandler.post: default parse + merge_strategy = <constant read from the AST>);
(2) the if/elif chains of the five places a strategy string is dispatched on (MergeDecisionBuilder.tryresolve,
    resolve_strategy_generic, resolve_conflicted_decisions_list/_dict/_strings) and of the pre-switch in
    _merge_strings and the P/R arm of _merge_lists, read from the AST;
(3) the kind (dict / list / string / leaf) of every notebook path the tables mention, from the shape of the
    installed nbformat v4 schema, and the differ's atomic paths.
Fail closed: anything that does not have a recognised shape is a GENERROR (exit 2)."""
import sys, os, ast, json, tempfile, shutil
sys.path.insert(0, os.path.dirname(os.path.abspath(__file__)))
from common import *

OUTPUTS = ["Strategies.v"]


def fail(msg):
    raise GenError('gen_strategies: ' + msg)


# ------------------------------------------------------------------ (1) tables by execution
INTROSPECT = r'''
import json, itertools, os
import nbdime.nbmergeapp as A
from nbdime.merging import notebooks as N
from nbdime.diffing.notebooks import notebook_config
import nbformat
p = A._build_arg_parser()
acts = {}
for a in p._actions:
    if a.dest in ('merge_strategy', 'input_strategy', 'output_strategy', 'ignore_transients'):
        acts[a.dest] = {'flags': list(a.option_strings), 'choices': list(a.choices) if a.choices is not None else None,
                        'default': a.default, 'cls': type(a).__name__, 'const': getattr(a, 'const', None), 'nargs': a.nargs}
out = {'actions': acts, 'configs': []}
def table(s):
    if type(s).__name__ != 'Strategies' or not isinstance(s, dict): raise SystemExit('not a Strategies dict')
    return {'table': sorted([k, v] for k, v in dict(s).items()), 'transients': list(s.transients), 'fall_back': s.fall_back}
def opts(dest):
    a = acts[dest]
    return ([None] if a['default'] is None else []) + a['choices']
if set(acts) == {'merge_strategy', 'input_strategy', 'output_strategy', 'ignore_transients'}:
    for m, i, o, t in itertools.product(opts('merge_strategy'), opts('input_strategy'), opts('output_strategy'), [True, False]):
        argv = []
        if m is not None: argv += [acts['merge_strategy']['flags'][0], m]
        if i is not None: argv += [acts['input_strategy']['flags'][0], i]
        if o is not None: argv += [acts['output_strategy']['flags'][0], o]
        if not t: argv += [acts['ignore_transients']['flags'][0]]
        args = p.parse_args(argv + ['b.ipynb', 'l.ipynb', 'r.ipynb'])
        if (args.merge_strategy, args.input_strategy, args.output_strategy, args.ignore_transients) != (m, i, o, t):
            raise SystemExit('parse_args did not yield the requested combination')
        c = table(N.notebook_merge_strategies(args)); c.update({'merge': m, 'input': i, 'output': o, 'ignore_transients': t, 'argv': argv})
        out['configs'].append(c)
    # the web tool: default parse, then merge_strategy overwritten (constant filled in by the translator from the AST)
    args = p.parse_args(['', '', ''])
    args.merge_strategy = %(MERGETOOL)r
    c = table(N.notebook_merge_strategies(args))
    c.update({'merge': args.merge_strategy, 'input': args.input_strategy, 'output': args.output_strategy,
              'ignore_transients': args.ignore_transients, 'argv': None})
    out['web'] = c
    out['noargs'] = table(N.notebook_merge_strategies(None))
out['generic_conflict_strategies'] = list(N.generic_conflict_strategies)
out['atomic_paths'] = sorted(k for k, v in dict(notebook_config._atomic_paths).items() if v)
out['atomic_other'] = [k for k, v in dict(notebook_config._atomic_paths).items() if not v]
out['schema'] = json.load(open(os.path.join(os.path.dirname(nbformat.__file__), 'v4', 'nbformat.v4.schema.json')))
out['nbformat_version'] = nbformat.__version__
print(json.dumps(out))
'''


def web_strategy_constant():
    """ApiMergeHandler.post: merge_args = build_merge_parser().parse_args(['', '', '']); merge_args.merge_strategy = <const>"""
    fn = os.path.join(REPO, 'nbdime', 'webapp', 'nbdimeserver.py')
    tree = ast.parse(open(fn, encoding='utf8').read())
    cls = [n for n in tree.body if isinstance(n, ast.ClassDef) and n.name == 'ApiMergeHandler']
    if len(cls) != 1: fail('nbdimeserver.py: class ApiMergeHandler not found')
    post = [n for n in cls[0].body if isinstance(n, ast.FunctionDef) and n.name == 'post']
    if len(post) != 1: fail('ApiMergeHandler.post not found')
    consts = []; parsed = []
    for n in ast.walk(post[0]):
        if isinstance(n, ast.Assign) and len(n.targets) == 1 and isinstance(n.targets[0], ast.Attribute) \
           and n.targets[0].attr == 'merge_strategy':
            if not isinstance(n.value, ast.Constant) or not isinstance(n.value.value, str): fail('web merge_strategy is not a string literal')
            consts.append(n.value.value)
        if isinstance(n, ast.Assign) and isinstance(n.targets[0], ast.Attribute) and n.targets[0].attr in ('input_strategy', 'output_strategy', 'ignore_transients'):
            fail('ApiMergeHandler.post sets %s: not modelled' % n.targets[0].attr)
        if isinstance(n, ast.Call) and isinstance(n.func, ast.Attribute) and n.func.attr == 'parse_args':
            parsed.append(ast.unparse(n).replace('"', "'"))
    if len(consts) != 1: fail('expected exactly one assignment to merge_args.merge_strategy in ApiMergeHandler.post, got %r' % consts)
    if parsed != ["build_merge_parser().parse_args(['', '', ''])"]: fail('web merge args are built by %r' % parsed)
    src = open(fn, encoding='utf8').read()
    if 'def build_merge_parser' in src or 'build_merge_parser' not in src:
        fail('build_merge_parser is expected to be imported, not defined, in nbdimeserver.py')
    imp = [n for n in ast.walk(tree) if isinstance(n, ast.ImportFrom) and any(a.name == '_build_arg_parser' and a.asname == 'build_merge_parser' for a in n.names)]
    if len(imp) != 1 or imp[0].module not in ('nbmergeapp', 'nbdime.nbmergeapp') and not (imp[0].module or '').endswith('nbmergeapp'):
        fail('build_merge_parser is not nbmergeapp._build_arg_parser')
    return consts[0]


# ------------------------------------------------------------------ (2) dispatch chains from the AST
def fdef(tree, name, cls=None):
    body = tree.body
    if cls:
        cs = [n for n in body if isinstance(n, ast.ClassDef) and n.name == cls]
        if len(cs) != 1: fail('class %s not found' % cls)
        body = cs[0].body
    fs = [n for n in body if isinstance(n, ast.FunctionDef) and n.name == name]
    if len(fs) != 1: fail('def %s not found exactly once' % name)
    return fs[0]


def strip_doc(body):
    if body and isinstance(body[0], ast.Expr) and isinstance(body[0].value, ast.Constant) and isinstance(body[0].value.value, str):
        return body[1:]
    return body


def test_of(t, var):
    """strategy == "c"  |  strategy.startswith("c")  |  strategy in ("a", "b")"""
    if isinstance(t, ast.Compare) and len(t.ops) == 1 and isinstance(t.left, ast.Name) and t.left.id == var:
        c = t.comparators[0]
        if isinstance(t.ops[0], ast.Eq) and isinstance(c, ast.Constant) and isinstance(c.value, str):
            return [('eq', c.value)]
        if isinstance(t.ops[0], ast.In) and isinstance(c, (ast.Tuple, ast.List)) and all(isinstance(e, ast.Constant) and isinstance(e.value, str) for e in c.elts):
            return [('eq', e.value) for e in c.elts]
    if isinstance(t, ast.Call) and isinstance(t.func, ast.Attribute) and t.func.attr == 'startswith' \
       and isinstance(t.func.value, ast.Name) and t.func.value.id == var and len(t.args) == 1 \
       and isinstance(t.args[0], ast.Constant) and isinstance(t.args[0].value, str):
        return [('prefix', t.args[0].value)]
    return None


EXC = {'AssertionError', 'KeyError', 'IndexError', 'RuntimeError', 'NBDiffFormatError', 'ValueError', 'TypeError'}
LOOP_CONDS = {   # recognised per-decision conditions of the resolving loops
    'd.conflict and (not d.get("strategy"))': ('true', 'false'),
    "d.conflict and (not d.get('strategy'))": ('true', 'false'),
    'd.conflict and not d.get("strategy")': ('true', 'false'),
    "d.conflict and not d.get('strategy')": ('true', 'false'),
}


CLEAR_ALL_BODY = ['local_diff, remote_diff = collect_diffs(path, decisions)', 'custom_diff = [op_removerange(0, len(base))]',
                  'decisions.decisions = []',
                  'decisions.custom(path, local_diff, remote_diff, custom_diff, conflict=False, strategy=strategy)']


def classify_body(body, var, where):
    """-> Coq term of type arm"""
    nodes = [n for st in body for n in ast.walk(st)]
    raises = [n for n in nodes if isinstance(n, ast.Raise)]
    if raises:
        if len(raises) != 1 or raises[0].exc is None: fail('%s: raise shape' % where)
        e = raises[0].exc
        nm = e.func.id if isinstance(e, ast.Call) and isinstance(e.func, ast.Name) else (e.id if isinstance(e, ast.Name) else None)
        if nm not in EXC: fail('%s: raises %r which the model has no name for' % (where, nm))
        return '(ArmRaise %s)' % nm
    if any(isinstance(n, (ast.Assert, ast.Return, ast.Try, ast.While, ast.With)) for n in nodes):
        fail('%s: assert/return/try/while/with inside a strategy arm is not modelled' % where)
    calls = [n for n in nodes if isinstance(n, ast.Call)]
    rs = [c.func.id for c in calls if isinstance(c.func, ast.Name) and c.func.id.startswith('resolve_strategy_')]
    if rs:
        if len(rs) != 1: fail('%s: more than one resolver call in an arm' % where)
        if any(isinstance(n, (ast.For, ast.Assign)) for n in nodes): fail('%s: resolver call mixed with other statements' % where)
        return 'ArmGeneric' if rs[0] == 'resolve_strategy_generic' else '(ArmCall %s)' % coq_str(rs[0])
    # the clear-all arm is written inline: drops all decisions and registers one custom decision built from collect_diffs
    _src = [ast.unparse(st) for st in body]
    if _src == CLEAR_ALL_BODY or (any(x.startswith('decisions.custom(') for x in _src) and 'decisions.decisions = []' in _src
                                  and any('collect_diffs(' in x for x in _src) and not any(isinstance(n, (ast.For, ast.If, ast.Raise)) for st in body for n in ast.walk(st))):
        return '(ArmCall %s)' % coq_str('inline:clear-all')
    fors = [st for st in body if isinstance(st, ast.For)]
    assigns = [st for st in body if isinstance(st, ast.Assign)]
    if fors:
        if len(fors) != 1 or not (isinstance(fors[0].iter, ast.Name) and fors[0].iter.id == 'decisions' and isinstance(fors[0].target, ast.Name) and fors[0].target.id == 'd'):
            fail('%s: loop is not `for d in decisions`' % where)
        f = fors[0]
        if len(f.body) != 1 or not isinstance(f.body[0], ast.If) or f.body[0].orelse: fail('%s: loop body is not a single if' % where)
        cond = ast.unparse(f.body[0].test)
        inner = f.body[0].body
        # local constant bound before the loop:  action = "..."   |   action = strategy.replace("use-", "")
        env = {}
        for a in assigns:
            if len(a.targets) != 1 or not isinstance(a.targets[0], ast.Name): fail('%s: assignment shape' % where)
            v = a.value
            if isinstance(v, ast.Constant) and isinstance(v.value, str): env[a.targets[0].id] = ('const', v.value)
            elif isinstance(v, ast.Call) and isinstance(v.func, ast.Attribute) and v.func.attr == 'replace' and isinstance(v.func.value, ast.Name) and v.func.value.id == var \
                    and len(v.args) == 2 and all(isinstance(x, ast.Constant) for x in v.args) and v.args[1].value == '':
                env[a.targets[0].id] = ('strip', v.args[0].value)
            else: fail('%s: unrecognised assignment %s' % (where, ast.unparse(a)))
        if len(body) != len(assigns) + 1: fail('%s: unexpected statements beside the loop' % where)
        # dict-union arm: loop that only logs
        if all(isinstance(s, (ast.Assign, ast.Expr)) for s in inner) and any(isinstance(n, ast.Call) and ast.unparse(n.func) == 'nbdime.log.error' for s in inner for n in ast.walk(s)) \
           and not any(isinstance(n, ast.Attribute) and isinstance(n.ctx, ast.Store) for s in inner for n in ast.walk(s)):
            if cond != 'd.conflict': fail('%s: logging loop condition %r' % (where, cond))
            return 'ArmLogError'
        guard_dict = False
        if cond == 'd.conflict' and len(inner) == 1 and isinstance(inner[0], ast.If) and not inner[0].orelse:
            # list-union arm:  if not isinstance(resolve_path(base, d.common_path[len(path):]), dict):
            g = ast.unparse(inner[0].test)
            if g != 'not isinstance(resolve_path(base, d.common_path[len(path):]), dict)': fail('%s: inner guard %r' % (where, g))
            guard_dict = True; inner = inner[0].body; skip = 'false'
        elif cond in LOOP_CONDS: skip = 'true'
        elif cond == 'd.conflict': skip = 'false'
        else: fail('%s: loop condition %r' % (where, cond))
        sets = {}
        for s in inner:
            if not (isinstance(s, ast.Assign) and len(s.targets) == 1 and isinstance(s.targets[0], ast.Attribute) and isinstance(s.targets[0].value, ast.Name) and s.targets[0].value.id == 'd'):
                fail('%s: statement in resolving loop: %s' % (where, ast.unparse(s)))
            sets[s.targets[0].attr] = s.value
        if set(sets) != {'action', 'conflict'} or not (isinstance(sets['conflict'], ast.Constant) and sets['conflict'].value is False):
            fail('%s: resolving loop must set d.action and d.conflict = False' % where)
        a = sets['action']
        if isinstance(a, ast.Constant) and isinstance(a.value, str): act = ('const', a.value)
        elif isinstance(a, ast.Name) and a.id in env: act = env[a.id]
        else: fail('%s: d.action = %s' % (where, ast.unparse(a)))
        if act[0] == 'const': return '(ArmSetAction %s %s %s)' % (coq_str(act[1]), skip, coq_bool(guard_dict))
        if guard_dict: fail('%s: dict guard with a derived action' % where)
        return '(ArmUseSide %s %s)' % (coq_str(act[1]), skip)
    act_assigns = [a for a in assigns if len(a.targets) == 1 and isinstance(a.targets[0], ast.Name) and a.targets[0].id == 'action']
    if act_assigns:
        # tryresolve:  action = "local"
        a = act_assigns[0]
        if len(body) != 1 or not (isinstance(a.value, ast.Constant) and isinstance(a.value.value, str)):
            fail('%s: unexpected statements beside the action assignment' % where)
        return '(ArmAction %s)' % coq_str(a.value.value)
    logs = [ast.unparse(c.func) for c in calls if ast.unparse(c.func).startswith('nbdime.log.')]
    other = [st for st in body if not isinstance(st, (ast.Pass, ast.Expr, ast.Assign))]
    if other: fail('%s: unrecognised statement %s' % (where, ast.unparse(other[0])[:60]))
    for st in body:
        if isinstance(st, ast.Assign) and not (len(st.targets) == 1 and isinstance(st.targets[0], ast.Name) and st.targets[0].id == 'msg'):
            fail('%s: unrecognised assignment %s' % (where, ast.unparse(st)[:60]))
    if 'nbdime.log.error' in logs: return 'ArmLogError'
    if 'nbdime.log.warning' in logs: return 'ArmWarn'
    if all(isinstance(st, ast.Pass) or (isinstance(st, ast.Expr) and isinstance(st.value, ast.Constant)) for st in body): return 'ArmPass'
    fail('%s: unrecognised arm' % where)


def chain_of(first_if, var, where):
    chain = []; node = first_if
    while True:
        ts = test_of(node.test, var)
        if ts is None: fail('%s: test %s is not a comparison of %s with string literals' % (where, ast.unparse(node.test), var))
        arm = classify_body(node.body, var, '%s[%s]' % (where, ts[0][1]))
        for kind, c in ts:
            chain.append('(%s %s, %s)' % ('TEq' if kind == 'eq' else 'TPrefix', coq_str(c), arm))
        if len(node.orelse) == 1 and isinstance(node.orelse[0], ast.If):
            node = node.orelse[0]; continue
        els = classify_body(node.orelse, var, where + '[else]') if node.orelse else 'ArmPass'
        return chain, els


GUARD = 'not (strategy and strategy != "mergetool" and decisions.has_conflicted())'


def resolver(tree, name):
    f = fdef(tree, name)
    if 'strategy' not in [a.arg for a in f.args.args]: fail('%s has no strategy parameter' % name)
    body = strip_doc(f.body)
    if len(body) != 2 or not all(isinstance(s, ast.If) for s in body): fail('%s: expected guard + one if/elif chain' % name)
    g = body[0]
    gt = g.test
    ok = isinstance(gt, ast.UnaryOp) and isinstance(gt.op, ast.Not) and isinstance(gt.operand, ast.BoolOp) and isinstance(gt.operand.op, ast.And) and len(gt.operand.values) == 3
    skip = None
    if ok:
        v0, v1, v2 = gt.operand.values
        ok = isinstance(v0, ast.Name) and v0.id == 'strategy' and ast.unparse(v2) == 'decisions.has_conflicted()' \
            and isinstance(v1, ast.Compare) and isinstance(v1.left, ast.Name) and v1.left.id == 'strategy' and len(v1.ops) == 1 and isinstance(v1.ops[0], ast.NotEq) \
            and isinstance(v1.comparators[0], ast.Constant) and isinstance(v1.comparators[0].value, str)
        if ok: skip = v1.comparators[0].value
    if not ok or len(g.body) != 1 or not (isinstance(g.body[0], ast.Return) and g.body[0].value is None) or g.orelse:
        fail('%s: guard is not `if %s: return`' % (name, GUARD))
    chain, els = chain_of(body[1], 'strategy', name)
    return '{| d_skip := [%s]; d_needs_conflict := true; d_chain := [%s]; d_else := %s |}' % (coq_str(skip), '; '.join(chain), els)


def tryresolve(tree):
    f = fdef(tree, 'tryresolve', 'MergeDecisionBuilder')
    params = [a.arg for a in f.args.args]
    if params != ['self', 'path', 'local_diff', 'remote_diff', 'strategy']: fail('tryresolve parameters %r' % params)
    body = strip_doc(f.body)
    kinds = [type(s).__name__ for s in body]
    if kinds != ['If', 'Assert', 'Assert', 'Assign', 'If', 'If', 'Return']: fail('tryresolve: statement sequence %r' % kinds)
    if ast.unparse(body[0].test) != 'not strategy' or not (len(body[0].body) == 1 and isinstance(body[0].body[0], ast.Return) and ast.unparse(body[0].body[0]) == 'return None'):
        fail('tryresolve: first statement is not `if not strategy: return None`')
    a1, a2 = ast.unparse(body[1].test), ast.unparse(body[2].test)
    # the second assert compares the two diffs: Python != (as pinned) or the strict JSON comparison (after the lead's fix);
    # which one is a source fact of the merge-core model (Gen/MergeFacts.v); both shapes are accepted here
    if a1 != 'local_diff and remote_diff' or a2 not in ('local_diff != remote_diff', 'not strict_equals(local_diff, remote_diff)'):
        fail('tryresolve: asserts are %r, %r' % (a1, a2))
    if ast.unparse(body[3]) != 'action = None': fail('tryresolve: action is not initialised to None')
    outer = body[4]
    if ast.unparse(outer.test) != 'strategy' or outer.orelse or len(outer.body) != 1 or not isinstance(outer.body[0], ast.If): fail('tryresolve: `if strategy:` wrapper shape')
    chain, els = chain_of(outer.body[0], 'strategy', 'tryresolve')
    reg = body[5]
    if ast.unparse(reg.test) != 'action is not None' or reg.orelse or len(reg.body) != 1: fail('tryresolve: registration test')
    call = reg.body[0].value if isinstance(reg.body[0], ast.Expr) else None
    if not (isinstance(call, ast.Call) and ast.unparse(call.func) == 'self.add_decision' and not call.args): fail('tryresolve: registration is not self.add_decision(**kw)')
    kws = {k.arg: ast.unparse(k.value) for k in call.keywords}
    want = {'path': 'path', 'conflict': 'False', 'action': 'action', 'local_diff': 'local_diff', 'remote_diff': 'remote_diff', 'strategy': 'strategy'}
    if kws != want: fail('tryresolve: add_decision keywords %r' % kws)
    if ast.unparse(body[6]) != 'return action': fail('tryresolve: does not return action')
    return '{| d_skip := []; d_needs_conflict := false; d_chain := [%s]; d_else := %s |}' % ('; '.join(chain), els)


def merge_strings_switch(tree):
    """_merge_strings: `if strategy == "inline-source": ... elif strategy == "union": ... else: <line merge>`; the strings that
    bypass the line-list merge, and that the strings resolver is called afterwards on every branch."""
    f = fdef(tree, '_merge_strings')
    ifs = [n for n in ast.walk(f) if isinstance(n, ast.If) and test_of(n.test, 'strategy')]
    tops = [n for n in ifs if not any(n in m.orelse for m in ifs)]
    if len(tops) != 1: fail('_merge_strings: expected one strategy switch')
    node = tops[0]; pre = []
    while True:
        ts = test_of(node.test, 'strategy')
        if ts is None: fail('_merge_strings: switch test')
        calls = [ast.unparse(c.func) for st in node.body for c in ast.walk(st) if isinstance(c, ast.Call)]
        for kind, c in ts:
            if kind != 'eq': fail('_merge_strings: prefix test')
            if calls == ['resolve_strategy_inline_source']: pre.append('(%s, SwInlineSource)' % coq_str(c))
            elif calls == ['decisions.local_then_remote']: pre.append('(%s, SwLocalThenRemote)' % coq_str(c))
            else: fail('_merge_strings: arm for %r calls %r' % (c, calls))
        if len(node.orelse) == 1 and isinstance(node.orelse[0], ast.If): node = node.orelse[0]; continue
        ecalls = [ast.unparse(c.func) for st in node.orelse for c in ast.walk(st) if isinstance(c, ast.Call)]
        if '_merge_lists' not in ecalls or 'base.splitlines' not in ecalls: fail('_merge_strings: else branch does not merge the line list')
        break
    # the statement following the switch in the same block must be the strings resolver
    parent = [n for n in ast.walk(f) if isinstance(n, ast.If) and tops[0] in n.orelse]
    if len(parent) != 1: fail('_merge_strings: switch is not in the else-branch of the recursion test')
    blk = parent[0].orelse
    after = blk[blk.index(tops[0]) + 1:]
    if len(after) != 1 or ast.unparse(after[0]) != 'resolve_conflicted_decisions_strings(path, decisions, strategy)':
        fail('_merge_strings: the switch is not followed by resolve_conflicted_decisions_strings(path, decisions, strategy)')
    if ast.unparse(parent[0].test) != '_merge_strings.recursion': fail('_merge_strings: recursion test')
    return '[' + '; '.join(pre) + ']'


def merge_lists_pr_arm(tree):
    """the list_strategy == "use-..." tests of the P/R, R/P arm of _merge_lists -> [(string, builder method)]"""
    f = fdef(tree, '_merge_lists')
    out = []
    for n in ast.walk(f):
        if isinstance(n, ast.If):
            ts = test_of(n.test, 'list_strategy')
            if ts:
                if len(n.body) != 1 or not isinstance(n.body[0], ast.Expr) or not isinstance(n.body[0].value, ast.Call): fail('_merge_lists: list_strategy arm body')
                c = n.body[0].value
                fn = ast.unparse(c.func)
                if not fn.startswith('decisions.') or [ast.unparse(a) for a in c.args] != ['path', 'p0', 'p1'] or c.keywords: fail('_merge_lists: list_strategy arm call %s' % ast.unparse(c))
                for kind, s in ts:
                    if kind != 'eq': fail('_merge_lists: list_strategy prefix test')
                    out.append('(%s, %s)' % (coq_str(s), coq_str(fn[len('decisions.'):])))
    if not out: fail('_merge_lists: no list_strategy tests found')
    return '[' + '; '.join(out) + ']'


def root_resolution(tree):
    f = fdef(tree, 'decide_merge_with_diff')
    src = [ast.unparse(s) for s in f.body]
    if "strategy = strategies.get('/')" not in src or 'resolve_strategy_generic(path, decisions, strategy)' not in src:
        fail('decide_merge_with_diff: root resolution `strategy = strategies.get("/"); resolve_strategy_generic(path, decisions, strategy)` not found')
    if src.index("strategy = strategies.get('/')") > src.index('resolve_strategy_generic(path, decisions, strategy)'): fail('decide_merge_with_diff: order')
    return True


APL_PINNED = ['n = len(target_path)', 'assert common_path[:n] == target_path', 'if n == len(target_path):\n    return diff',
              'remainder_path = tuple(reversed(common_path[n:]))', 'newdiff = []',
              'for d in diff:\n    nd = d\n    assert nd is not None\n    for key in remainder_path:\n        nd = op_patch(key, nd)\n    newdiff.append(nd)',
              'return newdiff']
APL_FIXED = ['n = len(target_path)', 'assert common_path[:n] == target_path', 'if not diff:\n    return []', 'if n == len(common_path):\n    return diff',
             'remainder_path = tuple(reversed(common_path[n:]))', 'newdiff = []',
             'for d in diff:\n    nd = d\n    assert nd is not None\n    for key in remainder_path:\n        nd = op_patch(key, [nd])\n    newdiff.append(nd)',
             'return newdiff']
COLLECT_DIFFS = ['local_diff = []', 'remote_diff = []',
                 'for d in decisions:\n    ld = adjust_patch_level(path, d.common_path, d.local_diff)\n    rd = adjust_patch_level(path, d.common_path, d.remote_diff)\n    local_diff.extend(ld)\n    remote_diff.extend(rd)',
                 'local_diff = combine_patches(local_diff)', 'remote_diff = combine_patches(remote_diff)', 'return (local_diff, remote_diff)']


def apl_variant(tree):
    """adjust_patch_level has one of two known bodies (as pinned / as repaired by notes/C03-fix-2.diff); collect_diffs as pinned"""
    body = [ast.unparse(st) for st in strip_doc(fdef(tree, 'adjust_patch_level').body)]
    cd = [ast.unparse(st) for st in strip_doc(fdef(tree, 'collect_diffs').body)]
    # an unrecognised body is reported as APLOther: the Gallina model then has no claim about the clear-all arm and the executed
    # correspondence of C03 (clear_all_correspondence) reports the disagreement -- without failing the translator for every property
    if cd != COLLECT_DIFFS: return 'APLOther'
    if body == APL_PINNED: return 'APLPinned'
    if body == APL_FIXED: return 'APLFixed'
    return 'APLOther'


def countering(tree):
    for st in tree.body:
        if isinstance(st, ast.Assign) and len(st.targets) == 1 and isinstance(st.targets[0], ast.Name) and st.targets[0].id == 'countering_strategies':
            if isinstance(st.value, ast.Tuple) and all(isinstance(e, ast.Constant) and isinstance(e.value, str) for e in st.value.elts):
                return [e.value for e in st.value.elts]
    fail('generic.py: countering_strategies tuple not found')


# ------------------------------------------------------------------ (3) path kinds from the schema
def schema_kinds(schema):
    kinds = {}
    def deref(n):
        seen = 0
        while isinstance(n, dict) and '$ref' in n:
            ref = n['$ref']
            if not ref.startswith('#/'): fail('schema: external $ref')
            t = schema
            for part in ref[2:].split('/'): t = t[part]
            n = dict(t); seen += 1
            if seen > 20: fail('schema: $ref loop')
        return n
    def is_multiline(n):
        alts = n.get('oneOf')
        if not alts or len(alts) != 2: return False
        ts = [deref(a) for a in alts]
        return sorted(str(t.get('type')) for t in ts) == ['array', 'string'] and all(deref(t.get('items', {'type': 'string'})).get('type') == 'string' for t in ts if t.get('type') == 'array')
    def put(path, k):
        old = kinds.get(path)
        kinds[path] = k if old in (None, k) else 'PMixed'
    def walk(n, path, depth):
        if depth > 12: fail('schema: too deep')
        n = deref(n)
        if is_multiline(n): put(path, 'PString'); return
        for comb in ('oneOf', 'anyOf', 'allOf'):
            if comb in n:
                for a in n[comb]: walk(a, path, depth + 1)
                return
        t = n.get('type')
        ts = set(t) if isinstance(t, list) else ({t} if t else set())
        if 'enum' in n and not ts: put(path, 'PLeaf'); return
        if ts == {'object'}:
            put(path, 'PDict')
            for k, sub in sorted(n.get('properties', {}).items()):
                walk(sub, (path if path != '/' else '') + '/' + k, depth + 1)
        elif ts == {'array'}:
            put(path, 'PList')
            if isinstance(n.get('items'), dict): walk(n['items'], (path if path != '/' else '') + '/*', depth + 1)
        elif ts == {'string'}: put(path, 'PString')
        elif ts and ts <= {'integer', 'number', 'boolean', 'null'}: put(path, 'PLeaf')
        else: put(path, 'PMixed')
    walk(schema, '/', 0)
    return kinds


# ------------------------------------------------------------------ emit
def opt_str(s):
    return 'None' if s is None else '(Some %s)' % coq_str(s)


def cfg_term(c):
    for k, v in c['table']:
        if not isinstance(k, str) or not (v is None or isinstance(v, str)): fail('strategy table entry %r: %r' % (k, v))
    if not all(isinstance(t, str) for t in c['transients']): fail('transients %r' % c['transients'])
    if c['fall_back'] is not None: fail('Strategies.fall_back = %r is not modelled' % (c['fall_back'],))
    if not isinstance(c['merge'], str): fail('merge strategy %r' % (c['merge'],))
    return ('{| cfg_merge := %s; cfg_input := %s; cfg_output := %s; cfg_ignore_transients := %s;\n     cfg_table := [%s];\n     cfg_transients := [%s] |}'
            % (coq_str(c['merge']), opt_str(c['input']), opt_str(c['output']), coq_bool(c['ignore_transients']),
               '; '.join('(%s, %s)' % (coq_str(k), opt_str(v)) for k, v in c['table']),
               '; '.join(coq_str(t) for t in c['transients'])))


def main():
    web = web_strategy_constant()
    tmp = tempfile.mkdtemp(prefix='nbv_gs_')
    try:
        env = {'HOME': tmp, 'JUPYTER_CONFIG_DIR': os.path.join(tmp, 'jc'), 'JUPYTER_CONFIG_PATH': os.path.join(tmp, 'jp'),
               'JUPYTER_DATA_DIR': os.path.join(tmp, 'jd'), 'XDG_CONFIG_HOME': os.path.join(tmp, 'xdg'), 'JUPYTER_PATH': os.path.join(tmp, 'jpp')}
        data = run_in_repo(INTROSPECT % {'MERGETOOL': web}, env)
    finally:
        shutil.rmtree(tmp, ignore_errors=True)
    acts = data['actions']
    if set(acts) != {'merge_strategy', 'input_strategy', 'output_strategy', 'ignore_transients'}:
        fail('nbmerge parser: strategy options are %r' % sorted(acts))
    for d in ('merge_strategy', 'input_strategy', 'output_strategy'):
        a = acts[d]
        if a['cls'] != '_StoreAction' or a['nargs'] is not None or not a['choices'] or not all(isinstance(c, str) for c in a['choices']) or len(a['flags']) != 1:
            fail('nbmerge parser: option %s changed shape: %r' % (d, a))
    if acts['merge_strategy']['default'] not in acts['merge_strategy']['choices']: fail('--merge-strategy default is not one of its choices')
    for d in ('input_strategy', 'output_strategy'):
        if acts[d]['default'] is not None: fail('%s default is %r, expected None' % (d, acts[d]['default']))
    t = acts['ignore_transients']
    if t['cls'] != '_StoreFalseAction' or t['default'] is not True or len(t['flags']) != 1: fail('nbmerge parser: --no-ignore-transients changed shape: %r' % t)
    nexp = len(acts['merge_strategy']['choices']) * (len(acts['input_strategy']['choices']) + 1) * (len(acts['output_strategy']['choices']) + 1) * 2
    if len(data['configs']) != nexp: fail('enumerated %d configurations, expected %d' % (len(data['configs']), nexp))
    if data['atomic_other']: fail('atomic_paths with false values: %r' % data['atomic_other'])

    gtree = ast.parse(open(os.path.join(REPO, 'nbdime', 'merging', 'generic.py'), encoding='utf8').read())
    stree = ast.parse(open(os.path.join(REPO, 'nbdime', 'merging', 'strategies.py'), encoding='utf8').read())
    dtree = ast.parse(open(os.path.join(REPO, 'nbdime', 'merging', 'decisions.py'), encoding='utf8').read())
    root_resolution(gtree)

    kinds = schema_kinds(data['schema'])
    used = set()
    for c in data['configs'] + [data['web'], data['noargs']]:
        used |= {k for k, _ in c['table']}
    missing = sorted(p for p in used if p not in kinds)
    if missing: fail('paths in the strategy tables that the nbformat schema does not describe: %r' % missing)
    # keep the table small: the paths used, their ancestors and their children
    def anc(p):
        parts = [x for x in p.split('/') if x]
        return ['/'] + ['/' + '/'.join(parts[:i]) for i in range(1, len(parts) + 1)]
    keep = set()
    for p in used: keep |= set(anc(p))
    keep |= {p for p in kinds if any(p != q and anc(p)[-2:-1] == [q] for q in used)}

    L = []
    L.append('(* GENERATED by tools/gen/gen_strategies.py from nbdime/merging/{notebooks,strategies,decisions,generic}.py, nbdime/nbmergeapp.py,')
    L.append('   nbdime/webapp/nbdimeserver.py (executed / AST) and the installed nbformat v4 schema -- do not edit. *)')
    L.append('From Coq Require Import List NArith String.')
    L.append('From NB Require Import Base.Json Base.Res Diff.Codec Merge.StrategyBase.')
    L.append('Import ListNotations.')
    L.append('')
    for d in ('merge_strategy', 'input_strategy', 'output_strategy'):
        L.append('Definition cli_%s_choices : list pystr := [%s].' % (d, '; '.join(coq_str(c) for c in acts[d]['choices'])))
    L.append('Definition cli_merge_strategy_default : pystr := %s.' % coq_str(acts['merge_strategy']['default']))
    L.append('Definition web_merge_strategy : pystr := %s.' % coq_str(web))
    L.append('Definition generic_conflict_strategies : list pystr := [%s].' % '; '.join(coq_str(c) for c in data['generic_conflict_strategies']))
    L.append('Definition countering_strategies : list pystr := [%s].' % '; '.join(coq_str(c) for c in countering(gtree)))
    L.append('')
    L.append('(* dispatch chains, in source order *)')
    L.append('Definition src_tryresolve : dispatcher_src :=\n  %s.' % tryresolve(dtree))
    for nm in ('resolve_strategy_generic', 'resolve_conflicted_decisions_list', 'resolve_conflicted_decisions_dict', 'resolve_conflicted_decisions_strings'):
        L.append('Definition src_%s : dispatcher_src :=\n  %s.' % (nm, resolver(stree, nm)))
    L.append('Definition adjust_patch_level_variant : apl_variant := %s.' % apl_variant(stree))
    L.append('Definition src_merge_strings_switch : list (pystr * string_switch) := %s.' % merge_strings_switch(gtree))
    L.append('Definition src_merge_lists_pr_arm : list (pystr * pystr) := %s.' % merge_lists_pr_arm(gtree))
    L.append('')
    L.append('(* nbformat %s, v4 schema shape: kinds of the paths mentioned by the tables, their ancestors and children *)' % data['nbformat_version'])
    L.append('Definition schema_kinds : list (pystr * pkind) :=\n  [%s].' % ';\n   '.join('(%s, %s)' % (coq_str(p), kinds[p]) for p in sorted(keep)))
    L.append('Definition atomic_paths : list pystr := [%s].' % '; '.join(coq_str(p) for p in data['atomic_paths']))
    L.append('')
    L.append('Definition cli_configs : list config :=\n  [%s].' % ';\n   '.join(cfg_term(c) for c in data['configs']))
    L.append('Definition web_config : config :=\n  %s.' % cfg_term(data['web']))
    L.append('Definition noargs_config : config :=\n  %s.' % cfg_term(dict(data['noargs'], merge=acts['merge_strategy']['default'], input=None, output=None, ignore_transients=True)))
    L.append('Definition all_configs : list config := cli_configs ++ [web_config].')
    L.append('')
    write_if_changed('Strategies.v', '\n'.join(L) + '\n')


if __name__ == '__main__':
    try:
        main()
    except GenError as e:
        print('GENERROR', e, file=sys.stderr)
        sys.exit(2)
