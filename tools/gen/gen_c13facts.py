#!/venv/bin/python
"""Gen/C13Facts.v: source facts for the store model of C13, read off the AST of
nbdime/patching.py (patch_list, patch_dict), nbdime/diffing/notebooks.py (diff_single_outputs) and
nbdime/merging/decisions.py (MergeDecisionBuilder.validated, apply_decisions).

Fail-closed: every statement that stores into / mutates an object in these functions must be one of the shapes
the model Diff/Store.v knows; anything else is a GENERROR (exit 2)."""
import sys, os, ast
sys.path.insert(0, os.path.dirname(os.path.abspath(__file__)))
from common import *

OUTPUTS = ['C13Facts.v']

MUTATORS = {'pop', 'append', 'extend', 'insert', 'remove', 'clear', 'update', 'sort', 'reverse', 'setdefault',
            'popitem', 'add', 'discard', '__setitem__', '__delitem__', '__setattr__'}

def parse(rel):
    path = os.path.join(REPO, rel)
    try:
        return ast.parse(open(path).read(), filename=path)
    except Exception as e:
        raise GenError('cannot parse %s: %s' % (rel, e))

def find_func(tree, name, cls=None):
    body = tree.body
    if cls:
        cs = [n for n in body if isinstance(n, ast.ClassDef) and n.name == cls]
        if len(cs) != 1: raise GenError('class %s not found' % cls)
        body = cs[0].body
    fs = [n for n in body if isinstance(n, ast.FunctionDef) and n.name == name]
    if len(fs) != 1: raise GenError('function %s not found exactly once' % name)
    return fs[0]

def src(n):
    return ast.unparse(n)

def root_name(n):
    while isinstance(n, (ast.Attribute, ast.Subscript, ast.Call)):
        n = n.func if isinstance(n, ast.Call) else n.value
    return n.id if isinstance(n, ast.Name) else None

def is_deepcopy(n):
    return (isinstance(n, ast.Call) and src(n.func) in ('copy.deepcopy', 'deepcopy') and len(n.args) == 1 and not n.keywords)

# ------------------------------------------------------------------ patching.py
def classify_inserted(x):
    """what is stored into newobj: ('rec'|'diffval'|'untouched', copied?)"""
    s = src(x)
    if s in ('e.value', 'e.valuelist'): return ('diffval', False)
    if is_deepcopy(x) and src(x.args[0]) in ('e.value', 'e.valuelist'): return ('diffval', True)
    if isinstance(x, ast.Call) and src(x.func) == 'patch' and len(x.args) == 2 and src(x.args[1]) == 'e.diff' \
            and src(x.args[0]) in ('obj[index]', 'obj[key]'):
        return ('rec', True)
    if isinstance(x, ast.GeneratorExp) or isinstance(x, ast.ListComp):
        if len(x.generators) != 1 or x.generators[0].ifs: raise GenError('unrecognised comprehension: ' + s)
        g = x.generators[0]
        if src(g.target) != 'value' or src(g.iter) not in ('obj[take:index]', 'obj[take:len(obj)]', 'obj[take:]'):
            raise GenError('unrecognised comprehension: ' + s)
        if src(x.elt) == 'value': return ('untouched', False)
        if is_deepcopy(x.elt) and src(x.elt.args[0]) == 'value': return ('untouched', True)
        raise GenError('unrecognised comprehension element: ' + s)
    if s in ('obj[take:index]', 'obj[take:len(obj)]', 'obj[take:]', 'obj[key]'): return ('untouched', False)
    if is_deepcopy(x) and src(x.args[0]) in ('obj[take:index]', 'obj[take:len(obj)]', 'obj[take:]', 'obj[key]'):
        return ('untouched', True)
    raise GenError('unrecognised value stored into the patched object: ' + s)

def patch_sites(fn, expect):
    sites = []
    for n in ast.walk(fn):
        if isinstance(n, ast.Call) and isinstance(n.func, ast.Attribute) and n.func.attr in MUTATORS:
            tgt = root_name(n.func.value)
            if tgt == 'newobj' and n.func.attr in ('extend', 'append') and len(n.args) == 1:
                sites.append(classify_inserted(n.args[0]))
            elif tgt == 'deleted_keys' and n.func.attr == 'add':
                pass
            else:
                raise GenError('%s: unexpected mutating call %s' % (fn.name, src(n)))
        if isinstance(n, (ast.Assign, ast.AugAssign, ast.Delete, ast.AnnAssign)):
            targets = n.targets if isinstance(n, (ast.Assign, ast.Delete)) else [n.target]
            for t in targets:
                if isinstance(t, ast.Name): continue
                if isinstance(t, ast.Subscript) and src(t) == 'newobj[key]' and isinstance(n, ast.Assign):
                    sites.append(classify_inserted(n.value))
                else:
                    raise GenError('%s: unexpected store %s' % (fn.name, src(n)))
    got = {}
    for k, c in sites: got.setdefault(k, []).append(c)
    counts = {k: len(v) for k, v in got.items()}
    if counts != expect:
        raise GenError('%s: store sites %r, model expects %r' % (fn.name, counts, expect))
    return got

def patching_facts():
    tree = parse('nbdime/patching.py')
    pl = patch_sites(find_func(tree, 'patch_list'), {'untouched': 2, 'diffval': 3, 'rec': 1})
    pd = patch_sites(find_func(tree, 'patch_dict'), {'untouched': 1, 'diffval': 2, 'rec': 1})
    facts = {}
    for k in ('untouched', 'diffval'):
        vals = set(pl[k]) | set(pd[k])
        if len(vals) != 1:
            raise GenError('patch_list/patch_dict copy some %s values and reuse others: the store model has one flag per kind' % k)
        facts[k] = vals.pop()
    # patch_dict wraps the result: NotebookNode(newobj) is a new dict holding the same values
    ret = [n for n in ast.walk(find_func(tree, 'patch_dict')) if isinstance(n, ast.Return)]
    if len(ret) != 1 or src(ret[0].value) not in ('NotebookNode(newobj)', 'newobj'):
        raise GenError('patch_dict: unrecognised return ' + (src(ret[0]) if ret else ''))
    ret = [n for n in ast.walk(find_func(tree, 'patch_list')) if isinstance(n, ast.Return)]
    if len(ret) != 1 or src(ret[0].value) != 'newobj':
        raise GenError('patch_list: unrecognised return')
    return facts

# ------------------------------------------------------------------ diff_single_outputs
def dso_facts():
    tree = parse('nbdime/diffing/notebooks.py')
    fn = find_func(tree, 'diff_single_outputs')
    ifs = [n for n in fn.body if isinstance(n, ast.If)]
    if len(ifs) != 1: raise GenError('diff_single_outputs: expected exactly one top-level if')
    br = ifs[0]
    if 'display_data' not in src(br.test) or 'execute_result' not in src(br.test) or 'a.output_type' not in src(br.test):
        raise GenError('diff_single_outputs: unrecognised branch condition ' + src(br.test))
    body = list(br.body)
    # every statement that can mutate a or b, in order
    seq = []
    protected = []
    def scan(stmts, in_finally=False):
        for st in stmts:
            if isinstance(st, ast.Try):
                if st.handlers or st.orelse: raise GenError('diff_single_outputs: unrecognised try statement')
                scan(st.body); scan(st.finalbody, True); continue
            s = src(st)
            for obj in ('a', 'b'):
                if s == "tmp_data = %s.pop('data')" % obj: seq.append(('pop', obj)); break
                if s == '%s_conj = copy.deepcopy(%s)' % (obj, obj): seq.append(('copy', obj)); break
                if s in ('%s.data = tmp_data' % obj, "%s['data'] = tmp_data" % obj):
                    seq.append(('restore', obj)); protected.append(in_finally); break
            else:
                # any other statement must not store into / call a mutator on a or b
                for n in ast.walk(st):
                    if isinstance(n, (ast.Assign, ast.AugAssign, ast.Delete)):
                        targets = n.targets if isinstance(n, (ast.Assign, ast.Delete)) else [n.target]
                        for t in targets:
                            if not isinstance(t, ast.Name) and root_name(t) in ('a', 'b'):
                                raise GenError('diff_single_outputs: unexpected store ' + src(n))
                    if isinstance(n, ast.Call) and isinstance(n.func, ast.Attribute) and n.func.attr in MUTATORS \
                            and root_name(n.func.value) in ('a', 'b'):
                        raise GenError('diff_single_outputs: unexpected mutating call ' + src(n))
                    if isinstance(n, ast.Call) and src(n.func) in ('diff', 'diff_mime_bundle'):
                        args = [src(x) for x in n.args]
                        if args[:2] not in (['a_conj', 'b_conj'], ['a.data', 'b.data']):
                            raise GenError('diff_single_outputs: nested differ called on ' + ', '.join(args))
    scan(body)
    want = [('pop', 'a'), ('copy', 'a'), ('restore', 'a'), ('pop', 'b'), ('copy', 'b'), ('restore', 'b')]
    if seq != want:
        raise GenError('diff_single_outputs: pop/deepcopy/restore sequence is %r, model expects %r' % (seq, want))
    if len(set(protected)) != 1:
        raise GenError('diff_single_outputs: only one of the two restores is in a finally clause')
    return {'protected': protected[0]}

# ------------------------------------------------------------------ decisions.py
def decisions_facts():
    tree = parse('nbdime/merging/decisions.py')
    v = find_func(tree, 'validated', 'MergeDecisionBuilder')
    stmts = [s for s in v.body if not (isinstance(s, ast.Expr) and isinstance(s.value, ast.Constant))]
    if len(stmts) != 2 or not isinstance(stmts[0], ast.For) or not isinstance(stmts[1], ast.Return):
        raise GenError('validated: unrecognised body')
    loop = stmts[0]
    if src(loop.target) != 'd' or src(loop.iter) != 'self.decisions' or len(loop.body) != 1 \
            or src(loop.body[0]).replace('"', "'") != "if 'strategy' in d:\n    del d['strategy']":
        raise GenError('validated: unrecognised loop ' + src(loop))
    if not src(stmts[1].value).startswith('sorted(self.decisions'):
        raise GenError('validated: unrecognised return ' + src(stmts[1]))
    ap = find_func(tree, 'apply_decisions')
    first = [n for n in ap.body if isinstance(n, ast.Assign) and src(n.targets[0]) == 'merged']
    if not first: raise GenError('apply_decisions: no assignment to merged')
    s = src(first[0].value)
    if s == 'copy.deepcopy(base)': copies = True
    elif s == 'base': copies = False
    else: raise GenError('apply_decisions: unrecognised initialisation of merged: ' + s)
    # stores in apply_decisions: only parent[last_key] = patch(resolved, diffs) and local names
    for n in ast.walk(ap):
        if isinstance(n, (ast.Assign, ast.AugAssign, ast.Delete)):
            targets = n.targets if isinstance(n, (ast.Assign, ast.Delete)) else [n.target]
            for t in targets:
                if isinstance(t, (ast.Name, ast.Tuple)): continue
                if src(t) == 'parent[last_key]' and src(n.value) == 'patch(resolved, diffs)': continue
                raise GenError('apply_decisions: unexpected store ' + src(n))
        if isinstance(n, ast.Call) and isinstance(n.func, ast.Attribute) and n.func.attr in MUTATORS:
            raise GenError('apply_decisions: unexpected mutating call ' + src(n))
    return {'copies_base': copies}

def main():
    try:
        p = patching_facts(); d = dso_facts(); m = decisions_facts()
        if '--print' in sys.argv:      # used by the check: facts of $NBDIME_REPO as JSON, nothing written
            import json
            print(json.dumps({'copy_untouched': p['untouched'], 'copy_diffvals': p['diffval'],
                              'dso_restore_protected': d['protected'], 'apply_copies_base': m['copies_base']}))
            return
        text = ('(* GENERATED by tools/gen/gen_c13facts.py from nbdime/patching.py, diffing/notebooks.py,\n'
                '   merging/decisions.py -- do not edit. *)\n'
                'From NB Require Import Diff.Store.\n\n'
                '(* patch_list / patch_dict: are untouched items deep-copied; are e.value / e.valuelist deep-copied *)\n'
                'Definition patch_cfg : pcfg := {| copy_untouched := %s; copy_diffvals := %s |}.\n\n'
                '(* diff_single_outputs: is "x.data = tmp_data" inside a finally clause *)\n'
                'Definition dso_restore_protected : bool := %s.\n\n'
                '(* apply_decisions: merged = copy.deepcopy(base) *)\n'
                'Definition apply_copies_base : bool := %s.\n'
                % (coq_bool(p['untouched']), coq_bool(p['diffval']), coq_bool(d['protected']), coq_bool(m['copies_base'])))
        write_if_changed('C13Facts.v', text)
    except GenError as e:
        print('GENERROR gen_c13facts: %s' % e, file=sys.stderr)
        sys.exit(2)

if __name__ == '__main__':
    main()
