#!/venv/bin/python
"""Gen/NbConfig.v: the notebook differ's path tables (predicates, differs, atomic paths, split mimes)
read from the live module objects of /repo's nbdime."""
import sys, os
sys.path.insert(0, os.path.dirname(os.path.abspath(__file__)))
from common import *

OUTPUTS = ['NbConfig.v']

CODE = r'''
import json, operator
import nbdime.diffing.notebooks as N
import nbdime.diffing.generic as G
import nbdime.diffing.sequences as S
N.reset_notebook_differ()
def fname(f):
    if f is operator.__eq__: return "operator.__eq__"
    return f.__module__ + "." + f.__qualname__
def table(dd):
    return {k: ([fname(f) for f in v] if isinstance(v, (list, tuple)) else fname(v)) for k, v in dd.default_values.items()}
cfg = N.notebook_config
out = {
 "pred_table": table(N.notebook_predicates),
 "pred_default": [fname(f) for f in N.notebook_predicates.default_factory()],
 "pred_keys": sorted(dict.keys(N.notebook_predicates)),
 "differ_table": table(N.notebook_differs),
 "differ_default": fname(N.notebook_differs.default_factory()),
 "differ_keys": sorted(dict.keys(N.notebook_differs)),
 "atomic": dict(cfg._atomic_paths),
 "split_mimes": list(N._split_mimes),
 "cfg_is_tables": cfg.predicates is N.notebook_predicates and cfg.differs is N.notebook_differs,
 "generic_pred_default": [fname(f) for f in G.default_predicates().default_factory()],
 "generic_differ_default": fname(G.default_differs().default_factory()),
 "seq_algorithm": S.diff_sequence_algorithm,
}
print(json.dumps(out))
'''

PREDS = {
    'operator.__eq__': 'PEq',
    'nbdime.utils.strict_equals': 'PStrictEq',
    'nbdime.diffing.notebooks.compare_cell_approximate': 'PCell 0',
    'nbdime.diffing.notebooks.compare_cell_moderate': 'PCell 1',
    'nbdime.diffing.notebooks.compare_cell_strict': 'PCell 2',
    'nbdime.diffing.notebooks.compare_cell_by_ids': 'PCell 3',
    'nbdime.diffing.notebooks.compare_output_approximate': 'POutput 0',
    'nbdime.diffing.notebooks.compare_output_strict': 'POutput 1',
}
DIFFERS = {
    'nbdime.diffing.generic.diff': 'DfDiff',
    'nbdime.diffing.generic.diff_string_lines': 'DfStringLines',
    'nbdime.diffing.generic.diff_sequence_multilevel': 'DfSeqMultilevel',
    'nbdime.diffing.notebooks.diff_single_outputs': 'DfSingleOutputs',
    'nbdime.diffing.notebooks.diff_attachments': 'DfAttachments',
    'nbdime.diffing.notebooks.diff_ignore': 'DfIgnore',
}

import ast

def value_compare_fact(relpath, funcname, replace_call):
    """How does <funcname> decide that two values differ before emitting a replace op?
    `a != b` -> False (Python ==), `not strict_equals(a, b)` -> True; anything else fails closed."""
    src = open(os.path.join(REPO, relpath)).read()
    tree = ast.parse(src)
    fn = [n for n in ast.walk(tree) if isinstance(n, ast.FunctionDef) and n.name == funcname]
    if len(fn) != 1: raise GenError('%s: function %s not found exactly once' % (relpath, funcname))
    hits = []
    for node in ast.walk(fn[0]):
        if isinstance(node, ast.If):
            body_src = ' '.join(ast.unparse(x) for x in node.body)
            if replace_call in body_src and len(node.body) == 1:
                hits.append(node.test)
    if len(hits) != 1: raise GenError('%s.%s: expected one guarded %s, found %d' % (relpath, funcname, replace_call, len(hits)))
    t = ast.unparse(hits[0])
    if t == 'avalue != bvalue': return False
    if t == 'not strict_equals(avalue, bvalue)': return True
    raise GenError('%s.%s: unrecognised value comparison %r' % (relpath, funcname, t))

STRICT_PROBE = r'''
import json
from nbdime.utils import strict_equals
vals = [None, True, False, 0, 1, 2, 0.0, -0.0, 1.0, 2.0, "a", "", [], {}, [1], [1.0], [True], {"a": 1}, {"a": 1.0}, {"a": True}, [[0]], [[False]]]
def canon(v): return json.dumps(v, sort_keys=True)
bad = [(repr(x), repr(y)) for x in vals for y in vals if bool(strict_equals(x, y)) != (canon(x) == canon(y))]
print(json.dumps(bad))
'''

def conj_fact():
    src = open(os.path.join(REPO, 'nbdime/diffing/notebooks.py')).read()
    tree = ast.parse(src)
    fn = [n for n in ast.walk(tree) if isinstance(n, ast.FunctionDef) and n.name == 'diff_single_outputs']
    if len(fn) != 1: raise GenError('diff_single_outputs not found exactly once')
    calls = [ast.unparse(n.value) for n in ast.walk(fn[0]) if isinstance(n, ast.Assign)
             and len(n.targets) == 1 and ast.unparse(n.targets[0]) == 'dd_conj']
    if calls == ['diff(a_conj, b_conj)']: return False
    if calls == ['diff(a_conj, b_conj, path=path, config=config)']: return True
    raise GenError('diff_single_outputs: unrecognised computation of dd_conj: %r' % calls)

def mime_guard_fact():
    src = open(os.path.join(REPO, 'nbdime/diffing/notebooks.py')).read()
    tree = ast.parse(src)
    fn = [n for n in ast.walk(tree) if isinstance(n, ast.FunctionDef) and n.name == 'add_mime_diff']
    if len(fn) != 1: raise GenError('add_mime_diff not found exactly once')
    tests = [ast.unparse(n.test) for n in ast.walk(fn[0]) if isinstance(n, ast.If)
             and any('dd = diff(avalue, bvalue)' == ast.unparse(x) for x in n.body)]
    plain = 'any((mimetype.startswith(tm) for tm in _split_mimes))'
    guarded = plain + ' and type(avalue) is type(bvalue) and isinstance(avalue, (str, list, dict))'
    if tests == [plain]: return False
    if tests == [guarded]: return True
    raise GenError('add_mime_diff: unrecognised condition for recursive diff: %r' % tests)

def main():
    d = run_in_repo(CODE)
    conj_cfg = conj_fact()
    mime_guard = mime_guard_fact()
    dict_strict = value_compare_fact('nbdime/diffing/generic.py', 'diff_dicts', 'di.replace(key, bvalue)')
    mime_strict = value_compare_fact('nbdime/diffing/notebooks.py', 'add_mime_diff', 'diffbuilder.replace(key, bvalue)')
    if dict_strict or mime_strict or 'nbdime.utils.strict_equals' in (d['pred_default'] + d['generic_pred_default']):
        bad = run_in_repo(STRICT_PROBE)
        if bad: raise GenError('strict_equals is modelled as JSON identity but differs on %r' % bad[:3])
    if not d['cfg_is_tables']:
        raise GenError('notebook_config no longer holds the module-level tables')
    if d['seq_algorithm'] != 'bruteforce':
        raise GenError('diff_sequence_algorithm is %r; only "bruteforce" is modelled' % d['seq_algorithm'])
    def pred(n):
        if n not in PREDS: raise GenError('unknown predicate ' + n)
        return '(' + PREDS[n] + ')'
    def differ(n):
        if n not in DIFFERS: raise GenError('unknown differ ' + n)
        return DIFFERS[n]
    # positional meaning of the oracle-backed predicates must be stable
    exp_cells = ['compare_cell_approximate', 'compare_cell_moderate', 'compare_cell_strict', 'compare_cell_by_ids']
    lines = []
    lines.append('(* GENERATED by tools/gen/gen_nbconfig.py from %s -- do not edit *)' % REPO)
    lines.append('From Coq Require Import List NArith String.')
    lines.append('From NB Require Import Base.Json Diff.Codec Diff.GenericDiff.')
    lines.append('Import ListNotations.')
    lines.append('')
    lines.append('Definition nb_config : config := {|')
    lines.append('  c_predicates := ' + coq_list('(%s, %s)' % (coq_str(k), coq_list([pred(x) for x in v]))
                                                 for k, v in sorted(d['pred_table'].items())) + ';')
    lines.append('  c_pred_default := ' + coq_list(pred(x) for x in d['pred_default']) + ';')
    lines.append('  c_pred_keys := ' + coq_list(coq_str(k) for k in d['pred_keys']) + ';')
    lines.append('  c_differs := ' + coq_list('(%s, %s)' % (coq_str(k), differ(v))
                                              for k, v in sorted(d['differ_table'].items())) + ';')
    lines.append('  c_differ_default := ' + differ(d['differ_default']) + ';')
    lines.append('  c_atomic := ' + coq_list('(%s, %s)' % (coq_str(k), coq_bool(v)) for k, v in sorted(d['atomic'].items())) + ';')
    lines.append('  c_split_mimes := ' + coq_list(coq_str(m) for m in d['split_mimes']) + ';')
    lines.append('  c_generic_pred := ' + coq_list(pred(x) for x in d['generic_pred_default']) + ';')
    lines.append('  c_dict_strict := %s; c_mime_strict := %s; c_conj_cfg := %s; c_mime_guard := %s |}.' % (coq_bool(dict_strict), coq_bool(mime_strict), coq_bool(conj_cfg), coq_bool(mime_guard)))
    lines.append('')
    lines.append('Definition generic_config : config := {|')
    lines.append('  c_predicates := [];')
    lines.append('  c_pred_default := ' + coq_list(pred(x) for x in d['generic_pred_default']) + ';')
    lines.append('  c_pred_keys := [];')
    lines.append('  c_differs := [];')
    lines.append('  c_differ_default := ' + differ(d['generic_differ_default']) + ';')
    lines.append('  c_atomic := [];')
    lines.append('  c_split_mimes := ' + coq_list(coq_str(m) for m in d['split_mimes']) + ';')
    lines.append('  c_generic_pred := ' + coq_list(pred(x) for x in d['generic_pred_default']) + ';')
    lines.append('  c_dict_strict := %s; c_mime_strict := %s; c_conj_cfg := %s; c_mime_guard := %s |}.' % (coq_bool(dict_strict), coq_bool(mime_strict), coq_bool(conj_cfg), coq_bool(mime_guard)))
    lines.append('')
    if d['differ_keys']:
        raise GenError('notebook_differs has explicit keys after reset: %r' % d['differ_keys'])
    write_if_changed('NbConfig.v', '\n'.join(lines) + '\n')

if __name__ == '__main__':
    try:
        main()
    except GenError as e:
        print('GENERROR gen_nbconfig:', e, file=sys.stderr)
        sys.exit(2)
