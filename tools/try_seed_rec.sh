#!/bin/bash
# try_seed_rec.sh seeded/Cxx_mY [PROP ...] : run the property's quick check against a scratch worktree of /repo HEAD with the
# seeded patch applied (NBDIME_REPO), without touching /repo; evidence and replays written meanwhile are discarded;
# the outcome is recorded in seeded/Cxx_mY/meta.json (tools/record_try.py).
cd /verif
d=$1; shift; id=$(basename $d); props="$@"; [ -z "$props" ] && props=${id%%_*}
wt=/tmp/try_$id; rm -rf $wt; git -C /repo worktree add --detach $wt HEAD -q || exit 2
git -C $wt apply /verif/$d/patch.diff || { echo "$id: patch does not apply"; git -C /repo worktree remove --force $wt; exit 2; }
for p in $props; do
  cp evidence/$p.json /tmp/try_ev_$id_$p.json 2>/dev/null
  ls replays > /tmp/try_rp_$id.before 2>/dev/null
  start=$(date +%s)
  NBDIME_REPO=$wt VERIF_SEED=${VERIF_SEED:-0} timeout 3000 bin/check $p --tier quick > /tmp/try_${id}_$p.log 2>&1; rc=$?
  echo "$id $p rc=$rc $(( $(date +%s) - start ))s  $(grep -c '^VIOLATION' /tmp/try_${id}_$p.log) violation(s): $(grep '^VIOLATION' /tmp/try_${id}_$p.log | head -2 | tr '\n' ' ')"
  python3 tools/record_try.py $d $p $rc /tmp/try_${id}_$p.log $(( $(date +%s) - start ))
  cp /tmp/try_ev_$id_$p.json evidence/$p.json 2>/dev/null
  for f in $(ls replays); do grep -qx "$f" /tmp/try_rp_$id.before || rm -f replays/$f; done
done
git -C /repo worktree remove --force $wt
