#!/usr/bin/env python3
"""Regenerate the generated part of DESIGN.md (between the STATE markers): per-property claims, findings, seeds."""
import json, os, glob, re
V = os.path.dirname(os.path.dirname(os.path.abspath(__file__)))
out = []
out.append('### 12.2 What is claimed per property (from manifest.d, kept in step with MANIFEST.json)\n')
for f in sorted(glob.glob(os.path.join(V, 'manifest.d', 'C*.json'))):
    c = json.load(open(f))
    out.append('**%s** — %s\n' % (c['property_id'], c['level_claimed']['text'].strip()))
    out.append('*Trusted / assumed:* %s\n' % c['level_note'].strip())
kf = json.load(open(os.path.join(V, 'known_findings.json')))['findings']
for f in sorted(glob.glob(os.path.join(V, 'known_findings.d', '*.json'))):
    kf += json.load(open(f)).get('findings', [])
out.append('\n### 12.3 Genuine defects of jupyter/nbdime found by the checks\n')
out.append('Repaired by a minimal unguarded `fix:` commit in /repo (the pinned suite passes unedited after each), recorded as `status: fixed` in known_findings.json (a fixed entry suppresses nothing):\n')
out.append('| Property | /repo commit | Signature | What failed |\n|---|---|---|---|')
for f in kf:
    if f.get('status') == 'fixed':
        out.append('| %s | %s | `%s` | %s |' % (f['property'], f.get('commit', ''), f['signature'], f.get('what', '').replace('|', '/').replace('\n', ' ')[:260]))
out.append('\nRecorded and NOT repaired (`status: known`; the check prints `KNOWN-FINDING` for cases with exactly this signature and still reports any other violation):\n')
out.append('| Property | Signature | What fails | Why not repaired |\n|---|---|---|---|')
why = {
 'C15': 'the repair is in the TypeScript sources (line splitting is shared with the CodeMirror merge views; character offsets); the JavaScript test suite cannot be run in this sandbox, so the patch (notes/C15-fix-*.diff) is not small-and-safe to commit blind',
 'C19': 'the repair (notes/C19-fix-1.diff) changes the configurable class hierarchy and the argument-parser defaulting in four places; larger than a minimal patch',
 'C04': 'no local patch: the faulty values come from how conflict decisions are re-levelled (clear on a list item) / from merging metadata.tags as an ordinary list / from aligning retyped cells by id (notes/C04.md)',
 'C09': 'same root cause as C04 cleared-output-is-empty-dict',
 'C10': 'where the missing line terminator should go is a behavioural decision for the maintainers (notes/C10.md)'}
for f in kf:
    if f.get('status') == 'known':
        out.append('| %s | `%s` | %s | %s |' % (f['property'], f['signature'], f.get('what', '').replace('|', '/').replace('\n', ' ')[:300], why.get(f['property'], '')))
sd = os.path.join(V, 'seeded')
rows = []
if os.path.isdir(sd):
    for d in sorted(os.listdir(sd)):
        mp = os.path.join(sd, d, 'meta.json')
        if os.path.exists(mp):
            m = json.load(open(mp))
            runs = m.get('checks_run', [])
            def fmt(r):
                sig = ''
                if r.get('what_failed'): sig = ' (' + str(r['what_failed'][0].get('signature'))[:70] + ')'
                return '%s: %s%s' % (r['check'], {'failing-input': 'VIOLATION with failing input', 'broken-obligation-only': 'VIOLATION, broken obligation, no-failing-input-found', 'missed': 'not reported'}.get(r['result'], r['result']), sig)
            rows.append('| %s | %s | %s | %s |' % (d, ', '.join(m.get('files', [])), m.get('what', '').replace('|', '/')[:160],
                                                 '; '.join(fmt(r) for r in runs).replace('|', '/') or '(not run yet)'))
out.append('\n### 12.4 Seeded defects (written by independent sub-agents from the property text only) and which checks catch them\n')
if rows:
    out.append('Each row: the seed was applied to /repo (`git -C /repo apply`), the quick tier of the named checks was run with seed 0, and the patch was undone (`tools/run_seeds.sh`).  "failing input" = the check exhibited a concrete input/history on which the property fails; "broken obligation" = only a proof obligation, translator or model/implementation correspondence broke.\n')
    out.append('| Seed | File(s) changed | Change | Result of the quick checks |\n|---|---|---|---|')
    out += rows
else:
    out.append('(matrix not generated yet)')
text = '\n'.join(out) + '\n'
p = os.path.join(V, 'DESIGN.md')
s = open(p).read()
b, e = '<!-- STATE-BEGIN -->', '<!-- STATE-END -->'
if b in s:
    s = s[:s.index(b) + len(b)] + '\n' + text + s[s.index(e):]
else:
    s += '\n' + b + '\n' + text + e + '\n'
open(p, 'w').write(s)
print('DESIGN.md state section: %d lines' % text.count('\n'))
