#!/usr/bin/env python3
"""Assemble /verif/seeded/<Cxx>_<m>/ from the sub-agents' deliveries in /tmp/seed_out and the
confirmation results in /tmp/confirm (tools/confirm_seed.sh).  Run by hand; not part of any check."""
import json, os, re, shutil, subprocess, sys
OUT = '/verif/seeded'
props = {json.loads(l)['id']: json.loads(l) for l in open('/verif/properties.jsonl')}
head = subprocess.run(['git', '-C', '/repo', 'rev-parse', '--short', 'HEAD'], capture_output=True, text=True).stdout.strip()
items = []
for pid in sorted(props):
    for src, m, tag in [(pid, 'm1', 'm1'), (pid, 'm2', 'm2'), (pid + 'b', 'm1', 'm3'), (pid + 'R2', 'm1', 'm4'), (pid + 'R3', 'm1', 'm5'), (pid + 'R4', 'm1', 'm6'), (pid + 'R5', 'm1', 'm7'), (pid + 'R6', 'm1', 'm8'), (pid + 'R7', 'm1', 'm9'), (pid + 'R8', 'm1', 'm10')]:
        d = f'/tmp/seed_out/{src}/{m}'
        if os.path.isdir(d): items.append((pid, src, m, tag, d))
for pid, src, m, tag, d in items:
    cj = f'/tmp/confirm/{src}_{m}.json'
    if not os.path.exists(cj): print('unconfirmed', src, m); continue
    c = json.load(open(cj))
    ok = c.get('applies') == 1 and c.get('demo_clean_rc') == 0 and c.get('demo_patched_rc') not in (0, -1) and c.get('tests_rc') == 0
    dst = f'{OUT}/{pid}_{tag}'
    if not ok:
        print('NOT KEPT', pid, tag, c); shutil.rmtree(dst, ignore_errors=True); continue
    os.makedirs(dst, exist_ok=True)
    patch = next(p for p in [f'{d}/patch_head.diff', f'{d}/patch_rebased.diff', f'{d}/patch.diff'] if os.path.exists(p))
    shutil.copy(patch, f'{dst}/patch.diff')
    for f in ('demo.py', 'demo.sh', 'notes.md'):
        if os.path.exists(f'{d}/{f}'): shutil.copy(f'{d}/{f}', f'{dst}/{f}')
    notes = open(f'{d}/notes.md').read() if os.path.exists(f'{d}/notes.md') else ''
    title = next((l.lstrip('# ').strip() for l in notes.splitlines() if l.strip()), '')
    mm = re.search(r'(?is)(needed to manifest|what it needs to manifest|needs to manifest|to manifest)[^\n]*:?(.*?)(\n\s*\n|\nRan|\n#|\Z)', notes)
    needs = (mm.group(0).strip() if mm else '')[:1200]
    files = sorted(set(re.findall(r'^\+\+\+ b/(\S+)', open(patch).read(), re.M)))
    meta_path = f'{dst}/meta.json'
    old = json.load(open(meta_path)) if os.path.exists(meta_path) else {}
    meta = {'id': f'{pid}_{tag}', 'property': pid, 'what': title, 'files': files, 'needs_to_manifest': needs,
            'origin': 'fresh sub-agent given only the property text and a scratch worktree; patch rebased onto /repo HEAD where a fix commit touched the same lines' if os.path.basename(patch) != 'patch.diff' else 'fresh sub-agent given only the property text and a scratch worktree',
            'confirmed': {'repo_head': head, 'how': 'tools/confirm_seed.sh in a scratch worktree of /repo HEAD: demo on clean tree, git apply, demo on patched tree, pinned test suite on patched tree',
                          'demo_on_clean_tree_rc': c['demo_clean_rc'], 'demo_on_patched_tree_rc': c['demo_patched_rc'], 'pinned_suite_on_patched_tree': 'all baseline-passing tests still pass' if c['tests_rc'] == 0 else 'FAILS'},
            'checks_run': old.get('checks_run', [])}
    json.dump(meta, open(meta_path, 'w'), indent=1)
    print('kept', pid, tag, files)
