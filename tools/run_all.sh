#!/bin/bash
# tools/run_all.sh [tier]  -- run every enabled check on the current /repo tree, 3 at a time; summary on stdout
cd "$(dirname "$0")/.." || exit 1
tier=${1:-quick}
mkdir -p /tmp/nbv_runall
for id in $(cat manifest.d/ENABLED); do echo $id; done | xargs -P3 -I{} sh -c "bin/check {} --tier $tier > /tmp/nbv_runall/{}.log 2>&1; echo {} rc=\$? \$(tail -1 /tmp/nbv_runall/{}.log)"
