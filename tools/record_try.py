#!/usr/bin/env python3
"""record_try.py seeded/<id> <PROP> <rc> <log> <secs> : record the outcome of a tools/try_seed*.sh run in meta.json (checks_run)."""
import json, sys, re, os, shutil
d, p, rc, log, secs = sys.argv[1:]
txt = open(log, errors='replace').read()
viol = [l.strip() for l in txt.splitlines() if l.startswith('VIOLATION')]
kind = 'missed'
if viol:
    kind = 'broken-obligation-only' if all(l.endswith('no-failing-input-found') for l in viol) else 'failing-input'
meta = json.load(open(d + '/meta.json'))
runs = [r for r in meta.get('checks_run', []) if r.get('check') != p]
replays = []
for l in viol[:3]:
    m = re.search(r'replay=(\S+)', l)
    if m and os.path.exists(m.group(1)):
        try:
            body = json.load(open(m.group(1)))
            keep = d + '/replay_' + p + '_' + str(len(replays)) + '.json'
            if os.path.getsize(m.group(1)) < 200000: shutil.copy(m.group(1), keep)
            replays.append({'signature': body.get('signature') or body.get('obligation'), 'replay_copy': keep if os.path.exists(keep) else None})
        except Exception: replays.append({'path': m.group(1)})
runs.append({'check': p, 'tier': 'quick', 'seed': 0, 'exit': int(rc), 'seconds': int(secs), 'result': kind,
             'how': 'tools/try_seed_rec.sh: scratch worktree of /repo HEAD with the patch applied, passed to the check as NBDIME_REPO',
             'violation_lines': len(viol), 'first_violations': viol[:3], 'what_failed': replays})
meta['checks_run'] = runs
meta['detected_by'] = sorted({r['check'] for r in runs if r['result'] != 'missed'})
json.dump(meta, open(d + '/meta.json', 'w'), indent=1)
print(d, p, 'rc=' + rc, kind, secs + 's')
