#!/usr/bin/env python3
"""Assemble MANIFEST.json from manifest.d/*.json fragments (one per claimed property)."""
import json, os, glob
V = os.path.dirname(os.path.dirname(os.path.abspath(__file__)))
props = [json.loads(l)['id'] for l in open(os.path.join(V, 'properties.jsonl'))]
enabled_file = os.path.join(V, 'manifest.d', 'ENABLED')
enabled = set(open(enabled_file).read().split()) if os.path.exists(enabled_file) else None
checks = []
for f in sorted(glob.glob(os.path.join(V, 'manifest.d', 'C*.json'))):
    c = json.load(open(f))
    pid = c['property_id']
    if enabled is not None and pid not in enabled: continue
    c.setdefault('quick_cmd', 'bin/check %s --tier quick' % pid)
    c.setdefault('thorough_cmd', 'bin/check %s --tier thorough' % pid)
    c.setdefault('evidence_file', '/verif/evidence/%s.json' % pid)
    c.setdefault('replay_cmd_template', 'bin/check %s --replay {path}' % pid)
    c.setdefault('engine', 'coq-nb')
    checks.append(c)
claimed = {c['property_id'] for c in checks}
na_file = os.path.join(V, 'manifest.d', 'not_applicable.json')
na = json.load(open(na_file)) if os.path.exists(na_file) else {}
not_app = [{'property_id': p, 'reason': na.get(p, 'not yet claimed: model, theorem and tie for this property are not built yet (see DESIGN.md section 7 build order)')}
           for p in props if p not in claimed]
m = {
 'version': 1,
 'setup_cmd': 'make -C /verif setup',
 'hooks': {'guard': 'NBDIME_VERIF', 'enable': 'checks run nbdime from /repo with NBDIME_VERIF=1 in the environment; no in-tree hook exists, all observation is by wrappers installed from outside',
           'baseline_off_cmd': 'cd /repo && /venv/bin/python -m pytest -ra -q -p no:cacheprovider --timeout=900 --continue-on-collection-errors',
           'source_commits': [], 'add_only': True},
 'engines': [{'name': 'coq-nb', 'path': '/verif/coq', 'serves_properties': sorted(claimed),
              'kind_free_text': 'Rocq/Coq 8.16.1 development NB (models + theorems), Gen/*.v regenerated from /repo by tools/gen, extracted OCaml runner nbmodel for correspondence, Python harness for implementation-side search'}],
 'checks': checks,
 'not_applicable': not_app,
 'notes': 'Every check: regenerates coq/Gen from /repo, rebuilds the Coq closure of Props/Cxx.v (full .vo), re-reads Print Assumptions, runs model-vs-implementation correspondence and the property oracle on the implementation. known_findings.json lists genuine defects (fixed or known).',
}
json.dump(m, open(os.path.join(V, 'MANIFEST.json'), 'w'), indent=1)
print('MANIFEST.json: %d checks, %d not claimed' % (len(checks), len(not_app)))
