#!/bin/bash
# confirm_seed.sh Cxx mY : confirm a seeded defect against /repo HEAD in a scratch worktree; writes /tmp/confirm/Cxx_mY.json
id=$1; m=$2; src=/tmp/seed_out/$id/$m; wt=/tmp/confirm/wt_${id}_$m; out=/tmp/confirm/${id}_$m.json
mkdir -p /tmp/confirm; rm -rf $wt; git -C /repo worktree add --detach $wt HEAD -q 2>/dev/null || { echo "{\"id\":\"$id\",\"m\":\"$m\",\"error\":\"worktree\"}" > $out; exit 0; }
patch=$src/patch.diff; [ -f $src/patch_rebased.diff ] && patch=$src/patch_rebased.diff; [ -f $src/patch_head.diff ] && patch=$src/patch_head.diff
demo=$src/demo.py; runner="/venv/bin/python"; [ -f $src/demo.sh ] && { demo=$src/demo.sh; runner="bash"; }
export PYTHONHASHSEED=0
timeout 900 $runner $demo $wt > /tmp/confirm/${id}_${m}_clean.log 2>&1; rc_clean=$?
applies=1; git -C $wt apply $patch 2>/tmp/confirm/${id}_${m}_apply.log || applies=0
rc_patched=-1; tests=-1
if [ $applies = 1 ]; then
  timeout 900 $runner $demo $wt > /tmp/confirm/${id}_${m}_patched.log 2>&1; rc_patched=$?
  /tmp/seedkit/check_tests.py $wt > /tmp/confirm/${id}_${m}_tests.log 2>&1; tests=$?
fi
echo "{\"id\":\"$id\",\"m\":\"$m\",\"applies\":$applies,\"demo_clean_rc\":$rc_clean,\"demo_patched_rc\":$rc_patched,\"tests_rc\":$tests}" > $out
git -C /repo worktree remove --force $wt 2>/dev/null; rm -rf $wt
