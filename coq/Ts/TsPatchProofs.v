(* Agreement of the TypeScript patcher (Ts/TsPatch.v) with the Python patcher (Diff/Patch.v) on well-formed diffs:
   arrays (seq_go_agree), objects (obj_agree), and the whole recursive patcher given the string case
   (ts_patch_agrees_from_string_case; the string case itself is Ts/TsStringProofs.v), plus the refutations:
   exotic line separators (ts_patch_refuted) and astral code points (ts_patch_astral_refuted). *)
From Coq Require Import List NArith ZArith Bool Lia Arith.
From NB Require Import Base.Res.
From NB Require Import Base.Json.
From NB Require Import Base.PyStr.
From NB Require Import Diff.DiffFormat.
From NB Require Import Diff.Patch.
From NB Require Import Diff.Wf.
From NB Require Import Ts.TsWf.
From NB Require Import Ts.TsSplit.
From NB Require Import Ts.TsPatch.
From NB Require Import Ts.TsSplitProofs.
Import ListNotations.

(* ---------- arrays ---------- *)
Section SeqAgree.
  Variables rec_ts rec_py : json -> diff -> res json.
  Variable items : list json.
  Variable ok : json -> diff -> bool.
  Hypothesis Hrec : forall x dd, In x items -> ok x dd = true -> rec_ts x dd = rec_py x dd.

  Lemma seq_go_agree : forall d c add_ok take acc,
    wf_seq_c items ok c add_ok d = true ->
    ts_patch_seq_go rec_ts items take d acc = patch_list_go rec_py items take d acc.
  Proof.
    induction d as [|e r IH]; intros c add_ok take acc H; [reflexivity|].
    destruct e as [k v|k|k v|k vs|k len|k dd]; try discriminate H.
    - destruct k as [k|]; [|discriminate H]. destruct vs as [l|]; [|discriminate H].
      cbn [wf_seq_c] in H. repeat (apply andb_true_iff in H; destruct H as [H ?]).
      apply Nat.leb_le in H2.
      cbn [ts_patch_seq_go patch_list_go validate_seq_op dkey bind vitems].
      destruct (Nat.ltb (length items) k) eqn:E; [apply Nat.ltb_lt in E; lia|].
      cbn [bind]. eapply IH. eassumption.
    - destruct k as [k|]; [|discriminate H].
      cbn [wf_seq_c] in H. repeat (apply andb_true_iff in H; destruct H as [H ?]).
      apply negb_true_iff in H. apply Nat.eqb_neq in H. apply Nat.leb_le in H1.
      cbn [ts_patch_seq_go patch_list_go validate_seq_op dkey bind].
      destruct (Nat.leb (length items) k) eqn:E; [apply Nat.leb_le in E; lia|].
      destruct (Nat.ltb (length items) (k + len)) eqn:E2; [apply Nat.ltb_lt in E2; lia|].
      cbn [bind]. eapply IH. eassumption.
    - destruct k as [k|]; [|discriminate H].
      cbn [wf_seq_c] in H. repeat (apply andb_true_iff in H; destruct H as [H ?]).
      destruct (nth_error items k) as [x|] eqn:Ex; [|discriminate H1].
      assert (Hk : k < length items) by (apply nth_error_Some; congruence).
      cbn [ts_patch_seq_go patch_list_go validate_seq_op dkey bind].
      destruct (Nat.leb (length items) k) eqn:E; [apply Nat.leb_le in E; lia|].
      cbn [bind]. unfold nth_res. rewrite Ex. cbn [bind].
      rewrite (Hrec x dd (nth_error_In _ _ Ex) H1).
      destruct (rec_py x dd) as [p|err]; cbn [bind]; [|reflexivity].
      eapply IH. eassumption.
  Qed.
End SeqAgree.

(* ---------- association lists ---------- *)
Lemma str_eqb_neq a b : a <> b -> str_eqb a b = false.
Proof. intros H. destruct (str_eqb a b) eqn:E; [apply str_eqb_eq in E; contradiction | reflexivity]. Qed.

Lemma str_eqb_sym a b : str_eqb a b = str_eqb b a.
Proof.
  destruct (str_eqb a b) eqn:E.
  - apply str_eqb_eq in E. subst. symmetry. apply str_eqb_refl.
  - symmetry. apply str_eqb_neq. intros ->. rewrite str_eqb_refl in E. discriminate.
Qed.

Lemma obj_get_set_same k v l : obj_get k (obj_set k v l) = Some v.
Proof.
  induction l as [|[k1 v1] r IH]; cbn [obj_set obj_get].
  - rewrite str_eqb_refl. reflexivity.
  - destruct (str_cmp k k1) eqn:E; cbn [obj_get]; try (rewrite str_eqb_refl; reflexivity).
    destruct (str_eqb k k1) eqn:E2; [|exact IH].
    apply str_eqb_eq in E2. subst. rewrite (proj2 (str_cmp_eq k1 k1) eq_refl) in E. discriminate.
Qed.

Lemma obj_get_set_other k k' v l : k <> k' -> obj_get k (obj_set k' v l) = obj_get k l.
Proof.
  intros Hn. induction l as [|[k1 v1] r IH]; cbn [obj_set obj_get].
  - rewrite (str_eqb_neq _ _ Hn). reflexivity.
  - destruct (str_cmp k' k1) eqn:E; cbn [obj_get].
    + apply str_cmp_eq in E. subst k1. rewrite (str_eqb_neq _ _ Hn). reflexivity.
    + rewrite (str_eqb_neq _ _ Hn). reflexivity.
    + destruct (str_eqb k k1); [reflexivity | exact IH].
Qed.

Lemma obj_has_set x k v l : obj_has x (obj_set k v l) = str_eqb x k || obj_has x l.
Proof.
  unfold obj_has. destruct (str_eqb x k) eqn:E.
  - apply str_eqb_eq in E. subst. rewrite obj_get_set_same. reflexivity.
  - rewrite obj_get_set_other; [reflexivity|]. intros ->. rewrite str_eqb_refl in E. discriminate.
Qed.

Lemma existsb_keys_has k (base : list (pystr * json)) : existsb (str_eqb k) (map fst base) = obj_has k base.
Proof.
  unfold obj_has. induction base as [|[k1 v1] r IH]; cbn [map fst existsb obj_get]; [reflexivity|].
  destruct (str_eqb k k1); [reflexivity | exact IH].
Qed.

Lemma existsb_filter k (P : pystr -> bool) l :
  existsb (str_eqb k) (filter P l) = existsb (str_eqb k) l && P k.
Proof.
  induction l as [|x r IH]; cbn [filter existsb]; [reflexivity|].
  destruct (P x) eqn:Px; cbn [existsb]; rewrite IH.
  - destruct (str_eqb k x) eqn:E; cbn [orb]; [|reflexivity].
    apply str_eqb_eq in E. subst. rewrite Px. destruct (existsb (str_eqb x) r); reflexivity.
  - destruct (str_eqb k x) eqn:E; cbn [orb]; [|reflexivity].
    apply str_eqb_eq in E. subst. rewrite Px. rewrite !andb_false_r. reflexivity.
Qed.

Lemma filter_notin k (P : pystr -> bool) l :
  ~ In k l -> filter (fun x => P x && negb (str_eqb k x)) l = filter P l.
Proof.
  intros H. apply filter_ext_in. intros x Hx.
  rewrite str_eqb_neq; [apply andb_true_r|]. intros ->. contradiction.
Qed.

Lemma remove_first_filter k (P : pystr -> bool) l :
  NoDup l -> remove_first k (filter P l) = filter (fun x => P x && negb (str_eqb k x)) l.
Proof.
  induction 1 as [|x r Hx Hnd IH]; cbn [filter remove_first]; [reflexivity|].
  destruct (P x) eqn:Px; cbn [andb remove_first].
  - destruct (str_eqb k x) eqn:E; cbn [negb].
    + apply str_eqb_eq in E. subst. symmetry. apply filter_notin. exact Hx.
    + rewrite IH. reflexivity.
  - exact IH.
Qed.

Lemma nodup_get (base : list (pystr * json)) k v :
  NoDup (map fst base) -> In (k, v) base -> obj_get k base = Some v.
Proof.
  induction base as [|[k1 v1] r IH]; cbn [map fst]; intros Hnd Hin; [contradiction|].
  inversion Hnd as [|? ? Hx Hnd']; subst. cbn [obj_get]. destruct Hin as [Heq | Hin].
  - inversion Heq; subst. rewrite str_eqb_refl. reflexivity.
  - destruct (str_eqb k k1) eqn:E; [|apply IH; assumption].
    apply str_eqb_eq in E. subst. exfalso. apply Hx. apply in_map_iff. exists (k1, v). auto.
Qed.

Lemma keys_sorted_lt k v rest :
  keys_sorted ((k, v) :: rest) = true -> forall p, In p rest -> str_ltb k (fst p) = true.
Proof.
  revert k v. induction rest as [|[k1 v1] r IH]; intros k v H p Hin; [contradiction|].
  cbn [keys_sorted] in H. apply andb_true_iff in H as [H1 H2].
  destruct Hin as [<- | Hin]; [exact H1|].
  eapply str_ltb_trans; [exact H1|]. exact (IH k1 v1 H2 p Hin).
Qed.

Lemma keys_sorted_nodup kv : keys_sorted kv = true -> NoDup (map fst kv).
Proof.
  induction kv as [|[k v] r IH]; intros H; [constructor|].
  cbn [map fst]. constructor.
  - intros Hin. apply in_map_iff in Hin as [p [Hp Hin]].
    pose proof (keys_sorted_lt k v r H p Hin) as Hlt. rewrite Hp in Hlt.
    rewrite str_ltb_irrefl in Hlt. discriminate.
  - apply IH. destruct r as [|[k1 v1] r']; [reflexivity|].
    cbn [keys_sorted] in H. apply andb_true_iff in H as [_ H]. exact H.
Qed.

(* ---------- objects ---------- *)
Section ObjAgree.
  Variables rec_ts rec_py : json -> diff -> res json.
  Variable base : list (pystr * json).
  Variable ok : json -> diff -> bool.
  Hypothesis Hrec : forall k x dd, obj_get k base = Some x -> ok x dd = true -> rec_ts x dd = rec_py x dd.
  Hypothesis Hnd : NoDup (map fst base).

  Definition P (no : list (pystr * json)) (del : list pystr) (x : pystr) : bool :=
    negb (existsb (str_eqb x) del) && negb (obj_has x no).

  Definition lt_prev (prev : option pystr) (k' : pystr) : Prop :=
    match prev with None => False | Some p => k' = p \/ str_ltb k' p = true end.
  Definition prev_lt (prev : option pystr) (k : pystr) : Prop :=
    match prev with None => True | Some p => str_ltb p k = true end.
  Definition Inv (prev : option pystr) (no : list (pystr * json)) (del : list pystr) : Prop :=
    forall k', existsb (str_eqb k') del = true \/ obj_has k' no = true -> lt_prev prev k'.

  Lemma fresh prev no del k :
    Inv prev no del -> prev_lt prev k -> existsb (str_eqb k) del = false /\ obj_has k no = false.
  Proof.
    intros HI Hp.
    assert (Hno : ~ lt_prev prev k).
    { destruct prev as [p|]; cbn [lt_prev prev_lt] in *; [|tauto].
      intros [-> | Hlt].
      - rewrite str_ltb_irrefl in Hp. discriminate.
      - rewrite (str_ltb_asym _ _ Hlt) in Hp. discriminate. }
    split.
    - destruct (existsb (str_eqb k) del) eqn:E; [|reflexivity]. exfalso. apply Hno, HI. auto.
    - destruct (obj_has k no) eqn:E; [|reflexivity]. exfalso. apply Hno, HI. auto.
  Qed.

  Lemma lt_prev_step prev k k' : prev_lt prev k -> lt_prev prev k' -> lt_prev (Some k) k'.
  Proof.
    destruct prev as [p|]; cbn [lt_prev prev_lt]; [|tauto].
    intros Hp [-> | Hlt]; right; [exact Hp | eapply str_ltb_trans; eassumption].
  Qed.

  Lemma Inv_del prev no del k : Inv prev no del -> prev_lt prev k -> Inv (Some k) no (k :: del).
  Proof.
    intros HI Hp k' [H | H].
    - cbn [existsb] in H. apply orb_true_iff in H as [H | H].
      + apply str_eqb_eq in H. subst. left. reflexivity.
      + eapply lt_prev_step; [exact Hp | apply HI; auto].
    - eapply lt_prev_step; [exact Hp | apply HI; auto].
  Qed.

  Lemma Inv_set prev no del k v : Inv prev no del -> prev_lt prev k -> Inv (Some k) (obj_set k v no) del.
  Proof.
    intros HI Hp k' [H | H].
    - eapply lt_prev_step; [exact Hp | apply HI; auto].
    - rewrite obj_has_set in H. apply orb_true_iff in H as [H | H].
      + apply str_eqb_eq in H. subst. left. reflexivity.
      + eapply lt_prev_step; [exact Hp | apply HI; auto].
  Qed.

  Lemma keys_after_set no del k v :
    remove_first k (filter (P no del) (map fst base)) = filter (P (obj_set k v no) del) (map fst base).
  Proof.
    rewrite (remove_first_filter _ _ _ Hnd). apply filter_ext. intros x. unfold P.
    rewrite obj_has_set, (str_eqb_sym k x). rewrite negb_orb.
    destruct (existsb (str_eqb x) del), (str_eqb x k), (obj_has x no); reflexivity.
  Qed.

  Lemma keys_after_del no del k :
    remove_first k (filter (P no del) (map fst base)) = filter (P no (k :: del)) (map fst base).
  Proof.
    rewrite (remove_first_filter _ _ _ Hnd). apply filter_ext. intros x. unfold P. cbn [existsb].
    rewrite (str_eqb_sym k x). rewrite negb_orb.
    destruct (existsb (str_eqb x) del), (str_eqb x k), (obj_has x no); reflexivity.
  Qed.

  Lemma keys_after_add no del k v :
    obj_has k base = false ->
    filter (P no del) (map fst base) = filter (P (obj_set k v no) del) (map fst base).
  Proof.
    intros Hk. apply filter_ext_in. intros x Hx. unfold P. rewrite obj_has_set.
    rewrite str_eqb_neq; [reflexivity|]. intros ->.
    assert (existsb (str_eqb k) (map fst base) = true).
    { apply existsb_exists. exists k. split; [exact Hx | apply str_eqb_refl]. }
    rewrite existsb_keys_has in H. congruence.
  Qed.

  Lemma present_eq no del k :
    existsb (str_eqb k) (filter (P no del) (map fst base)) = obj_has k base && P no del k.
  Proof. rewrite existsb_filter, existsb_keys_has. reflexivity. Qed.

  Lemma obj_go_agree : forall d prev no del,
    wf_map_c base ok prev d = true -> Inv prev no del ->
    ts_patch_obj_go rec_ts base d no (filter (P no del) (map fst base)) =
    match patch_dict_go rec_py base d no del with
    | Ok (no', del') => Ok (no', filter (P no' del') (map fst base))
    | Err e => Err e
    end.
  Proof.
    induction d as [|e r IH]; intros prev no del H HI; [reflexivity|].
    cbn [wf_map_c] in H. destruct (dkey e) as [i|k] eqn:Ek; [discriminate H|].
    apply andb_true_iff in H as [H Hr]. apply andb_true_iff in H as [Hp He].
    assert (Hp' : prev_lt prev k) by (destruct prev; [exact Hp | exact I]).
    destruct (fresh prev no del k HI Hp') as [Fd Fn].
    assert (HPk : P no del k = true) by (unfold P; rewrite Fd, Fn; reflexivity).
    destruct e as [k0 v|k0|k0 v|k0 vs|k0 len|k0 dd]; cbn [dkey] in Ek; subst k0; try discriminate He;
      cbn [ts_patch_obj_go patch_dict_go validate_obj_op dkey]; rewrite present_eq, HPk, Fn.
    - apply negb_true_iff in He. rewrite He. cbn [andb bind].
      rewrite (keys_after_add no del k v He).
      apply (IH (Some k)); [exact Hr | apply (Inv_set prev); assumption].
    - rewrite He. cbn [andb bind]. rewrite keys_after_del.
      apply (IH (Some k)); [exact Hr | apply (Inv_del prev); assumption].
    - rewrite He, Fd. cbn [andb bind]. rewrite (keys_after_set no del k v).
      apply (IH (Some k)); [exact Hr | apply (Inv_set prev); assumption].
    - destruct (obj_get k base) as [x|] eqn:Ex; [|discriminate He].
      unfold obj_has. rewrite Ex, Fd. cbn [andb bind].
      rewrite (Hrec k x dd Ex He).
      destruct (rec_py x dd) as [p|err]; cbn [bind]; [|reflexivity].
      rewrite (keys_after_set no del k p).
      apply (IH (Some k)); [exact Hr | apply (Inv_set prev); assumption].
  Qed.

  (* the closing loops: remaining keys (TypeScript) vs items not mentioned (Python) *)
  Lemma final_agree no del : forall l acc,
    NoDup (map fst l) ->
    (forall p, In p l -> obj_get (fst p) base = Some (snd p)) ->
    (forall k, In k (map fst l) -> obj_has k acc = obj_has k no) ->
    fold_left (fun acc k => match obj_get k base with Some v => obj_set k v acc | None => acc end)
              (filter (P no del) (map fst l)) acc
    = fold_left (fun acc p => if existsb (str_eqb (fst p)) del || obj_has (fst p) acc then acc
                              else obj_set (fst p) (snd p) acc) l acc.
  Proof.
    induction l as [|[k v] r IH]; intros acc Hn Hget Hacc; [reflexivity|].
    cbn [map fst] in *. inversion Hn as [|? ? Hk Hn']; subst.
    cbn [filter fold_left fst snd]. unfold P at 1.
    rewrite <- (Hacc k (or_introl eq_refl)).
    assert (Hget' : forall p, In p r -> obj_get (fst p) base = Some (snd p)) by (intros p Hp; apply Hget; right; exact Hp).
    assert (Hacc' : forall k0, In k0 (map fst r) -> obj_has k0 acc = obj_has k0 no) by (intros k0 Hk0; apply Hacc; right; exact Hk0).
    destruct (existsb (str_eqb k) del) eqn:Ed; cbn [negb andb orb].
    - apply IH; assumption.
    - destruct (obj_has k acc) eqn:Eh; cbn [negb fold_left].
      + apply IH; assumption.
      + pose proof (Hget (k, v) (or_introl eq_refl)) as Hg. cbn [fst snd] in Hg. rewrite Hg.
        apply IH; try assumption. intros k2 Hk2. rewrite obj_has_set, <- (Hacc' k2 Hk2).
        rewrite str_eqb_neq; [reflexivity|]. intros ->. contradiction.
  Qed.

  Lemma filter_true_id (l : list pystr) : filter (P [] []) l = l.
  Proof. induction l as [|x r IH]; cbn; [reflexivity | rewrite IH; reflexivity]. Qed.

  Theorem obj_agree d :
    wf_map_c base ok None d = true -> ts_patch_obj rec_ts base d = patch_dict rec_py base d.
  Proof.
    intros H. unfold ts_patch_obj, patch_dict.
    rewrite <- (filter_true_id (map fst base)).
    rewrite (obj_go_agree d None [] [] H); [|intros k' [Hk | Hk]; discriminate Hk].
    destruct (patch_dict_go rec_py base d [] []) as [[no del]|err]; cbn [bind]; [|reflexivity].
    f_equal. apply final_agree.
    - exact Hnd.
    - intros [k v] Hin. apply nodup_get; assumption.
    - reflexivity.
  Qed.
End ObjAgree.

(* ---------- the whole patcher ---------- *)
(* every string value of the document uses only LF / CR / CRLF as line separators *)
Fixpoint seps_ok (j : json) : bool :=
  match j with
  | JStr s => only_nl_cr s
  | JArr l => forallb seps_ok l
  | JObj kv => forallb (fun p => seps_ok (snd p)) kv
  | _ => true
  end.

Lemma obj_get_In k x (kv : list (pystr * json)) : obj_get k kv = Some x -> In (k, x) kv.
Proof.
  induction kv as [|[k1 v1] r IH]; cbn [obj_get]; [discriminate|].
  destruct (str_eqb k k1) eqn:E.
  - intros H. inversion H; subst. apply str_eqb_eq in E. subst. left. reflexivity.
  - intros H. right. apply IH. exact H.
Qed.

Definition string_case_statement : Prop :=
  forall (rec : json -> diff -> res json) (s : pystr) (d : diff),
    only_nl_cr s = true ->
    wf_lines_c (splitlines s) 0 true d = true ->
    (do r <- ts_patch_string s d; Ok (JStr r))
    = (do fd <- flatten (splitlines s) d;
       do r <- patch_list rec (chars s) fd;
       do j <- join_strs r;
       Ok (JStr j)).

Theorem ts_patch_agrees_from_string_case :
  string_case_statement ->
  forall n a d, wfj a = true -> seps_ok a = true -> wf_diff n a d = true -> ts_patch n a d = patch n a d.
Proof.
  intros Hstr. induction n as [|n IH]; intros a d Hwf Hs H; [discriminate H|].
  destruct a as [| | | |s|l|kv]; try discriminate H.
  - apply wf_diff_str in H. cbn [seps_ok] in Hs. cbn [ts_patch patch]. apply Hstr; assumption.
  - pose proof (wf_diff_arr _ _ _ H) as Hq. clear H. rename Hq into H. cbn [ts_patch patch]. unfold ts_patch_seq, patch_list.
    cbn [wfj seps_ok] in Hwf, Hs. rewrite forallb_forall in Hwf, Hs.
    rewrite (seq_go_agree (ts_patch n) (patch n) l (child_ok n)) with (c := 0) (add_ok := true); [reflexivity| |exact H].
    intros x dd Hin Hok. unfold child_ok in Hok.
    apply andb_true_iff in Hok as [_ Hok]. apply IH; auto.
  - pose proof (wf_diff_obj _ _ _ H) as Hq. clear H. rename Hq into H. cbn [ts_patch patch].
    cbn [wfj seps_ok] in Hwf, Hs. apply andb_true_iff in Hwf as [Hks Hwf]. rewrite forallb_forall in Hwf, Hs.
    rewrite (obj_agree (ts_patch n) (patch n) kv (child_ok n)); [reflexivity| |apply keys_sorted_nodup; exact Hks|exact H].
    intros k x dd Hget Hok. unfold child_ok in Hok.
    apply andb_true_iff in Hok as [_ Hok]. apply obj_get_In in Hget.
    apply IH; [exact (Hwf _ Hget) | exact (Hs _ Hget) | exact Hok].
Qed.

(* ---------- refutations: where the two patchers part ---------- *)
(* F7: for every separator Python knows and JavaScript splits differently there is a well-formed diff that the two
   patchers apply differently: base "a<sep>b\nc\n", insert "X" at column 1 of (Python's) line 1. *)
Definition sep_witness_base (c : N) : json := JStr [97; c; 98; 10; 99; 10]%N.
Definition sep_witness_diff : diff := [DPatch (KI 1) [DAddRange (KI 1) (VStr [88%N])]].

Theorem ts_patch_refuted :
  forall c, In c exotic_list ->
    wfj (sep_witness_base c) = true /\ wf_diff 3 (sep_witness_base c) sep_witness_diff = true /\
    ts_patch 3 (sep_witness_base c) sep_witness_diff <> patch 3 (sep_witness_base c) sep_witness_diff.
Proof.
  intros c H. cbn [exotic_list In] in H.
  repeat (destruct H as [<- | H]; [split; [reflexivity | split; [vm_compute; reflexivity | vm_compute; discriminate]]|]).
  contradiction.
Qed.

(* UTF-16: JavaScript strings are sequences of code units, Python's of code points *)
Definition utf16_enc (s : pystr) : pystr :=
  flat_map (fun c => if (c <? 65536)%N then [c]
                     else [(55296 + (c - 65536) / 1024)%N; (56320 + (c - 65536) mod 1024)%N]) s.

Definition bmp (s : pystr) : bool := forallb (fun c => (c <? 65536)%N) s.

Lemma utf16_enc_bmp s : bmp s = true -> utf16_enc s = s.
Proof.
  induction s as [|c r IH]; cbn [bmp forallb utf16_enc flat_map]; [reflexivity|].
  intros H. apply andb_true_iff in H as [H1 H2]. rewrite H1. cbn [app]. f_equal. apply IH. exact H2.
Qed.

(* Character-level keys are code-point offsets; the TypeScript side applies them to code units.  Witness: the line
   "<U+1F600>ab\n" with "X" inserted at column 2. *)
Theorem ts_patch_astral_refuted :
  exists s d r,
    only_nl_cr s = true /\ wf_diff 3 (JStr s) d = true /\
    patch 3 (JStr s) d = Ok (JStr r) /\
    ts_patch 3 (JStr (utf16_enc s)) d <> Ok (JStr (utf16_enc r)).
Proof.
  exists [128512; 97; 98; 10]%N, [DPatch (KI 0) [DAddRange (KI 2) (VStr [88%N])]], [128512; 97; 88; 98; 10]%N.
  split; [reflexivity|]. split; [vm_compute; reflexivity|]. split; [vm_compute; reflexivity|].
  vm_compute. discriminate.
Qed.

(* ---------- the full statement ---------- *)
From NB Require Import Ts.TsStringProofs.

Theorem ts_patch_agrees :
  forall n a d, wfj a = true -> seps_ok a = true -> wf_diff n a d = true -> ts_patch n a d = patch n a d.
Proof. exact (ts_patch_agrees_from_string_case ts_patch_string_agrees). Qed.

(* non-vacuity: a notebook-like document (object, array, multi-line string with a character-level edit) *)
Definition ex_doc : json :=
  JObj [([99%N], JArr [JStr [97; 98; 10; 99; 100]%N; JInt 1]); ([109%N], JObj [([107%N], JBool true)])].
Definition ex_diff : diff :=
  [DPatch (KS [99%N]) [DPatch (KI 0) [DPatch (KI 0) [DAddRange (KI 1) (VStr [120%N])]; DRemoveRange (KI 1) 1];
                       DAddRange (KI 2) (VList [JNull])];
   DPatch (KS [109%N]) [DRemove (KS [107%N]); DAdd (KS [122%N]) (JInt 2)]].

Example ts_patch_agrees_nonvacuous :
  wfj ex_doc = true /\ seps_ok ex_doc = true /\ wf_diff 5 ex_doc ex_diff = true /\
  ts_patch 5 ex_doc ex_diff =
    Ok (JObj [([99%N], JArr [JStr [97; 120; 98; 10]%N; JInt 1; JNull]); ([109%N], JObj [([122%N], JInt 2)])]).
Proof. repeat split; vm_compute; reflexivity. Qed.
