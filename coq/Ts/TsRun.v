(* JSON-level entry points of the TypeScript model, used by the generated correspondence cases of the C15 check
   (evaluated with vm_compute under coqc) -- no shared extraction files are needed. *)
From Coq Require Import List NArith ZArith Bool String.
From NB Require Import Base.Res.
From NB Require Import Base.Json.
From NB Require Import Base.PyStr.
From NB Require Import Diff.DiffFormat.
From NB Require Import Diff.Patch.
From NB Require Import Diff.Codec.
From NB Require Import Ts.TsSplit.
From NB Require Import Ts.TsPatch.
Import ListNotations.

Definition ts_err_name (e : err) : pystr :=
  of_ascii (match e with
            | TypeError => "TypeError" | IndexError => "RangeError" | RuntimeError => "Error"
            | OutOfFuel => "OutOfFuel" | _ => "Other" end)%string.

Definition py_err_name (e : err) : pystr :=
  of_ascii (match e with
            | AssertionError => "AssertionError" | KeyError => "KeyError" | IndexError => "IndexError"
            | RuntimeError => "RuntimeError" | NBDiffFormatError => "NBDiffFormatError"
            | ValueError => "ValueError" | TypeError => "TypeError" | OutOfFuel => "OutOfFuel" end)%string.

Definition out_json (nm : err -> pystr) (r : res json) : json :=
  match r with
  | Ok v => JObj [(of_ascii "ok", v)]
  | Err e => JObj [(of_ascii "err", JStr (nm e))]
  end.

Definition bad_input : json := JObj [(of_ascii "err", JStr (of_ascii "BadInput"))].

Definition fuel_for (a : json) (dd : diff) : nat := ddepth dd + depth a + 4.

Definition ts_patch_json (a d : json) : json :=
  match dec_diff 64 d with
  | Some dd => out_json ts_err_name (ts_patch (fuel_for a dd) a dd)
  | None => bad_input
  end.

Definition py_patch_json (a d : json) : json :=
  match dec_diff 64 d with
  | Some dd => out_json py_err_name (patch (fuel_for a dd) a dd)
  | None => bad_input
  end.

Definition ts_split_json (s : json) : json :=
  match s with JStr x => JArr (map JStr (ts_split_lines x)) | _ => bad_input end.

Definition py_split_json (s : json) : json :=
  match s with JStr x => JArr (map JStr (splitlines x)) | _ => bad_input end.

(* indices of the cases whose expected value is not reproduced *)
Fixpoint mismatch_go {A} (f : A -> bool) (i : N) (l : list A) : list N :=
  match l with
  | [] => []
  | x :: xs => if f x then mismatch_go f (N.succ i) xs else i :: mismatch_go f (N.succ i) xs
  end.

Definition patch_mismatches (run : json -> json -> json) (cases : list (json * json * json)) : list N :=
  mismatch_go (fun c => let '(a, d, expected) := c in json_eqb (run a d) expected) 0%N cases.

Definition split_mismatches (run : json -> json) (cases : list (json * json)) : list N :=
  mismatch_go (fun c => json_eqb (run (fst c)) (snd c)) 0%N cases.

(* string builder for generated case files: ASCII runs as Coq strings, everything else as code points *)
Definition S (s : string) : pystr := of_ascii s.
