(* packages/nbdime/src/common/util.ts  splitLines:   multiline.match(/^.*(\r\n|\r|\n|$)/gm)
   JavaScript semantics of that regex (flags g, m; no s, no u):
     "."  matches any UTF-16 code unit except the LineTerminators LF, CR, U+2028, U+2029;
     "^"  (m) holds at 0 and after any LineTerminator;  "$" (m) holds at the end and before any LineTerminator;
     a global match restarts at the end of the previous match, one further after an empty match, and scans
     forward to the first position where "^" holds.
   Hence: a line runs up to the next LineTerminator; CRLF / CR / LF are kept at its end; a U+2028/U+2029 ends
   the line and is DROPPED (it belongs to no match); after a final terminator one more, empty, match is produced;
   the empty string gives [""].  VT, FF, FS, GS, RS and NEL are ordinary characters.
   Strings are lists of N: UTF-16 code units on the JavaScript side (equal to code points for BMP text). *)
From Coq Require Import List NArith Bool Lia.
From NB Require Import Base.Json.
From NB Require Import Base.PyStr.
From NB Require Import Gen.TsFacts.
Import ListNotations.
Local Open Scope N_scope.

Definition is_ls (c : N) : bool := (c =? 8232) || (c =? 8233).

Fixpoint ts_split_lines_regex (s : pystr) : list pystr :=
  match s with
  | [] => [[]]
  | c :: rest =>
      if c =? 13 then
        match rest with
        | c' :: rest' => if c' =? 10 then [13; 10] :: ts_split_lines_regex rest' else [13] :: ts_split_lines_regex rest
        | [] => [[13]; []]
        end
      else if c =? 10 then [10] :: ts_split_lines_regex rest
      else if is_ls c then [] :: ts_split_lines_regex rest
      else match ts_split_lines_regex rest with
           | [] => [[c]]
           | l :: ls => (c :: l) :: ls
           end
  end.

(* The repaired form (notes/C15-fix-2.diff): a loop over Python's line boundaries that pushes every terminated line
   and then the remainder, possibly empty. *)
Definition ends_with_break (s : pystr) : bool :=
  match rev s with
  | [] => true
  | c :: _ => is_sep c || (c =? 13)
  end.

Definition ts_split_lines_pysep (s : pystr) : list pystr :=
  if ends_with_break s then splitlines s ++ [[]] else splitlines s.

(* which of the two the source currently is: Gen/TsFacts.v, regenerated from common/util.ts on every run *)
Definition ts_split_lines (s : pystr) : list pystr :=
  if split_lines_is_py then ts_split_lines_pysep s else ts_split_lines_regex s.

(* the separators on which Python and JavaScript disagree *)
Definition exotic_sep (c : N) : bool :=
  (c =? 11) || (c =? 12) || (c =? 28) || (c =? 29) || (c =? 30) || (c =? 133) || (c =? 8232) || (c =? 8233).

Definition only_nl_cr (s : pystr) : bool := forallb (fun c => negb (exotic_sep c)) s.

(* JavaScript's result without the final empty match *)
Definition drop_last_empty (l : list pystr) : list pystr :=
  match rev l with
  | [] :: r => rev r
  | _ => l
  end.
