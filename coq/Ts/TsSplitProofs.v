(* Where JavaScript's splitLines and Python's str.splitlines(True) agree, and where they do not. *)
From Coq Require Import List NArith Bool Lia Wf_nat.
From NB Require Import Base.Json.
From NB Require Import Base.PyStr.
From NB Require Import Gen.TsFacts.
From NB Require Import Ts.TsSplit.
Import ListNotations.
Local Open Scope N_scope.

Lemma exotic_false_sep c : exotic_sep c = false -> is_sep c = (c =? 10) /\ is_ls c = false.
Proof.
  unfold exotic_sep, is_sep, is_ls. intros H.
  repeat (apply orb_false_iff in H; destruct H as [H ?]).
  repeat match goal with E : (_ =? _) = false |- _ => rewrite E; clear E end.
  rewrite !orb_false_r. split; reflexivity.
Qed.

Lemma only_nl_cr_cons c s : only_nl_cr (c :: s) = true -> exotic_sep c = false /\ only_nl_cr s = true.
Proof.
  unfold only_nl_cr. simpl. intros H. apply andb_true_iff in H as [H1 H2].
  apply negb_true_iff in H1. auto.
Qed.

(* On text whose only line separators are LF, CR and CRLF the JavaScript result is Python's, possibly followed by
   one empty string. *)
Lemma ts_split_lines_regex_py s :
  only_nl_cr s = true ->
  exists t, ts_split_lines_regex s = splitlines s ++ t /\ (t = [] \/ t = [[]]).
Proof.
  remember (length s) as n eqn:Hn. revert s Hn.
  induction n as [n IH] using lt_wf_ind. intros s Hn Hs.
  destruct s as [|c rest].
  - exists [[]]. simpl. auto.
  - apply only_nl_cr_cons in Hs as [Hc Hrest].
    destruct (exotic_false_sep c Hc) as [Hsep Hls].
    rewrite splitlines_cons. unfold splitlines_step. cbn [ts_split_lines_regex].
    destruct (c =? 13) eqn:E13.
    + destruct rest as [|c' rest'].
      * exists [[]]. auto.
      * destruct (c' =? 10) eqn:E10.
        -- apply only_nl_cr_cons in Hrest as [_ Hrest'].
           destruct (IH (length rest')) with (s := rest') as [t [Ht Ht']];
             [cbn [length] in *; lia | reflexivity | assumption |].
           exists t. rewrite Ht. auto.
        -- destruct (IH (length (c' :: rest'))) with (s := c' :: rest') as [t [Ht Ht']];
             [cbn [length] in *; lia | reflexivity | assumption |].
           exists t. rewrite Ht. auto.
    + rewrite Hsep, Hls.
      destruct (IH (length rest)) with (s := rest) as [t [Ht Ht']];
        [cbn [length] in *; lia | reflexivity | assumption |].
      destruct (c =? 10) eqn:E10.
      * apply N.eqb_eq in E10. subst c. exists t. rewrite Ht. auto.
      * rewrite Ht. destruct (splitlines rest) as [|l ls] eqn:Esl.
        -- destruct Ht' as [-> | ->].
           ++ exists []. auto.
           ++ exists []. auto.
        -- exists t. cbn [app]. auto.
Qed.

Lemma ts_split_lines_py s :
  only_nl_cr s = true ->
  exists t, ts_split_lines s = splitlines s ++ t /\ (t = [] \/ t = [[]]).
Proof.
  intros H. unfold ts_split_lines. destruct split_lines_is_py.
  - unfold ts_split_lines_pysep. destruct (ends_with_break s).
    + exists [[]]. auto.
    + exists []. rewrite app_nil_r. auto.
  - apply ts_split_lines_regex_py. exact H.
Qed.

(* in the repaired form no hypothesis on the text is needed *)
Lemma ts_split_lines_pysep_py s :
  exists t, ts_split_lines_pysep s = splitlines s ++ t /\ (t = [] \/ t = [[]]).
Proof.
  unfold ts_split_lines_pysep. destruct (ends_with_break s).
  - exists [[]]. auto.
  - exists []. rewrite app_nil_r. auto.
Qed.

Lemma drop_last_empty_app_nil l : Forall (fun x : pystr => x <> []) l -> drop_last_empty l = l.
Proof.
  intros H. unfold drop_last_empty. destruct (rev l) as [|x r] eqn:E; [reflexivity|].
  destruct x; [|reflexivity].
  assert (H0 : In [] (rev l)) by (rewrite E; left; reflexivity).
  apply in_rev in H0.
  rewrite Forall_forall in H. exfalso. exact (H _ H0 eq_refl).
Qed.

Lemma drop_last_empty_snoc l : drop_last_empty (l ++ [[]]) = l.
Proof. unfold drop_last_empty. rewrite rev_app_distr. simpl. apply rev_involutive. Qed.

Theorem splitlines_ts_agrees s :
  only_nl_cr s = true -> drop_last_empty (ts_split_lines s) = splitlines s.
Proof.
  intros H. destruct (ts_split_lines_py s H) as [t [Ht [-> | ->]]]; rewrite Ht.
  - rewrite app_nil_r. apply drop_last_empty_app_nil, splitlines_nonempty.
  - apply drop_last_empty_snoc.
Qed.

Theorem splitlines_ts_agrees_if_py_boundaries :
  split_lines_is_py = true -> forall s, drop_last_empty (ts_split_lines s) = splitlines s.
Proof.
  intros Hm s. unfold ts_split_lines. rewrite Hm.
  destruct (ts_split_lines_pysep_py s) as [t [Ht [-> | ->]]]; rewrite Ht.
  - rewrite app_nil_r. apply drop_last_empty_app_nil, splitlines_nonempty.
  - apply drop_last_empty_snoc.
Qed.

Example splitlines_ts_agrees_nonvacuous :
  only_nl_cr [97; 13; 10; 98; 10; 13; 99] = true /\
  ts_split_lines [97; 13; 10; 98; 10; 13; 99] = [[97; 13; 10]; [98; 10]; [13]; [99]].
Proof. split; vm_compute; reflexivity. Qed.

(* The line tables differ on every separator Python knows and JavaScript does not treat the same way. *)
Definition exotic_list : list N := [11; 12; 28; 29; 30; 133; 8232; 8233].

Theorem splitlines_ts_refuted :
  forall c, In c exotic_list ->
    drop_last_empty (ts_split_lines [97; c; 98]) <> splitlines [97; c; 98].
Proof.
  intros c H. simpl in H.
  repeat (destruct H as [<- | H]; [vm_compute; discriminate|]). contradiction.
Qed.

Lemma exotic_list_complete c : exotic_sep c = true <-> In c exotic_list.
Proof.
  unfold exotic_sep, exotic_list. simpl. rewrite !orb_true_iff, !N.eqb_eq.
  intuition (subst; auto).
Qed.

(* every separator Python recognises is LF, CR or one of the exotic ones: the case split is complete *)
Lemma py_sep_cases c : is_sep c = true -> c = 10 \/ exotic_sep c = true.
Proof.
  unfold is_sep, exotic_sep. rewrite !orb_true_iff, !N.eqb_eq. intuition auto.
Qed.
