(* packages/nbdime/src/patch/generic.ts (patch, patchSequence, patchObject), patch/stringified.ts (patchString with
   stringifyPatch = false), diff/util.ts (flattenStringDiff, validateStringDiff), diff/diffentries.ts
   (validateSequenceOp, validateObjectOp), common/util.ts (splitLines, accumulateLengths, sortByKey) -- function by
   function.  JavaScript exceptions: TypeError -> TypeError, RangeError -> IndexError, Error -> RuntimeError.
   Object property order is quotiented out (sorted association lists), as canonical JSON does.
   Outside well-formed diffs three JavaScript coercions are NOT modelled and yield Err instead (documented in
   notes/C15.md): Array.join on non-string items, string += array, and a 'patch' op inside a line. *)
From Coq Require Import List NArith ZArith Bool Lia.
From NB Require Import Base.Res.
From NB Require Import Base.Json.
From NB Require Import Base.PyStr.
From NB Require Import Diff.DiffFormat.
From NB Require Import Diff.Patch.
From NB Require Import Ts.TsSplit.
Import ListNotations.

(* validateSequenceOp(base, entry): only base.length matters *)
Definition validate_seq_op (n : nat) (e : dentry) : res unit :=
  match dkey e with
  | KS _ => Err TypeError
  | KI index =>
      match e with
      | DAddRange _ _ => if Nat.ltb n index then Err IndexError else Ok tt
      | DRemoveRange _ len =>
          if Nat.leb n index then Err IndexError
          else if Nat.ltb n (index + len) then Err IndexError else Ok tt
      | DPatch _ _ => if Nat.leb n index then Err IndexError else Ok tt
      | _ => Err RuntimeError
      end
  end.

(* validateObjectOp(base, entry, keys) *)
Definition validate_obj_op (keys : list pystr) (e : dentry) : res unit :=
  match dkey e with
  | KI _ => Err TypeError
  | KS key =>
      let present := existsb (str_eqb key) keys in
      match e with
      | DAdd _ _ => if present then Err RuntimeError else Ok tt
      | DRemove _ | DReplace _ _ | DPatch _ _ => if present then Ok tt else Err RuntimeError
      | _ => Err RuntimeError
      end
  end.

(* keysToCopy.splice(keysToCopy.indexOf(key), 1) *)
Fixpoint remove_first (k : pystr) (keys : list pystr) : list pystr :=
  match keys with
  | [] => []
  | x :: xs => if str_eqb k x then xs else x :: remove_first k xs
  end.

Section TsSeq.
  Variable rec : json -> diff -> res json.

  (* patchSequence *)
  Fixpoint ts_patch_seq_go (base : list json) (take : nat) (d : diff) (acc : list json) : res (list json) :=
    match d with
    | [] => Ok (acc ++ skipn take base)
    | e :: d' =>
        do _ <- validate_seq_op (length base) e;
        match dkey e with
        | KS _ => Err TypeError
        | KI index =>
            let acc := acc ++ slice base take index in
            match e with
            | DAddRange _ vs =>
                (* patched.concat(valuelist): an array is spliced in, a string is appended as ONE item *)
                ts_patch_seq_go base (Nat.max take index) d'
                                (acc ++ match vs with VList l => l | VStr s => [JStr s] end)
            | DRemoveRange _ len => ts_patch_seq_go base (Nat.max take (index + len)) d' acc
            | DPatch _ dd =>
                do x <- nth_res base index;
                do p <- rec x dd;
                ts_patch_seq_go base (Nat.max take (index + 1)) d' (acc ++ [p])
            | _ => Err RuntimeError
            end
        end
    end.

  Definition ts_patch_seq (base : list json) (d : diff) : res (list json) := ts_patch_seq_go base 0 d [].

  (* patchObject *)
  Fixpoint ts_patch_obj_go (base : list (pystr * json)) (d : diff) (patched : list (pystr * json))
           (keys : list pystr) : res (list (pystr * json) * list pystr) :=
    match d with
    | [] => Ok (patched, keys)
    | e :: d' =>
        do _ <- validate_obj_op keys e;
        match dkey e with
        | KI _ => Err TypeError
        | KS key =>
            match e with
            | DAdd _ v => ts_patch_obj_go base d' (obj_set key v patched) keys
            | DRemove _ => ts_patch_obj_go base d' patched (remove_first key keys)
            | DReplace _ v => ts_patch_obj_go base d' (obj_set key v patched) (remove_first key keys)
            | DPatch _ dd =>
                match obj_get key base with
                | None => Err TypeError
                | Some x => do p <- rec x dd;
                            ts_patch_obj_go base d' (obj_set key p patched) (remove_first key keys)
                end
            | _ => Err RuntimeError
            end
        end
    end.

  Definition ts_patch_obj (base : list (pystr * json)) (d : diff) : res (list (pystr * json)) :=
    do r <- ts_patch_obj_go base d [] (map fst base);
    let '(patched, keys) := r in
    Ok (fold_left (fun acc k => match obj_get k base with
                                | Some v => obj_set k v acc
                                | None => acc end) keys patched).
End TsSeq.

(* ---------- strings ---------- *)
(* validateStringDiff(lines, entry) *)
Definition validate_string_diff (lines : list pystr) (e : dentry) : res unit :=
  do _ <- validate_seq_op (length lines) e;
  match e with
  | DPatch (KI k) dd =>
      do line <- nth_res lines k;
      (fix go (dd : diff) : res unit :=
         match dd with
         | [] => Ok tt
         | p :: r => do _ <- validate_seq_op (length line) p; go r
         end) dd
  | _ => Ok tt
  end.

Definition ts_flatten_entry (lines : list pystr) (ltc : list nat) (e : dentry) : res (list dentry) :=
  do _ <- validate_string_diff lines e;
  match dkey e with
  | KS _ => Err TypeError
  | KI k =>
      do off <- nth_res ltc k;
      match e with
      | DPatch _ dd => mapM (offset_entry off) dd
      | DAddRange _ (VList l) => do s <- join_strs l; Ok [DAddRange (KI off) (VStr s)]
      | DAddRange _ (VStr _) => Err TypeError            (* "abc".join is not a function *)
      | DRemoveRange _ len => do off2 <- nth_res ltc (k + len); Ok [DRemoveRange (KI off) (off2 - off)]
      | _ => Err RuntimeError
      end
  end.

Fixpoint ts_flatten_entries (lines : list pystr) (ltc : list nat) (d : diff) : res (list dentry) :=
  match d with
  | [] => Ok []
  | e :: d' => do x <- ts_flatten_entry lines ltc e; do xs <- ts_flatten_entries lines ltc d'; Ok (x ++ xs)
  end.

(* flattenStringDiff: no combination of overlapping entries on this side, only the stable sort *)
Definition ts_flatten (s : pystr) (d : diff) : res diff :=
  let lines := ts_split_lines s in
  do fl <- ts_flatten_entries lines (line_to_char lines) d;
  Ok (sort_by_key fl).

(* the loop of patchString *)
Fixpoint ts_patch_string_go (base : pystr) (take : nat) (d : diff) (remote : pystr) : res pystr :=
  match d with
  | [] => Ok (remote ++ skipn take base)
  | e :: d' =>
      match dkey e with
      | KS _ => Err TypeError
      | KI index =>
          let remote := remote ++ slice base take index in
          match e with
          | DAddRange _ (VStr added) => ts_patch_string_go base (Nat.max take index) d' (remote ++ added)
          | DRemoveRange _ len => ts_patch_string_go base (Nat.max take (index + len)) d' remote
          | _ => Err RuntimeError
          end
      end
  end.

Definition ts_patch_string (s : pystr) (d : diff) : res pystr :=
  do fd <- ts_flatten s d;
  ts_patch_string_go s 0 fd [].

(* patch *)
Fixpoint ts_patch (n : nat) (base : json) (d : diff) : res json :=
  match n with
  | 0 => Err OutOfFuel
  | S n' =>
      match base with
      | JStr s => do r <- ts_patch_string s d; Ok (JStr r)
      | JArr l => do r <- ts_patch_seq (ts_patch n') l d; Ok (JArr r)
      | JObj kv => do r <- ts_patch_obj (ts_patch n') kv d; Ok (JObj r)
      | _ => Err TypeError
      end
  end.
