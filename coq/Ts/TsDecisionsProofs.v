(* Finite vocabulary facts: every action the Python merger can emit against what the TypeScript side accepts. *)
From Coq Require Import List NArith Bool String.
From NB Require Import Base.Res.
From NB Require Import Base.Json.
From NB Require Import Diff.Codec.
From NB Require Import Gen.Actions.
From NB Require Import Ts.TsDecisions.
Import ListNotations.

Lemma mem_In a l : mem a l = true <-> In a l.
Proof.
  unfold mem. rewrite existsb_exists. split.
  - intros [x [Hin Heq]]. apply str_eqb_eq in Heq. subst. exact Hin.
  - intros H. exists a. split; [exact H | apply str_eqb_refl].
Qed.

(* holds before and after the repair of F4 *)
Theorem py_emitted_accepted_except_take_max :
  forall a, In a py_emitted -> a = take_max \/ ts_validate_action a = Ok a.
Proof.
  assert (H : forallb (fun a => str_eqb a take_max || mem a ts_accepted) py_emitted = true) by (vm_compute; reflexivity).
  rewrite forallb_forall in H. intros a Ha. specialize (H a Ha).
  apply orb_true_iff in H as [H | H].
  - left. apply str_eqb_eq. exact H.
  - right. unfold ts_validate_action. rewrite H. reflexivity.
Qed.

Theorem py_emitted_accepted_if_take_max_accepted :
  mem take_max ts_accepted = true -> forall a, In a py_emitted -> ts_validate_action a = Ok a.
Proof.
  intros Htm a Ha. destruct (py_emitted_accepted_except_take_max a Ha) as [-> | H]; [|exact H].
  unfold ts_validate_action. rewrite Htm. reflexivity.
Qed.

Theorem ts_accepted_resolved : forall a, In a ts_accepted -> ts_resolves a = true.
Proof.
  assert (H : forallb (fun a => mem a ts_handled) ts_accepted = true) by (vm_compute; reflexivity).
  rewrite forallb_forall in H. exact H.
Qed.

Theorem py_emitted_in_schema_except_take_max :
  forall a, In a py_emitted -> a = take_max \/ In a schema_actions.
Proof.
  assert (H : forallb (fun a => str_eqb a take_max || mem a schema_actions) py_emitted = true) by (vm_compute; reflexivity).
  rewrite forallb_forall in H. intros a Ha. specialize (H a Ha).
  apply orb_true_iff in H as [H | H].
  - left. apply str_eqb_eq. exact H.
  - right. apply mem_In. exact H.
Qed.

Theorem py_emitted_handled_by_python : forall a, In a py_emitted -> In a py_handled.
Proof.
  assert (H : forallb (fun a => mem a py_handled) py_emitted = true) by (vm_compute; reflexivity).
  rewrite forallb_forall in H. intros a Ha. apply mem_In. exact (H a Ha).
Qed.

Example py_emitted_nonempty : In (of_ascii "local_then_remote") py_emitted /\ ts_validate_action (of_ascii "local_then_remote") = Ok (of_ascii "local_then_remote").
Proof. split; [apply mem_In; vm_compute; reflexivity | vm_compute; reflexivity]. Qed.

(* ---- F4: holds on the code as it is; after the repair this theorem fails and
        py_emitted_accepted below (currently conditional) takes over ---- *)
Theorem take_max_refuted :
  In take_max py_emitted /\ ts_validate_action take_max = Err RuntimeError /\ In take_max schema_actions.
Proof.
  split; [apply mem_In; vm_compute; reflexivity|].
  split; [vm_compute; reflexivity|].
  apply mem_In; vm_compute; reflexivity.
Qed.

(* since /repo commit 06b95f5 the published schema lists take_max: every emitted action is in the schema *)
Theorem py_emitted_in_schema : forall a, In a py_emitted -> In a schema_actions.
Proof.
  assert (H : forallb (fun a => mem a schema_actions) py_emitted = true) by (vm_compute; reflexivity).
  rewrite forallb_forall in H. intros a Ha. apply mem_In. exact (H a Ha).
Qed.
