(* The well-formedness facts the C15 proofs consume, in cursor form, and their derivation from Diff/Wf.v's wf_diff
   (the C11 predicate).  Kept separate so that a reformulation of Diff/Wf.v only touches the bridge lemmas below. *)
From Coq Require Import List NArith ZArith Bool Lia Arith.
From NB Require Import Base.Res.
From NB Require Import Base.Json.
From NB Require Import Base.PyStr.
From NB Require Import Diff.DiffFormat.
From NB Require Import Diff.Patch.
From NB Require Import Diff.Wf.
Import ListNotations.

(* character-level diffs inside a line: addrange(str) / removerange only *)
Fixpoint wf_chars_c (n c : nat) (add_ok : bool) (d : list dentry) : bool :=
  match d with
  | [] => true
  | DAddRange (KI k) (VStr s) :: r =>
      negb (Nat.eqb (length s) 0) && Nat.leb k n && (Nat.ltb c k || (Nat.eqb c k && add_ok))
      && wf_chars_c n k false r
  | DRemoveRange (KI k) len :: r =>
      negb (Nat.eqb len 0) && Nat.leb c k && Nat.leb (k + len) n && wf_chars_c n (k + len) true r
  | _ => false
  end.

(* line-level diff of a string with the given lines *)
Fixpoint wf_lines_c (lines : list pystr) (c : nat) (add_ok : bool) (d : list dentry) : bool :=
  let n := length lines in
  match d with
  | [] => true
  | DAddRange (KI k) (VList l) :: r =>
      negb (Nat.eqb (length l) 0) && all_strs l && Nat.leb k n
      && (Nat.ltb c k || (Nat.eqb c k && add_ok)) && wf_lines_c lines k false r
  | DRemoveRange (KI k) len :: r =>
      negb (Nat.eqb len 0) && Nat.leb c k && Nat.leb (k + len) n && wf_lines_c lines (k + len) true r
  | DPatch (KI k) dd :: r =>
      Nat.leb c k &&
      match nth_error lines k with
      | Some line => negb (Nat.eqb (length dd) 0) && wf_chars_c (length line) 0 true dd
      | None => false
      end && wf_lines_c lines (k + 1) true r
  | _ => false
  end.

(* list-level diff; [ok] is the condition on a nested patch *)
Fixpoint wf_seq_c (items : list json) (ok : json -> diff -> bool) (c : nat) (add_ok : bool) (d : list dentry) : bool :=
  match d with
  | [] => true
  | DAddRange (KI k) (VList l) :: r =>
      negb (Nat.eqb (length l) 0) && Nat.leb k (length items)
      && (Nat.ltb c k || (Nat.eqb c k && add_ok)) && wf_seq_c items ok k false r
  | DRemoveRange (KI k) len :: r =>
      negb (Nat.eqb len 0) && Nat.leb c k && Nat.leb (k + len) (length items)
      && wf_seq_c items ok (k + len) true r
  | DPatch (KI k) dd :: r =>
      Nat.leb c k &&
      match nth_error items k with
      | Some x => ok x dd
      | None => false
      end && wf_seq_c items ok (k + 1) true r
  | _ => false
  end.

Fixpoint wf_map_c (kv : list (pystr * json)) (ok : json -> diff -> bool) (prev : option pystr) (d : list dentry) : bool :=
  match d with
  | [] => true
  | e :: r =>
      match dkey e with
      | KI _ => false
      | KS k =>
          match prev with None => true | Some p => str_ltb p k end &&
          match e with
          | DAdd _ _ => negb (obj_has k kv)
          | DRemove _ => obj_has k kv
          | DReplace _ _ => obj_has k kv
          | DPatch _ dd => match obj_get k kv with Some x => ok x dd | None => false end
          | _ => false
          end && wf_map_c kv ok (Some k) r
      end
  end.

Definition child_ok (f : nat) (x : json) (dd : diff) : bool :=
  is_container x && negb (Nat.eqb (length dd) 0) && wf_diff f x dd.

(* ---------- bridge from Diff/Wf.v ---------- *)
Ltac split_all :=
  repeat match goal with
         | H : (_ && _) = true |- _ => apply andb_true_iff in H; destruct H
         end.
Ltac use_hyps := cbv zeta; repeat (apply andb_true_iff; split); try assumption.

Lemma chars_bridge n : forall d c b,
  swf n vl_is_str (fun _ _ => false) c b d = true -> wf_chars_c n c b d = true.
Proof.
  induction d as [|e r IH]; intros c b H; [reflexivity|].
  destruct e as [k v|k|k v|k vs|k len|k dd]; try discriminate H;
    (destruct k as [k|]; [|discriminate H]); cbn [swf] in H; split_all.
  - destruct vs as [l|s]; [discriminate|]. cbn [wf_chars_c vlen] in *. use_hyps; apply IH; assumption.
  - cbn [wf_chars_c]. use_hyps; apply IH; assumption.
  - discriminate.
Qed.

Lemma wf_chars_bridge n d : wf_chars n d = true -> wf_chars_c n 0 true d = true.
Proof. apply chars_bridge. Qed.

Lemma lines_bridge lines : forall d c b,
  swf (length lines) vl_is_lines
      (fun k dd => match nth_error lines k with
                   | Some line => negb (Nat.eqb (length dd) 0) && wf_chars (length line) dd
                   | None => false end) c b d = true ->
  wf_lines_c lines c b d = true.
Proof.
  induction d as [|e r IH]; intros c b H; [reflexivity|].
  destruct e as [k v|k|k v|k vs|k len|k dd]; try discriminate H;
    (destruct k as [k|]; [|discriminate H]); cbn [swf] in H.
  - destruct vs as [l|s]; [|cbn [vl_is_lines andb] in H; discriminate H].
    cbn [vl_is_lines vlen] in H. split_all. cbn [wf_lines_c]. use_hyps; apply IH; assumption.
  - split_all. cbn [wf_lines_c]. use_hyps; apply IH; assumption.
  - apply andb_true_iff in H as [H Hr]. apply andb_true_iff in H as [H Hp]. apply andb_true_iff in H as [Hc Hk].
    cbn [wf_lines_c]. cbv zeta. rewrite Hc. cbn [andb]. unfold pystr in *.
    destruct (nth_error lines k) as [line|]; [|discriminate Hp].
    apply andb_true_iff in Hp as [H1 H3]. rewrite H1. cbn [andb]. rewrite (wf_chars_bridge _ _ H3). cbn [andb].
    apply IH. assumption.
Qed.

Lemma wf_lines_bridge lines d : wf_lines lines d = true -> wf_lines_c lines 0 true d = true.
Proof. apply lines_bridge. Qed.

Lemma seq_bridge items (pok : nat -> list dentry -> bool) (ok : json -> diff -> bool) :
  (forall k dd, pok k dd = true -> match nth_error items k with Some x => ok x dd | None => false end = true) ->
  forall d c b, swf (length items) vl_is_list pok c b d = true -> wf_seq_c items ok c b d = true.
Proof.
  intros Hp. induction d as [|e r IH]; intros c b H; [reflexivity|].
  destruct e as [k v|k|k v|k vs|k len|k dd]; try discriminate H;
    (destruct k as [k|]; [|discriminate H]); cbn [swf] in H.
  - destruct vs as [l|s]; [|cbn [vl_is_list andb] in H; discriminate H].
    cbn [vl_is_list vlen] in H. split_all. cbn [wf_seq_c]. use_hyps; apply IH; assumption.
  - split_all. cbn [wf_seq_c]. use_hyps; apply IH; assumption.
  - apply andb_true_iff in H as [H Hr]. apply andb_true_iff in H as [H Hpk]. apply andb_true_iff in H as [Hc Hk].
    cbn [wf_seq_c]. rewrite Hc, (Hp _ _ Hpk). cbn [andb]. apply IH. assumption.
Qed.

Lemma wf_diff_arr f items d : wf_diff (S f) (JArr items) d = true -> wf_seq_c items (child_ok f) 0 true d = true.
Proof.
  cbn [wf_diff]. apply seq_bridge. intros k dd H. unfold child_ok. exact H.
Qed.

Lemma wf_map_gen f kv : forall d prev,
  (fix wf_map (prev : option pystr) (d : list dentry) {struct d} : bool :=
           match d with
           | [] => true
           | e :: r =>
               match dkey e with
               | KI _ => false
               | KS k =>
                   match prev with None => true | Some p => str_ltb p k end &&
                   match e with
                   | DAdd _ _ => negb (obj_has k kv)
                   | DRemove _ => obj_has k kv
                   | DReplace _ _ => obj_has k kv
                   | DPatch _ dd =>
                       match obj_get k kv with
                       | Some x => is_container x && negb (Nat.eqb (length dd) 0) && wf_diff f x dd
                       | None => false
                       end
                   | _ => false
                   end && wf_map (Some k) r
               end
           end) prev d = wf_map_c kv (child_ok f) prev d.
Proof.
  induction d as [|e r IH]; intros prev; [reflexivity|].
  cbn [wf_map_c]. destruct (dkey e); [reflexivity|]. rewrite <- IH. reflexivity.
Qed.

Lemma wf_diff_obj f kv d : wf_diff (S f) (JObj kv) d = true -> wf_map_c kv (child_ok f) None d = true.
Proof. intros H. rewrite <- (wf_map_gen f kv d None). exact H. Qed.

Lemma wf_diff_str f s d : wf_diff (S f) (JStr s) d = true -> wf_lines_c (splitlines s) 0 true d = true.
Proof. cbn [wf_diff]. apply wf_lines_bridge. Qed.
