(* patchString (TypeScript) against the JStr branch of patch (Python): on text whose only line separators are
   LF, CR and CRLF, and for a diff that is well formed for the Python line table, both sides give the same
   result.  The TypeScript side validates, flattens and sorts but never combines; the Python side flattens,
   combines overlapping entries and sorts, then patches a list of characters and joins it. *)
From Coq Require Import List NArith Bool Lia Arith.
From NB Require Import Base.Res.
From NB Require Import Base.Json.
From NB Require Import Base.PyStr.
From NB Require Import Diff.DiffFormat.
From NB Require Import Diff.Patch.
From NB Require Import Diff.Wf.
From NB Require Import Ts.TsWf.
From NB Require Import Ts.TsSplit.
From NB Require Import Ts.TsSplitProofs.
From NB Require Import Ts.TsPatch.
Import ListNotations.

(* ---------- list facts ---------- *)
Lemma tsp_slice_nil_ge {A} (l : list A) a b : b <= a -> slice l a b = [].
Proof. intros H. unfold slice. replace (b - a) with 0 by lia. reflexivity. Qed.

Lemma tsp_slice_map {A B} (f : A -> B) (l : list A) a b : slice (map f l) a b = map f (slice l a b).
Proof. unfold slice. rewrite skipn_map, firstn_map. reflexivity. Qed.

Lemma tsp_firstn_add {A} (l : list A) n m : firstn (n + m) l = firstn n l ++ firstn m (skipn n l).
Proof.
  revert l; induction n as [|n IH]; intros l; simpl; [reflexivity|].
  destruct l; simpl; [destruct m; reflexivity | f_equal; apply IH].
Qed.

Lemma tsp_firstn_succ {A} (l : list A) : forall k x,
  nth_error l k = Some x -> firstn (S k) l = firstn k l ++ [x].
Proof.
  induction l as [|y l IH]; intros [|k] x H; simpl in *; try discriminate.
  - inversion H; subst. reflexivity.
  - f_equal. apply IH. exact H.
Qed.

(* ---------- (a) the line-to-character table ---------- *)
Definition ltc_at (lines : list pystr) (i : nat) : nat := length (concat (firstn i lines)).

Lemma accum_nth lines : forall a i, i <= length lines ->
  nth_error (a :: accum a (map (@length N) lines)) i = Some (a + ltc_at lines i).
Proof.
  induction lines as [|l ls IH]; intros a i Hi.
  - simpl in Hi. assert (i = 0) by lia. subst. unfold ltc_at. simpl. f_equal. lia.
  - destruct i as [|i].
    + unfold ltc_at. simpl. f_equal. lia.
    + cbn [map accum nth_error]. rewrite IH by (simpl in Hi; lia).
      unfold ltc_at. cbn [firstn concat]. rewrite app_length. f_equal. lia.
Qed.

Lemma ltc_nth lines i : i <= length lines -> nth_res (line_to_char lines) i = Ok (ltc_at lines i).
Proof.
  intros H. unfold nth_res, line_to_char. rewrite accum_nth by exact H. reflexivity.
Qed.

Lemma ltc_at_app lines t i : i <= length lines -> ltc_at (lines ++ t) i = ltc_at lines i.
Proof.
  intros H. unfold ltc_at. rewrite firstn_app. replace (i - length lines) with 0 by lia.
  simpl. rewrite app_nil_r. reflexivity.
Qed.

Lemma ltc_nth_app lines t i :
  i <= length lines -> nth_res (line_to_char (lines ++ t)) i = Ok (ltc_at lines i).
Proof.
  intros H. rewrite ltc_nth by (rewrite app_length; lia). rewrite ltc_at_app by exact H. reflexivity.
Qed.

Lemma ltc_at_mono lines i j : i <= j -> ltc_at lines i <= ltc_at lines j.
Proof.
  intros H. unfold ltc_at. replace j with (i + (j - i)) by lia.
  rewrite tsp_firstn_add, concat_app, app_length. lia.
Qed.

Lemma ltc_at_succ lines k line :
  nth_error lines k = Some line -> ltc_at lines (k + 1) = ltc_at lines k + length line.
Proof.
  intros H. unfold ltc_at. rewrite Nat.add_1_r, (tsp_firstn_succ _ _ _ H).
  rewrite concat_app, app_length. simpl. rewrite app_nil_r. reflexivity.
Qed.

(* ---------- (c) flat, non-overlapping, ordered character diffs ---------- *)
Definition flat (e : dentry) : Prop :=
  match e with
  | DAddRange (KI _) (VStr _) => True
  | DRemoveRange (KI _) _ => True
  | _ => False
  end.

Definition rlen (e : dentry) : nat := match e with DRemoveRange _ len => len | _ => 0 end.
Definition end_of (e : dentry) : nat := knat e + rlen e.

Lemma flat_inv e :
  flat e -> (exists k x, e = DAddRange (KI k) (VStr x)) \/ (exists k len, e = DRemoveRange (KI k) len).
Proof.
  destruct e as [? ?|?|? ?|k vs|k len|? ?]; simpl; try contradiction.
  - destruct k; [|contradiction]. destruct vs; [contradiction|]. intros _. left. eauto.
  - destruct k; [|contradiction]. intros _. right. eauto.
Qed.

Fixpoint chain (lo : nat) (d : list dentry) : Prop :=
  match d with
  | [] => True
  | e :: r => flat e /\ lo <= knat e /\ chain (end_of e) r
  end.

Definition last_end (lo : nat) (d : list dentry) : nat :=
  match rev d with [] => lo | e :: _ => end_of e end.

Lemma chain_mono d lo lo' : lo' <= lo -> chain lo d -> chain lo' d.
Proof. destruct d; simpl; [auto|]. intros H (H1 & H2 & H3). repeat split; auto. lia. Qed.

Lemma last_end_cons lo e r : last_end lo (e :: r) = last_end (end_of e) r.
Proof.
  unfold last_end. simpl. destruct (rev r) as [|x xs] eqn:E; simpl; reflexivity.
Qed.

Lemma last_end_mono d lo lo' : lo' <= lo -> last_end lo' d <= last_end lo d.
Proof. unfold last_end. destruct (rev d); lia. Qed.

Lemma chain_app a : forall lo hi b,
  chain lo a -> last_end lo a <= hi -> chain hi b -> chain lo (a ++ b).
Proof.
  induction a as [|e r IH]; intros lo hi b Ha Hl Hb.
  - simpl. unfold last_end in Hl. simpl in Hl. eapply chain_mono; eauto.
  - destruct Ha as (H1 & H2 & H3). cbn [app chain]. repeat split; auto.
    rewrite last_end_cons in Hl. eapply IH; eauto.
Qed.

(* ---------- (b)+(c) one line's character diff ---------- *)
Lemma wf_chars_chain n off : forall dd c ok,
  wf_chars_c n c ok dd = true -> c <= n ->
  exists x, mapM (offset_entry off) dd = Ok x /\ chain (off + c) x /\ last_end (off + c) x <= off + n.
Proof.
  induction dd as [|e r IH]; intros c ok H Hc.
  - exists []. simpl. unfold last_end. simpl. repeat split; auto. lia.
  - destruct e as [? ?|?|? ?|k vs|k len|? ?]; try discriminate.
    + destruct k as [k|]; [|discriminate]. destruct vs as [|x]; [discriminate|].
      cbn [wf_chars_c] in H.
      apply andb_true_iff in H as [H H4]. apply andb_true_iff in H as [H H3].
      apply andb_true_iff in H as [_ H2]. apply Nat.leb_le in H2.
      assert (Hck : c <= k).
      { apply orb_true_iff in H3 as [H3|H3]; [apply Nat.ltb_lt in H3; lia|].
        apply andb_true_iff in H3 as [H3 _]. apply Nat.eqb_eq in H3. lia. }
      destruct (IH k false H4 H2) as [x' (E & C & L)].
      exists (DAddRange (KI (k + off)) (VStr x) :: x').
      cbn [mapM offset_entry dkey set_key bind]. rewrite E. cbn [bind].
      split; [reflexivity|]. rewrite last_end_cons. cbn [chain flat]. unfold end_of. cbn [knat dkey rlen].
      replace (k + off + 0) with (off + k) by lia. repeat split; auto. lia.
    + destruct k as [k|]; [|discriminate].
      cbn [wf_chars_c] in H.
      apply andb_true_iff in H as [H H4]. apply andb_true_iff in H as [H H3].
      apply andb_true_iff in H as [_ H2]. apply Nat.leb_le in H2, H3.
      destruct (IH (k + len) true H4 H3) as [x' (E & C & L)].
      exists (DRemoveRange (KI (k + off)) len :: x').
      cbn [mapM offset_entry dkey set_key bind]. rewrite E. cbn [bind].
      split; [reflexivity|]. rewrite last_end_cons. cbn [chain flat]. unfold end_of. cbn [knat dkey rlen].
      replace (k + off + len) with (off + (k + len)) by lia. repeat split; auto. lia.
Qed.

Lemma val_inner_ok n : forall dd c ok,
  wf_chars_c n c ok dd = true ->
  (fix go (dd : diff) : res unit :=
     match dd with
     | [] => Ok tt
     | p :: r => do _ <- validate_seq_op n p; go r
     end) dd = Ok tt.
Proof.
  induction dd as [|e r IH]; intros c ok H; [reflexivity|].
  destruct e as [? ?|?|? ?|i vs|i len|? ?]; try discriminate.
  - destruct i as [i|]; [|discriminate]. destruct vs as [|x]; [discriminate|].
    cbn [wf_chars_c] in H.
    apply andb_true_iff in H as [H H4]. apply andb_true_iff in H as [H H3].
    apply andb_true_iff in H as [_ H2]. apply Nat.leb_le in H2.
    assert (E : validate_seq_op n (DAddRange (KI i) (VStr x)) = Ok tt).
    { unfold validate_seq_op. cbn [dkey].
      assert (E : Nat.ltb n i = false) by (apply Nat.ltb_ge; lia). rewrite E. reflexivity. }
    rewrite E. cbn [bind]. eapply IH; eauto.
  - destruct i as [i|]; [|discriminate].
    cbn [wf_chars_c] in H.
    apply andb_true_iff in H as [H H4]. apply andb_true_iff in H as [H H3].
    apply andb_true_iff in H as [H1 H2]. apply Nat.leb_le in H2, H3.
    apply negb_true_iff, Nat.eqb_neq in H1.
    assert (E : validate_seq_op n (DRemoveRange (KI i) len) = Ok tt).
    { unfold validate_seq_op. cbn [dkey].
      assert (E : Nat.leb n i = false) by (apply Nat.leb_gt; lia).
      assert (E' : Nat.ltb n (i + len) = false) by (apply Nat.ltb_ge; lia).
      rewrite E, E'. reflexivity. }
    rewrite E. cbn [bind]. eapply IH; eauto.
Qed.

Lemma validate_patch_ok (lines : list pystr) k dd (line : pystr) :
  nth_error lines k = Some line -> wf_chars_c (length line) 0 true dd = true ->
  validate_string_diff lines (DPatch (KI k) dd) = Ok tt.
Proof.
  intros Hn Hw. unfold validate_string_diff.
  assert (Hk : k < length lines) by (apply nth_error_Some; congruence).
  assert (E : validate_seq_op (length lines) (DPatch (KI k) dd) = Ok tt).
  { unfold validate_seq_op. cbn [dkey]. apply Nat.leb_gt in Hk. rewrite Hk. reflexivity. }
  rewrite E. cbn [bind]. unfold nth_res. rewrite Hn. cbn [bind].
  eapply val_inner_ok. exact Hw.
Qed.

(* ---------- (b) entry by entry ---------- *)
Lemma all_strs_join l : all_strs l = true -> exists s, join_strs l = Ok s.
Proof.
  induction l as [|x l IH]; intros H; [exists []; reflexivity|].
  simpl in H. apply andb_true_iff in H as [H1 H2]. destruct x; try discriminate.
  destruct (IH H2) as [r E]. exists (s ++ r). simpl. rewrite E. reflexivity.
Qed.

Section Entries.
  Variable lines t : list pystr.
  Let L := ltc_at lines.
  Let ltc := line_to_char lines.
  Let lines' := lines ++ t.
  Let ltc' := line_to_char (lines ++ t).

  Lemma entry_add k l :
    k <= length lines -> all_strs l = true ->
    exists s, flatten_entry ltc (DAddRange (KI k) (VList l)) = Ok [DAddRange (KI (L k)) (VStr s)]
           /\ ts_flatten_entry lines' ltc' (DAddRange (KI k) (VList l)) = Ok [DAddRange (KI (L k)) (VStr s)].
  Proof.
    intros Hk Hl. destruct (all_strs_join l Hl) as [s E]. exists s.
    unfold flatten_entry, ts_flatten_entry, validate_string_diff, validate_seq_op, ltc, ltc', lines', L.
    cbn [dkey]. rewrite ltc_nth, ltc_nth_app by exact Hk.
    assert (E' : Nat.ltb (length (lines ++ t)) k = false) by (apply Nat.ltb_ge; rewrite app_length; lia).
    rewrite E'. cbn [bind join_vlist]. rewrite E. split; reflexivity.
  Qed.

  Lemma entry_rem k len :
    k + len <= length lines -> len <> 0 ->
    flatten_entry ltc (DRemoveRange (KI k) len) = Ok [DRemoveRange (KI (L k)) (L (k + len) - L k)]
    /\ ts_flatten_entry lines' ltc' (DRemoveRange (KI k) len)
       = Ok [DRemoveRange (KI (L k)) (L (k + len) - L k)].
  Proof.
    intros Hk Hl.
    unfold flatten_entry, ts_flatten_entry, validate_string_diff, validate_seq_op, ltc, ltc', lines', L.
    cbn [dkey]. rewrite !ltc_nth, !ltc_nth_app by lia.
    assert (E : Nat.leb (length (lines ++ t)) k = false) by (apply Nat.leb_gt; rewrite app_length; lia).
    assert (E' : Nat.ltb (length (lines ++ t)) (k + len) = false)
      by (apply Nat.ltb_ge; rewrite app_length; lia).
    rewrite E, E'. cbn [bind]. split; reflexivity.
  Qed.

  Lemma entry_patch k dd line :
    nth_error lines k = Some line -> wf_chars_c (length line) 0 true dd = true ->
    flatten_entry ltc (DPatch (KI k) dd) = mapM (offset_entry (L k)) dd
    /\ ts_flatten_entry lines' ltc' (DPatch (KI k) dd) = mapM (offset_entry (L k)) dd.
  Proof.
    intros Hn Hw.
    assert (Hk : k < length lines) by (apply nth_error_Some; congruence).
    unfold flatten_entry, ts_flatten_entry, ltc, ltc', lines', L.
    rewrite (validate_patch_ok (lines ++ t) k dd line); [| rewrite nth_error_app1; assumption | exact Hw].
    cbn [dkey bind]. rewrite ltc_nth, ltc_nth_app by lia. split; reflexivity.
  Qed.

  Lemma flatten_agree : forall d c ok,
    wf_lines_c lines c ok d = true ->
    exists ch, flatten_entries ltc d = Ok ch
            /\ ts_flatten_entries lines' ltc' d = Ok ch
            /\ chain (L c) ch.
  Proof.
    induction d as [|e r IH]; intros c ok H.
    - exists []. simpl. auto.
    - destruct e as [? ?|?|? ?|k vs|k len|k dd]; try discriminate.
      + (* addrange of whole lines *)
        destruct k as [k|]; [|discriminate]. destruct vs as [l|]; [|discriminate].
        cbn [wf_lines_c] in H.
        apply andb_true_iff in H as [H H5]. apply andb_true_iff in H as [H H4].
        apply andb_true_iff in H as [H H3]. apply andb_true_iff in H as [_ H2].
        apply Nat.leb_le in H3.
        assert (Hck : c <= k).
        { apply orb_true_iff in H4 as [H4|H4]; [apply Nat.ltb_lt in H4; lia|].
          apply andb_true_iff in H4 as [H4 _]. apply Nat.eqb_eq in H4. lia. }
        destruct (entry_add k l H3 H2) as [s [E1 E2]].
        destruct (IH k false H5) as [ch (F1 & F2 & C)].
        exists ([DAddRange (KI (L k)) (VStr s)] ++ ch).
        cbn [flatten_entries ts_flatten_entries]. rewrite E1, E2, F1, F2. cbn [bind].
        repeat split. cbn [app chain flat knat dkey]. repeat split.
        * apply ltc_at_mono. exact Hck.
        * unfold end_of. cbn [knat dkey rlen]. rewrite Nat.add_0_r. exact C.
      + (* removerange of whole lines *)
        destruct k as [k|]; [|discriminate].
        cbn [wf_lines_c] in H.
        apply andb_true_iff in H as [H H4]. apply andb_true_iff in H as [H H3].
        apply andb_true_iff in H as [H1 H2]. apply Nat.leb_le in H2, H3.
        apply negb_true_iff, Nat.eqb_neq in H1.
        destruct (entry_rem k len H3 H1) as [E1 E2].
        destruct (IH (k + len) true H4) as [ch (F1 & F2 & C)].
        exists ([DRemoveRange (KI (L k)) (L (k + len) - L k)] ++ ch).
        cbn [flatten_entries ts_flatten_entries]. rewrite E1, E2, F1, F2. cbn [bind].
        repeat split. cbn [app chain flat knat dkey]. repeat split.
        * apply ltc_at_mono. exact H2.
        * unfold end_of. cbn [knat dkey rlen].
          assert (L k <= L (k + len)) by (apply ltc_at_mono; lia).
          replace (L k + (L (k + len) - L k)) with (L (k + len)) by lia. exact C.
      + (* patch inside one line *)
        destruct k as [k|]; [|discriminate].
        cbn [wf_lines_c] in H.
        apply andb_true_iff in H as [H H3]. apply andb_true_iff in H as [H1 H2].
        apply Nat.leb_le in H1.
        destruct (nth_error lines k) as [line|] eqn:Hn; [|discriminate].
        apply andb_true_iff in H2 as [_ H2].
        destruct (entry_patch k dd line Hn H2) as [E1 E2].
        destruct (wf_chars_chain (length line) (L k) dd 0 true H2 ltac:(lia)) as [x (M & C1 & L1)].
        destruct (IH (k + 1) true H3) as [ch (F1 & F2 & C)].
        exists (x ++ ch).
        cbn [flatten_entries ts_flatten_entries]. rewrite E1, E2, M, F1, F2. cbn [bind].
        repeat split.
        rewrite Nat.add_0_r in C1, L1.
        apply (chain_app x (L c) (L (k + 1)) ch).
        * eapply chain_mono; [|exact C1]. apply ltc_at_mono. exact H1.
        * unfold L. rewrite (ltc_at_succ lines k line Hn).
          etransitivity; [|exact L1]. apply last_end_mono. apply ltc_at_mono. exact H1.
        * exact C.
  Qed.
End Entries.

(* ---------- (d) a chain is already sorted ---------- *)
Lemma insert_end e : forall acc,
  Forall (fun x => knat x <= knat e) acc -> insert_by_key e acc = acc ++ [e].
Proof.
  induction acc as [|x xs IH]; intros H; [reflexivity|].
  inversion H; subst. simpl.
  assert (E : Nat.ltb (knat e) (knat x) = false) by (apply Nat.ltb_ge; assumption).
  rewrite E. f_equal. apply IH. assumption.
Qed.

Lemma sort_fold_chain : forall l acc lo,
  Forall (fun x => knat x <= lo) acc -> chain lo l ->
  fold_left (fun acc e => insert_by_key e acc) l acc = acc ++ l.
Proof.
  induction l as [|e r IH]; intros acc lo Ha Hc; [simpl; rewrite app_nil_r; reflexivity|].
  destruct Hc as (H1 & H2 & H3). cbn [fold_left].
  rewrite insert_end by (eapply Forall_impl; [|exact Ha]; simpl; intros; lia).
  rewrite (IH (acc ++ [e]) (knat e)).
  - rewrite <- app_assoc. reflexivity.
  - apply Forall_app. split; [eapply Forall_impl; [|exact Ha]; simpl; intros; lia|].
    constructor; [lia | constructor].
  - eapply chain_mono; [|exact H3]. unfold end_of. lia.
Qed.

Lemma sort_chain lo l : chain lo l -> sort_by_key l = l.
Proof. intros H. unfold sort_by_key. apply (sort_fold_chain l [] lo); [constructor | exact H]. Qed.

(* ---------- (e) combining adjacent entries does not change what the string loop computes ---------- *)
Lemma combine_chain (s : pystr) : forall d last rest,
  flat last -> chain (end_of last) d ->
  exists cs, combine_go (last :: rest) d = Ok (rev rest ++ cs)
          /\ chain (knat last) cs
          /\ forall take acc, ts_patch_string_go s take cs acc = ts_patch_string_go s take (last :: d) acc.
Proof.
  induction d as [|e d' IH]; intros last rest Hf Hc.
  - exists [last]. repeat split; simpl; auto.
  - destruct Hc as (He & Hle & Hc').
    destruct (flat_inv last Hf) as [(k & x & ->) | (k & l1 & ->)];
      destruct (flat_inv e He) as [(k' & y & ->) | (k' & l2 & ->)];
      unfold end_of in Hle, Hc'; cbn [knat dkey rlen] in Hle, Hc'.
    + (* add, add *)
      cbn [combine_go]. unfold overlaps. cbn [op_of opk_eqb knat dkey].
      destruct (Nat.eqb k k') eqn:Ek.
      * apply Nat.eqb_eq in Ek. subst k'. cbn [bind combine_ops is_addop vappend].
        destruct (IH (DAddRange (KI k) (VStr (x ++ y))) rest I) as [cs (E & C & G)].
        { unfold end_of. cbn [knat dkey rlen]. exact Hc'. }
        exists cs. repeat split; auto.
        intros take acc. rewrite G. cbn [ts_patch_string_go dkey].
        rewrite (tsp_slice_nil_ge s (Nat.max take k) k) by lia. rewrite app_nil_r.
        rewrite <- !app_assoc. f_equal. lia.
      * cbn [bind].
        destruct (IH (DAddRange (KI k') (VStr y)) (DAddRange (KI k) (VStr x) :: rest) I) as [cs (E & C & G)].
        { unfold end_of. cbn [knat dkey rlen]. exact Hc'. }
        exists (DAddRange (KI k) (VStr x) :: cs). split; [|split].
        -- rewrite E. cbn [rev]. rewrite <- app_assoc. reflexivity.
        -- cbn [chain flat knat dkey]. repeat split; auto.
           eapply chain_mono; [|exact C]. unfold end_of. cbn [knat dkey rlen]. lia.
        -- intros take acc. cbn [ts_patch_string_go dkey]. rewrite G. reflexivity.
    + (* add, remove *)
      cbn [combine_go]. unfold overlaps. cbn [op_of opk_eqb knat dkey is_addop andb bind].
      destruct (IH (DRemoveRange (KI k') l2) (DAddRange (KI k) (VStr x) :: rest) I) as [cs (E & C & G)].
      { exact Hc'. }
      exists (DAddRange (KI k) (VStr x) :: cs). split; [|split].
      * rewrite E. cbn [rev]. rewrite <- app_assoc. reflexivity.
      * cbn [chain flat knat dkey]. repeat split; auto.
        eapply chain_mono; [|exact C]. unfold end_of. cbn [knat dkey rlen]. lia.
      * intros take acc. cbn [ts_patch_string_go dkey]. rewrite G. reflexivity.
    + (* remove, add *)
      cbn [combine_go]. unfold overlaps. cbn [op_of opk_eqb knat dkey is_addop andb bind].
      destruct (IH (DAddRange (KI k') (VStr y)) (DRemoveRange (KI k) l1 :: rest) I) as [cs (E & C & G)].
      { exact Hc'. }
      exists (DRemoveRange (KI k) l1 :: cs). split; [|split].
      * rewrite E. cbn [rev]. rewrite <- app_assoc. reflexivity.
      * cbn [chain flat knat dkey]. repeat split; auto.
        eapply chain_mono; [|exact C]. unfold end_of. cbn [knat dkey rlen]. lia.
      * intros take acc. cbn [ts_patch_string_go dkey]. rewrite G. reflexivity.
    + (* remove, remove *)
      cbn [combine_go]. unfold overlaps. cbn [op_of opk_eqb knat dkey].
      assert (Hov : (if Nat.eqb k k' then Ok true
                     else if Nat.leb k' (k + l1)
                          then (if Nat.eqb (k + l1) k' then Ok true else Err RuntimeError)
                          else Ok false) = Ok (Nat.eqb (k + l1) k')).
      { destruct (Nat.eqb k k') eqn:E1.
        - apply Nat.eqb_eq in E1. assert (E2 : Nat.eqb (k + l1) k' = true) by (apply Nat.eqb_eq; lia).
          rewrite E2. reflexivity.
        - destruct (Nat.leb k' (k + l1)) eqn:E2.
          + apply Nat.leb_le in E2. assert (E3 : Nat.eqb (k + l1) k' = true) by (apply Nat.eqb_eq; lia).
            rewrite E3. reflexivity.
          + apply Nat.leb_gt in E2. assert (E3 : Nat.eqb (k + l1) k' = false) by (apply Nat.eqb_neq; lia).
            rewrite E3. reflexivity. }
      rewrite Hov. cbn [bind].
      destruct (Nat.eqb (k + l1) k') eqn:Ek.
      * apply Nat.eqb_eq in Ek. subst k'. cbn [bind combine_ops is_addop].
        destruct (IH (DRemoveRange (KI k) (l1 + l2)) rest I) as [cs (E & C & G)].
        { unfold end_of. cbn [knat dkey rlen]. replace (k + (l1 + l2)) with (k + l1 + l2) by lia. exact Hc'. }
        exists cs. repeat split; auto.
        intros take acc. rewrite G. cbn [ts_patch_string_go dkey].
        rewrite (tsp_slice_nil_ge s (Nat.max take (k + l1)) (k + l1)) by lia. rewrite app_nil_r.
        f_equal. lia.
      * destruct (IH (DRemoveRange (KI k') l2) (DRemoveRange (KI k) l1 :: rest) I) as [cs (E & C & G)].
        { exact Hc'. }
        exists (DRemoveRange (KI k) l1 :: cs). split; [|split].
        -- rewrite E. cbn [rev]. rewrite <- app_assoc. reflexivity.
        -- cbn [chain flat knat dkey]. repeat split; auto.
           eapply chain_mono; [|exact C]. unfold end_of. cbn [knat dkey rlen]. lia.
        -- intros take acc. cbn [ts_patch_string_go dkey]. rewrite G. reflexivity.
Qed.

(* ---------- (f) the character-list loop followed by join is the string loop ---------- *)
Lemma join_chars x : join_strs (chars x) = Ok x.
Proof.
  induction x as [|c x IH]; [reflexivity|].
  change (join_strs (chars (c :: x))) with (do r <- join_strs (chars x); Ok ([c] ++ r)).
  rewrite IH. reflexivity.
Qed.

Lemma chars_app a b : chars (a ++ b) = chars a ++ chars b.
Proof. apply map_app. Qed.

Lemma chars_slice s a b : slice (chars s) a b = chars (slice s a b).
Proof. apply tsp_slice_map. Qed.

Lemma chars_skipn s n : skipn n (chars s) = chars (skipn n s).
Proof. apply skipn_map. Qed.

Lemma py_ts_loop (rec : json -> diff -> res json) (s : pystr) : forall d lo take acc,
  chain lo d ->
  (do r <- patch_list_go rec (chars s) take d (chars acc); join_strs r) = ts_patch_string_go s take d acc.
Proof.
  induction d as [|e d' IH]; intros lo take acc Hc.
  - cbn [patch_list_go ts_patch_string_go bind]. rewrite chars_skipn, <- chars_app. apply join_chars.
  - destruct Hc as (Hf & _ & Hc').
    destruct (flat_inv e Hf) as [(k & x & ->) | (k & len & ->)]; cbn [patch_list_go ts_patch_string_go dkey].
    + change (vitems (VStr x)) with (chars x).
      rewrite chars_slice, <- !chars_app. eapply IH. exact Hc'.
    + rewrite chars_slice, <- !chars_app. eapply IH. exact Hc'.
Qed.

(* ---------- (g) the theorem ---------- *)
Theorem ts_patch_string_agrees :
  forall (rec : json -> diff -> res json) (s : pystr) (d : diff),
    only_nl_cr s = true ->
    wf_lines_c (splitlines s) 0 true d = true ->
    (do r <- ts_patch_string s d; Ok (JStr r))
    = (do fd <- flatten (splitlines s) d;
       do r <- patch_list rec (chars s) fd;
       do j <- join_strs r;
       Ok (JStr j)).
Proof.
  intros rec s d Hs Hw.
  destruct (ts_split_lines_py s Hs) as [t [Ht _]].
  destruct (flatten_agree (splitlines s) t d 0 true Hw) as [ch (E1 & E2 & C)].
  change (ltc_at (splitlines s) 0) with 0 in C.
  unfold ts_patch_string, ts_flatten, flatten. cbv zeta. rewrite Ht, E1, E2. cbn [bind].
  rewrite (sort_chain 0 ch C).
  assert (Hcomb : exists cs, combine_go [] ch = Ok cs /\ chain 0 cs /\
            forall take acc, ts_patch_string_go s take cs acc = ts_patch_string_go s take ch acc).
  { destruct ch as [|e r].
    - exists []. simpl. auto.
    - destruct C as (Hf & _ & Hc). cbn [combine_go].
      destruct (combine_chain s r e [] Hf Hc) as [cs (E & C' & G)].
      exists cs. repeat split; auto. eapply chain_mono; [|exact C']. lia. }
  destruct Hcomb as [cs (E & C' & G)]. rewrite E. cbn [bind].
  rewrite (sort_chain 0 cs C'). rewrite <- G.
  pose proof (py_ts_loop rec s cs 0 0 [] C') as P. change (chars []) with (@nil json) in P.
  unfold patch_list. rewrite <- P.
  destruct (patch_list_go rec (chars s) 0 cs []) as [r|err]; cbn [bind]; [|reflexivity].
  destruct (join_strs r); reflexivity.
Qed.

(* ---------- non-vacuity ---------- *)
(* "ab\ncd": insert "x" inside the first line (character diff), remove the second line *)
Definition ex_s : pystr := [97; 98; 10; 99; 100]%N.
Definition ex_d : diff :=
  [DPatch (KI 0) [DAddRange (KI 1) (VStr [120]%N)]; DRemoveRange (KI 1) 1].

Example ts_patch_string_agrees_nonvacuous :
  length (splitlines ex_s) = 2
  /\ only_nl_cr ex_s = true
  /\ wf_lines_c (splitlines ex_s) 0 true ex_d = true
  /\ (do r <- ts_patch_string ex_s ex_d; Ok (JStr r)) = Ok (JStr [97; 120; 98; 10]%N)
  /\ forall rec : json -> diff -> res json,
       (do fd <- flatten (splitlines ex_s) ex_d;
        do r <- patch_list rec (chars ex_s) fd;
        do j <- join_strs r;
        Ok (JStr j)) = Ok (JStr [97; 120; 98; 10]%N).
Proof. repeat split; vm_compute; reflexivity. Qed.

