(* packages/nbdime/src/merge/decisions.ts: the action whitelist (validateAction, run by the MergeDecision constructor
   on every decision received as JSON) and the set of actions resolveAction has an arm for.  The lists themselves are
   read from the sources by tools/gen/gen_actions.py (Gen/Actions.v). *)
From Coq Require Import List NArith Bool String.
From NB Require Import Base.Res.
From NB Require Import Base.Json.
From NB Require Import Diff.Codec.
From NB Require Import Gen.Actions.
Import ListNotations.

Definition mem (a : pystr) (l : list pystr) : bool := existsb (str_eqb a) l.

(* validateAction: returns the action or throws Error('Invalid merge decision action: ...') *)
Definition ts_validate_action (a : pystr) : res pystr :=
  if mem a ts_accepted then Ok a else Err RuntimeError.

(* resolveAction: the final else throws Error('The action "..." is not defined') *)
Definition ts_resolves (a : pystr) : bool := mem a ts_handled.

Definition take_max : pystr := of_ascii "take_max".
