(* Facts about decisions._sort_key and the order produced by validated() (for C09: decisions are ordered so that
   deeper paths come before their ancestors).  NOTE: among sibling list indices the LOWER index comes first
   (key ('', -i), reverse=True), not the higher one. *)
From Coq Require Import List NArith ZArith Bool Lia Sorted Permutation.
From NB Require Import Base.Json.
From NB Require Import Diff.DiffFormat.
From NB Require Import Merge.SortKey.
From NB Require Import Merge.Decisions.
Import ListNotations.

Lemma str_cmp_refl s : str_cmp s s = Eq.
Proof. apply str_cmp_eq. reflexivity. Qed.

Lemma skel_cmp_refl a : skel_cmp a a = Eq.
Proof. destruct a; simpl; [apply Z.compare_refl | apply str_cmp_refl]. Qed.

Lemma sk_cmp_refl a : sk_cmp a a = Eq.
Proof. induction a as [|x xs IH]; simpl; [reflexivity|]. rewrite skel_cmp_refl. exact IH. Qed.

Lemma skel_cmp_antisym a b : skel_cmp b a = CompOpp (skel_cmp a b).
Proof.
  destruct a, b; simpl.
  - apply Z.compare_antisym.
  - destruct s; reflexivity.
  - destruct s; reflexivity.
  - apply str_cmp_antisym.
Qed.

Lemma sk_cmp_antisym a : forall b, sk_cmp b a = CompOpp (sk_cmp a b).
Proof.
  induction a as [|x xs IH]; intros [|y ys]; simpl; try reflexivity.
  rewrite (skel_cmp_antisym x y). destruct (skel_cmp x y); simpl; auto.
Qed.

(* a path sorts after (is greater than) each of its proper prefixes: with reverse=True it comes first *)
Lemma sk_cmp_app_prefix p q : q <> [] -> sk_cmp (p ++ q) p = Gt.
Proof.
  intros Hq. induction p as [|x xs IH]; simpl.
  - destruct q; [congruence | reflexivity].
  - rewrite skel_cmp_refl. exact IH.
Qed.

Theorem order_deeper_first_key (p q : path) : q <> [] -> sk_cmp (sort_key (p ++ q)) (sort_key p) = Gt.
Proof.
  intros Hq. unfold sort_key. rewrite map_app. apply sk_cmp_app_prefix.
  destruct q; [congruence | discriminate].
Qed.

(* siblings under the same parent: the lower list index has the greater key *)
Theorem order_sibling_indices (p : path) i j :
  sk_cmp (sort_key (p ++ [KI i])) (sort_key (p ++ [KI j])) = Gt <-> i < j.
Proof.
  unfold sort_key. rewrite !map_app. simpl.
  induction (map sort_key_elt p) as [|x xs IH]; simpl.
  - destruct (Z.compare_spec (- Z.of_nat i) (- Z.of_nat j)); split; intros; try discriminate; try lia; reflexivity.
  - rewrite skel_cmp_refl. exact IH.
Qed.

Section Sort.
  Context {A : Type}.
  Variable f : A -> list skel.

  Lemma insert_desc_perm x l : Permutation (x :: l) (insert_desc f x l).
  Proof.
    induction l as [|y r IH]; simpl; [apply Permutation_refl|].
    destruct (sk_cmp (f y) (f x)); try apply Permutation_refl.
    eapply Permutation_trans; [apply perm_swap|]. apply perm_skip. exact IH.
  Qed.

  Lemma sort_desc_perm l : Permutation l (sort_desc f l).
  Proof.
    unfold sort_desc. induction l as [|x l IH]; simpl; [apply Permutation_refl|].
    eapply Permutation_trans; [apply perm_skip; exact IH | apply insert_desc_perm].
  Qed.

  (* never ascending between neighbours *)
  Definition desc (a b : A) : Prop := sk_cmp (f a) (f b) <> Lt.

  Lemma insert_desc_sorted x l : Sorted desc l -> Sorted desc (insert_desc f x l).
  Proof.
    induction 1 as [|y r Hr IH Hy]; simpl.
    - constructor; constructor.
    - destruct (sk_cmp (f y) (f x)) eqn:C.
      + constructor; [constructor; assumption|]. constructor. unfold desc.
        rewrite (sk_cmp_antisym (f y) (f x)), C. discriminate.
      + constructor; [constructor; assumption|]. constructor. unfold desc.
        rewrite (sk_cmp_antisym (f y) (f x)), C. discriminate.
      + constructor; [exact IH|].
        destruct r as [|z r']; simpl.
        * constructor. unfold desc. rewrite C. discriminate.
        * destruct (sk_cmp (f z) (f x)) eqn:C2.
          -- constructor. unfold desc. rewrite C. discriminate.
          -- constructor. unfold desc. rewrite C. discriminate.
          -- inversion Hy; subst. constructor. assumption.
  Qed.

  Lemma sort_desc_sorted l : Sorted desc (sort_desc f l).
  Proof.
    unfold sort_desc. induction l as [|x l IH]; simpl; [constructor|]. apply insert_desc_sorted. exact IH.
  Qed.
End Sort.

(* validated(): a permutation of the builder's decisions (strategy field dropped), never ascending in _sort_key *)
Theorem validated_perm B : Permutation (map drop_strategy B) (validated B).
Proof. apply sort_desc_perm. Qed.

Theorem validated_sorted B : Sorted (desc (fun d => sort_key (d_path d))) (validated B).
Proof. apply sort_desc_sorted. Qed.
