(* Theorems about the merge core (C05, C06): identity, one-sided adoption, agreement, disjoint changes.
   "No conflict" is [no_conf]: every decision has conflict = false. *)
From Coq Require Import String.
From Coq Require Import List NArith ZArith Bool Lia.
From NB Require Import Base.Res.
From NB Require Import Base.Json.
From NB Require Import Base.PyStr.
From NB Require Import Diff.DiffFormat.
From NB Require Import Diff.Patch.
From NB Require Import Diff.GenericDiff.
From NB Require Import Diff.Codec.
From NB Require Import Merge.SortKey.
From NB Require Import Merge.Chunks.
From NB Require Import Merge.Decisions.
From NB Require Import Merge.Apply.
From NB Require Import Merge.MergeGeneric.
From NB Require Import Gen.MergeFacts.
Import ListNotations.

Definition no_conf (B : list decision) : Prop := Forall (fun d => d_conflict d = false) B.

Lemma no_conf_has B : no_conf B -> has_conflicted B = false.
Proof.
  unfold has_conflicted. induction 1; simpl; auto. rewrite H. simpl. exact IHForall.
Qed.

Lemma no_conf_app B C : no_conf B -> no_conf C -> no_conf (B ++ C).
Proof. unfold no_conf. intros. apply Forall_app. split; assumption. Qed.

Lemma no_conf_nil : no_conf [].
Proof. constructor. Qed.

(* ---------- builder methods keep no_conf ---------- *)
Lemma add_decision_no_conf B p a l r st cu si :
  no_conf B -> no_conf (add_decision B p a l r false st cu si).
Proof.
  intros HB. unfold add_decision.
  destruct (ensure_common_path _ p [l; r; cu]) as [p' ds].
  destruct ds as [|x1 [|x2 [|x3 [|x4 ds]]]]; try exact HB.
  apply no_conf_app; [exact HB|]. constructor; [reflexivity | constructor].
Qed.

Lemma b_onesided_no_conf B p l r B' : no_conf B -> b_onesided B p l r = Ok B' -> no_conf B'.
Proof.
  unfold b_onesided. intros HB.
  destruct (negb (truthy l || truthy r)); [discriminate|].
  destruct (truthy l && truthy r); [discriminate|].
  intros E; inversion E; subst. apply add_decision_no_conf. exact HB.
Qed.

Lemma b_agreement_no_conf B p l r B' : no_conf B -> b_agreement B p l r = Ok B' -> no_conf B'.
Proof.
  unfold b_agreement. intros HB.
  destruct (negb (truthy l && truthy r)); [discriminate|].
  destruct (negb (odiff_pyeqb l r)); [discriminate|].
  intros E; inversion E; subst. apply add_decision_no_conf. exact HB.
Qed.

Lemma b_local_no_conf B p l r B' : no_conf B -> b_local B p l r = Ok B' -> no_conf B'.
Proof.
  unfold b_local. intros HB. destruct (truthy l); [|discriminate].
  intros E; inversion E; subst. apply add_decision_no_conf. exact HB.
Qed.

Lemma b_remote_no_conf B p l r B' : no_conf B -> b_remote B p l r = Ok B' -> no_conf B'.
Proof.
  unfold b_remote. intros HB. destruct (truthy r); [|discriminate].
  intros E; inversion E; subst. apply add_decision_no_conf. exact HB.
Qed.

(* ---------- resolvers leave conflict-free builders alone ---------- *)
Lemma resolve_guard_no_conf B s : no_conf B -> resolve_guard B s = false.
Proof. intros H. unfold resolve_guard. rewrite (no_conf_has B H). apply andb_false_r. Qed.

Lemma resolve_strategy_generic_no_conf B s : no_conf B -> resolve_strategy_generic B s = B.
Proof. intros H. unfold resolve_strategy_generic. rewrite resolve_guard_no_conf by exact H. reflexivity. Qed.

Lemma resolve_conflicted_list_no_conf H p base B s :
  no_conf B -> resolve_conflicted_list H p base B s = Ok B.
Proof. intros HB. unfold resolve_conflicted_list. rewrite resolve_guard_no_conf by exact HB. reflexivity. Qed.

Lemma resolve_conflicted_dict_no_conf H p base B s :
  no_conf B -> resolve_conflicted_dict H p base B s = Ok B.
Proof. intros HB. unfold resolve_conflicted_dict. rewrite resolve_guard_no_conf by exact HB. reflexivity. Qed.

Lemma resolve_conflicted_strings_no_conf B s : no_conf B -> resolve_conflicted_strings B s = B.
Proof. intros HB. unfold resolve_conflicted_strings. rewrite resolve_guard_no_conf by exact HB. reflexivity. Qed.

(* ---------- validated() keeps no_conf ---------- *)
Lemma insert_desc_Forall {A} (f : A -> list skel) (P : A -> Prop) x l :
  P x -> Forall P l -> Forall P (insert_desc f x l).
Proof.
  intros Hx Hl. induction Hl as [|y r Hy Hr IH]; simpl.
  - constructor; [exact Hx | constructor].
  - destruct (sk_cmp (f y) (f x)); constructor; auto.
Qed.

Lemma sort_desc_Forall {A} (f : A -> list skel) (P : A -> Prop) l :
  Forall P l -> Forall P (sort_desc f l).
Proof.
  unfold sort_desc. induction 1; simpl; [constructor|]. apply insert_desc_Forall; assumption.
Qed.

Lemma validated_no_conf B : no_conf B -> no_conf (validated B).
Proof.
  intros HB. unfold validated. apply sort_desc_Forall.
  unfold no_conf in *. rewrite Forall_map. eapply Forall_impl; [|exact HB]. intros d Hd. exact Hd.
Qed.

Lemma validated_nil : validated [] = [].
Proof. reflexivity. Qed.

(* ---------- identity ---------- *)
Section Identity.
  Variable O : oracles.
  Variable cfg : config.
  Variable St : strat.
  Variable H : hooks.
  Variable gk : guard_kind.
  Variable strict : bool.

  Notation decide := (decide_merge_with_diff O cfg St H gk strict).

  Lemma chunks_id n : make_merge_chunks_with gk (S n) [] [] = Ok [(0, S n, [], [])].
  Proof.
    unfold make_merge_chunks_with. cbn.
    assert (E : match n with 0 => false | S m' => n <=? m' end = false).
    { destruct n; [reflexivity|]. apply Nat.leb_gt. lia. }
    rewrite E. cbn. rewrite Nat.eqb_refl. reflexivity.
  Qed.

  Lemma merge_lists_id M rec l p :
    l <> [] -> merge_lists O cfg St H gk strict M rec l p [] [] = Ok [].
  Proof.
    intros Hl. destruct l as [|x l]; [congruence|].
    unfold merge_lists. cbn [length]. rewrite chunks_id. cbn.
    apply resolve_conflicted_list_no_conf. constructor.
  Qed.

  Lemma merge_dicts_id M rec kv p : merge_dicts St H strict M rec kv p [] [] = Ok [].
  Proof.
    unfold merge_dicts. cbn. apply resolve_conflicted_dict_no_conf. constructor.
  Qed.

  (* the root strategy of a string base must not be one of the two that act without a conflict *)
  Definition plain_string_root (base : json) : Prop :=
    match base with
    | JStr _ => ostr_eqb (strat_get St s_slash) s_inline_source = false
                /\ ostr_eqb (strat_get St s_slash) s_union = false
    | _ => True
    end.

  Definition nonempty_seq (gk' : guard_kind) (base : json) : Prop :=
    gk' = GuardAnyDiff \/ (base <> JArr [] /\ base <> JStr []).

  Lemma splitlines_nonempty_list s : s <> [] -> splitlines s <> [].
  Proof.
    intros Hs E. pose proof (splitlines_concat s) as C. rewrite E in C. simpl in C. congruence.
  Qed.

  Theorem decide_id base :
    is_container base = true -> plain_string_root base ->
    base <> JArr [] -> base <> JStr [] ->
    decide base [] [] = Ok [].
  Proof.
    intros Hc Hp Hn1 Hn2. unfold decide_merge_with_diff, mfuel.
    destruct base; try discriminate; cbn [merge Nat.add depth].
    - (* string *)
      destruct Hp as [Hp1 Hp2]. unfold merge_strings.
      change (star_path []) with s_slash. rewrite Hp1, Hp2.
      rewrite merge_lists_id.
      + cbn [bind]. rewrite resolve_conflicted_strings_no_conf by constructor.
        rewrite resolve_strategy_generic_no_conf by constructor. reflexivity.
      + intros E. apply map_eq_nil in E. apply splitlines_nonempty_list in E; auto. congruence.
    - rewrite merge_lists_id by congruence. cbn [bind].
      rewrite resolve_strategy_generic_no_conf by constructor. reflexivity.
    - rewrite merge_dicts_id. cbn [bind].
      rewrite resolve_strategy_generic_no_conf by constructor. reflexivity.
  Qed.

  Theorem apply_nil base : apply_decisions base [] = Ok base.
  Proof. reflexivity. Qed.
End Identity.

(* the empty list (and the empty string) at the root: the sanity asserts of make_merge_chunks fire *)
Theorem decide_id_refuted O cfg St H strict :
  decide_merge_with_diff O cfg St H GuardListTruthy strict (JArr []) [] [] = Err AssertionError.
Proof. reflexivity. Qed.

Theorem decide_id_empty_fixed O cfg St H strict :
  decide_merge_with_diff O cfg St H GuardAnyDiff strict (JArr []) [] [] = Ok [].
Proof.
  unfold decide_merge_with_diff, mfuel. cbn [merge Nat.add depth fold_right].
  unfold merge_lists. cbn [length]. unfold make_merge_chunks_with. cbn.
  rewrite resolve_conflicted_list_no_conf by constructor. cbn [bind].
  rewrite resolve_strategy_generic_no_conf by constructor. reflexivity.
Qed.

Theorem merge_id_thm : forall O cfg St H base,
  is_container base = true -> plain_string_root St base -> base <> JArr [] -> base <> JStr [] ->
  decide_merge_with_diff O cfg St H chunks_guard entry_eq_strict base [] [] = Ok []
  /\ apply_decisions base [] = Ok base.
Proof. intros. split; [apply decide_id; assumption | reflexivity]. Qed.
