(* Theorems about the merge core (C05, C06): identity, one-sided adoption, agreement, disjoint changes.
   "No conflict" is [no_conf]: every decision has conflict = false. *)
From Coq Require Import String.
From Coq Require Import List NArith ZArith Bool Lia.
From NB Require Import Base.Res.
From NB Require Import Base.Json.
From NB Require Import Base.PyStr.
From NB Require Import Diff.DiffFormat.
From NB Require Import Diff.Patch.
From NB Require Import Diff.GenericDiff.
From NB Require Import Diff.Codec.
From NB Require Import Merge.SortKey.
From NB Require Import Merge.Chunks.
From NB Require Import Merge.Decisions.
From NB Require Import Merge.Apply.
From NB Require Import Merge.MergeGeneric.
From NB Require Import Gen.MergeFacts.
From NB Require Import Gen.NbConfig.
Import ListNotations.

Definition no_conf (B : list decision) : Prop := Forall (fun d => d_conflict d = false) B.

Lemma no_conf_has B : no_conf B -> has_conflicted B = false.
Proof.
  unfold has_conflicted. induction 1; simpl; auto. rewrite H. simpl. exact IHForall.
Qed.

Lemma no_conf_app B C : no_conf B -> no_conf C -> no_conf (B ++ C).
Proof. unfold no_conf. intros. apply Forall_app. split; assumption. Qed.

Lemma no_conf_nil : no_conf [].
Proof. constructor. Qed.

(* ---------- builder methods keep no_conf ---------- *)
Lemma add_decision_no_conf B p a l r st cu si :
  no_conf B -> no_conf (add_decision B p a l r false st cu si).
Proof.
  intros HB. unfold add_decision.
  destruct (ensure_common_path _ p [l; r; cu]) as [p' ds].
  destruct ds as [|x1 [|x2 [|x3 [|x4 ds]]]]; try exact HB.
  apply no_conf_app; [exact HB|]. constructor; [reflexivity | constructor].
Qed.

Lemma b_onesided_no_conf B p l r B' : no_conf B -> b_onesided B p l r = Ok B' -> no_conf B'.
Proof.
  unfold b_onesided. intros HB.
  destruct (negb (truthy l || truthy r)); [discriminate|].
  destruct (truthy l && truthy r); [discriminate|].
  intros E; inversion E; subst. apply add_decision_no_conf. exact HB.
Qed.

Lemma b_agreement_no_conf B p l r B' : no_conf B -> b_agreement B p l r = Ok B' -> no_conf B'.
Proof.
  unfold b_agreement. intros HB.
  destruct (negb (truthy l && truthy r)); [discriminate|].
  destruct (negb (odiff_pyeqb l r)); [discriminate|].
  intros E; inversion E; subst. apply add_decision_no_conf. exact HB.
Qed.

Lemma b_local_no_conf B p l r B' : no_conf B -> b_local B p l r = Ok B' -> no_conf B'.
Proof.
  unfold b_local. intros HB. destruct (truthy l); [|discriminate].
  intros E; inversion E; subst. apply add_decision_no_conf. exact HB.
Qed.

Lemma b_remote_no_conf B p l r B' : no_conf B -> b_remote B p l r = Ok B' -> no_conf B'.
Proof.
  unfold b_remote. intros HB. destruct (truthy r); [|discriminate].
  intros E; inversion E; subst. apply add_decision_no_conf. exact HB.
Qed.

(* ---------- resolvers leave conflict-free builders alone ---------- *)
Lemma resolve_guard_no_conf B s : no_conf B -> resolve_guard B s = false.
Proof. intros H. unfold resolve_guard. rewrite (no_conf_has B H). apply andb_false_r. Qed.

Lemma resolve_strategy_generic_no_conf B s : no_conf B -> resolve_strategy_generic B s = B.
Proof. intros H. unfold resolve_strategy_generic. rewrite resolve_guard_no_conf by exact H. reflexivity. Qed.

Lemma resolve_conflicted_list_no_conf H p base B s :
  no_conf B -> resolve_conflicted_list H p base B s = Ok B.
Proof. intros HB. unfold resolve_conflicted_list. rewrite resolve_guard_no_conf by exact HB. reflexivity. Qed.

Lemma resolve_conflicted_dict_no_conf H p base B s :
  no_conf B -> resolve_conflicted_dict H p base B s = Ok B.
Proof. intros HB. unfold resolve_conflicted_dict. rewrite resolve_guard_no_conf by exact HB. reflexivity. Qed.

Lemma resolve_conflicted_strings_no_conf B s : no_conf B -> resolve_conflicted_strings B s = B.
Proof. intros HB. unfold resolve_conflicted_strings. rewrite resolve_guard_no_conf by exact HB. reflexivity. Qed.

(* ---------- validated() keeps no_conf ---------- *)
Lemma insert_desc_Forall {A} (f : A -> list skel) (P : A -> Prop) x l :
  P x -> Forall P l -> Forall P (insert_desc f x l).
Proof.
  intros Hx Hl. induction Hl as [|y r Hy Hr IH]; simpl.
  - constructor; [exact Hx | constructor].
  - destruct (sk_cmp (f y) (f x)); constructor; auto.
Qed.

Lemma sort_desc_Forall {A} (f : A -> list skel) (P : A -> Prop) l :
  Forall P l -> Forall P (sort_desc f l).
Proof.
  unfold sort_desc. induction 1; simpl; [constructor|]. apply insert_desc_Forall; assumption.
Qed.

Lemma validated_no_conf B : no_conf B -> no_conf (validated B).
Proof.
  intros HB. unfold validated. apply sort_desc_Forall.
  unfold no_conf in *. rewrite Forall_map. eapply Forall_impl; [|exact HB]. intros d Hd. exact Hd.
Qed.

Lemma validated_nil : validated [] = [].
Proof. reflexivity. Qed.

(* ---------- identity ---------- *)
Section Identity.
  Variable O : oracles.
  Variable cfg : config.
  Variable St : strat.
  Variable H : hooks.
  Variable gk : guard_kind.
  Variable strict : bool.
  Variable cstrict : bool.

  Notation decide := (decide_merge_with_diff O cfg St H gk strict cstrict).

  Lemma chunks_id n : make_merge_chunks_with gk (S n) [] [] = Ok [(0, S n, [], [])].
  Proof.
    unfold make_merge_chunks_with. cbn.
    assert (E : match n with 0 => false | S m' => n <=? m' end = false).
    { destruct n; [reflexivity|]. apply Nat.leb_gt. lia. }
    rewrite E. cbn. rewrite Nat.eqb_refl. reflexivity.
  Qed.

  Lemma merge_lists_id M rec l p :
    l <> [] -> merge_lists O cfg St H gk strict cstrict M rec l p [] [] = Ok [].
  Proof.
    intros Hl. destruct l as [|x l]; [congruence|].
    unfold merge_lists. cbn [length]. rewrite chunks_id. cbn.
    apply resolve_conflicted_list_no_conf. constructor.
  Qed.

  Lemma merge_dicts_id M rec kv p : merge_dicts St H strict cstrict M rec kv p [] [] = Ok [].
  Proof.
    unfold merge_dicts. cbn. apply resolve_conflicted_dict_no_conf. constructor.
  Qed.

  (* the root strategy of a string base must not be one of the two that act without a conflict *)
  Definition plain_string_root (base : json) : Prop :=
    match base with
    | JStr _ => ostr_eqb (strat_get St s_slash) s_inline_source = false
                /\ ostr_eqb (strat_get St s_slash) s_union = false
    | _ => True
    end.

  Definition nonempty_seq (gk' : guard_kind) (base : json) : Prop :=
    gk' = GuardAnyDiff \/ (base <> JArr [] /\ base <> JStr []).

  Lemma splitlines_nonempty_list s : s <> [] -> splitlines s <> [].
  Proof.
    intros Hs E. pose proof (splitlines_concat s) as C. rewrite E in C. simpl in C. congruence.
  Qed.

  Theorem decide_id base :
    is_container base = true -> plain_string_root base ->
    base <> JArr [] -> base <> JStr [] ->
    decide base [] [] = Ok [].
  Proof.
    intros Hc Hp Hn1 Hn2. unfold decide_merge_with_diff, mfuel.
    destruct base; try discriminate; cbn [merge Nat.add depth].
    - (* string *)
      destruct Hp as [Hp1 Hp2]. unfold merge_strings.
      change (star_path []) with s_slash. rewrite Hp1, Hp2.
      rewrite merge_lists_id.
      + cbn [bind]. rewrite resolve_conflicted_strings_no_conf by constructor.
        rewrite resolve_strategy_generic_no_conf by constructor. reflexivity.
      + intros E. apply map_eq_nil in E. apply splitlines_nonempty_list in E; auto. congruence.
    - rewrite merge_lists_id by congruence. cbn [bind].
      rewrite resolve_strategy_generic_no_conf by constructor. reflexivity.
    - rewrite merge_dicts_id. cbn [bind].
      rewrite resolve_strategy_generic_no_conf by constructor. reflexivity.
  Qed.

  Theorem apply_nil base : apply_decisions base [] = Ok base.
  Proof. reflexivity. Qed.
End Identity.

(* the empty list (and the empty string) at the root: the sanity asserts of make_merge_chunks fire *)
Theorem decide_id_refuted O cfg St H strict cstrict :
  decide_merge_with_diff O cfg St H GuardListTruthy strict cstrict (JArr []) [] [] = Err AssertionError.
Proof. reflexivity. Qed.

Theorem decide_id_empty_fixed O cfg St H strict cstrict :
  decide_merge_with_diff O cfg St H GuardAnyDiff strict cstrict (JArr []) [] [] = Ok [].
Proof.
  unfold decide_merge_with_diff, mfuel. cbn [merge Nat.add depth fold_right].
  unfold merge_lists. cbn [length]. unfold make_merge_chunks_with. cbn.
  rewrite resolve_conflicted_list_no_conf by constructor. cbn [bind].
  rewrite resolve_strategy_generic_no_conf by constructor. reflexivity.
Qed.


(* ---------- folding a res-valued step that keeps an invariant ---------- *)
Lemma fold_left_res_inv {A X} (P : A -> Prop) (f : A -> X -> res A) (l : list X) :
  (forall a x a', P a -> f a x = Ok a' -> P a') ->
  forall init r, (forall a, init = Ok a -> P a) ->
  fold_left (fun acc x => bind acc (fun a => f a x)) l init = Ok r -> P r.
Proof.
  intros Hstep. induction l as [|x l IH]; intros init r Hinit E; simpl in E.
  - apply Hinit. exact E.
  - eapply IH; [|exact E]. intros a Ha. destruct init as [a0|e]; simpl in Ha; [|discriminate].
    eapply Hstep; [apply Hinit; reflexivity | exact Ha].
Qed.

Definition c_d0 (c : chunk) : diff := snd (fst c).
Definition c_d1 (c : chunk) : diff := snd c.

Lemma take_key_nil j : take_key [] j = ([], []).
Proof. reflexivity. Qed.

Lemma make_chunks_right_nil bs : forall d0, Forall (fun c => c_d1 c = []) (make_chunks bs d0 []).
Proof.
  induction bs as [|j r IH]; intros d0; simpl; [constructor|].
  destruct (take_key d0 j) as [s0 d0'].
  destruct (_ || _ || _); [constructor; [reflexivity|]|]; apply IH.
Qed.

Lemma make_chunks_left_nil bs : forall d1, Forall (fun c => c_d0 c = []) (make_chunks bs [] d1).
Proof.
  induction bs as [|j r IH]; intros d1; simpl; [constructor|].
  destruct (take_key d1 j) as [s1 d1'].
  destruct (_ || _ || _); [constructor; [reflexivity|]|]; apply IH.
Qed.

Lemma make_chunks_same bs : forall d, Forall (fun c => c_d0 c = c_d1 c) (make_chunks bs d d).
Proof.
  induction bs as [|j r IH]; intros d; simpl; [constructor|].
  destruct (take_key d j) as [s0 d'].
  destruct (_ || _ || _); [constructor; [reflexivity|]|]; apply IH.
Qed.

(* every Ok result of make_merge_chunks is make_chunks of the split diffs *)
Lemma mmc_shape gk n d0 d1 chunks :
  make_merge_chunks_with gk n d0 d1 = Ok chunks ->
  exists bs s0 s1, split_diffs_on_boundaries d0 bs = Ok s0 /\ split_diffs_on_boundaries d1 bs = Ok s1
                   /\ chunks = make_chunks bs s0 s1.
Proof.
  unfold make_merge_chunks_with. intros E.
  destruct (get_section_boundaries d0 _) as [b0|]; [cbn [bind] in E|discriminate].
  destruct (get_section_boundaries d1 b0) as [bs|]; [cbn [bind] in E|discriminate].
  destruct (split_diffs_on_boundaries d0 bs) as [s0|] eqn:E0; [cbn [bind] in E|discriminate].
  destruct (split_diffs_on_boundaries d1 bs) as [s1|] eqn:E1; [cbn [bind] in E|discriminate].
  exists bs, s0, s1. repeat split; auto.
  destruct (_ || _) in E.
  - destruct (make_chunks bs s0 s1) as [|[[[j0 k0] a0] a1] rest] eqn:EC; [discriminate|].
    destruct (negb _) in E; [discriminate|].
    destruct (last _ _) as [[[x kn] y] z]. destruct (Nat.eqb kn n) in E; [|discriminate].
    inversion E. reflexivity.
  - inversion E. reflexivity.
Qed.

Section NoConflict.
  Variable O : oracles.
  Variable cfg : config.
  Variable St : strat.
  Variable H : hooks.
  Variable gk : guard_kind.
  Variable strict : bool.
  Variable cstrict : bool.

  Lemma merge_chunk_right_nil M rec base p B j k d0 B' :
    no_conf B -> merge_chunk O cfg St H strict cstrict M rec base p B (j, k, d0, []) = Ok B' -> no_conf B'.
  Proof.
    intros HB. unfold merge_chunk.
    destruct (chunk_typename d0) as [la lp]. cbn [chunk_typename].
    destruct (str_eqb _ _); [intros E; inversion E; subst; exact HB|].
    cbn [nonempty]. rewrite andb_false_r. cbn [negb].
    apply b_onesided_no_conf. exact HB.
  Qed.

  Lemma merge_chunk_left_nil M rec base p B j k d1 B' :
    no_conf B -> merge_chunk O cfg St H strict cstrict M rec base p B (j, k, [], d1) = Ok B' -> no_conf B'.
  Proof.
    intros HB. unfold merge_chunk. cbn [chunk_typename].
    destruct (chunk_typename d1) as [ra rp].
    destruct (str_eqb _ _); [intros E; inversion E; subst; exact HB|].
    cbn [nonempty andb negb].
    apply b_onesided_no_conf. exact HB.
  Qed.

  Lemma merge_chunks_inv (P : chunk -> Prop) M rec base p :
    (forall B c B', P c -> no_conf B -> merge_chunk O cfg St H strict cstrict M rec base p B c = Ok B' -> no_conf B') ->
    forall cs B B', Forall P cs -> no_conf B ->
    merge_chunks O cfg St H strict cstrict M rec base p B cs = Ok B' -> no_conf B'.
  Proof.
    intros Hstep. induction cs as [|c cs IH]; intros B B' Hcs HB E; simpl in E.
    - inversion E; subst. exact HB.
    - inversion Hcs; subst.
      destruct (merge_chunk _ _ _ _ _ _ _ _ _ _ B c) as [B1|] eqn:E1; [cbn [bind] in E|discriminate].
      eapply IH; [eassumption | | exact E]. eapply Hstep; eauto.
  Qed.

  Lemma split_nil bs : split_diffs_on_boundaries [] bs = Ok [].
  Proof. reflexivity. Qed.

  Lemma merge_lists_right_nil M rec base p ld B :
    merge_lists O cfg St H gk strict cstrict M rec base p ld [] = Ok B -> no_conf B.
  Proof.
    unfold merge_lists. intros E.
    destruct (make_merge_chunks_with gk _ ld []) as [chunks|] eqn:EC; [cbn [bind] in E|discriminate].
    destruct (merge_chunks _ _ _ _ _ _ _ _ _ _ [] chunks) as [B1|] eqn:EM; [cbn [bind] in E|discriminate].
    assert (HB1 : no_conf B1).
    { apply mmc_shape in EC. destruct EC as (bs & s0 & s1 & _ & E1 & ->).
      rewrite split_nil in E1. inversion E1; subst.
      eapply (merge_chunks_inv (fun c => c_d1 c = [])); [| apply make_chunks_right_nil | constructor | exact EM].
      intros B0 [[[j k] d0] d1] B' Hc HB0. unfold c_d1 in Hc. simpl in Hc. subst d1.
      apply merge_chunk_right_nil. exact HB0. }
    rewrite resolve_conflicted_list_no_conf in E by exact HB1. inversion E; subst. exact HB1.
  Qed.

  Lemma merge_lists_left_nil M rec base p rd B :
    merge_lists O cfg St H gk strict cstrict M rec base p [] rd = Ok B -> no_conf B.
  Proof.
    unfold merge_lists. intros E.
    destruct (make_merge_chunks_with gk _ [] rd) as [chunks|] eqn:EC; [cbn [bind] in E|discriminate].
    destruct (merge_chunks _ _ _ _ _ _ _ _ _ _ [] chunks) as [B1|] eqn:EM; [cbn [bind] in E|discriminate].
    assert (HB1 : no_conf B1).
    { apply mmc_shape in EC. destruct EC as (bs & s0 & s1 & E0 & _ & ->).
      rewrite split_nil in E0. inversion E0; subst.
      eapply (merge_chunks_inv (fun c => c_d0 c = [])); [| apply make_chunks_left_nil | constructor | exact EM].
      intros B0 [[[j k] d0] d1] B' Hc HB0. unfold c_d0 in Hc. simpl in Hc. subst d0.
      apply merge_chunk_left_nil. exact HB0. }
    rewrite resolve_conflicted_list_no_conf in E by exact HB1. inversion E; subst. exact HB1.
  Qed.
End NoConflict.
Section NoConflict2.
  Variable O : oracles.
  Variable cfg : config.
  Variable St : strat.
  Variable H : hooks.
  Variable gk : guard_kind.
  Variable strict : bool.
  Variable cstrict : bool.

  Lemma merge_dicts_right_nil M rec base p ld B :
    merge_dicts St H strict cstrict M rec base p ld [] = Ok B -> no_conf B.
  Proof.
    unfold merge_dicts. intros E.
    destruct (as_dict_based_diff ld []) as [L|]; [cbn [bind] in E|discriminate].
    cbn [as_dict_based_diff bind] in E.
    match type of E with bind ?F _ = _ => destruct F as [B1|] eqn:E1; [cbn [bind] in E|discriminate] end.
    assert (HB1 : no_conf B1).
    { eapply (fold_left_res_inv no_conf) in E1; [exact E1 | | ].
      - intros a x a' Ha. apply b_onesided_no_conf. exact Ha.
      - intros a Ea. inversion Ea. constructor. }
    match type of E with bind ?F _ = _ => destruct F as [B2|] eqn:E2; [cbn [bind] in E|discriminate] end.
    assert (HB2 : no_conf B2).
    { eapply (fold_left_res_inv no_conf (fun B kv => Ok B)) in E2; [exact E2 | | ].
      - intros a x a' Ha Ea. inversion Ea; subst. exact Ha.
      - intros a Ea. inversion Ea; subst. exact HB1. }
    rewrite resolve_conflicted_dict_no_conf in E by exact HB2. inversion E; subst. exact HB2.
  Qed.

  Lemma merge_dicts_left_nil M rec base p rd B :
    merge_dicts St H strict cstrict M rec base p [] rd = Ok B -> no_conf B.
  Proof.
    unfold merge_dicts. intros E. cbn [as_dict_based_diff bind] in E.
    destruct (as_dict_based_diff rd []) as [R|]; [cbn [bind] in E|discriminate].
    match type of E with bind ?F _ = _ => destruct F as [B1|] eqn:E1; [cbn [bind] in E|discriminate] end.
    assert (HB1 : no_conf B1).
    { eapply (fold_left_res_inv no_conf) in E1; [exact E1 | | ].
      - intros a x a' Ha. apply b_onesided_no_conf. exact Ha.
      - intros a Ea. inversion Ea. constructor. }
    cbn [fold_left bind] in E.
    rewrite resolve_conflicted_dict_no_conf in E by exact HB1. inversion E; subst. exact HB1.
  Qed.

  Lemma star_path_nil : star_path [] = s_slash.
  Proof. reflexivity. Qed.

  (* one-sided: only the local side changed *)
  Theorem merge_onesided_local_no_conf n base ld B :
    plain_string_root St base ->
    merge O cfg St H gk strict cstrict n false base ld [] [] = Ok B -> no_conf B.
  Proof.
    intros Hp. destruct n as [|n]; [discriminate|]. cbn [merge].
    destruct base; try discriminate.
    - destruct Hp as [Hp1 Hp2]. unfold merge_strings. rewrite star_path_nil, Hp1, Hp2.
      intros E.
      match type of E with bind ?F _ = _ => destruct F as [B1|] eqn:E1; [cbn [bind] in E|discriminate] end.
      apply merge_lists_right_nil in E1.
      rewrite resolve_conflicted_strings_no_conf in E by exact E1. inversion E; subst. exact E1.
    - apply merge_lists_right_nil.
    - apply merge_dicts_right_nil.
  Qed.

  Theorem merge_onesided_remote_no_conf n base rd B :
    plain_string_root St base ->
    merge O cfg St H gk strict cstrict n false base [] rd [] = Ok B -> no_conf B.
  Proof.
    intros Hp. destruct n as [|n]; [discriminate|]. cbn [merge].
    destruct base; try discriminate.
    - destruct Hp as [Hp1 Hp2]. unfold merge_strings. rewrite star_path_nil, Hp1, Hp2.
      intros E.
      match type of E with bind ?F _ = _ => destruct F as [B1|] eqn:E1; [cbn [bind] in E|discriminate] end.
      apply merge_lists_left_nil in E1.
      rewrite resolve_conflicted_strings_no_conf in E by exact E1. inversion E; subst. exact E1.
    - apply merge_lists_left_nil.
    - apply merge_dicts_left_nil.
  Qed.

  Lemma decide_from_merge base ld rd decs :
    (forall B, merge O cfg St H gk strict cstrict (mfuel base) false base ld rd [] = Ok B -> no_conf B) ->
    decide_merge_with_diff O cfg St H gk strict cstrict base ld rd = Ok decs -> no_conf decs.
  Proof.
    intros HM. unfold decide_merge_with_diff. intros E.
    destruct (merge _ _ _ _ _ _ _ _ _ _ _ _ _) as [B|]; [cbn [bind] in E|discriminate].
    specialize (HM B eq_refl). rewrite resolve_strategy_generic_no_conf in E by exact HM.
    inversion E; subst. apply validated_no_conf. exact HM.
  Qed.

  Theorem decide_onesided_local base ld decs :
    plain_string_root St base ->
    decide_merge_with_diff O cfg St H gk strict cstrict base ld [] = Ok decs -> no_conf decs.
  Proof. intros Hp. apply decide_from_merge. intros B. apply merge_onesided_local_no_conf. exact Hp. Qed.

  Theorem decide_onesided_remote base rd decs :
    plain_string_root St base ->
    decide_merge_with_diff O cfg St H gk strict cstrict base [] rd = Ok decs -> no_conf decs.
  Proof. intros Hp. apply decide_from_merge. intros B. apply merge_onesided_remote_no_conf. exact Hp. Qed.
End NoConflict2.
(* ---------- reflexivity of the equalities used for "same modification" ---------- *)
Lemma num_eqb_refl x : num_eqb x x = true.
Proof.
  destruct x as [m e]. unfold num_eqb. rewrite Z.leb_refl.
  destruct (Z.leb 0 e); [apply Z.eqb_refl|]. rewrite Z.sub_diag. simpl. rewrite Z.mul_1_r. apply Z.eqb_refl.
Qed.

Lemma py_eqb_refl a : py_eqb a a = true.
Proof.
  induction a using json_ind'; try reflexivity.
  - simpl. destruct b; reflexivity.
  - simpl. apply Z.eqb_refl.
  - cbn [py_eqb num_of]. destruct (Z.eqb m 0); apply num_eqb_refl.
  - simpl. apply str_eqb_refl.
  - cbn [py_eqb num_of]. induction H as [|x xs Hx Hxs IH]; [reflexivity|]. rewrite Hx. simpl. exact IH.
  - cbn [py_eqb num_of]. induction H as [|[k x] xs Hx Hxs IH]; [reflexivity|].
    simpl in Hx. rewrite str_eqb_refl, Hx. simpl. exact IH.
Qed.

Lemma list_pyeqb_refl l : list_pyeqb l l = true.
Proof. induction l; simpl; [reflexivity|]. rewrite py_eqb_refl. exact IHl. Qed.

Lemma key_eqb_refl k : key_eqb k k = true.
Proof. destruct k; simpl; [apply Nat.eqb_refl | apply str_eqb_refl]. Qed.

Lemma vlist_pyeqb_refl v : vlist_pyeqb v v = true.
Proof. destruct v; simpl; [apply list_pyeqb_refl | apply str_eqb_refl]. Qed.

Lemma vlist_eqb_refl v : vlist_eqb v v = true.
Proof. destruct v; simpl; [apply (json_eqb_refl (JArr l)) | apply str_eqb_refl]. Qed.

Fixpoint entry_pyeqb_refl (e : dentry) : entry_pyeqb e e = true.
Proof.
  destruct e; simpl; rewrite ?key_eqb_refl, ?py_eqb_refl, ?vlist_pyeqb_refl, ?Nat.eqb_refl; try reflexivity.
  simpl. induction d as [|x xs IH]; [reflexivity|]. rewrite entry_pyeqb_refl. simpl. exact IH.
Qed.

Fixpoint entry_eqb_refl (e : dentry) : entry_eqb e e = true.
Proof.
  destruct e; simpl; rewrite ?key_eqb_refl, ?json_eqb_refl, ?vlist_eqb_refl, ?Nat.eqb_refl; try reflexivity.
  simpl. induction d as [|x xs IH]; [reflexivity|]. rewrite entry_eqb_refl. simpl. exact IH.
Qed.

Lemma diff_pyeqb_refl d : diff_pyeqb d d = true.
Proof. induction d; simpl; [reflexivity|]. rewrite entry_pyeqb_refl. exact IHd. Qed.

Lemma diff_eqb_refl d : diff_eqb d d = true.
Proof. induction d; simpl; [reflexivity|]. rewrite entry_eqb_refl. exact IHd. Qed.

Lemma same_diff_refl strict d : same_diff strict d d = true.
Proof. unfold same_diff. destruct strict; [apply diff_eqb_refl | apply diff_pyeqb_refl]. Qed.

Lemma same_entry_refl strict e : same_entry strict e e = true.
Proof. unfold same_entry. destruct strict; [apply entry_eqb_refl | apply entry_pyeqb_refl]. Qed.

Lemma opk_eqb_refl o : opk_eqb o o = true.
Proof. destruct o; reflexivity. Qed.

(* ---------- the dict-based diff is a function of the key ---------- *)
Definition all_gt (k : pystr) (l : list (pystr * dentry)) : Prop := Forall (fun kv => str_ltb k (fst kv) = true) l.

Fixpoint dsorted (l : list (pystr * dentry)) : Prop :=
  match l with
  | [] => True
  | (k, _) :: r => all_gt k r /\ dsorted r
  end.

Lemma dict_get_not_gt k l : all_gt k l -> dict_get k l = None.
Proof.
  induction 1 as [|[k' e'] r Hk Hr IH]; [reflexivity|]. simpl in *.
  destruct (str_eqb k k') eqn:E; [|exact IH].
  apply str_eqb_eq in E. subst. rewrite str_ltb_irrefl in Hk. discriminate.
Qed.

Lemma str_cmp_lt_ltb a b : str_cmp a b = Lt -> str_ltb a b = true.
Proof. unfold str_ltb. intros ->. reflexivity. Qed.

Lemma str_cmp_gt_ltb a b : str_cmp a b = Gt -> str_ltb b a = true.
Proof. unfold str_ltb. rewrite (str_cmp_antisym a b). intros ->. reflexivity. Qed.

Lemma all_gt_trans k k' l : str_ltb k k' = true -> all_gt k' l -> all_gt k l.
Proof.
  intros Hk Hl. unfold all_gt in *. eapply Forall_impl; [|exact Hl].
  intros kv Hkv. eapply str_ltb_trans; eassumption.
Qed.

Lemma all_gt_dict_set k0 k e l : str_ltb k0 k = true -> all_gt k0 l -> all_gt k0 (dict_set k e l).
Proof.
  intros Hk. induction 1 as [|[k' e'] r Hk' Hr IH]; simpl.
  - constructor; [exact Hk | constructor].
  - destruct (str_cmp k k').
    + constructor; [exact Hk | exact Hr].
    + constructor; [exact Hk | constructor; [exact Hk' | exact Hr]].
    + constructor; [exact Hk' | exact IH].
Qed.

Lemma dict_set_sorted k e l : dsorted l -> dsorted (dict_set k e l).
Proof.
  induction l as [|[k' e'] r IH]; intros Hs; [simpl; split; [constructor | exact I]|].
  simpl in Hs. destruct Hs as [H1 H2]. simpl. destruct (str_cmp k k') eqn:C.
  - apply str_cmp_eq in C. subst. simpl. split; assumption.
  - simpl. split; [|split; assumption].
    constructor; [apply str_cmp_lt_ltb; exact C|].
    eapply all_gt_trans; [apply str_cmp_lt_ltb; exact C | exact H1].
  - simpl. split; [|apply IH; exact H2].
    apply all_gt_dict_set; [apply str_cmp_gt_ltb; exact C | exact H1].
Qed.

Lemma as_dict_sorted d : forall acc L, dsorted acc -> as_dict_based_diff d acc = Ok L -> dsorted L.
Proof.
  induction d as [|e r IH]; intros acc L Hs E; simpl in E.
  - inversion E; subst. exact Hs.
  - destruct (dkey e); [discriminate|]. eapply IH; [|exact E]. apply dict_set_sorted. exact Hs.
Qed.

Lemma sorted_lookup l : dsorted l -> Forall (fun kv => dict_get (fst kv) l = Some (snd kv)) l.
Proof.
  induction l as [|[k e] r IH]; intros Hs; [constructor|].
  simpl in Hs. destruct Hs as [Hgt Hr].
  constructor.
  - simpl. rewrite str_eqb_refl. reflexivity.
  - specialize (IH Hr). rewrite Forall_forall in *. intros [k2 e2] Hin. simpl.
    destruct (str_eqb k2 k) eqn:E.
    + apply str_eqb_eq in E. subst. unfold all_gt in Hgt. rewrite Forall_forall in Hgt.
      specialize (Hgt _ Hin). simpl in Hgt. rewrite str_ltb_irrefl in Hgt. discriminate.
    + apply (IH _ Hin).
Qed.

Lemma fold_left_res_inv_in {A X} (P : A -> Prop) (f : A -> X -> res A) (l : list X) :
  (forall a x a', In x l -> P a -> f a x = Ok a' -> P a') ->
  forall init r, (forall a, init = Ok a -> P a) ->
  fold_left (fun acc x => bind acc (fun a => f a x)) l init = Ok r -> P r.
Proof.
  induction l as [|x l IH]; intros Hstep init r Hinit E; simpl in E.
  - apply Hinit. exact E.
  - eapply IH; [| |exact E].
    + intros a y a' Hin. apply Hstep. right. exact Hin.
    + intros a Ha. destruct init as [a0|e]; simpl in Ha; [|discriminate].
      eapply Hstep; [left; reflexivity | apply Hinit; reflexivity | exact Ha].
Qed.

Section Agreement.
  Variable O : oracles.
  Variable cfg : config.
  Variable St : strat.
  Variable H : hooks.
  Variable gk : guard_kind.
  Variable strict : bool.
  Variable cstrict : bool.

  Lemma merge_chunk_same M rec base p B j k d B' :
    no_conf B -> merge_chunk O cfg St H strict cstrict M rec base p B (j, k, d, d) = Ok B' -> no_conf B'.
  Proof.
    intros HB. unfold merge_chunk.
    destruct (chunk_typename d) as [la lp].
    destruct (str_eqb _ _); [intros E; inversion E; subst; exact HB|].
    destruct (negb _); [apply b_onesided_no_conf; exact HB|].
    rewrite same_diff_refl. apply b_agreement_no_conf. exact HB.
  Qed.

  Lemma merge_lists_same M rec base p d B :
    merge_lists O cfg St H gk strict cstrict M rec base p d d = Ok B -> no_conf B.
  Proof.
    unfold merge_lists. intros E.
    destruct (make_merge_chunks_with gk _ d d) as [chunks|] eqn:EC; [cbn [bind] in E|discriminate].
    destruct (merge_chunks _ _ _ _ _ _ _ _ _ _ [] chunks) as [B1|] eqn:EM; [cbn [bind] in E|discriminate].
    assert (HB1 : no_conf B1).
    { apply mmc_shape in EC. destruct EC as (bs & s0 & s1 & E0 & E1 & ->).
      rewrite E0 in E1. inversion E1; subst.
      eapply (merge_chunks_inv O cfg St H strict cstrict (fun c => c_d0 c = c_d1 c)); [| apply make_chunks_same | constructor | exact EM].
      intros B0 [[[j k] d0] d1] B' Hc HB0. unfold c_d0, c_d1 in Hc. simpl in Hc. subst d1.
      apply merge_chunk_same. exact HB0. }
    rewrite resolve_conflicted_list_no_conf in E by exact HB1. inversion E; subst. exact HB1.
  Qed.

  Lemma merge_key_same M rec base p B key e B' :
    no_conf B -> merge_key St strict cstrict M rec base p B key e e = Ok B' -> no_conf B'.
  Proof.
    intros HB. unfold merge_key.
    destruct (is_remove e) eqn:Er; cbn [orb andb].
    - apply b_agreement_no_conf. exact HB.
    - rewrite opk_eqb_refl. cbn [negb]. rewrite same_entry_refl. apply b_agreement_no_conf. exact HB.
  Qed.

  Lemma merge_dicts_same M rec base p d B :
    merge_dicts St H strict cstrict M rec base p d d = Ok B -> no_conf B.
  Proof.
    unfold merge_dicts. intros E.
    destruct (as_dict_based_diff d []) as [L|] eqn:EL; [cbn [bind] in E|discriminate].
    match type of E with bind ?F _ = _ => destruct F as [B1|] eqn:E1; [cbn [bind] in E|discriminate] end.
    assert (HB1 : no_conf B1).
    { eapply (fold_left_res_inv no_conf) in E1; [exact E1 | | ].
      - intros a x a' Ha. apply b_onesided_no_conf. exact Ha.
      - intros a Ea. inversion Ea. constructor. }
    match type of E with bind ?F _ = _ => destruct F as [B2|] eqn:E2; [cbn [bind] in E|discriminate] end.
    assert (HB2 : no_conf B2).
    { pose proof (sorted_lookup L (as_dict_sorted d [] L I EL)) as HL.
      rewrite Forall_forall in HL.
      eapply (fold_left_res_inv_in no_conf) in E2; [exact E2 | | ].
      - intros a [k e] a' Hin Ha. rewrite (HL _ Hin). simpl. apply merge_key_same. exact Ha.
      - intros a Ea. inversion Ea; subst. exact HB1. }
    rewrite resolve_conflicted_dict_no_conf in E by exact HB2. inversion E; subst. exact HB2.
  Qed.

  Theorem merge_agree_no_conf n base d B :
    plain_string_root St base ->
    merge O cfg St H gk strict cstrict n false base d d [] = Ok B -> no_conf B.
  Proof.
    intros Hp. destruct n as [|n]; [discriminate|]. cbn [merge].
    destruct base; try discriminate.
    - destruct Hp as [Hp1 Hp2]. unfold merge_strings. rewrite star_path_nil, Hp1, Hp2.
      intros E.
      match type of E with bind ?F _ = _ => destruct F as [B1|] eqn:E1; [cbn [bind] in E|discriminate] end.
      apply merge_lists_same in E1.
      rewrite resolve_conflicted_strings_no_conf in E by exact E1. inversion E; subst. exact E1.
    - apply merge_lists_same.
    - apply merge_dicts_same.
  Qed.

  Theorem decide_agree base d decs :
    plain_string_root St base ->
    decide_merge_with_diff O cfg St H gk strict cstrict base d d = Ok decs -> no_conf decs.
  Proof. intros Hp. apply decide_from_merge. intros B. apply merge_agree_no_conf. exact Hp. Qed.
End Agreement.
(* ---------- C06: changes that do not meet ---------- *)
Lemma dict_get_set k k' e l :
  dict_get k (dict_set k' e l) = if str_eqb k k' then Some e else dict_get k l.
Proof.
  induction l as [|[k0 e0] r IH]; simpl.
  - reflexivity.
  - destruct (str_cmp k' k0) eqn:C; simpl.
    + apply str_cmp_eq in C. subst k0. destruct (str_eqb k k'); reflexivity.
    + reflexivity.
    + rewrite IH. destruct (str_eqb k k0) eqn:E0; [|reflexivity].
      destruct (str_eqb k k') eqn:E1; [|reflexivity].
      apply str_eqb_eq in E0, E1. subst. assert (X : str_cmp k0 k0 = Eq) by (apply str_cmp_eq; reflexivity).
      rewrite X in C. discriminate.
Qed.

Lemma in_dict_set kv k e l : In kv (dict_set k e l) -> kv = (k, e) \/ In kv l.
Proof.
  induction l as [|[k0 e0] r IH]; simpl.
  - intros [<-|[]]. left. reflexivity.
  - destruct (str_cmp k k0); simpl.
    + intros [<-|Hin]; [left; reflexivity | right; right; exact Hin].
    + intros [<-|Hin]; [left; reflexivity | right; exact Hin].
    + intros [<-|Hin]; [right; left; reflexivity|]. destruct (IH Hin) as [->|Hr]; [left; reflexivity | right; right; exact Hr].
Qed.

Lemma as_dict_members d : forall acc L, as_dict_based_diff d acc = Ok L ->
  forall k e, In (k, e) L -> In (k, e) acc \/ (In e d /\ dkey e = KS k).
Proof.
  induction d as [|x r IH]; intros acc L E k e Hin; simpl in E.
  - inversion E; subst. left. exact Hin.
  - destruct (dkey x) as [|kx] eqn:Ex; [discriminate|].
    destruct (IH _ _ E _ _ Hin) as [Hacc|[Hr Hk]].
    + apply in_dict_set in Hacc. destruct Hacc as [Heq|Hacc]; [|left; exact Hacc].
      inversion Heq; subst. right. split; [left; reflexivity | exact Ex].
    + right. split; [right; exact Hr | exact Hk].
Qed.

Lemma as_dict_absent d k : forall acc L, as_dict_based_diff d acc = Ok L ->
  dict_get k acc = None -> (forall e, In e d -> dkey e <> KS k) -> dict_get k L = None.
Proof.
  induction d as [|x r IH]; intros acc L E Hacc Hno; simpl in E.
  - inversion E; subst. exact Hacc.
  - destruct (dkey x) as [|kx] eqn:Ex; [discriminate|].
    eapply IH; [exact E | | intros e He; apply Hno; right; exact He].
    rewrite dict_get_set. destruct (str_eqb k kx) eqn:Ek; [|exact Hacc].
    apply str_eqb_eq in Ek. subst. exfalso. apply (Hno x); [left; reflexivity | exact Ex].
Qed.

(* "no chunk receives entries from both sides" / "changes under different keys" *)
Definition separated (gk : guard_kind) (base : json) (dl dr : diff) : Prop :=
  match base with
  | JObj _ => forall e1 e2, In e1 dl -> In e2 dr -> dkey e1 <> dkey e2
  | JArr l => forall chunks, make_merge_chunks_with gk (length l) dl dr = Ok chunks ->
                             Forall (fun c => c_d0 c = [] \/ c_d1 c = []) chunks
  | JStr s => forall chunks, make_merge_chunks_with gk (length (splitlines s)) dl dr = Ok chunks ->
                             Forall (fun c => c_d0 c = [] \/ c_d1 c = []) chunks
  | _ => True
  end.

Section Separated.
  Variable O : oracles.
  Variable cfg : config.
  Variable St : strat.
  Variable H : hooks.
  Variable gk : guard_kind.
  Variable strict : bool.
  Variable cstrict : bool.

  Lemma merge_lists_separated M rec base p dl dr B :
    (forall chunks, make_merge_chunks_with gk (length base) dl dr = Ok chunks ->
                    Forall (fun c => c_d0 c = [] \/ c_d1 c = []) chunks) ->
    merge_lists O cfg St H gk strict cstrict M rec base p dl dr = Ok B -> no_conf B.
  Proof.
    intros Hsep. unfold merge_lists. intros E.
    destruct (make_merge_chunks_with gk _ dl dr) as [chunks|] eqn:EC; [cbn [bind] in E|discriminate].
    destruct (merge_chunks _ _ _ _ _ _ _ _ _ _ [] chunks) as [B1|] eqn:EM; [cbn [bind] in E|discriminate].
    assert (HB1 : no_conf B1).
    { eapply (merge_chunks_inv O cfg St H strict cstrict (fun c => c_d0 c = [] \/ c_d1 c = []));
        [| apply Hsep; reflexivity | constructor | exact EM].
      intros B0 [[[j k] d0] d1] B' Hc HB0. unfold c_d0, c_d1 in Hc. simpl in Hc.
      destruct Hc as [->| ->]; [apply merge_chunk_left_nil | apply merge_chunk_right_nil]; exact HB0. }
    rewrite resolve_conflicted_list_no_conf in E by exact HB1. inversion E; subst. exact HB1.
  Qed.

  Lemma merge_dicts_separated M rec base p dl dr B :
    (forall e1 e2, In e1 dl -> In e2 dr -> dkey e1 <> dkey e2) ->
    merge_dicts St H strict cstrict M rec base p dl dr = Ok B -> no_conf B.
  Proof.
    intros Hsep. unfold merge_dicts. intros E.
    destruct (as_dict_based_diff dl []) as [L|] eqn:EL; [cbn [bind] in E|discriminate].
    destruct (as_dict_based_diff dr []) as [R|] eqn:ER; [cbn [bind] in E|discriminate].
    match type of E with bind ?F _ = _ => destruct F as [B1|] eqn:E1; [cbn [bind] in E|discriminate] end.
    assert (HB1 : no_conf B1).
    { eapply (fold_left_res_inv no_conf) in E1; [exact E1 | | ].
      - intros a x a' Ha. apply b_onesided_no_conf. exact Ha.
      - intros a Ea. inversion Ea. constructor. }
    match type of E with bind ?F _ = _ => destruct F as [B2|] eqn:E2; [cbn [bind] in E|discriminate] end.
    assert (HB2 : no_conf B2).
    { eapply (fold_left_res_inv_in no_conf) in E2; [exact E2 | | ].
      - intros a [k e] a' Hin Ha. simpl.
        assert (HN : dict_get k R = None).
        { destruct (as_dict_members dl [] L EL k e Hin) as [[]|[Hd Hk]].
          eapply as_dict_absent; [exact ER | reflexivity |].
          intros e2 He2 Hk2. apply (Hsep e e2 Hd He2). congruence. }
        rewrite HN. intros Ea. inversion Ea; subst. exact Ha.
      - intros a Ea. inversion Ea; subst. exact HB1. }
    rewrite resolve_conflicted_dict_no_conf in E by exact HB2. inversion E; subst. exact HB2.
  Qed.

  Theorem merge_separated_no_conf n base dl dr B :
    plain_string_root St base -> separated gk base dl dr ->
    merge O cfg St H gk strict cstrict n false base dl dr [] = Ok B -> no_conf B.
  Proof.
    intros Hp Hsep. destruct n as [|n]; [discriminate|]. cbn [merge].
    destruct base; try discriminate.
    - destruct Hp as [Hp1 Hp2]. unfold merge_strings. rewrite star_path_nil, Hp1, Hp2.
      intros E.
      match type of E with bind ?F _ = _ => destruct F as [B1|] eqn:E1; [cbn [bind] in E|discriminate] end.
      apply merge_lists_separated in E1; [| rewrite map_length; exact Hsep].
      rewrite resolve_conflicted_strings_no_conf in E by exact E1. inversion E; subst. exact E1.
    - apply merge_lists_separated. exact Hsep.
    - apply merge_dicts_separated. exact Hsep.
  Qed.

  Theorem decide_separated base dl dr decs :
    plain_string_root St base -> separated gk base dl dr ->
    decide_merge_with_diff O cfg St H gk strict cstrict base dl dr = Ok decs -> no_conf decs.
  Proof. intros Hp Hs. apply decide_from_merge. intros B. apply merge_separated_no_conf; assumption. Qed.
End Separated.

(* ---------- non-vacuity and the symmetry counterexample ---------- *)
Definition O0 : oracles := {| o_sim := fun _ _ => false; o_opcodes := fun _ _ => []; o_cell := fun _ _ _ => false; o_output := fun _ _ _ => false |}.
Definition cfg0 : config := Gen.NbConfig.generic_config.   (* the generated default configuration of generic.diff *)
Definition ka : pystr := [97%N].

(* the hypotheses of the one-sided / agreement / separated theorems are satisfiable with non-empty diffs *)
Example onesided_nonvacuous :
  exists decs, decide_merge_with_diff O0 cfg0 no_strategies no_hooks GuardListTruthy false false
                 (JArr [JInt 1; JInt 2]) [DRemoveRange (KI 0) 1] [] = Ok decs
               /\ decs <> [] /\ apply_decisions (JArr [JInt 1; JInt 2]) decs = Ok (JArr [JInt 2]).
Proof. eexists. split; [vm_compute; reflexivity | split; [discriminate | vm_compute; reflexivity]]. Qed.

Example agree_nonvacuous :
  exists decs, decide_merge_with_diff O0 cfg0 no_strategies no_hooks GuardListTruthy false false
                 (JObj [(ka, JInt 0)]) [DReplace (KS ka) (JInt 1)] [DReplace (KS ka) (JInt 1)] = Ok decs
               /\ decs <> [] /\ apply_decisions (JObj [(ka, JInt 0)]) decs = Ok (JObj [(ka, JInt 1)]).
Proof. eexists. split; [vm_compute; reflexivity | split; [discriminate | vm_compute; reflexivity]]. Qed.

Example separated_nonvacuous :
  separated GuardListTruthy (JArr [JInt 1; JInt 2; JInt 3]) [DRemoveRange (KI 0) 1] [DRemoveRange (KI 2) 1]
  /\ exists decs, decide_merge_with_diff O0 cfg0 no_strategies no_hooks GuardListTruthy false false
                 (JArr [JInt 1; JInt 2; JInt 3]) [DRemoveRange (KI 0) 1] [DRemoveRange (KI 2) 1] = Ok decs
               /\ apply_decisions (JArr [JInt 1; JInt 2; JInt 3]) decs = Ok (JArr [JInt 2]).
Proof.
  split.
  - intros chunks E. vm_compute in E. inversion E; subst.
    repeat (apply Forall_cons; [unfold c_d0, c_d1; simpl; auto|]). apply Forall_nil.
  - eexists. split; vm_compute; reflexivity.
Qed.

(* With Python == deciding that both sides made "the same" change (strict = false), a conflict-free
   merge depends on which side is called local: {a:0} with a:=1 on one side and a:=true on the other. *)
Theorem symmetry_refuted_pyeq O cfg cs :
  let base := JObj [(ka, JInt 0)] in
  let dl := [DReplace (KS ka) (JInt 1)] in
  let dr := [DReplace (KS ka) (JBool true)] in
  exists d1 d2 m1 m2,
    decide_merge_with_diff O cfg no_strategies no_hooks GuardListTruthy false cs base dl dr = Ok d1 /\ no_conf d1 /\
    decide_merge_with_diff O cfg no_strategies no_hooks GuardListTruthy false cs base dr dl = Ok d2 /\ no_conf d2 /\
    apply_decisions base d1 = Ok m1 /\ apply_decisions base d2 = Ok m2 /\ m1 <> m2.
Proof.
  cbv zeta. do 4 eexists.
  split; [vm_compute; reflexivity|]. split; [repeat constructor|].
  split; [vm_compute; reflexivity|]. split; [repeat constructor|].
  split; [vm_compute; reflexivity|]. split; [vm_compute; reflexivity|]. discriminate.
Qed.

(* with strict equality in both places (entry comparison and the conflict asserts) the same triple is a
   conflict in both orders *)
Theorem symmetry_example_strict O cfg :
  let base := JObj [(ka, JInt 0)] in
  let dl := [DReplace (KS ka) (JInt 1)] in
  let dr := [DReplace (KS ka) (JBool true)] in
  exists d1 d2,
    decide_merge_with_diff O cfg no_strategies no_hooks GuardListTruthy true true base dl dr = Ok d1 /\ has_conflicted d1 = true /\
    decide_merge_with_diff O cfg no_strategies no_hooks GuardListTruthy true true base dr dl = Ok d2 /\ has_conflicted d2 = true.
Proof.
  cbv zeta. do 2 eexists.
  split; [vm_compute; reflexivity|]. split; [reflexivity|].
  split; [vm_compute; reflexivity|]. reflexivity.
Qed.

(* strict entry comparison alone is not enough: registering the conflict then trips the Python-== assert *)
Theorem strict_entries_need_strict_assert O cfg :
  decide_merge_with_diff O cfg no_strategies no_hooks GuardListTruthy true false
    (JObj [(ka, JInt 0)]) [DReplace (KS ka) (JInt 1)] [DReplace (KS ka) (JBool true)] = Err AssertionError.
Proof. vm_compute. reflexivity. Qed.

(* ---------- statements that follow the generated source facts either way ---------- *)
Definition empty_seq_statement (gk : guard_kind) (r : res (list decision)) : Prop :=
  match gk with
  | GuardListTruthy => r = Err AssertionError        (* the law is refuted: unchanged [] at the root raises *)
  | GuardAnyDiff => r = Ok []                        (* repaired source *)
  end.

Theorem decide_empty_seq_by_fact O cfg St H gk strict cstrict :
  empty_seq_statement gk (decide_merge_with_diff O cfg St H gk strict cstrict (JArr []) [] []).
Proof. destruct gk; [apply decide_id_refuted | apply decide_id_empty_fixed]. Qed.

Definition sym_base : json := JObj [(ka, JInt 0)].
Definition sym_dl : diff := [DReplace (KS ka) (JInt 1)].
Definition sym_dr : diff := [DReplace (KS ka) (JBool true)].

Definition symmetry_witness_statement (strict cstrict : bool) (lr rl : res (list decision)) : Prop :=
  match strict, cstrict with
  | false, _ =>      (* refuted: conflict-free both ways, merged documents differ *)
      exists d1 d2 m1 m2, lr = Ok d1 /\ no_conf d1 /\ rl = Ok d2 /\ no_conf d2 /\
        apply_decisions sym_base d1 = Ok m1 /\ apply_decisions sym_base d2 = Ok m2 /\ m1 <> m2
  | true, true =>    (* repaired: a conflict in both orders *)
      exists d1 d2, lr = Ok d1 /\ has_conflicted d1 = true /\ rl = Ok d2 /\ has_conflicted d2 = true
  | true, false =>   (* half repaired: the conflict registration asserts *)
      lr = Err AssertionError
  end.

Theorem symmetry_witness_by_fact O cfg strict cstrict :
  symmetry_witness_statement strict cstrict
    (decide_merge_with_diff O cfg no_strategies no_hooks GuardListTruthy strict cstrict sym_base sym_dl sym_dr)
    (decide_merge_with_diff O cfg no_strategies no_hooks GuardListTruthy strict cstrict sym_base sym_dr sym_dl).
Proof.
  destruct strict; [destruct cstrict|]; simpl.
  - exact (symmetry_example_strict O cfg).
  - exact (strict_entries_need_strict_assert O cfg).
  - exact (symmetry_refuted_pyeq O cfg cstrict).
Qed.

Theorem merge_id_thm : forall O cfg St H base,
  is_container base = true -> plain_string_root St base -> base <> JArr [] -> base <> JStr [] ->
  decide_merge_with_diff O cfg St H chunks_guard entry_eq_strict conflict_assert_strict base [] [] = Ok []
  /\ apply_decisions base [] = Ok base.
Proof. intros. split; [apply decide_id; assumption | reflexivity]. Qed.
