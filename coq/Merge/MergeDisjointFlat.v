(* C06, full statement on flat objects: for every object base and every two flat key-sorted object diffs with disjoint
   key sets, the merge is conflict-free, and applying its decisions is ONE patch by the key-sorted union of the two diffs;
   whenever the two diffs apply one after the other (in either order) that single patch yields the same document, i.e.
   BOTH sides' changes are kept.  Unbounded in the number of keys and in the values. *)
From Coq Require Import String.
From Coq Require Import List NArith ZArith Bool Lia.
From NB Require Import Base.Res Base.Json Base.PyStr Diff.DiffFormat Diff.Patch Diff.GenericDiff Diff.Codec Diff.Wf
     Diff.DictProofs Merge.SortKey Merge.Chunks Merge.Decisions Merge.Apply Merge.MergeGeneric Gen.MergeFacts
     Merge.MergeProofs Merge.MergeApplyProofs.
Import ListNotations.

Definition setkv (acc : list (pystr * dentry)) (kv : pystr * dentry) := dict_set (fst kv) (snd kv) acc.
Definition absent_in (X : list (pystr * dentry)) (kv : pystr * dentry) : bool :=
  match dict_get (fst kv) X with None => true | Some _ => false end.

Definition disjoint_keys (dl dr : diff) : Prop :=
  forall e e', In e dl -> In e' dr -> key_str_of e <> key_str_of e'.

Lemma dict_get_in k l e : dict_get k l = Some e -> In (k, e) l.
Proof.
  induction l as [|[k0 e0] r IH]; cbn [dict_get]; [discriminate|].
  destruct (str_eqb k k0) eqn:E.
  - apply str_eqb_eq in E. subst. intros X. inversion X; subst. left. reflexivity.
  - intros X. right. apply IH. exact X.
Qed.

Lemma fold_set_sorted R : forall acc, dsorted acc -> dsorted (fold_left setkv R acc).
Proof. induction R as [|x r IH]; intros acc Hs; cbn [fold_left]; [exact Hs|]. apply IH. apply dict_set_sorted. exact Hs. Qed.

Lemma fold_set_get k R : forall acc, dsorted R ->
  dict_get k (fold_left setkv R acc) = match dict_get k R with Some e => Some e | None => dict_get k acc end.
Proof.
  induction R as [|[k0 e0] r IH]; intros acc Hs; cbn [fold_left]; [reflexivity|].
  cbn [dsorted] in Hs. destruct Hs as [Hgt Hr]. rewrite (IH _ Hr). unfold setkv. cbn [fst snd]. rewrite dict_get_set.
  cbn [dict_get]. destruct (str_eqb k k0) eqn:E; [|reflexivity].
  apply str_eqb_eq in E. subst k0. rewrite (dict_get_not_gt k r Hgt). reflexivity.
Qed.

Lemma fold_set_in kv R : forall acc, In kv (fold_left setkv R acc) -> In kv acc \/ In kv R.
Proof.
  induction R as [|x r IH]; intros acc Hin; cbn [fold_left] in Hin; [left; exact Hin|].
  destruct (IH _ Hin) as [H|H]; [|right; right; exact H].
  unfold setkv in H. destruct (in_dict_set _ _ _ _ H) as [->|H']; [right; left; destruct x; reflexivity | left; exact H'].
Qed.

Lemma filter_all_true {A} (f : A -> bool) l : (forall x, In x l -> f x = true) -> filter f l = l.
Proof.
  induction l as [|x r IH]; intros Hf; [reflexivity|]. cbn [filter]. rewrite (Hf x (or_introl eq_refl)).
  f_equal. apply IH. intros y Hy. apply Hf. right. exact Hy.
Qed.

Lemma skeys_keys prev d : skeys_lt prev d -> Forall (fun e => dkey e = KS (key_str_of e)) d.
Proof.
  revert prev. induction d as [|e r IH]; intros prev Hs; [constructor|]. cbn [skeys_lt] in Hs.
  destruct (dkey e) as [|k] eqn:Ek; [contradiction|]. destruct Hs as [_ Hr].
  constructor; [unfold key_str_of; rewrite Ek; reflexivity | eapply IH; exact Hr].
Qed.

Lemma skeys_of_sorted l : forall prev,
  dsorted l -> Forall (fun kv => dkey (snd kv) = KS (fst kv)) l ->
  (forall p, prev = Some p -> all_gt p l) -> skeys_lt prev (map snd l).
Proof.
  induction l as [|[k e] r IH]; intros prev Hs Hk Hp; cbn [map skeys_lt]; [exact I|].
  inversion Hk as [|? ? Hk1 Hk2]; subst. cbn [fst snd] in *. rewrite Hk1.
  cbn [dsorted] in Hs. destruct Hs as [Hgt Hr]. split.
  - destruct prev as [p|]; [|exact I]. specialize (Hp p eq_refl). unfold all_gt in Hp. inversion Hp; subst. assumption.
  - apply IH; [exact Hr | exact Hk2|]. intros p E. inversion E; subst. exact Hgt.
Qed.

(* ---------- the single patch by the union keeps both sides' changes ---------- *)
Lemma fe_in k : forall d e, find_entry k d = Some e -> In e d.
Proof.
  induction d as [|e0 d IH]; intros e E; [discriminate|]. cbn [find_entry] in E.
  destruct (dkey e0) as [k'|k']; try (right; apply IH; exact E).
  destruct (str_eqb k k'); [inversion E; left; reflexivity | right; apply IH; exact E].
Qed.

Lemma fe_dict_get k l : Forall (fun kv : pystr * dentry => dkey (snd kv) = KS (fst kv)) l -> find_entry k (map snd l) = dict_get k l.
Proof.
  induction 1 as [|[k0 e0] r Hk Hr IH]; [reflexivity|]. cbn [map snd fst find_entry dict_get] in *. rewrite Hk, IH. reflexivity.
Qed.

Lemma fe_pairs k d : Forall (fun e => dkey e = KS (key_str_of e)) d -> find_entry k d = dict_get k (map pair_of d).
Proof.
  intros Hk. rewrite <- fe_dict_get.
  - rewrite map_map. cbn [snd pair_of]. rewrite map_id. reflexivity.
  - rewrite Forall_map. exact Hk.
Qed.

Lemma skeys_nodup d : forall prev, skeys_lt prev d ->
  NoDup (dkeys d) /\ forall p, prev = Some p -> Forall (fun k => str_ltb p k = true) (dkeys d).
Proof.
  induction d as [|e r IH]; intros prev Hs; cbn [dkeys map]; [split; [constructor | intros; constructor]|].
  cbn [skeys_lt] in Hs. destruct (dkey e) as [|k] eqn:Ek; [contradiction|]. destruct Hs as [Hp Hr].
  destruct (IH (Some k) Hr) as [Nd Hall]. specialize (Hall k eq_refl).
  assert (Kk : key_str e = k) by (unfold key_str; rewrite Ek; reflexivity). rewrite Kk. split.
  - constructor; [|exact Nd]. intros Hin. fold (dkeys r) in Hin. rewrite Forall_forall in Hall. specialize (Hall k Hin).
    rewrite str_ltb_irrefl in Hall. discriminate.
  - intros p ->. constructor; [exact Hp|]. eapply Forall_impl; [|exact Hall]. intros x Hx. eapply str_ltb_trans; eassumption.
Qed.

Lemma flat_go_entries rec a : forall d no del r,
  flat d -> patch_dict_go rec a d no del = Ok r -> Forall (entry_ok rec a) d.
Proof.
  induction d as [|e d IH]; intros no del r Hf E; [constructor|].
  inversion Hf as [|? ? He Hf']; subst. cbn [patch_dict_go] in E.
  destruct (dkey e) as [|k] eqn:Ek; [discriminate|].
  destruct (obj_has k no); [discriminate|].
  destruct e as [[?|k1] v|[?|k1]|[?|k1] v|[?|k1] vs|[?|k1] len|[?|k1] dd]; cbn [dkey] in Ek; try discriminate;
    inversion Ek; subst k1.
  - destruct (obj_has k a) eqn:Ha; [discriminate|]. constructor; [exact Ha | eapply IH; eassumption].
  - constructor; [exact I | eapply IH; eassumption].
  - destruct (existsb (str_eqb k) del); [discriminate|]. constructor; [exact I | eapply IH; eassumption].
Qed.

Lemma flat_set_of rec1 a1 rec2 a2 e : is_patch e = false -> set_of rec1 a1 e = set_of rec2 a2 e.
Proof. destruct e; try discriminate; reflexivity. Qed.

Section BothKept.
  Variables rec1 rec2 rec3 : json -> diff -> res json.
  Variables d1 d2 m : diff.
  Hypothesis F1 : flat d1.
  Hypothesis F2 : flat d2.
  Hypothesis Nm : NoDup (dkeys m).
  Hypothesis Min : forall e, In e m -> In e d1 \/ In e d2.
  Hypothesis Mfind : forall k, find_entry k m = match find_entry k d2 with Some e => Some e | None => find_entry k d1 end.
  Hypothesis Dis : forall k e, find_entry k d2 = Some e -> find_entry k d1 = None.
  Hypothesis N1 : NoDup (dkeys d1).
  Hypothesis N2 : NoDup (dkeys d2).
  Hypothesis K2 : Forall (fun e => dkey e = KS (key_str_of e)) d2.

  Lemma fe_self e : In e d2 -> find_entry (key_str_of e) d2 <> None.
  Proof.
    intros He. clear -He K2. induction d2 as [|x r IH]; [destruct He|]. inversion K2 as [|? ? Kx Kr]; subst.
    cbn [find_entry]. rewrite Kx. destruct (str_eqb (key_str_of e) (key_str_of x)) eqn:E; [discriminate|].
    destruct He as [->|He]; [rewrite str_eqb_refl in E; discriminate | apply IH; assumption].
  Qed.

  Theorem sequential_is_union kv kx ky :
    patch_dict rec1 kv d1 = Ok kx -> patch_dict rec2 kx d2 = Ok ky -> patch_dict rec3 kv m = Ok ky.
  Proof.
    intros P1 P2. pose proof F1 as F1'. pose proof F2 as F2'. unfold flat in F1', F2'. rewrite Forall_forall in F1', F2'.
    assert (E1 : Forall (entry_ok rec1 kv) d1).
    { unfold patch_dict in P1. destruct (patch_dict_go rec1 kv d1 [] []) eqn:G; [|discriminate]. eapply flat_go_entries; eassumption. }
    assert (E2 : Forall (entry_ok rec2 kx) d2).
    { unfold patch_dict in P2. destruct (patch_dict_go rec2 kx d2 [] []) eqn:G; [|discriminate]. eapply flat_go_entries; eassumption. }
    destruct (patch_dict_spec rec1 kv d1 E1 N1) as (r1 & R1 & S1 & G1). rewrite P1 in R1. inversion R1; subst r1.
    destruct (patch_dict_spec rec2 kx d2 E2 N2) as (r2 & R2 & S2 & G2). rewrite P2 in R2. inversion R2; subst r2.
    assert (E3 : Forall (entry_ok rec3 kv) m).
    { apply Forall_forall. intros e He. destruct (Min e He) as [H1|H2'].
      - rewrite Forall_forall in E1. specialize (E1 e H1). pose proof (F1' e H1) as Fe1.
        destruct e as [[?|k] v|[?|k]|[?|k] v|[?|k] vs|[?|k] len|[?|k] dd]; cbn [entry_ok is_patch] in *; try contradiction; try discriminate; auto.
      - pose proof (fe_self e H2') as Hs. rewrite Forall_forall in E2. specialize (E2 e H2'). pose proof (F2' e H2') as Fe2.
        destruct e as [[?|k] v|[?|k]|[?|k] v|[?|k] vs|[?|k] len|[?|k] dd]; cbn [entry_ok is_patch] in *; try contradiction; try discriminate; auto.
        (* add: absent from kx, hence from kv *)
        unfold key_str_of in Hs. cbn [dkey] in Hs. destruct (find_entry k d2) as [e'|] eqn:Fe; [|congruence].
        pose proof (Dis k e' Fe) as D1. unfold obj_has in *. rewrite G1 in E2. unfold dmeaning in E2. rewrite D1 in E2. exact E2. }
    destruct (patch_dict_spec rec3 kv m E3 Nm) as (r3 & R3 & S3 & G3). rewrite R3. f_equal.
    apply sorted_ext; [exact S3 | exact S2|]. intros k. rewrite G3, G2. unfold dmeaning. rewrite Mfind.
    destruct (find_entry k d2) as [e|] eqn:Fe.
    - pose proof (fe_in k d2 e Fe) as He.
      rewrite (flat_set_of rec3 kv rec2 kx e (F2' e He)). reflexivity.
    - rewrite G1. unfold dmeaning. destruct (find_entry k d1) as [e|] eqn:Fe1; [|reflexivity].
      pose proof (fe_in k d1 e Fe1) as He.
      rewrite (flat_set_of rec3 kv rec1 kv e (F1' e He)). reflexivity.
  Qed.
End BothKept.

Lemma nonempty_has {A} (l : list A) : l <> [] -> exists x, In x l.
Proof. destruct l as [|x r]; [congruence|]. intros _. exists x. left. reflexivity. Qed.

Section Disjoint.
  Variable O : oracles.
  Variable cfg : config.
  Variable St : strat.
  Variable H : hooks.
  Variable gk : guard_kind.
  Variable strict : bool.
  Variable cstrict : bool.

  Variables dl dr : diff.
  Hypothesis Fl : flat dl.
  Hypothesis Fr : flat dr.
  Hypothesis Sl : skeys_lt None dl.
  Hypothesis Sr : skeys_lt None dr.
  Hypothesis Dj : disjoint_keys dl dr.

  Let L := map pair_of dl.
  Let R := map pair_of dr.
  Definition union_pairs := fold_left setkv R L.
  Definition union_diff : diff := map snd union_pairs.

  Lemma sorted_L : dsorted L. Proof. exact (as_dict_sorted dl [] _ I (as_dict_ok dl Sl)). Qed.
  Lemma sorted_R : dsorted R. Proof. exact (as_dict_sorted dr [] _ I (as_dict_ok dr Sr)). Qed.

  Lemma get_L_in k e : dict_get k L = Some e -> In e dl /\ key_str_of e = k.
  Proof.
    intros G. apply dict_get_in in G. apply in_map_iff in G as (x & E & Hx). unfold pair_of in E. inversion E; subst. auto.
  Qed.
  Lemma get_R_in k e : dict_get k R = Some e -> In e dr /\ key_str_of e = k.
  Proof.
    intros G. apply dict_get_in in G. apply in_map_iff in G as (x & E & Hx). unfold pair_of in E. inversion E; subst. auto.
  Qed.

  Lemma not_both k : dict_get k L = None \/ dict_get k R = None.
  Proof.
    destruct (dict_get k L) as [e|] eqn:GL; [|left; reflexivity].
    destruct (dict_get k R) as [e'|] eqn:GR; [|right; reflexivity].
    exfalso. apply get_L_in in GL as [I1 K1]. apply get_R_in in GR as [I2 K2]. apply (Dj e e' I1 I2). congruence.
  Qed.

  Lemma union_get k : dict_get k union_pairs = match dict_get k R with Some e => Some e | None => dict_get k L end.
  Proof. unfold union_pairs. apply fold_set_get. exact sorted_R. Qed.

  Lemma union_sorted : dsorted union_pairs.
  Proof. unfold union_pairs. apply fold_set_sorted. exact sorted_L. Qed.

  Lemma union_in kv : In kv union_pairs -> (exists e, In e dl /\ kv = pair_of e) \/ (exists e, In e dr /\ kv = pair_of e).
  Proof.
    intros Hin. destruct (fold_set_in kv R L Hin) as [X|X]; apply in_map_iff in X as (e & E & He); [left|right]; exists e; auto.
  Qed.

  Definition dec_of (p : path) (kv : pystr * dentry) : decision :=
    match dict_get (fst kv) L with Some _ => dec_at p (snd kv) | None => dec_remote_at p (snd kv) end.

  Definition side_ok (kv : pystr * dentry) : Prop :=
    is_patch (snd kv) = false /\
    ((dict_get (fst kv) L = Some (snd kv) /\ dict_get (fst kv) R = None)
     \/ (dict_get (fst kv) L = None /\ dict_get (fst kv) R = Some (snd kv))).

  Lemma union_side_ok : Forall side_ok union_pairs.
  Proof.
    pose proof (sorted_lookup _ union_sorted) as Hl. rewrite Forall_forall in *. intros kv Hin.
    specialize (Hl kv Hin). rewrite union_get in Hl. split.
    - destruct (union_in kv Hin) as [(e & He & ->)|(e & He & ->)]; cbn [snd pair_of];
        [unfold flat in Fl; rewrite Forall_forall in Fl; apply Fl | unfold flat in Fr; rewrite Forall_forall in Fr; apply Fr]; exact He.
    - destruct (dict_get (fst kv) R) as [e|] eqn:GR.
      + right. inversion Hl; subst. split; [|reflexivity]. destruct (not_both (fst kv)) as [X|X]; [exact X | congruence].
      + left. split; [exact Hl | reflexivity].
  Qed.

  Lemma mixed_fold p : forall l B, Forall side_ok l ->
    fold_left (fun (acc : res builder) kv =>
                 do B <- acc;
                 b_onesided B p (option_map (fun e => [e]) (dict_get (fst kv) L))
                                (option_map (fun e => [e]) (dict_get (fst kv) R))) l (Ok B)
    = Ok (B ++ map (dec_of p) l).
  Proof.
    induction l as [|kv r IH]; intros B Hl; cbn [fold_left map].
    - rewrite app_nil_r. reflexivity.
    - inversion Hl as [|? ? [He [[G1 G2]|[G1 G2]]] Hr]; subst; cbn [bind]; unfold dec_of at 1; rewrite G1, G2; cbn [option_map];
        unfold b_onesided; cbn [truthy orb andb negb].
      + rewrite add_decision_flat by exact He. rewrite IH by exact Hr. rewrite <- app_assoc. reflexivity.
      + rewrite add_decision_flat_remote by exact He. rewrite IH by exact Hr. rewrite <- app_assoc. reflexivity.
  Qed.

  Lemma common_fold_none M rec base p : forall (l : list (pystr * dentry)) (B : builder),
    (forall kv, In kv l -> dict_get (fst kv) R = None) ->
    fold_left (fun (acc : res builder) kv =>
                 do B <- acc;
                 match dict_get (fst kv) R with
                 | Some rd => merge_key St strict cstrict M rec base p B (fst kv) (snd kv) rd
                 | None => Ok B
                 end) l (Ok B) = Ok B.
  Proof.
    induction l as [|x r IH]; intros B Hn; cbn [fold_left]; [reflexivity|].
    cbn [bind]. rewrite (Hn x (or_introl eq_refl)). apply IH. intros kv Hkv. apply Hn. right. exact Hkv.
  Qed.

  Lemma L_not_in_R kv : In kv L -> dict_get (fst kv) R = None.
  Proof.
    intros Hin. pose proof (sorted_lookup _ sorted_L) as Hl. rewrite Forall_forall in Hl. specialize (Hl kv Hin).
    destruct (not_both (fst kv)) as [X|X]; [congruence | exact X].
  Qed.
  Lemma R_not_in_L kv : In kv R -> dict_get (fst kv) L = None.
  Proof.
    intros Hin. pose proof (sorted_lookup _ sorted_R) as Hl. rewrite Forall_forall in Hl. specialize (Hl kv Hin).
    destruct (not_both (fst kv)) as [X|X]; [exact X | congruence].
  Qed.

  Lemma dec_of_no_conf p l : no_conf (map (dec_of p) l).
  Proof. unfold no_conf. rewrite Forall_map. apply Forall_forall. intros kv _. unfold dec_of. destruct (dict_get _ L); reflexivity. Qed.

  Lemma merge_dicts_flat_disjoint M rec base p :
    merge_dicts St H strict cstrict M rec base p dl dr = Ok (map (dec_of p) union_pairs).
  Proof.
    unfold merge_dicts. rewrite (as_dict_ok dl Sl), (as_dict_ok dr Sr). cbn [bind]. fold L R.
    rewrite (filter_all_true _ R) by (intros kv Hin; rewrite (R_not_in_L kv Hin); reflexivity).
    rewrite (filter_all_true _ L) by (intros kv Hin; rewrite (L_not_in_R kv Hin); reflexivity).
    change (fold_left (fun acc kv => dict_set (fst kv) (snd kv) acc) R L) with union_pairs.
    match goal with |- bind ?X _ = _ =>
      replace X with (Ok ([] ++ map (dec_of p) union_pairs) : res builder)
        by (symmetry; apply (mixed_fold p union_pairs [] union_side_ok)) end.
    cbn [bind app].
    match goal with |- bind ?X _ = _ =>
      replace X with (Ok (map (dec_of p) union_pairs) : res builder)
        by (symmetry; apply (common_fold_none M rec base p L _ L_not_in_R)) end.
    cbn [bind].
    apply resolve_conflicted_dict_no_conf. apply dec_of_no_conf.
  Qed.

  Lemma union_flat : flat union_diff.
  Proof.
    unfold flat, union_diff. rewrite Forall_map. eapply Forall_impl; [|exact union_side_ok]. intros kv [X _]. exact X.
  Qed.

  Lemma union_skeys : skeys_lt None union_diff.
  Proof.
    unfold union_diff. apply skeys_of_sorted; [exact union_sorted | | discriminate].
    apply Forall_forall. intros kv Hin.
    pose proof (skeys_keys _ _ Sl) as K1. pose proof (skeys_keys _ _ Sr) as K2. rewrite Forall_forall in K1, K2.
    destruct (union_in kv Hin) as [(e & He & ->)|(e & He & ->)]; cbn [fst snd pair_of]; [apply K1 | apply K2]; exact He.
  Qed.

  Lemma dec_of_root_ok base l : Forall2 (root_dec_ok base) (map (dec_of []) l) (map single (map snd l)).
  Proof.
    induction l as [|y r IH]; cbn [map]; constructor; [unfold dec_of; destruct (dict_get _ L); repeat split | exact IH].
  Qed.

  Theorem disjoint_flat_object kv :
    dl <> [] ->
    exists decs,
      decide_merge_with_diff O cfg St H gk strict cstrict (JObj kv) dl dr = Ok decs
      /\ no_conf decs
      /\ apply_decisions (JObj kv) decs = patch (pfuel (JObj kv) union_diff) (JObj kv) union_diff.
  Proof.
    intros Hne.
    exists (map (dec_of []) union_pairs). unfold decide_merge_with_diff, mfuel.
    replace (depth (JObj kv) + 3) with (S (depth (JObj kv) + 2)) by lia. cbn [merge].
    rewrite merge_dicts_flat_disjoint. cbn [bind].
    rewrite resolve_strategy_generic_no_conf by apply dec_of_no_conf.
    assert (EV : validated (map (dec_of []) union_pairs) = map (dec_of []) union_pairs).
    { unfold validated. rewrite map_map.
      assert (E1 : map (fun x => drop_strategy (dec_of [] x)) union_pairs = map (dec_of []) union_pairs).
      { apply map_ext. intros x. unfold dec_of. destruct (dict_get _ L); reflexivity. }
      rewrite E1. apply sort_desc_root. rewrite Forall_map. apply Forall_forall. intros x _. unfold dec_of. destruct (dict_get _ L); reflexivity. }
    rewrite EV. split; [reflexivity|]. split; [apply dec_of_no_conf|].
    pose proof union_flat as UF. pose proof union_skeys as US. unfold union_diff in *.
    destruct union_pairs as [|x r] eqn:EU.
    { exfalso. destruct (nonempty_has dl Hne) as (e & He). pose proof (union_get (key_str_of e)) as G. rewrite EU in G. cbn [dict_get] in G.
      destruct (dict_get (key_str_of e) R); [discriminate|].
      pose proof (sorted_lookup _ sorted_L) as Hl. rewrite Forall_forall in Hl.
      specialize (Hl (pair_of e) (in_map pair_of dl e He)). cbn [fst snd pair_of] in Hl. congruence. }
    cbn [map] in *.
    eapply (apply_root_group_gen (JObj kv) (dec_of [] x) (map (dec_of []) r) (single (snd x)) (map single (map snd r))).
    - unfold dec_of. destruct (dict_get _ L); repeat split.
    - apply dec_of_root_ok.
    - apply (acc_diffs_flat_sorted (map snd r) [snd x]); [discriminate | exact UF | exact US].
  Qed.
  Lemma union_keys : Forall (fun kv : pystr * dentry => dkey (snd kv) = KS (fst kv)) union_pairs.
  Proof.
    apply Forall_forall. intros kv Hin.
    pose proof (skeys_keys _ _ Sl) as K1. pose proof (skeys_keys _ _ Sr) as K2. rewrite Forall_forall in K1, K2.
    destruct (union_in kv Hin) as [(e & He & ->)|(e & He & ->)]; cbn [fst snd pair_of]; [apply K1 | apply K2]; exact He.
  Qed.

  Lemma union_find k : find_entry k union_diff = match find_entry k dr with Some e => Some e | None => find_entry k dl end.
  Proof.
    unfold union_diff. rewrite (fe_dict_get k _ union_keys), union_get.
    rewrite (fe_pairs k dr (skeys_keys _ _ Sr)), (fe_pairs k dl (skeys_keys _ _ Sl)). reflexivity.
  Qed.

  Lemma find_not_both k e : find_entry k dr = Some e -> find_entry k dl = None.
  Proof.
    rewrite (fe_pairs k dr (skeys_keys _ _ Sr)), (fe_pairs k dl (skeys_keys _ _ Sl)). intros G.
    destruct (not_both k) as [X|X]; [exact X | fold R in G; congruence].
  Qed.

  Lemma union_mem e : In e union_diff -> In e dl \/ In e dr.
  Proof.
    unfold union_diff. intros Hin. apply in_map_iff in Hin as (kv & <- & Hkv).
    destruct (union_in kv Hkv) as [(x & Hx & ->)|(x & Hx & ->)]; [left | right]; exact Hx.
  Qed.

  Theorem disjoint_flat_both_kept kv :
    dl <> [] ->
    exists decs,
      decide_merge_with_diff O cfg St H gk strict cstrict (JObj kv) dl dr = Ok decs
      /\ no_conf decs
      /\ (forall f x y, patch (S f) (JObj kv) dl = Ok x -> patch (S f) x dr = Ok y -> apply_decisions (JObj kv) decs = Ok y)
      /\ (forall f x y, patch (S f) (JObj kv) dr = Ok x -> patch (S f) x dl = Ok y -> apply_decisions (JObj kv) decs = Ok y).
  Proof.
    intros Hne. destruct (disjoint_flat_object kv Hne) as (decs & D1 & D2 & D3).
    exists decs. split; [exact D1|]. split; [exact D2|].
    pose proof (proj1 (skeys_nodup _ _ union_skeys)) as Nm.
    pose proof (proj1 (skeys_nodup _ _ Sl)) as Nl. pose proof (proj1 (skeys_nodup _ _ Sr)) as Nr.
    rewrite D3. unfold pfuel. replace (ddepth union_diff + depth (JObj kv) + 4) with (S (ddepth union_diff + depth (JObj kv) + 3)) by lia.
    split; intros f x y P1 P2; cbn [patch] in P1 |- *.
    - apply bind_ok in P1 as (kx & P1 & E). inversion E; subst x. cbn [patch] in P2. apply bind_ok in P2 as (ky & P2 & E'). inversion E'; subst y.
      rewrite (sequential_is_union (patch f) (patch f) _ dl dr union_diff Fl Fr Nm union_mem union_find find_not_both Nl Nr (skeys_keys _ _ Sr) kv kx ky P1 P2).
      reflexivity.
    - apply bind_ok in P1 as (kx & P1 & E). inversion E; subst x. cbn [patch] in P2. apply bind_ok in P2 as (ky & P2 & E'). inversion E'; subst y.
      assert (Mf : forall k, find_entry k union_diff = match find_entry k dl with Some e => Some e | None => find_entry k dr end).
      { intros k. rewrite union_find. destruct (find_entry k dr) as [e|] eqn:Fe.
        - rewrite (find_not_both k e Fe). reflexivity.
        - destruct (find_entry k dl); reflexivity. }
      assert (Dis' : forall k e, find_entry k dl = Some e -> find_entry k dr = None).
      { intros k e Fe. destruct (find_entry k dr) as [e'|] eqn:Fr'; [|reflexivity]. rewrite (find_not_both k e' Fr') in Fe. discriminate. }
      assert (Mem' : forall e, In e union_diff -> In e dr \/ In e dl) by (intros e He; destruct (union_mem e He); auto).
      rewrite (sequential_is_union (patch f) (patch f) _ dr dl union_diff Fr Fl Nm Mem' Mf Dis' Nr Nl (skeys_keys _ _ Sl) kv kx ky P1 P2).
      reflexivity.
  Qed.
End Disjoint.


(* the hypotheses are satisfiable, and the merged document is the expected one *)
Example disjoint_flat_example :
  let kv := [(of_ascii "a", JInt 1); (of_ascii "b", JInt 2); (of_ascii "c", JInt 3)] in
  let dl := [DReplace (KS (of_ascii "a")) (JInt 9)] in
  let dr := [DRemove (KS (of_ascii "b")); DAdd (KS (of_ascii "d")) (JInt 4)] in
  flat dl /\ flat dr /\ skeys_lt None dl /\ skeys_lt None dr /\ disjoint_keys dl dr /\ dl <> []
  /\ (do x <- patch 3 (JObj kv) dl; patch 3 x dr) = Ok (JObj [(of_ascii "a", JInt 9); (of_ascii "c", JInt 3); (of_ascii "d", JInt 4)]).
Proof.
  cbv zeta. repeat split; try (repeat constructor); try discriminate.
  intros e e' [<-|[]] [<-|[<-|[]]]; vm_compute; discriminate.
Qed.
Print Assumptions disjoint_flat_both_kept.
