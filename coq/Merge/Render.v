(* C07 -- models of
     nbdime/prettyprint.py    format_merge_render_lines, builtin_merge_render (strategy None)
     nbdime/merging/strategies.py   resolve_strategy_inline_source, make_inline_cell_conflict
     nbdime/merging/generic.py      is_diff_all_transients, will_diff_counter_parent_deletion,
                                    create_parent_deletion_counter_diff, the delete-vs-patch arm of _merge_lists
   One Gallina function per Python function, same argument order.  Proofs are in RenderProofs.v. *)
From Coq Require Import List NArith ZArith Bool Lia String.
From NB Require Import Base.Json.
From NB Require Import Base.PyStr.
From NB Require Import Diff.DiffFormat.
From NB Require Import Diff.Codec.
Import ListNotations.
Local Open Scope N_scope.

(* ------------------------------------------------------------------ strings *)
Fixpoint pystr_eqb (a b : pystr) : bool :=
  match a, b with
  | [], [] => true
  | x :: a', y :: b' => (x =? y) && pystr_eqb a' b'
  | _, _ => false
  end.

Definition is_nl (c : N) : bool := (c =? 10) || (c =? 13).

(* Python  s.rstrip("\r\n") *)
Fixpoint chomp (l : pystr) : pystr :=
  match l with
  | [] => []
  | c :: r => match chomp r with
              | [] => if is_nl c then [] else [c]
              | r' => c :: r'
              end
  end.

(* Python  s.endswith("\n") *)
Fixpoint ends_nl (l : pystr) : bool :=
  match l with
  | [] => false
  | [c] => c =? 10
  | _ :: r => ends_nl r
  end.

(* Python str.strip() == '' : whitespace as str.isspace() *)
Definition is_space (c : N) : bool :=
  ((9 <=? c) && (c <=? 13)) || ((28 <=? c) && (c <=? 32)) || (c =? 133) || (c =? 160) || (c =? 5760)
  || ((8192 <=? c) && (c <=? 8202)) || (c =? 8232) || (c =? 8233) || (c =? 8239) || (c =? 8287) || (c =? 12288).
Definition nonblank (l : pystr) : bool := existsb (fun c => negb (is_space c)) l.

(* the lines of a text, compared modulo line terminator *)
Definition tlines (s : pystr) : list pystr := map chomp (splitlines s).

(* ------------------------------------------------------------------ conflict markers *)
Fixpoint rep (n : nat) (c : N) : pystr := match n with O => [] | S n' => c :: rep n' c end.
Fixpoint starts_with (p l : pystr) : bool :=
  match p, l with
  | [], _ => true
  | x :: p', y :: l' => (x =? y) && starts_with p' l'
  | _ :: _, [] => false
  end.

Definition marker_size : nat := 7.
(* a line that begins with seven of c and then ends or continues with a blank:  "<<<<<<< local", "=======" *)
Definition marker_of (c : N) (l : pystr) : bool :=
  starts_with (rep marker_size c) l &&
  match skipn marker_size l with [] => true | d :: _ => (d =? 32) end.
Definition is_marker (l : pystr) : bool :=
  marker_of 60 l || marker_of 61 l || marker_of 62 l || marker_of 124 l.

Definition local_title := of_ascii "local".
Definition remote_title := of_ascii "remote".
Definition sep0_line := rep marker_size 60 ++ [32] ++ local_title ++ [10].      (* "<<<<<<< local\n" *)
Definition sep2_line := rep marker_size 61 ++ [10].                             (* "=======\n" *)
Definition sep3_line := rep marker_size 62 ++ [32] ++ remote_title ++ [10].     (* ">>>>>>> remote\n" *)

(* ------------------------------------------------------------------ format_merge_render_lines *)
(* if local and local[-1].endswith('\n'): local[-1] = local[-1] + '\n' *)
Fixpoint bump_last (ls : list pystr) : list pystr :=
  match ls with
  | [] => []
  | [l] => [if ends_nl l then l ++ [10] else l]
  | l :: r => l :: bump_last r
  end.

(* while i < n and local[i] == remote[i]: prelines.append(local[i]); i += 1 *)
Fixpoint common_prefix (local remote : list pystr) : list pystr * list pystr * list pystr :=
  match local, remote with
  | x :: l', y :: r' =>
      if pystr_eqb x y then let '(p, l2, r2) := common_prefix l' r' in (x :: p, l2, r2)
      else ([], local, remote)
  | _, _ => ([], local, remote)
  end.

Definition zlen {A} (l : list A) : Z := Z.of_nat (List.length l).
Definition znth (l : list pystr) (i : Z) : pystr := nth (Z.to_nat i) l [].

(* the "equal lines at end" loop, exactly as written: the cursors are INCREMENTED, so the body runs at most once *)
Fixpoint post_loop (fuel : nat) (local remote : list pystr) (i j : Z) (post : list pystr) : Z * Z * list pystr :=
  match fuel with
  | O => (i, j, post)
  | S f =>
      if ((0 <=? i) && (i <? zlen local) && (0 <=? j) && (j <? zlen remote))%Z
         && pystr_eqb (znth local i) (znth remote j)
      then post_loop f local remote (i + 1)%Z (j + 1)%Z (post ++ [znth local i])
      else (i, j, post)
  end.

(* lines[i] + '\n' unless it ends with '\n' *)
Definition ensure_nl (l : pystr) : pystr := if ends_nl l then l else l ++ [10].
(* lines[-1] = lines[-1].rstrip("\r\n") *)
Fixpoint chomp_last (ls : list pystr) : list pystr :=
  match ls with
  | [] => []
  | [l] => [chomp l]
  | l :: r => l :: chomp_last r
  end.

(* python slice l[:k] for k possibly <= 0 (k >= 0 here: k = i+1 with i >= -1) *)
Definition zfirstn (k : Z) (l : list pystr) : list pystr := firstn (Z.to_nat k) l.

Definition format_merge_render_lines (base local remote : list pystr) : list pystr :=
  let local := bump_last local in
  let remote := bump_last remote in
  let '(prelines, local, remote) := common_prefix local remote in
  let '(i, j, postlines) :=
     post_loop (S (List.length local)) local remote (zlen local - 1)%Z (zlen remote - 1)%Z [] in
  let postlines := rev postlines in
  let local := zfirstn (i + 1) local in
  let remote := zfirstn (j + 1) remote in
  let lines := prelines ++ [sep0_line] ++ local ++ [sep2_line] ++ remote ++ [sep3_line] ++ postlines in
  chomp_last (map ensure_nl lines).

(* builtin_merge_render(base, local, remote, strategy=None) on texts *)
Definition builtin_merge_render (base local remote : pystr) : pystr * Z :=
  if pystr_eqb local remote then (local, 0%Z)
  else (List.concat (format_merge_render_lines (splitlines base) (splitlines local) (splitlines remote)), 1%Z).

(* ------------------------------------------------------------------ reading a marked-up text back *)
(* which branch of a conflict block a line sits in *)
Inductive zone := Outside | InLocal | InBase | InRemote.
(* lines of all local branches / all remote branches of a marked-up line list (lines already chomped) *)
Fixpoint branches (z : zone) (ls : list pystr) : list pystr * list pystr :=
  match ls with
  | [] => ([], [])
  | l :: r =>
      if marker_of 60 l then branches InLocal r
      else if marker_of 124 l then branches (match z with InLocal => InBase | _ => z end) r
      else if marker_of 61 l then branches (match z with InLocal | InBase => InRemote | _ => z end) r
      else if marker_of 62 l then branches (match z with InRemote => Outside | _ => z end) r
      else let '(a, b) := branches z r in
           match z with
           | InLocal => (l :: a, b)
           | InRemote => (a, l :: b)
           | _ => (a, b)
           end
  end.

Definition mem (x : pystr) (l : list pystr) : bool := existsb (pystr_eqb x) l.

(* ------------------------------------------------------------------ the contract asked of a text merge tool *)
(* "both sides rewrite the same line to different text": position-wise rewrite by fresh lines, no marker-like input line *)
Fixpoint clash_at (bl ll rl : list pystr) (allb : list pystr) : list (pystr * pystr) :=
  match bl, ll, rl with
  | b :: bl', l :: ll', r :: rl' =>
      let rest := clash_at bl' ll' rl' allb in
      if negb (pystr_eqb l b) && negb (pystr_eqb r b) && negb (pystr_eqb l r)
         && negb (mem l allb) && negb (mem r allb) && nonblank l && nonblank r
      then (l, r) :: rest else rest
  | _, _, _ => []
  end.
Definition no_markers (ls : list pystr) : bool := forallb (fun l => negb (is_marker l)) ls.
Definition clashes (b l r : pystr) : list (pystr * pystr) :=
  let bl := tlines b in let ll := tlines l in let rl := tlines r in
  if (List.length bl =? List.length ll)%nat && (List.length bl =? List.length rl)%nat
     && no_markers bl && no_markers ll && no_markers rl
  then clash_at bl ll rl bl else [].

(* decidable, evaluated by the harness (its own Python transcription) on every real tool invocation *)
Definition contract_provenance (b l r m : pystr) : bool :=
  forallb (fun y => negb (nonblank y) || mem y (tlines b) || mem y (tlines l) || mem y (tlines r) || is_marker y) (tlines m).
Definition contract_survival (b l r m : pystr) : bool :=
  forallb (fun x => negb (nonblank x) || mem x (tlines b) || mem x (tlines m)) (tlines l ++ tlines r).
Definition contract_flags (b l r m : pystr) (st : Z) : bool :=
  let '(lo, re) := branches Outside (tlines m) in
  forallb (fun p => negb (st =? 0)%Z && mem (fst p) lo && mem (snd p) re) (clashes b l r).
Definition contract_ok (b l r m : pystr) (st : Z) : bool :=
  contract_provenance b l r m && contract_survival b l r m && contract_flags b l r m st.

(* ------------------------------------------------------------------ resolve_strategy_inline_source *)
Definition local_deleted_marker := of_ascii "<<<<<<< LOCAL CELL DELETED >>>>>>>" ++ [10].
Definition remote_deleted_marker := of_ascii "<<<<<<< REMOTE CELL DELETED >>>>>>>" ++ [10].

(* What the function decides, and the source text obtained by applying the decision to the cell.
   [None] stands for ParentDeleted; [Some s] for the side's patched source patch(base, side_diff). *)
Inductive isrc_action := ActLocalThenRemote | ActRemoteThenLocal | ActCustom.
Record isrc_decision := { d_action : isrc_action; d_conflict : bool; d_source : pystr }.

Section InlineSource.
  (* merge_render(base, local, remote, None) under the tool availability of the run *)
  Variable tool : pystr -> pystr -> pystr -> pystr * Z.

  Definition resolve_strategy_inline_source (base : pystr) (local remote : option pystr) : option isrc_decision :=
    match local, remote with
    | None, Some r => Some {| d_action := ActLocalThenRemote; d_conflict := true; d_source := local_deleted_marker ++ r |}
    | Some l, None => Some {| d_action := ActRemoteThenLocal; d_conflict := true; d_source := remote_deleted_marker ++ l |}
    | Some l, Some r =>
        let '(merged, status) := tool base l r in
        Some {| d_action := ActCustom; d_conflict := negb (status =? 0)%Z; d_source := merged |}
    | None, None => None
    end.
End InlineSource.

(* ------------------------------------------------------------------ make_inline_cell_conflict *)
Section InlineCells.
  Variable cell : Type.
  Variable cell_marker : pystr -> cell.
  Definition m0_text := rep marker_size 60 ++ [32] ++ local_title.
  Definition m1_text := rep marker_size 61.
  Definition m2_text := rep marker_size 62 ++ [32] ++ remote_title.

  (* local_diff = addrange(start, lvals) [+ removerange(start, lremove)]; likewise remote *)
  Definition make_inline_cell_conflict (base_cells : list cell) (start : nat)
             (lvals : list cell) (lremove : nat) (rvals : list cell) (rremove : nat) : list cell :=
    let lkeep := (lremove - rremove)%nat in
    let rkeep := (rremove - lremove)%nat in
    let lcells := lvals ++ firstn lkeep (skipn start base_cells) in
    let rcells := rvals ++ firstn rkeep (skipn start base_cells) in
    [cell_marker m0_text] ++ lcells ++ [cell_marker m1_text] ++ rcells ++ [cell_marker m2_text].
End InlineCells.

(* ------------------------------------------------------------------ delete-vs-edit countering (generic.py) *)
Definition path := list pystr.           (* starred path segments: integer keys are "*" *)
Definition star : pystr := [42].
Definition seg (k : key) : pystr := match k with KI _ => star | KS s => s end.
Fixpoint path_eqb (a b : path) : bool :=
  match a, b with
  | [], [] => true
  | x :: a', y :: b' => pystr_eqb x y && path_eqb a' b'
  | _, _ => false
  end.
Definition path_in (p : path) (ps : list path) : bool := existsb (path_eqb p) ps.

(* is_diff_all_transients(diff, path, transients) *)
Fixpoint is_diff_all_transients (fuel : nat) (d : diff) (p : path) (transients : list path) : bool :=
  match fuel with
  | O => false
  | S f =>
      (fix go (d : diff) : bool :=
         match d with
         | [] => true
         | e :: rest =>
             let sub := p ++ [seg (dkey e)] in
             let in_tr := path_in sub transients in
             match e with
             | DPatch _ dd =>
                 if in_tr then go rest
                 else if negb (is_diff_all_transients f dd sub transients) then false else go rest
             | _ => if negb in_tr then false else go rest
             end
         end) d
  end.

(* strategies.get(star_path(subpath)) in countering_strategies *)
Section Counter.
  Variable counters : path -> bool.

  Fixpoint will_diff_counter_parent_deletion (fuel : nat) (d : diff) (p : path) : bool :=
    match fuel with
    | O => false
    | S f =>
        (fix go (d : diff) : bool :=
           match d with
           | [] => false
           | e :: rest =>
               let sub := p ++ [seg (dkey e)] in
               if counters sub then true
               else match e with
                    | DPatch _ dd => if will_diff_counter_parent_deletion f dd sub then true else go rest
                    | _ => go rest
                    end
           end) d
    end.

  (* counter diff: entries are either the internal op "parent_deleted" or a patch to recurse into *)
  Inductive centry := CParentDeleted (k : key) | CPatch (k : key) (d : list centry).

  Fixpoint create_parent_deletion_counter_diff (fuel : nat) (d : diff) (p : path) : list centry :=
    match fuel with
    | O => []
    | S f =>
        (fix go (d : diff) : list centry :=
           match d with
           | [] => []
           | e :: rest =>
               let sub := p ++ [seg (dkey e)] in
               if counters sub then CParentDeleted (dkey e) :: go rest
               else match e with
                    | DPatch k dd =>
                        (* only recurse if no strategy matched here; a branch with nothing to counter is omitted *)
                        match create_parent_deletion_counter_diff f dd sub with
                        | [] => go rest
                        | subdiff => CPatch k subdiff :: go rest
                        end
                    | _ => go rest
                    end
           end) d
    end.

  (* the remove-vs-patch arm of _merge_lists (generic.py ~l.560-600), list_strategy not one of use-* *)
  Inductive delpatch := TakeDeletion | CounterDeletion (cd : list centry) | ConflictOnParent.
  Definition delete_vs_patch (fuel : nat) (thediff : diff) (item_path : path) (transients : list path) : delpatch :=
    if is_diff_all_transients fuel thediff item_path transients then TakeDeletion
    else if will_diff_counter_parent_deletion fuel thediff item_path
         then CounterDeletion (create_parent_deletion_counter_diff fuel thediff item_path)
         else ConflictOnParent.
End Counter.

(* default notebook strategies (merging/notebooks.py): transients and the one countering path *)
Definition p_cells := of_ascii "cells".
Definition p_source := of_ascii "source".
Definition cell_path : path := [p_cells; star].
Definition default_transients : list path :=
  [ [p_cells; star; of_ascii "execution_count"];
    [p_cells; star; of_ascii "outputs"; star; of_ascii "execution_count"];
    [p_cells; star; of_ascii "metadata"; of_ascii "collapsed"];
    [p_cells; star; of_ascii "metadata"; of_ascii "autoscroll"];
    [p_cells; star; of_ascii "metadata"; of_ascii "scrolled"] ].
Definition default_counters (p : path) : bool := path_eqb p [p_cells; star; p_source].
