(* Gallina model of the conflict RENDERERS of nbdime/merging/strategies.py -- the values they splice into the merged
   notebook -- for property C04.  One function per Python function; what nbformat.v4.new_markdown_cell / new_output
   add, and the two places where the pinned code and the reviewed fix differ, are source facts of Gen/RenderFacts.v:
     cell_marker / _cell_marker_format / output_marker            strategies.py:233-243
     make_inline_output_conflict (block structure)                strategies.py:285-352
     make_inline_cell_conflict                                    strategies.py:356-394
     resolve_strategy_record_conflicts (the recorded field)       strategies.py:440-475
     resolve_strategy_inline_attachments (LOCAL_/REMOTE_ names)   strategies.py:161-230
     resolve_strategy_inline_recurse (similar-insert cell)        strategies.py:556-616
   Fresh cell ids (nbformat's random_cell_id) are parameters [cid]; theorems quantify over every id that satisfies the
   cell_id schema, and the check validates that hypothesis on every id the implementation generates. *)
From Coq Require Import List NArith ZArith Bool String.
From NB Require Import Base.Json Diff.Codec Schema.Schema Gen.NbSchemas Gen.RenderFacts.
Import ListNotations.
Local Open Scope string_scope.

Definition k_cell_type := of_ascii "cell_type".
Definition k_id := of_ascii "id".
Definition k_metadata := of_ascii "metadata".
Definition k_source := of_ascii "source".
Definition k_name := of_ascii "name".
Definition k_output_type := of_ascii "output_type".
Definition k_text := of_ascii "text".
Definition k_outputs := of_ascii "outputs".
Definition k_execution_count := of_ascii "execution_count".
Definition k_nbdime_conflicts := of_ascii "nbdime-conflicts".
Definition k_local_diff := of_ascii "local_diff".
Definition k_remote_diff := of_ascii "remote_diff".
Definition k_local_metadata := of_ascii "local_metadata".
Definition k_remote_metadata := of_ascii "remote_metadata".
Definition k_local_id := of_ascii "local_id".
Definition k_remote_id := of_ascii "remote_id".
Definition s_markdown := of_ascii "markdown".
Definition s_stream := of_ascii "stream".
Definition s_stderr := of_ascii "stderr".
Definition s_LOCAL := of_ascii "LOCAL_".
Definition s_REMOTE := of_ascii "REMOTE_".

(* ---------- nbformat.v4 helpers ---------- *)
(* new_markdown_cell(source=s): keys in sorted order cell_type < id < metadata < source *)
Definition new_markdown_cell (adds_id : bool) (cid source : pystr) : json :=
  JObj ((k_cell_type, JStr s_markdown) :: (if adds_id then [(k_id, JStr cid)] else [])
        ++ [(k_metadata, JObj []); (k_source, JStr source)])%list.

(* new_output("stream", name="stderr", text=t) *)
Definition new_output_stream (name text : pystr) : json :=
  JObj [(k_name, JStr name); (k_output_type, JStr s_stream); (k_text, JStr text)].

(* ---------- markers ---------- *)
Definition cell_marker_format (text : pystr) : pystr := (marker_prefix ++ text ++ marker_suffix)%list.

(* [with_id] is the extra argument of the reviewed fix (ignored by the pinned code) *)
Definition cell_marker_with (pol : marker_id_policy) (adds_id with_id : bool) (cid text : pystr) : json :=
  match pol with
  | MarkerIdAlways => new_markdown_cell adds_id cid (cell_marker_format text)
  | MarkerIdIffPayload => new_markdown_cell (adds_id && with_id) cid (cell_marker_format text)
  end.
Definition cell_marker := cell_marker_with cell_marker_id new_markdown_cell_adds_id.

Definition output_marker (text : pystr) : json := new_output_stream s_stderr text.

Definition m0 : pystr := repeat 60%N marker_size.    (* <<<<<<< *)
Definition m1 : pystr := repeat 61%N marker_size.    (* ======= *)
Definition m2 : pystr := repeat 62%N marker_size.    (* >>>>>>> *)
Definition SP : pystr := [32%N].
Definition NL : pystr := [10%N].

Definition has_key (k : pystr) (j : json) : bool := match j with JObj kv => obj_has k kv | _ => false end.

(* ---------- make_inline_cell_conflict ---------- *)
Definition make_inline_cell_conflict_with (pol : marker_id_policy) (adds_id : bool) (ids : pystr * pystr * pystr)
           (base_cells lvals rvals : list json) (start lremove rremove : nat) : list json :=
  let '(id0, id1, id2) := ids in
  let lkeep := lremove - rremove in
  let rkeep := rremove - lremove in
  let lcells := (lvals ++ firstn lkeep (skipn start base_cells))%list in
  let rcells := (rvals ++ firstn rkeep (skipn start base_cells))%list in
  let with_id := forallb (has_key k_id) (lcells ++ rcells) in
  ([cell_marker_with pol adds_id with_id id0 (m0 ++ SP ++ local_title)] ++ lcells ++
   [cell_marker_with pol adds_id with_id id1 m1] ++ rcells ++
   [cell_marker_with pol adds_id with_id id2 (m2 ++ SP ++ remote_title)])%list.
Definition make_inline_cell_conflict := make_inline_cell_conflict_with cell_marker_id new_markdown_cell_adds_id.

(* ---------- make_inline_output_conflict: the marked-up blocks ---------- *)
Definition output_block (louts routs : list json) (lnote rnote : pystr) : list json :=
  ([output_marker (m0 ++ SP ++ local_title ++ lnote ++ NL)] ++ louts ++ [output_marker (m1 ++ NL)] ++ routs ++
   [output_marker (m2 ++ SP ++ remote_title ++ rnote ++ NL)])%list.

(* has_inserts: linserts or rinserts; both_removed: lremoves and rremoves; keep_base: no removes / patches at all.
   lins/rins: the inserted outputs; louts/routs: get_outputs_and_note's suboutputs (patched or untouched base output) *)
Definition make_inline_output_conflict (has_inserts both_removed keep_base : bool) (lins rins louts routs : list json)
           (lnote rnote : pystr) : list json :=
  ((if has_inserts then output_block lins rins [] [] else []) ++
   (if both_removed || keep_base then [] else output_block louts routs lnote rnote))%list.

(* ---------- record-conflict ---------- *)
Definition conflicts_record (ld rd : list json) : json := JObj [(k_local_diff, JArr ld); (k_remote_diff, JArr rd)].
(* the metadata object after the custom diff [op_add / op_replace "nbdime-conflicts"] *)
Definition record_conflicts (md : list (pystr * json)) (ld rd : list json) : json :=
  JObj (obj_set k_nbdime_conflicts (conflicts_record ld rd) md).

(* ---------- inline-attachments ---------- *)
Definition rename_attachments (att : list (pystr * json)) (key : pystr) (local remote : json) : json :=
  JObj (obj_set (s_REMOTE ++ key)%list remote (obj_set (s_LOCAL ++ key)%list local att)).

(* ---------- similar concurrent inserts ---------- *)
Definition mem_str (k : pystr) (l : list pystr) : bool := existsb (str_eqb k) l.

(* cell[k] of the attachments branch: `latt = lcell.get(k) or {}` -- an absent key, None and {} read as no attachments;
   any other non-object value is outside the model (None) *)
Definition att_or_empty (o : option json) : option (list (pystr * json)) :=
  match o with
  | None => Some []
  | Some JNull => Some []
  | Some (JObj kv) => Some kv
  | Some _ => None
  end.

(* sorted(set(latt) | set(ratt)) *)
Fixpoint ins_name (n : pystr) (l : list pystr) : list pystr :=
  match l with
  | [] => [n]
  | x :: r => match str_cmp n x with Lt => n :: l | Eq => l | Gt => x :: ins_name n r end
  end.
Definition att_names (latt ratt : list (pystr * json)) : list pystr :=
  fold_right ins_name [] (map fst latt ++ map fst ratt)%list.

Definition att_step (latt ratt : list (pystr * json)) (acc : list (pystr * json)) (name : pystr) : list (pystr * json) :=
  match obj_get name latt, obj_get name ratt with
  | Some lv, Some rv =>
      if py_eqb lv rv then obj_set name lv acc      (* latt[name] != ratt[name] is Python's != *)
      else obj_set (s_REMOTE ++ name)%list rv (obj_set (s_LOCAL ++ name)%list lv acc)
  | Some lv, None => obj_set name lv acc
  | None, Some rv => obj_set name rv acc
  | None, None => acc
  end.
Definition merge_similar_attachments (latt ratt : list (pystr * json)) : list (pystr * json) :=
  fold_left (att_step latt ratt) (att_names latt ratt) [].

Definition k_attachments := of_ascii "attachments".

(* the value written for a conflicting key k; lo / ro = lcell.get(k) / rcell.get(k); None = exception (KeyError on
   lcell[k] / rcell[k], ValueError('Conflict on unrecognized key')) *)
Definition similar_value (pol : similar_id_policy) (apol : similar_att_policy) (k : pystr) (lo ro : option json)
           (merged_source : pystr) : option json :=
  if str_eqb k k_source then
    match lo, ro with Some _, Some _ => Some (JStr merged_source) | _, _ => None end
  else if str_eqb k k_metadata then
    match lo, ro with Some lv, Some rv => Some (JObj [(k_local_metadata, lv); (k_remote_metadata, rv)]) | _, _ => None end
  else if str_eqb k k_id then
    match pol with
    | SimIdDict => match lo, ro with Some lv, Some rv => Some (JObj [(k_local_id, lv); (k_remote_id, rv)]) | _, _ => None end
    | SimIdLocal => lo
    | SimIdLocalElseRemote => match lo with Some lv => Some lv | None => ro end    (* lcell[k] if k in lcell else rcell[k] *)
    end
  else if str_eqb k k_execution_count then Some JNull
  else if str_eqb k k_outputs then Some (JArr [])
  else if str_eqb k k_attachments then
    match apol with
    | SimAttUnsupported => None
    | SimAttKeepBoth =>
        match att_or_empty lo, att_or_empty ro with
        | Some latt, Some ratt => Some (JObj (merge_similar_attachments latt ratt))
        | _, _ => None
        end
    end
  else None.

Fixpoint similar_conflicts (pol : similar_id_policy) (apol : similar_att_policy) (keys : list pystr)
         (lcell rcell : list (pystr * json)) (merged_source : pystr) (acc : list (pystr * json))
  : option (list (pystr * json)) :=
  match keys with
  | [] => Some acc
  | k :: ks =>
      match similar_value pol apol k (obj_get k lcell) (obj_get k rcell) merged_source with
      | Some v => similar_conflicts pol apol ks lcell rcell merged_source (obj_set k v acc)
      | None => None
      end
  end.

(* keys = the keys touched by the local->remote diff (d.similar_insert[0].diff) *)
Definition similar_insert_cell_with (pol : similar_id_policy) (apol : similar_att_policy) (lcell rcell : list (pystr * json))
           (keys : list pystr) (merged_source : pystr) : option json :=
  let from_l := filter (fun p => negb (mem_str (fst p) keys)) lcell in
  let from_r := filter (fun p => negb (mem_str (fst p) keys) && negb (obj_has (fst p) lcell)) rcell in
  let acc := fold_left (fun a p => obj_set (fst p) (snd p) a) (from_l ++ from_r)%list [] in
  match similar_conflicts pol apol keys lcell rcell merged_source acc with
  | Some kv => Some (JObj kv)
  | None => None
  end.
Definition similar_insert_cell := similar_insert_cell_with similar_insert_id similar_insert_attachments.

(* ---------- the schema positions the rendered values go to ---------- *)
Definition ref (s : string) : schema := SRef (of_ascii s).
Definition cell_schema : schema := ref "nb#/definitions/cell".
Definition output_schema : schema := ref "nb#/definitions/output".
Definition attachments_schema : schema := ref "nb#/definitions/misc/attachments".
Definition mimebundle_schema : schema := ref "nb#/definitions/misc/mimebundle".

(* the schema of property [k] inside an object schema (after dereferencing [s]) *)
Fixpoint find_props (l : list schema) : option (list (pystr * schema)) :=
  match l with
  | [] => None
  | SProps props _ _ :: _ => Some props
  | _ :: r => find_props r
  end.
Definition prop_schema (d : defs) (s : schema) (k : pystr) : option schema :=
  let s' := match s with SRef n => lookup_def n d | _ => Some s end in
  match s' with
  | Some (SAllOf l) => match find_props l with Some props => assoc_s k props | None => None end
  | Some (SProps props _ _) => assoc_s k props
  | _ => None
  end.
(* the metadata positions record-conflict writes to: notebook, raw / markdown / code cell, output *)
Definition metadata_schemas (k : nat) : list (option schema) :=
  let d := nb_defs k in
  [prop_schema d (nb_root k) k_metadata;
   prop_schema d (ref "nb#/definitions/raw_cell") k_metadata;
   prop_schema d (ref "nb#/definitions/markdown_cell") k_metadata;
   prop_schema d (ref "nb#/definitions/code_cell") k_metadata;
   lookup_def (of_ascii "nb#/definitions/misc/output_metadata") d].

(* hypothesis on generated ids: the cell_id schema (1..64 characters of [a-zA-Z0-9-_]) *)
Definition id_ok (cid : pystr) : Prop :=
  pat_match PCellId cid = true /\ Nat.leb 1 (List.length cid) = true /\ Nat.leb (List.length cid) 64 = true.
