(* C06 on lists, flat diffs of any length: when the two sides insert / delete runs of items of a list (e.g. different cells)
   and no chunk of make_merge_chunks receives entries from both sides, then -- whenever the merge returns -- no decision is
   conflicted and applying the decisions is ONE patch of base by the chunk-ordered union of the two (boundary-split) diffs:
   every entry of either side is applied exactly once, and nothing else. *)
From Coq Require Import String.
From Coq Require Import List NArith ZArith Bool Lia Permutation.
From NB Require Import Base.Res Base.Json Base.PyStr Diff.DiffFormat Diff.Patch Diff.GenericDiff Diff.Codec
     Merge.SortKey Merge.Chunks Merge.Decisions Merge.Apply Merge.MergeGeneric Gen.MergeFacts
     Merge.MergeProofs Merge.MergeApplyProofs Merge.MergeOnesidedList Merge.SortKeyProofs.
Import ListNotations.

(* flat list diff entries: addrange / removerange with an int key (no well-formedness asked) *)
Definition lentry (e : dentry) : Prop :=
  match e with DAddRange (KI _) _ | DRemoveRange (KI _) _ => True | _ => False end.
Definition lflat (d : diff) : Prop := Forall lentry d.

Lemma lentry_flat e : lentry e -> is_patch e = false.
Proof. destruct e as [[?|?] ?|[?|?]|[?|?] ?|[?|?] ?|[?|?] ?|[?|?] ?]; cbn; tauto || reflexivity. Qed.
Lemma lentry_ki e : lentry e -> exists i, dkey e = KI i.
Proof. destruct e as [[?|?] ?|[?|?]|[?|?] ?|[i|?] ?|[i|?] ?|[?|?] ?]; cbn; try tauto; intros _; eexists; reflexivity. Qed.

Lemma Forall_seq_append_rev (P : dentry -> Prop) e : P e -> forall l, Forall P l -> Forall P (seq_append_rev l e).
Proof.
  intros He. induction l as [|x r IH]; intros Hl; cbn [seq_append_rev]; [constructor; [exact He | constructor]|].
  inversion Hl; subst. destruct (if is_addrange e then _ else _); constructor; auto.
Qed.

Lemma Forall_seq_append (P : dentry -> Prop) l e : Forall P l -> P e -> Forall P (seq_append l e).
Proof.
  intros Hl He. unfold seq_append. apply Forall_rev. apply Forall_seq_append_rev; [exact He | apply Forall_rev; exact Hl].
Qed.

Lemma split_rr_lflat : forall bs stop nd bs' nd', lflat nd -> split_rr bs stop nd = (bs', nd') -> lflat nd'.
Proof.
  induction bs as [|x r IH]; intros stop nd bs' nd' Hn E; cbn [split_rr] in E; [inversion E; subst; exact Hn|].
  destruct r as [|y r']; [inversion E; subst; exact Hn|].
  destruct (Nat.leb y stop); [|inversion E; subst; exact Hn].
  eapply IH; [|exact E]. unfold b_removerange. destruct (Nat.eqb (y - x) 0); [exact Hn|].
  apply Forall_seq_append; [exact Hn | exact I].
Qed.

Lemma split_go_lflat : forall d bs nd r, lflat d -> lflat nd -> split_diffs_go d bs nd = Ok r -> lflat r.
Proof.
  induction d as [|e d IH]; intros bs nd r Hd Hn E; cbn [split_diffs_go] in E; [inversion E; subst; exact Hn|].
  inversion Hd as [|? ? He Hd']; subst.
  destruct e as [[?|?] ?|[?|?]|[?|?] ?|[i|?] vs|[i|?] len|[?|?] ?]; cbn [lentry] in He; try contradiction.
  - eapply IH; [exact Hd' | | exact E]. apply Forall_seq_append; [exact Hn | exact I].
  - unfold key_int in E. cbn [dkey bind] in E. destruct (skip_lt bs i) as [bs1|]; [cbn [bind] in E|discriminate].
    destruct bs1 as [|x q]; [discriminate|]. destruct (Nat.eqb x i); [|discriminate].
    destruct (split_rr (x :: q) (i + len) nd) as [bs2 nd2] eqn:ES.
    eapply IH; [exact Hd' | | exact E]. apply (split_rr_lflat (x :: q) (i + len) nd bs2 nd2 Hn ES).
Qed.

Lemma take_key_app j : forall d t r, take_key d j = (t, r) -> d = t ++ r /\ Forall (fun e => knat e = j) t.
Proof.
  induction d as [|e d IH]; intros t r E; cbn [take_key] in E; [inversion E; subst; split; [reflexivity | constructor]|].
  destruct (Nat.eqb (knat e) j) eqn:Ek.
  - destruct (take_key d j) as [t' r'] eqn:ET. inversion E; subst. destruct (IH t' r eq_refl) as [A B].
    split; [cbn [app]; f_equal; exact A | constructor; [apply Nat.eqb_eq; exact Ek | exact B]].
  - inversion E; subst. split; [reflexivity | constructor].
Qed.

Lemma knondec_block j : forall (t : diff) rest lo,
  Forall (fun e => knat e = j) t -> knondec (S j) rest -> lo <= j -> knondec lo (t ++ rest).
Proof.
  induction t as [|a t IHt]; intros rest lo Ht Hr Hl; cbn [app].
  - eapply knondec_weaken; [|exact Hr]. lia.
  - inversion Ht as [|? ? He Ht']. cbn [knondec]. split; [lia|]. apply IHt; [exact Ht' | exact Hr | lia].
Qed.

Definition c_slots (c : chunk) : diff := c_d0 c ++ c_d1' c.

(* every slot holds entries of the side it came from, all with the chunk's key; chunk keys increase *)
Lemma make_chunks_slots : forall bs d0 d1 lo,
  incr bs -> (match bs with x :: _ => lo <= x | [] => True end) ->
  let cs := make_chunks bs d0 d1 in
  (forall c e, In c cs -> In e (c_d0 c) -> In e d0) /\ (forall c e, In c cs -> In e (c_d1' c) -> In e d1)
  /\ knondec lo (concat (map c_slots cs)).
Proof.
  induction bs as [|j r IH]; intros d0 d1 lo Hi Hlo; cbn [make_chunks].
  - cbv zeta. repeat split; try (intros c e []); try exact I.
  - cbn [incr] in Hi. destruct Hi as [Hj Hr].
    destruct (take_key d0 j) as [s0 d0'] eqn:T0. destruct (take_key d1 j) as [s1 d1'] eqn:T1.
    destruct (take_key_app j d0 s0 d0' T0) as [A0 B0]. destruct (take_key_app j d1 s1 d1' T1) as [A1 B1].
    assert (Hlo' : match r with x :: _ => S j <= x | [] => True end).
    { destruct r as [|x r']; [exact I|]. inversion Hj; subst. lia. }
    destruct (IH d0' d1' (S j) Hr Hlo') as (I0 & I1 & I2). cbv zeta in *.
    assert (R0 : forall c e, In c (make_chunks r d0' d1') -> In e (c_d0 c) -> In e d0).
    { intros c e Hc He. rewrite A0. apply in_or_app. right. eapply I0; eassumption. }
    assert (R1 : forall c e, In c (make_chunks r d0' d1') -> In e (c_d1' c) -> In e d1).
    { intros c e Hc He. rewrite A1. apply in_or_app. right. eapply I1; eassumption. }
    assert (RK : knondec lo (concat (map c_slots (make_chunks r d0' d1')))) by (eapply knondec_weaken; [|exact I2]; lia).
    destruct (Nat.ltb j _ || nonempty s0 || nonempty s1); [|repeat split; assumption].
    split; [|split].
    + intros c e [<-|Hc] He; [cbn [c_d0] in He; rewrite A0; apply in_or_app; left; exact He | eapply R0; eassumption].
    + intros c e [<-|Hc] He; [cbn [c_d1'] in He; rewrite A1; apply in_or_app; left; exact He | eapply R1; eassumption].
    + cbn [map concat]. unfold c_slots at 1. cbn [c_d0 c_d1'].
      apply (knondec_block j); [apply Forall_app; split; assumption | exact I2 | exact Hlo].
Qed.

Section DisjointList.
  Variable O : oracles.
  Variable cfg : config.
  Variable St : strat.
  Variable H : hooks.
  Variable gk : guard_kind.
  Variable strict : bool.
  Variable cstrict : bool.

  Definition dec_c (p : path) (c : chunk) : list decision :=
    if nonempty (c_d0 c) then [dec_l p (c_d0 c)] else if nonempty (c_d1' c) then [dec_r p (c_d1' c)] else [].

  Lemma merge_chunks_separated M rec base p : forall chunks B,
    Forall (fun c => (c_d0 c = [] \/ c_d1' c = []) /\ flat (c_d0 c) /\ flat (c_d1' c)) chunks ->
    merge_chunks O cfg St H strict cstrict M rec base p B chunks = Ok (B ++ flat_map (dec_c p) chunks).
  Proof.
    induction chunks as [|[[[j k] d0] d1] r IH]; intros B Hc; cbn [merge_chunks flat_map].
    - rewrite app_nil_r. reflexivity.
    - inversion Hc as [|? ? (H1 & H2 & H3) Hr]; subst. cbn [c_d0 c_d1'] in *. unfold dec_c at 1. cbn [c_d0 c_d1'].
      destruct H1 as [->| ->].
      + match goal with |- bind ?X _ = _ =>
          replace X with (Ok (if nonempty d1 then B ++ [dec_r p d1] else B) : res builder)
            by (symmetry; apply (merge_chunk_remote O cfg St H strict cstrict M rec base p B j k d1 H3)) end.
        cbn [bind nonempty]. rewrite (IH _ Hr). destruct (nonempty d1); [rewrite <- app_assoc; reflexivity | reflexivity].
      + match goal with |- bind ?X _ = _ =>
          replace X with (Ok (if nonempty d0 then B ++ [dec_l p d0] else B) : res builder)
            by (symmetry; apply (merge_chunk_onesided O cfg St H strict cstrict M rec base p B j k d0 H2)) end.
        cbn [bind]. rewrite (IH _ Hr). destruct (nonempty d0); [rewrite <- app_assoc; reflexivity|].
        cbn [nonempty app]. reflexivity.
  Qed.

  Lemma finish2 l u decs0 groups decs :
    Forall2 (fun dec g => d_path dec = [] /\ d_conflict dec = false /\ resolve_action (JArr l) dec = Ok g
                          /\ is_clear_all (d_action dec) = false /\ drop_strategy dec = dec) decs0 groups ->
    good u -> u <> [] -> concat groups = u ->
    (do B <- resolve_conflicted_list H [] l decs0 (list_strategy St []);
     Ok (validated (resolve_strategy_generic B (strat_get St s_slash)))) = Ok decs ->
    no_conf decs /\ apply_decisions (JArr l) decs = patch (pfuel (JArr l) u) (JArr l) u.
  Proof.
    intros HF GD Hne CG E.
    assert (NC : no_conf decs0).
    { unfold no_conf. clear -HF. induction HF as [|? ? ? ? (_ & X & _) _ IH]; constructor; assumption. }
    rewrite (resolve_conflicted_list_no_conf H [] l _ _ NC) in E. cbn [bind] in E.
    rewrite resolve_strategy_generic_no_conf in E by exact NC.
    assert (EV : validated decs0 = decs0).
    { unfold validated.
      assert (E1 : map drop_strategy decs0 = decs0).
      { clear -HF. induction HF as [|? ? ? ? (_ & _ & _ & _ & X) _ IH]; [reflexivity|]. cbn [map]. rewrite X, IH. reflexivity. }
      rewrite E1. apply sort_desc_root. clear -HF. induction HF as [|? ? ? ? (X & _) _ IH]; constructor; assumption. }
    rewrite EV in E. inversion E; subst decs. split; [exact NC|].
    destruct HF as [|dec g decs1 gs Hdg HF']; [cbn [concat] in CG; congruence|].
    rewrite <- CG. cbn [concat].
    eapply (apply_root_group_gen (JArr l) dec decs1 g gs).
    - destruct Hdg as (A1 & A2 & A3 & A4 & A5). repeat split; assumption.
    - clear -HF'. induction HF' as [|? ? ? ? (A1 & A2 & A3 & A4 & A5) _ IH]; constructor; [repeat split; assumption | exact IH].
    - apply acc_diffs_groups. cbn [concat] in CG. rewrite CG. exact GD.
  Qed.

  Theorem disjoint_flat_list l dl dr decs :
    lflat dl -> lflat dr ->
    (forall chunks, make_merge_chunks_with gk (length l) dl dr = Ok chunks -> Forall (fun c => c_d0 c = [] \/ c_d1' c = []) chunks) ->
    decide_merge_with_diff O cfg St H gk strict cstrict (JArr l) dl dr = Ok decs ->
    exists chunks u,
      make_merge_chunks_with gk (length l) dl dr = Ok chunks /\ u = concat (map c_slots chunks)
      /\ no_conf decs
      /\ (u <> [] -> apply_decisions (JArr l) decs = patch (pfuel (JArr l) u) (JArr l) u).
  Proof.
    intros Fl Fr Hsep E. unfold decide_merge_with_diff, mfuel in E.
    replace (depth (JArr l) + 3) with (S (depth (JArr l) + 2)) in E by lia. cbn [merge] in E.
    unfold merge_lists in E.
    destruct (make_merge_chunks_with gk (length l) dl dr) as [chunks|] eqn:EC; [cbn [bind] in E|discriminate].
    exists chunks, (concat (map c_slots chunks)). split; [reflexivity|]. split; [reflexivity|].
    pose proof (Hsep chunks eq_refl) as HS.
    (* the shape of the chunk list *)
    unfold make_merge_chunks_with in EC.
    destruct (get_section_boundaries dl (set_add (length l) [0])) as [b0|] eqn:G0; [cbn [bind] in EC|discriminate].
    destruct (get_section_boundaries dr b0) as [bs|] eqn:G1; [cbn [bind] in EC|discriminate].
    destruct (split_diffs_on_boundaries dl bs) as [s0|] eqn:S0; [cbn [bind] in EC|discriminate].
    destruct (split_diffs_on_boundaries dr bs) as [s1|] eqn:S1; [cbn [bind] in EC|discriminate].
    apply mmc_result in EC. subst chunks.
    assert (Fs0 : lflat s0) by (eapply split_go_lflat; [exact Fl | constructor | exact S0]).
    assert (Fs1 : lflat s1) by (eapply split_go_lflat; [exact Fr | constructor | exact S1]).
    assert (Hi : incr bs).
    { destruct (gsb_spec dl (set_add (length l) [0])) as (b0' & A1 & A2 & _).
      { eapply Forall_impl; [|exact Fl]. intros e He. apply lentry_ki. exact He. }
      rewrite G0 in A1. inversion A1; subst b0'.
      destruct (gsb_spec dr b0) as (bs' & B1 & B2 & _).
      { eapply Forall_impl; [|exact Fr]. intros e He. apply lentry_ki. exact He. }
      rewrite G1 in B1. inversion B1; subst bs'. apply B2, A2, set_add_incr. cbn [incr]. split; constructor. }
    destruct (make_chunks_slots bs s0 s1 0 Hi) as (M0 & M1 & MK). { destruct bs; [exact I | lia]. }
    cbv zeta in M0, M1, MK.
    assert (HC : Forall (fun c => (c_d0 c = [] \/ c_d1' c = []) /\ flat (c_d0 c) /\ flat (c_d1' c)) (make_chunks bs s0 s1)).
    { rewrite Forall_forall in *. intros c Hc. split; [apply HS; exact Hc|]. unfold flat. split; apply Forall_forall; intros e He; apply lentry_flat.
      - unfold lflat in Fs0. rewrite Forall_forall in Fs0. apply Fs0. eapply M0; eassumption.
      - unfold lflat in Fs1. rewrite Forall_forall in Fs1. apply Fs1. eapply M1; eassumption. }
    match type of E with bind (bind ?X _) _ = _ =>
      replace X with (Ok ([] ++ flat_map (dec_c []) (make_chunks bs s0 s1)) : res builder) in E
        by (symmetry; apply (merge_chunks_separated _ false l [] _ [] HC)) end.
    cbn [bind app] in E.
    set (cs := make_chunks bs s0 s1) in *.
    assert (GU : good (concat (map c_slots cs))).
    { split; [|split; [|exact MK]].
      - unfold flat. apply Forall_forall. intros e He. apply in_concat in He as (g & Hg & He). apply in_map_iff in Hg as (c & <- & Hc).
        rewrite Forall_forall in HC. destruct (HC c Hc) as (_ & F0 & F1). unfold c_slots in He. apply in_app_or in He as [He|He];
          [unfold flat in F0; rewrite Forall_forall in F0; apply F0 | unfold flat in F1; rewrite Forall_forall in F1; apply F1]; exact He.
      - apply Forall_forall. intros e He. apply in_concat in He as (g & Hg & He). apply in_map_iff in Hg as (c & <- & Hc).
        apply lentry_ki. unfold c_slots in He. apply in_app_or in He as [He|He].
        + unfold lflat in Fs0. rewrite Forall_forall in Fs0. apply Fs0. eapply M0; eassumption.
        + unfold lflat in Fs1. rewrite Forall_forall in Fs1. apply Fs1. eapply M1; eassumption. }
    assert (HG : exists groups, Forall2 (fun dec g => d_path dec = [] /\ d_conflict dec = false /\ resolve_action (JArr l) dec = Ok g
                          /\ is_clear_all (d_action dec) = false /\ drop_strategy dec = dec) (flat_map (dec_c []) cs) groups
                        /\ concat groups = concat (map c_slots cs)).
    { clear -HC. induction cs as [|c r IH]; [exists []; split; [constructor | reflexivity]|].
      inversion HC as [|? ? (H1 & _) Hr]; subst. destruct (IH Hr) as (gs & F2 & CG).
      cbn [flat_map map concat]. unfold dec_c at 1, c_slots at 1.
      destruct (c_d0 c) as [|e0 q0] eqn:E0; cbn [nonempty app].
      - destruct (c_d1' c) as [|e1 q1] eqn:E1; cbn [nonempty app].
        + exists gs. split; [exact F2 | exact CG].
        + exists ((e1 :: q1) :: gs). split; [constructor; [repeat split | exact F2] | cbn [concat]; rewrite CG; reflexivity].
      - destruct H1 as [X|X]; [discriminate|]. rewrite X. rewrite app_nil_r.
        exists ((e0 :: q0) :: gs). split; [constructor; [repeat split | exact F2] | cbn [concat]; rewrite CG; reflexivity]. }
    destruct HG as (groups & F2 & CG).
    destruct (concat (map c_slots cs)) as [|e0 u'] eqn:EU.
    - (* nothing to apply *)
      split; [|intros X; congruence].
      assert (NC : no_conf (flat_map (dec_c []) cs)).
      { unfold no_conf. clear -F2. induction F2 as [|? ? ? ? (_ & X & _) _ IH]; constructor; assumption. }
      rewrite (resolve_conflicted_list_no_conf H [] l _ _ NC) in E. cbn [bind] in E.
      rewrite resolve_strategy_generic_no_conf in E by exact NC. inversion E; subst decs.
      unfold no_conf. eapply Permutation_Forall; [apply validated_perm|].
      rewrite Forall_map. eapply Forall_impl; [|exact NC]. intros dec X. exact X.
    - destruct (finish2 l (e0 :: u') _ groups decs F2 GU ltac:(discriminate) CG E) as [N1 N2].
      split; [exact N1 | intros _; exact N2].
  Qed.
End DisjointList.

Example disjoint_flat_list_example :
  let l := [JInt 0; JInt 1; JInt 2; JInt 3; JInt 4] in
  let dl := [DAddRange (KI 1) (VList [JInt 7])] in
  let dr := [DRemoveRange (KI 3) 2] in
  lflat dl /\ lflat dr
  /\ (forall chunks, make_merge_chunks_with GuardListTruthy (length l) dl dr = Ok chunks -> Forall (fun c => c_d0 c = [] \/ c_d1' c = []) chunks)
  /\ exists decs, decide_merge_with_diff O0 cfg0 no_strategies no_hooks GuardListTruthy false false (JArr l) dl dr = Ok decs
       /\ apply_decisions (JArr l) decs = Ok (JArr [JInt 0; JInt 7; JInt 1; JInt 2]).
Proof.
  cbv zeta. split; [repeat constructor|]. split; [repeat constructor|]. split.
  - intros chunks E. vm_compute in E. inversion E; subst. repeat constructor; cbn; tauto.
  - eexists. split; vm_compute; reflexivity.
Qed.
Print Assumptions disjoint_flat_list.
