(* Validity of what the conflict renderers build, against the generated nbformat schemas (property C04). *)
From Coq Require Import List NArith ZArith Bool String Lia.
From NB Require Import Base.Json Diff.Codec Schema.Schema Schema.SchemaProofs Gen.NbSchemas Gen.RenderFacts Merge.Render4.
Import ListNotations.

Definition F : nat := 40.    (* fuel: the rendered values are at most 12 schema levels deep *)

Definition cell_valid (k : nat) (c : json) : Prop := validate (nb_defs k) F cell_schema c = Some true.
Definition output_valid (k : nat) (o : json) : Prop := validate (nb_defs k) F output_schema o = Some true.

Ltac minors k Hk := do 6 (destruct k as [|k]; [ | ]); [ .. | exfalso; lia ].

(* ---------- marker cells ---------- *)
(* pinned code: new_markdown_cell always adds an id *)
Lemma marker_always_valid_5 : forall w cid text, id_ok cid ->
  cell_valid 5 (cell_marker_with MarkerIdAlways true w cid text).
Proof.
  intros w cid text (H1 & H2 & H3). unfold cell_valid, F.
  Opaque pat_match Nat.leb List.length.
  lazy.
  Transparent pat_match Nat.leb List.length.
  rewrite H1, H2, H3. reflexivity.
Qed.

Lemma marker_always_invalid_pre5 : forall k w cid text, k < 5 ->
  validate (nb_defs k) F cell_schema (cell_marker_with MarkerIdAlways true w cid text) = Some false.
Proof.
  intros k w cid text Hk.
  do 5 (destruct k as [|k]; [ lazy; reflexivity | ]). exfalso; lia.
Qed.

(* reviewed fix: the id is kept iff the delimited cells carry ids *)
Lemma marker_iff_valid : forall k cid text, k <= 5 -> id_ok cid ->
  cell_valid k (cell_marker_with MarkerIdIffPayload true (Nat.leb 5 k) cid text).
Proof.
  intros k cid text Hk (H1 & H2 & H3). unfold cell_valid, F.
  do 5 (destruct k as [|k]; [ lazy; reflexivity | ]).
  destruct k as [|k]; [ | exfalso; lia ].
  exact (marker_always_valid_5 true cid text (conj H1 (conj H2 H3))).
Qed.

(* what the generated policy gives, in one statement that follows the code *)
Definition marker_statement (pol : marker_id_policy) : Prop :=
  match pol with
  | MarkerIdAlways =>
      (forall w cid text, id_ok cid -> cell_valid 5 (cell_marker_with pol true w cid text)) /\
      (forall k w cid text, k < 5 -> validate (nb_defs k) F cell_schema (cell_marker_with pol true w cid text) = Some false)
  | MarkerIdIffPayload =>
      forall k cid text, k <= 5 -> id_ok cid -> cell_valid k (cell_marker_with pol true (Nat.leb 5 k) cid text)
  end.
Lemma marker_statement_holds : forall pol, marker_statement pol.
Proof.
  destruct pol; [ exact (conj marker_always_valid_5 marker_always_invalid_pre5) | exact marker_iff_valid ].
Qed.

(* the hypothesis id_ok is satisfiable *)
Example id_ok_example : id_ok (of_ascii "a4a92a44").
Proof. repeat split; vm_compute; reflexivity. Qed.

(* ---------- marker outputs ---------- *)
Lemma marker_output_valid : forall k text, k <= 5 -> output_valid k (output_marker text).
Proof.
  intros k text Hk. unfold output_valid, F.
  do 6 (destruct k as [|k]; [ lazy; reflexivity | ]). exfalso; lia.
Qed.

(* ---------- inline cell conflicts ---------- *)
Lemma Forall_firstn {A} (P : A -> Prop) n l : Forall P l -> Forall P (firstn n l).
Proof. revert l; induction n; intros [|x l] H; simpl; auto. inversion H; subst. constructor; auto. Qed.
Lemma Forall_skipn {A} (P : A -> Prop) n l : Forall P l -> Forall P (skipn n l).
Proof. revert l; induction n; intros [|x l] H; simpl; auto. inversion H; subst. auto. Qed.

Lemma inline_cells_valid_5 : forall id0 id1 id2 base lvals rvals start lr rr,
  id_ok id0 -> id_ok id1 -> id_ok id2 ->
  Forall (cell_valid 5) base -> Forall (cell_valid 5) lvals -> Forall (cell_valid 5) rvals ->
  Forall (cell_valid 5) (make_inline_cell_conflict_with MarkerIdAlways true (id0, id1, id2) base lvals rvals start lr rr).
Proof.
  intros. unfold make_inline_cell_conflict_with.
  repeat (apply Forall_app; split); try (constructor; [ apply marker_always_valid_5; assumption | constructor ]);
    try assumption; apply Forall_firstn, Forall_skipn; assumption.
Qed.

(* with the reviewed fix: every minor, provided the delimited cells carry ids exactly when the format has them
   (which validity of those cells implies: `id` is required by 4.5 and an additional property before) *)
Lemma inline_cells_valid_iff : forall k id0 id1 id2 base lvals rvals start lr rr,
  k <= 5 -> id_ok id0 -> id_ok id1 -> id_ok id2 ->
  Forall (cell_valid k) base -> Forall (cell_valid k) lvals -> Forall (cell_valid k) rvals ->
  forallb (has_key k_id) ((lvals ++ firstn (lr - rr) (skipn start base)) ++ (rvals ++ firstn (rr - lr) (skipn start base))) = Nat.leb 5 k ->
  Forall (cell_valid k) (make_inline_cell_conflict_with MarkerIdIffPayload true (id0, id1, id2) base lvals rvals start lr rr).
Proof.
  intros k id0 id1 id2 base lvals rvals start lr rr Hk H0 H1 H2 Hb Hl Hr Hid. unfold make_inline_cell_conflict_with.
  rewrite Hid.
  repeat (apply Forall_app; split); try (constructor; [ apply marker_iff_valid; assumption | constructor ]);
    try assumption; apply Forall_firstn, Forall_skipn; assumption.
Qed.

(* the pinned code on a pre-4.5 notebook: two valid cells inserted concurrently, invalid markers around them *)
Definition wit_cell (src : string) : json :=
  JObj [(k_cell_type, JStr s_markdown); (k_metadata, JObj []); (k_source, JStr (of_ascii src))].
Definition wit_ids : pystr * pystr * pystr := (of_ascii "a4a92a44", of_ascii "c2daf671", of_ascii "c70c80e1").
Definition all_valid (k : nat) (s : schema) (l : list json) : bool :=
  forallb (fun c => match validate (nb_defs k) F s c with Some true => true | _ => false end) l.

Lemma inline_cells_refuted_always : forall k, k < 5 ->
  all_valid k cell_schema [wit_cell "local"; wit_cell "remote"] = true /\
  all_valid k cell_schema (make_inline_cell_conflict_with MarkerIdAlways true wit_ids [] [wit_cell "local"] [wit_cell "remote"] 0 0 0) = false.
Proof.
  intros k Hk. do 5 (destruct k as [|k]; [ split; vm_compute; reflexivity | ]). exfalso; lia.
Qed.

(* ---------- inline output conflicts ---------- *)
Lemma output_block_valid : forall k louts routs lnote rnote, k <= 5 ->
  Forall (output_valid k) louts -> Forall (output_valid k) routs ->
  Forall (output_valid k) (output_block louts routs lnote rnote).
Proof.
  intros. unfold output_block.
  repeat (apply Forall_app; split); try (constructor; [ apply marker_output_valid; assumption | constructor ]); assumption.
Qed.

Lemma inline_outputs_valid : forall k hi br kb lins rins louts routs lnote rnote, k <= 5 ->
  Forall (output_valid k) lins -> Forall (output_valid k) rins ->
  Forall (output_valid k) louts -> Forall (output_valid k) routs ->
  Forall (output_valid k) (make_inline_output_conflict hi br kb lins rins louts routs lnote rnote).
Proof.
  intros. unfold make_inline_output_conflict. apply Forall_app; split.
  - destruct hi; [ apply output_block_valid; auto | constructor ].
  - destruct (br || kb); [ constructor | apply output_block_valid; auto ].
Qed.

(* ---------- record-conflict: adding the nbdime-conflicts field keeps any metadata object valid ---------- *)
Definition md_open (k : nat) : bool :=
  forallb (fun os => match os with
                     | Some (SAllOf l) => forallb (open_kw k_nbdime_conflicts) l
                     | _ => false
                     end) (metadata_schemas k).

Lemma md_open_all : forall k, k <= 5 -> md_open k = true.
Proof. intros k Hk. do 6 (destruct k as [|k]; [ vm_compute; reflexivity | ]). exfalso; lia. Qed.

Lemma record_conflict_valid : forall k s n md ld rd, k <= 5 ->
  In (Some s) (metadata_schemas k) ->
  validate (nb_defs k) (S (S n)) s (JObj md) = Some true ->
  validate (nb_defs k) (S (S n)) s (record_conflicts md ld rd) = Some true.
Proof.
  intros k s n md ld rd Hk Hin Hv.
  pose proof (md_open_all k Hk) as Ho. unfold md_open in Ho.
  rewrite forallb_forall in Ho. specialize (Ho _ Hin).
  destruct s; try discriminate.
  unfold record_conflicts. apply allof_set; [ | exact Hv ].
  apply open_kw_ok. exact Ho.
Qed.

(* non-vacuity: each of the five metadata positions exists in every minor's schema *)
Example metadata_schemas_exist : forall k, k <= 5 ->
  forallb (fun os => match os with Some _ => true | None => false end) (metadata_schemas k) = true.
Proof. intros k Hk. do 6 (destruct k as [|k]; [ vm_compute; reflexivity | ]). exfalso; lia. Qed.

(* ---------- inline-attachments: LOCAL_<name> / REMOTE_<name> entries ---------- *)
Definition att_def : schema :=
  SAllOf [SType [TObj]; SProps [] [(PAny, mimebundle_schema)] None].
Lemma att_def_is : forall k, k <= 5 -> lookup_def (of_ascii "nb#/definitions/misc/attachments") (nb_defs k) = Some att_def.
Proof. intros k Hk. do 6 (destruct k as [|k]; [ vm_compute; reflexivity | ]). exfalso; lia. Qed.

Lemma attachment_rename_valid : forall k n att key local remote, k <= 5 ->
  validate (nb_defs k) (S (S (S n))) attachments_schema (JObj att) = Some true ->
  validate (nb_defs k) n mimebundle_schema local = Some true ->
  validate (nb_defs k) n mimebundle_schema remote = Some true ->
  validate (nb_defs k) (S (S (S n))) attachments_schema (rename_attachments att key local remote) = Some true.
Proof.
  intros k n att key local remote Hk Hv Hl Hr.
  unfold attachments_schema, ref in *.
  rewrite (validate_ref _ _ _ _ _ (att_def_is k Hk)) in Hv.
  rewrite (validate_ref _ _ _ _ _ (att_def_is k Hk)).
  unfold rename_attachments, att_def in *.
  assert (E : forall v, validate (nb_defs k) n mimebundle_schema v = Some true ->
              forall key', Forall (kw_ok_for_set (nb_defs k) n key' v) [SType [TObj]; SProps [] [(PAny, mimebundle_schema)] None]).
  { intros v Hvv key'. repeat constructor. simpl. unfold entry_check. simpl. rewrite Hvv. reflexivity. }
  apply allof_set; [ apply E; assumption | ].
  apply allof_set; [ apply E; assumption | ]. exact Hv.
Qed.

(* ---------- similar concurrent inserts ---------- *)
Definition wit_code (cid src : string) : list (pystr * json) :=
  [(k_cell_type, JStr (of_ascii "code")); (k_execution_count, JNull); (k_id, JStr (of_ascii cid)); (k_metadata, JObj []);
   (k_outputs, JArr []); (k_source, JStr (of_ascii src))].
Definition wit_src : pystr := of_ascii "<<< x = 1 === x = 2 >>>".
Definition wit_similar (pol : similar_id_policy) (apol : similar_att_policy) : json :=
  match similar_insert_cell_with pol apol (wit_code "cell1" "x = 1") (wit_code "cell2" "x = 2") [k_source; k_id] wit_src with
  | Some c => c | None => JNull end.

(* pinned code, 4.5: both inserted cells valid, the combined cell carries a dict-valued id and is invalid *)
Lemma similar_insert_refuted_dict : forall apol,
  all_valid 5 cell_schema [JObj (wit_code "cell1" "x = 1"); JObj (wit_code "cell2" "x = 2")] = true /\
  exists c, similar_insert_cell_with SimIdDict apol (wit_code "cell1" "x = 1") (wit_code "cell2" "x = 2") [k_source; k_id] wit_src = Some c /\
            validate (nb_defs 5) F cell_schema c = Some false.
Proof.
  intros apol. split; [ vm_compute; reflexivity | ].
  exists (wit_similar SimIdDict apol). destruct apol; split; vm_compute; reflexivity.
Qed.

(* reviewed fix (keep the local id): the same witness gives a valid cell *)
Lemma similar_insert_local_example : forall apol,
  exists c, similar_insert_cell_with SimIdLocal apol (wit_code "cell1" "x = 1") (wit_code "cell2" "x = 2") [k_source; k_id] wit_src = Some c /\
            validate (nb_defs 5) F cell_schema c = Some true.
Proof. intros apol. exists (wit_similar SimIdLocal apol). destruct apol; split; vm_compute; reflexivity. Qed.

(* --- the attachments branch: both sides' attachments are kept, differing ones under LOCAL_/REMOTE_ names --- *)
Lemma validate_type_obj d n kv : validate d (S n) (SType [TObj]) (JObj kv) = Some true.
Proof. reflexivity. Qed.

Lemma entry_att vf s k0 v : entry_check vf [] [(PAny, s)] None (k0, v) = Some true <-> vf s v = Some true.
Proof. unfold entry_check. simpl. destruct (vf s v) as [[|]|]; simpl; split; congruence. Qed.

(* an attachments object is valid iff each of its values is a valid mimebundle (whatever the names) *)
Lemma att_valid_iff k n kv : k <= 5 ->
  validate (nb_defs k) (S (S (S n))) attachments_schema (JObj kv) = Some true <->
  (forall p, In p kv -> validate (nb_defs k) n mimebundle_schema (snd p) = Some true).
Proof.
  intros Hk. unfold attachments_schema, ref.
  rewrite (validate_ref _ _ _ _ _ (att_def_is k Hk)). unfold att_def.
  rewrite validate_allof. cbv [map]. rewrite validate_type_obj, validate_props_obj.
  split.
  - intros H p Hp.
    destruct (all_o (map (entry_check (validate (nb_defs k) n) [] [(PAny, mimebundle_schema)] None) kv)) as [[|]|] eqn:E;
      try (simpl in H; discriminate).
    rewrite all_o_map_true in E. specialize (E p Hp). destruct p as [k0 v]. apply entry_att in E. exact E.
  - intros H.
    assert (E : all_o (map (entry_check (validate (nb_defs k) n) [] [(PAny, mimebundle_schema)] None) kv) = Some true).
    { apply all_o_map_true. intros [k0 v] Hp. apply entry_att. exact (H _ Hp). }
    rewrite E. reflexivity.
Qed.

Lemma obj_get_In k kv v : obj_get k kv = Some v -> exists k', In (k', v) kv.
Proof.
  induction kv as [|[k0 v0] r IH]; simpl; [ discriminate | ].
  destruct (str_eqb k k0).
  - intros H. injection H as <-. eauto.
  - intros H. destruct (IH H) as (k' & Hk'). eauto.
Qed.

Section AttVals.
  Variable P : json -> Prop.
  Variables latt ratt : list (pystr * json).
  Hypothesis Hl : forall p, In p latt -> P (snd p).
  Hypothesis Hr : forall p, In p ratt -> P (snd p).

  Lemma att_step_vals acc name : (forall p, In p acc -> P (snd p)) -> forall p, In p (att_step latt ratt acc name) -> P (snd p).
  Proof.
    intros Ha p. unfold att_step.
    destruct (obj_get name latt) as [lv|] eqn:El; destruct (obj_get name ratt) as [rv|] eqn:Er.
    - apply obj_get_In in El as (kl & Hkl). apply obj_get_In in Er as (kr & Hkr).
      destruct (py_eqb lv rv).
      + intros Hp. apply obj_set_In in Hp as [->|Hp]; [ exact (Hl _ Hkl) | auto ].
      + intros Hp. apply obj_set_In in Hp as [->|Hp]; [ exact (Hr _ Hkr) | ].
        apply obj_set_In in Hp as [->|Hp]; [ exact (Hl _ Hkl) | auto ].
    - apply obj_get_In in El as (kl & Hkl). intros Hp. apply obj_set_In in Hp as [->|Hp]; [ exact (Hl _ Hkl) | auto ].
    - apply obj_get_In in Er as (kr & Hkr). intros Hp. apply obj_set_In in Hp as [->|Hp]; [ exact (Hr _ Hkr) | auto ].
    - auto.
  Qed.

  Lemma att_fold_vals names acc : (forall p, In p acc -> P (snd p)) ->
    forall p, In p (fold_left (att_step latt ratt) names acc) -> P (snd p).
  Proof.
    revert acc. induction names as [|n r IH]; simpl; intros acc Ha; auto.
    apply IH. apply att_step_vals. exact Ha.
  Qed.

  Lemma merge_similar_attachments_vals : forall p, In p (merge_similar_attachments latt ratt) -> P (snd p).
  Proof. unfold merge_similar_attachments. apply att_fold_vals. intros p []. Qed.
End AttVals.

Lemma similar_attachments_valid : forall k n latt ratt, k <= 5 ->
  validate (nb_defs k) (S (S (S n))) attachments_schema (JObj latt) = Some true ->
  validate (nb_defs k) (S (S (S n))) attachments_schema (JObj ratt) = Some true ->
  validate (nb_defs k) (S (S (S n))) attachments_schema (JObj (merge_similar_attachments latt ratt)) = Some true.
Proof.
  intros k n latt ratt Hk Hl Hr. rewrite att_valid_iff in * by assumption.
  apply (merge_similar_attachments_vals (fun v => validate (nb_defs k) n mimebundle_schema v = Some true) latt ratt); assumption.
Qed.

(* every value the similar-insert builder writes for a conflicting key is valid at that key's position of every cell
   type that has the key, given that the values it is built from were (reviewed fix; with the pinned SimIdDict the `id`
   case fails) *)
Definition cell_type_defs : list schema :=
  [ref "nb#/definitions/raw_cell"; ref "nb#/definitions/markdown_cell"; ref "nb#/definitions/code_cell"].
Definition ovalid (k : nat) (s : schema) (o : option json) : Prop :=
  match o with Some v => validate (nb_defs k) F s v = Some true | None => True end.

Lemma att_or_empty_vals k n o att : k <= 5 ->
  match o with Some v => validate (nb_defs k) (S (S (S n))) attachments_schema v = Some true | None => True end ->
  att_or_empty o = Some att ->
  validate (nb_defs k) (S (S (S n))) attachments_schema (JObj att) = Some true.
Proof.
  intros Hk Ho E. destruct o as [[| | | | | |kv]|]; simpl in E; try discriminate; injection E as <-;
    try exact Ho; apply att_valid_iff; auto; intros p [].
Qed.

(* the id policies that write one of the two cells' own ids *)
Definition id_pol_own (pol : similar_id_policy) : Prop := match pol with SimIdDict => False | _ => True end.

Lemma similar_value_valid_own : forall pol apol k T key s lo ro src v, id_pol_own pol -> k <= 5 ->
  In T cell_type_defs ->
  prop_schema (nb_defs k) T key = Some s ->
  ovalid k s lo -> ovalid k s ro ->
  similar_value pol apol key lo ro src = Some v ->
  validate (nb_defs k) F s v = Some true.
Proof.
  intros pol apol k T key s lo ro src v Hpol Hk HT Hs Hlo Hro Hv.
  unfold similar_value in Hv.
  destruct (str_eqb key k_source) eqn:E1; [ apply str_eqb_eq in E1; subst key | ].
  { destruct lo, ro; try discriminate. injection Hv as <-.
    do 6 (destruct k as [|k]; [ destruct HT as [<-|[<-|[<-|[]]]]; vm_compute in Hs; injection Hs as <-; lazy; reflexivity | ]). exfalso; lia. }
  destruct (str_eqb key k_metadata) eqn:E2; [ apply str_eqb_eq in E2; subst key | ].
  { destruct lo, ro; try discriminate. injection Hv as <-.
    do 6 (destruct k as [|k]; [ destruct HT as [<-|[<-|[<-|[]]]]; vm_compute in Hs; injection Hs as <-; lazy; reflexivity | ]). exfalso; lia. }
  destruct (str_eqb key k_id) eqn:E3.
  { destruct pol; [ contradiction | subst lo; exact Hlo | ].
    destruct lo as [lv|]; [ injection Hv as <-; exact Hlo | subst ro; exact Hro ]. }
  destruct (str_eqb key k_execution_count) eqn:E4; [ apply str_eqb_eq in E4; subst key | ].
  { injection Hv as <-. do 6 (destruct k as [|k]; [ destruct HT as [<-|[<-|[<-|[]]]]; vm_compute in Hs; try discriminate Hs; injection Hs as <-; lazy; reflexivity | ]). exfalso; lia. }
  destruct (str_eqb key k_outputs) eqn:E5; [ apply str_eqb_eq in E5; subst key | ].
  { injection Hv as <-. do 6 (destruct k as [|k]; [ destruct HT as [<-|[<-|[<-|[]]]]; vm_compute in Hs; try discriminate Hs; injection Hs as <-; lazy; reflexivity | ]). exfalso; lia. }
  destruct (str_eqb key k_attachments) eqn:E6; [ apply str_eqb_eq in E6; subst key | discriminate ].
  destruct apol; [ discriminate | ].
  assert (Es : s = attachments_schema).
  { clear Hv Hlo Hro. do 6 (destruct k as [|k]; [ destruct HT as [<-|[<-|[<-|[]]]]; vm_compute in Hs; try discriminate Hs; injection Hs as <-; reflexivity | ]). exfalso; lia. }
  subst s.
  destruct (att_or_empty lo) as [latt|] eqn:El; try discriminate.
  destruct (att_or_empty ro) as [ratt|] eqn:Er; try discriminate.
  injection Hv as <-.
  change F with (S (S (S 37))) in *.
  apply similar_attachments_valid; auto.
  - exact (att_or_empty_vals k 37 lo latt Hk Hlo El).
  - exact (att_or_empty_vals k 37 ro ratt Hk Hro Er).
Qed.

Lemma similar_value_valid_local : forall apol k T key s lo ro src v, k <= 5 ->
  In T cell_type_defs ->
  prop_schema (nb_defs k) T key = Some s ->
  ovalid k s lo -> ovalid k s ro ->
  similar_value SimIdLocal apol key lo ro src = Some v ->
  validate (nb_defs k) F s v = Some true.
Proof. intros apol k T key s lo ro src v. exact (similar_value_valid_own SimIdLocal apol k T key s lo ro src v I). Qed.

(* f2e9526: the id is local's if local has one, else remote's -- so a pair of similar inserts of which only one carries
   an id (sides saved with different minors) no longer raises KeyError; with SimIdLocal this value is None *)
Lemma similar_id_one_sided : forall apol lv rv src,
  similar_value SimIdLocalElseRemote apol k_id None (Some rv) src = Some rv /\
  similar_value SimIdLocalElseRemote apol k_id (Some lv) None src = Some lv /\
  similar_value SimIdLocalElseRemote apol k_id (Some lv) (Some rv) src = Some lv /\
  similar_value SimIdLocalElseRemote apol k_id None None src = None.
Proof. intros. repeat split; reflexivity. Qed.

Lemma similar_value_id_dict_invalid : forall apol T s lv rv src v,
  In T cell_type_defs ->
  prop_schema (nb_defs 5) T k_id = Some s ->
  similar_value SimIdDict apol k_id (Some lv) (Some rv) src = Some v ->
  validate (nb_defs 5) F s v = Some false.
Proof.
  intros apol T s lv rv src v HT Hs Hv. vm_compute in Hv. injection Hv as <-.
  destruct HT as [<-|[<-|[<-|[]]]]; vm_compute in Hs; injection Hs as <-; lazy; reflexivity.
Qed.

(* non-vacuity of the attachments branch: two similar markdown cells whose attachment differs *)
Definition wit_md (minor5 : bool) (cid src img : string) : list (pystr * json) :=
  ((k_attachments, JObj [(of_ascii "a.png", JObj [(of_ascii "image/png", JStr (of_ascii img))]);
                         (of_ascii "same.png", JObj [(of_ascii "image/png", JStr (of_ascii "S"))])]) ::
   (k_cell_type, JStr s_markdown) :: (if minor5 then [(k_id, JStr (of_ascii cid))] else []) ++
   [(k_metadata, JObj []); (k_source, JStr (of_ascii src))])%list.
Definition wit_att (k : nat) : option json :=
  similar_insert_cell_with SimIdLocal SimAttKeepBoth (wit_md (Nat.leb 5 k) "c1" "x" "AAAA") (wit_md (Nat.leb 5 k) "c2" "y" "BBBB")
    (if Nat.leb 5 k then [k_source; k_id; k_attachments] else [k_source; k_attachments]) (of_ascii "x|y").
Example similar_insert_attachments_example : forall k, k <= 5 ->
  match wit_att k with
  | Some (JObj kv) =>
      (validate (nb_defs k) F cell_schema (JObj kv) = Some true /\
       match obj_get k_attachments kv with
       | Some (JObj att) => map fst att = [of_ascii "LOCAL_a.png"; of_ascii "REMOTE_a.png"; of_ascii "same.png"]
       | _ => False
       end)
  | _ => False
  end.
Proof. intros k Hk. do 6 (destruct k as [|k]; [ vm_compute; split; reflexivity | ]). exfalso; lia. Qed.

Definition similar_statement (pol : similar_id_policy) (apol : similar_att_policy) : Prop :=
  match pol with
  | SimIdDict =>
      (all_valid 5 cell_schema [JObj (wit_code "cell1" "x = 1"); JObj (wit_code "cell2" "x = 2")] = true /\
       exists c, similar_insert_cell_with pol apol (wit_code "cell1" "x = 1") (wit_code "cell2" "x = 2") [k_source; k_id] wit_src = Some c /\
                 validate (nb_defs 5) F cell_schema c = Some false) /\
      (forall T s lv rv src v, In T cell_type_defs -> prop_schema (nb_defs 5) T k_id = Some s ->
         similar_value pol apol k_id (Some lv) (Some rv) src = Some v -> validate (nb_defs 5) F s v = Some false)
  | SimIdLocal | SimIdLocalElseRemote =>
      forall k T key s lo ro src v, k <= 5 -> In T cell_type_defs -> prop_schema (nb_defs k) T key = Some s ->
        ovalid k s lo -> ovalid k s ro -> similar_value pol apol key lo ro src = Some v ->
        validate (nb_defs k) F s v = Some true
  end.
Lemma similar_statement_holds : forall pol apol, similar_statement pol apol.
Proof.
  destruct pol; intros apol;
    [ exact (conj (similar_insert_refuted_dict apol) (similar_value_id_dict_invalid apol))
    | exact (fun k T key s lo ro src v => similar_value_valid_own SimIdLocal apol k T key s lo ro src v I)
    | exact (fun k T key s lo ro src v => similar_value_valid_own SimIdLocalElseRemote apol k T key s lo ro src v I) ].
Qed.

(* non-vacuity of the one-sided id case: a pre-4.5 cell (no id) and a 4.5 cell (id) inserted concurrently, either order;
   the assembled cell takes the one existing id and is a valid 4.5 cell *)
Definition wit_md_id (with_id : bool) (cid src : string) : list (pystr * json) :=
  ((k_cell_type, JStr s_markdown) :: (if with_id then [(k_id, JStr (of_ascii cid))] else []) ++
   [(k_metadata, JObj []); (k_source, JStr (of_ascii src))])%list.
Definition wit_one_sided (local_has_id : bool) : option json :=
  similar_insert_cell_with SimIdLocalElseRemote SimAttKeepBoth
    (wit_md_id local_has_id "lid" "x") (wit_md_id (negb local_has_id) "rid" "y") [k_source; k_id] (of_ascii "x|y").
Example similar_insert_one_sided_id_example : forall b,
  match wit_one_sided b with
  | Some (JObj kv) => validate (nb_defs 5) F cell_schema (JObj kv) = Some true /\
                      obj_get k_id kv = Some (JStr (of_ascii (if b then "lid" else "rid")))
  | _ => False
  end.
Proof. destruct b; vm_compute; split; reflexivity. Qed.
(* ... while the previous policy fails on it (KeyError) when local is the side without an id *)
Example similar_insert_one_sided_id_old_policy :
  similar_insert_cell_with SimIdLocal SimAttKeepBoth (wit_md_id false "lid" "x") (wit_md_id true "rid" "y") [k_source; k_id] (of_ascii "x|y") = None.
Proof. vm_compute. reflexivity. Qed.

(* ---------- existential forms (witnesses replayed on the implementation by the check) ---------- *)
Lemma marker_cell_refuted_always :
  exists k w cid text, k < 5 /\ id_ok cid /\
    validate (nb_defs k) F cell_schema (cell_marker_with MarkerIdAlways true w cid text) = Some false.
Proof.
  exists 4, true, (of_ascii "a4a92a44"), (of_ascii "<<<<<<< local").
  split; [ lia | ]. split; [ exact id_ok_example | ]. apply marker_always_invalid_pre5. lia.
Qed.

Lemma inline_cells_refuted_always_ex :
  exists k ids base lvals rvals, k < 5 /\ all_valid k cell_schema (base ++ lvals ++ rvals) = true /\
    all_valid k cell_schema (make_inline_cell_conflict_with MarkerIdAlways true ids base lvals rvals 0 0 0) = false.
Proof.
  exists 4, wit_ids, [], [wit_cell "local"], [wit_cell "remote"].
  split; [ lia | ]. split; vm_compute; reflexivity.
Qed.
