(* C05, one-sided adoption on lists, full statement for flat list diffs of ANY length: for every list base and every
   well-formed list diff made of addrange / removerange entries (what the differ emits for inserted and deleted items,
   e.g. whole cells), whenever the one-sided merge returns, no decision is conflicted and applying the decisions is
   exactly patching base with the diff.  The chunker (boundaries, split, make_chunks) is followed step by step. *)
From Coq Require Import String.
From Coq Require Import List NArith ZArith Bool Lia.
From NB Require Import Base.Res Base.Json Base.PyStr Diff.DiffFormat Diff.Patch Diff.GenericDiff Diff.Codec
     Merge.SortKey Merge.Chunks Merge.Decisions Merge.Apply Merge.MergeGeneric Gen.MergeFacts
     Merge.MergeProofs Merge.MergeApplyProofs.
Import ListNotations.

(* well-formed flat list diff for a base of length n: [la] / [lr] = least key allowed for the next addrange / removerange *)
Fixpoint lst_ok (n la lr : nat) (d : diff) : Prop :=
  match d with
  | [] => True
  | DAddRange (KI j) _ :: r => la <= j /\ j <= n /\ lst_ok n (S j) j r
  | DRemoveRange (KI j) len :: r => lr <= j /\ 1 <= len /\ j + len <= n /\ lst_ok n (j + len) (j + len) r
  | _ => False
  end.

Fixpoint incr (l : list nat) : Prop :=
  match l with
  | [] => True
  | x :: r => Forall (fun y => x < y) r /\ incr r
  end.

(* ---------- SequenceDiffBuilder.append at the end ---------- *)
Lemma seq_append_end nd e :
  Forall (fun x => if is_addrange e then knat x < knat e else knat x <= knat e) nd -> seq_append nd e = nd ++ [e].
Proof.
  intros Hn. unfold seq_append. destruct (rev nd) as [|x rest] eqn:Er.
  - assert (nd = []) by (apply (f_equal (@rev _)) in Er; rewrite rev_involutive in Er; exact Er). subst. reflexivity.
  - assert (En : nd = rev rest ++ [x]) by (apply (f_equal (@rev _)) in Er; rewrite rev_involutive in Er; exact Er).
    assert (Hx : In x nd) by (rewrite En; apply in_or_app; right; left; reflexivity).
    rewrite Forall_forall in Hn. specialize (Hn x Hx). cbn [seq_append_rev].
    destruct (is_addrange e).
    + replace (Nat.leb (knat e) (knat x)) with false by (symmetry; apply Nat.leb_gt; exact Hn).
      cbn [rev]. rewrite <- En. reflexivity.
    + replace (Nat.ltb (knat e) (knat x)) with false by (symmetry; apply Nat.ltb_ge; exact Hn).
      cbn [rev]. rewrite <- En. reflexivity.
Qed.

(* ---------- the boundary cursor ---------- *)
Lemma skip_lt_found k : forall bs, incr bs -> In k bs ->
  exists post, skip_lt bs k = Ok (k :: post) /\ incr (k :: post) /\ (forall b, In b bs -> k <= b -> In b (k :: post)).
Proof.
  induction bs as [|x r IH]; intros Hi Hin; [destruct Hin|]. cbn [incr] in Hi. destruct Hi as [Hx Hr].
  cbn [skip_lt]. destruct (Nat.ltb x k) eqn:E.
  - apply Nat.ltb_lt in E. destruct Hin as [->|Hin]; [lia|]. destruct (IH Hr Hin) as (post & S1 & S2 & S3).
    exists post. split; [exact S1|]. split; [exact S2|]. intros b [->|Hb] Hk; [lia | apply S3; assumption].
  - apply Nat.ltb_ge in E. destruct Hin as [->|Hin].
    + exists r. split; [reflexivity|]. split; [split; assumption|]. intros b Hb _. exact Hb.
    + rewrite Forall_forall in Hx. specialize (Hx k Hin). lia.
Qed.

Lemma split_rr_exact j len post nd :
  1 <= len -> incr (j :: post) -> In (j + len) post -> (forall b, In b post -> ~ (b < j + len)) ->
  exists rest, post = (j + len) :: rest /\ split_rr (j :: post) (j + len) nd = ((j + len) :: rest, b_removerange nd j len).
Proof.
  intros Hl Hi Hin Hno. destruct post as [|y rest]; [destruct Hin|].
  cbn [incr] in Hi. destruct Hi as [Hj [Hy Hr]].
  assert (Ey : y = j + len).
  { destruct Hin as [E|Hin]; [exact E|]. rewrite Forall_forall in Hy. specialize (Hy _ Hin).
    specialize (Hno y (or_introl eq_refl)). lia. }
  subst y. exists rest. split; [reflexivity|]. cbn [split_rr]. rewrite Nat.leb_refl.
  replace (j + len - j) with len by lia.
  destruct rest as [|z rest']; [reflexivity|].
  replace (Nat.leb z (j + len)) with false; [reflexivity|].
  symmetry. apply Nat.leb_gt. inversion Hy; subst. assumption.
Qed.

Definition rr_in (d : diff) (j len : nat) : Prop := In (DRemoveRange (KI j) len) d.

Lemma lst_ok_weaken n la lr la' lr' d : la' <= la -> lr' <= lr -> lst_ok n la lr d -> lst_ok n la' lr' d.
Proof.
  intros H1 H2. destruct d as [|e r]; [auto|]. cbn [lst_ok].
  destruct e as [[?|?] ?|[?|?]|[?|?] ?|[j|?] vs|[j|?] len|[?|?] ?]; auto.
  - intros (A & B & C). repeat split; [lia | exact B | exact C].
  - intros (A & B & C & D). repeat split; [lia | exact B | exact C | exact D].
Qed.

(* every removerange of a well-formed flat diff starts at or after lr and ends within n *)
Lemma lst_ok_rr n : forall d la lr j len, lst_ok n la lr d -> lr <= la -> rr_in d j len -> lr <= j /\ 1 <= len /\ j + len <= n.
Proof.
  induction d as [|e r IH]; intros la lr j len Hok Hll Hin; [destruct Hin|].
  cbn [lst_ok] in Hok.
  destruct e as [[?|?] ?|[?|?]|[?|?] ?|[j0|?] vs|[j0|?] len0|[?|?] ?]; try contradiction.
  - destruct Hok as (A & B & C). destruct Hin as [E|Hin]; [discriminate|].
    destruct (IH _ _ _ _ C ltac:(lia) Hin) as (X & Y & Z). repeat split; try assumption. lia.
  - destruct Hok as (A & B & C & D). destruct Hin as [E|Hin].
    + inversion E; subst. repeat split; assumption.
    + destruct (IH _ _ _ _ D ltac:(lia) Hin) as (X & Y & Z). repeat split; try assumption. lia.
Qed.

Lemma split_go_id n : forall d bs nd la lr,
  lst_ok n la lr d -> lr <= la -> incr bs ->
  (forall j len, rr_in d j len -> In j bs /\ In (j + len) bs) ->
  (forall j len, rr_in d j len -> forall b, In b bs -> ~ (j < b < j + len)) ->
  Forall (fun x => knat x < la /\ knat x <= lr) nd ->
  split_diffs_go d bs nd = Ok (nd ++ d).
Proof.
  induction d as [|e r IH]; intros bs nd la lr Hok Hll Hi Hcov Hclr Hnd; cbn [split_diffs_go].
  - rewrite app_nil_r. reflexivity.
  - cbn [lst_ok] in Hok.
    destruct e as [[?|?] ?|[?|?]|[?|?] ?|[j|?] vs|[j|?] len|[?|?] ?]; try contradiction.
    + (* addrange *)
      destruct Hok as (A & B & C).
      rewrite seq_append_end.
      2:{ cbn [is_addrange]. eapply Forall_impl; [|exact Hnd]. intros x [X _]. unfold knat at 2. cbn [dkey]. lia. }
      rewrite (IH bs (nd ++ [DAddRange (KI j) vs]) (S j) j C); [rewrite <- app_assoc; reflexivity | lia | exact Hi | | |].
      * intros j0 l0 Hin. apply Hcov. right. exact Hin.
      * intros j0 l0 Hin. apply Hclr. right. exact Hin.
      * apply Forall_app. split.
        -- eapply Forall_impl; [|exact Hnd]. intros x [X Y]. lia.
        -- constructor; [unfold knat; cbn [dkey]; lia | constructor].
    + (* removerange *)
      destruct Hok as (A & B & C & D).
      unfold key_int. cbn [dkey bind].
      destruct (Hcov j len (or_introl eq_refl)) as [Hj Hjl].
      destruct (skip_lt_found j bs Hi Hj) as (post & S1 & S2 & S3). rewrite S1. cbn [bind]. rewrite Nat.eqb_refl.
      assert (Hjl' : In (j + len) post).
      { destruct (S3 (j + len) Hjl ltac:(lia)) as [E|X]; [lia | exact X]. }
      assert (Hno : forall b, In b post -> ~ (b < j + len)).
      { intros b Hb Hlt. cbn [incr] in S2. destruct S2 as [Hgt _]. rewrite Forall_forall in Hgt. specialize (Hgt b Hb).
        apply (Hclr j len (or_introl eq_refl) b); [|lia].
        clear -S1 Hb. revert S1. induction bs as [|x q IHq]; cbn [skip_lt]; [discriminate|].
        destruct (Nat.ltb x j); [intros E; right; apply IHq; exact E|]. intros E. inversion E; subst. right. exact Hb. }
      destruct (split_rr_exact j len post nd B S2 Hjl' Hno) as (rest & Ep & Es). rewrite Es.
      unfold b_removerange. replace (Nat.eqb len 0) with false by (symmetry; apply Nat.eqb_neq; lia).
      rewrite seq_append_end.
      2:{ cbn [is_addrange]. eapply Forall_impl; [|exact Hnd]. intros x [_ X]. unfold knat at 2. cbn [dkey]. lia. }
      assert (Sub : forall b, In b ((j + len) :: rest) -> In b bs).
      { intros b Hb. rewrite <- Ep in Hb. clear -S1 Hb. revert S1. induction bs as [|x q IHq]; cbn [skip_lt]; [discriminate|].
        destruct (Nat.ltb x j); [intros E; right; apply IHq; exact E|]. intros E. inversion E; subst. right. exact Hb. }
      rewrite (IH ((j + len) :: rest) (nd ++ [DRemoveRange (KI j) len]) (j + len) (j + len) D);
        [rewrite <- app_assoc; reflexivity | lia | | | |].
      * rewrite <- Ep. cbn [incr] in S2. tauto.
      * intros j0 l0 Hin. destruct (lst_ok_rr n r _ _ j0 l0 D ltac:(lia) Hin) as (X & Y & Z).
        destruct (Hcov j0 l0 (or_intror Hin)) as [I1 I2]. rewrite <- Ep. split.
        -- destruct (S3 j0 I1 ltac:(lia)) as [E|Q]; [lia | exact Q].
        -- destruct (S3 (j0 + l0) I2 ltac:(lia)) as [E|Q]; [lia | exact Q].
      * intros j0 l0 Hin b Hb. apply (Hclr j0 l0 (or_intror Hin) b). apply Sub. exact Hb.
      * apply Forall_app. split.
        -- eapply Forall_impl; [|exact Hnd]. intros x [X Y]. lia.
        -- constructor; [unfold knat; cbn [dkey]; lia | constructor].
Qed.

(* ---------- make_chunks of a one-sided, key-sorted diff: the chunks' slots concatenate to the diff ---------- *)
Fixpoint knondec (lo : nat) (d : diff) : Prop :=
  match d with
  | [] => True
  | e :: r => lo <= knat e /\ knondec (knat e) r
  end.

Lemma knondec_weaken lo lo' d : lo' <= lo -> knondec lo d -> knondec lo' d.
Proof. destruct d as [|e r]; [auto|]. cbn [knondec]. intros H1 [H2 H3]. split; [lia | exact H3]. Qed.

Lemma lst_ok_knondec n : forall d la lr, lst_ok n la lr d -> lr <= la -> knondec lr d.
Proof.
  induction d as [|e r IH]; intros la lr Hok Hll; [exact I|]. cbn [lst_ok] in Hok. cbn [knondec].
  destruct e as [[?|?] ?|[?|?]|[?|?] ?|[j|?] vs|[j|?] len|[?|?] ?]; try contradiction; unfold knat; cbn [dkey].
  - destruct Hok as (A & B & C). split; [lia|]. apply (IH _ _ C). lia.
  - destruct Hok as (A & B & C & D). split; [lia|]. apply knondec_weaken with (lo := j + len); [lia|]. apply (IH _ _ D). lia.
Qed.

Lemma take_key_spec j : forall d, knondec j d ->
  exists t r, take_key d j = (t, r) /\ d = t ++ r /\ Forall (fun e => knat e = j) t /\ knondec (S j) r.
Proof.
  induction d as [|e d IH]; intros Hk; cbn [take_key].
  - exists [], []. repeat split; constructor.
  - cbn [knondec] in Hk. destruct Hk as [H1 H2]. destruct (Nat.eqb (knat e) j) eqn:E.
    + apply Nat.eqb_eq in E. rewrite E in H2. destruct (IH H2) as (t & r & T1 & T2 & T3 & T4). rewrite T1.
      exists (e :: t), r. split; [reflexivity|]. split; [cbn [app]; f_equal; exact T2|]. split; [constructor; assumption | exact T4].
    + apply Nat.eqb_neq in E. exists [], (e :: d). split; [reflexivity|]. split; [reflexivity|]. split; [constructor|].
      cbn [knondec]. split; [lia | exact H2].
Qed.

Definition c_d0 (c : chunk) : diff := let '(_, _, d0, _) := c in d0.
Definition c_d1' (c : chunk) : diff := let '(_, _, _, d1) := c in d1.

Lemma take_key_nil j : take_key [] j = ([], []).
Proof. reflexivity. Qed.

Lemma make_chunks_concat : forall bs d,
  incr bs -> (forall e, In e d -> In (knat e) bs) -> (match bs with x :: _ => knondec x d | [] => True end) ->
  concat (map c_d0 (make_chunks bs d [])) = d /\ Forall (fun c => c_d1' c = []) (make_chunks bs d []).
Proof.
  induction bs as [|j r IH]; intros d Hi Hin Hk.
  - cbn [make_chunks map concat]. split; [|constructor]. destruct d as [|e d']; [reflexivity|]. destruct (Hin e (or_introl eq_refl)).
  - cbn [incr] in Hi. destruct Hi as [Hj Hr]. cbn [make_chunks].
    destruct (take_key_spec j d Hk) as (t & rest & T1 & T2 & T3 & T4). rewrite T1. cbn [take_key].
    assert (Hin' : forall e, In e rest -> In (knat e) r).
    { intros e He. assert (X : In (knat e) (j :: r)) by (apply Hin; rewrite T2; apply in_or_app; right; exact He).
      destruct X as [X|X]; [|exact X]. exfalso.
      clear -T4 He X. revert T4. induction rest as [|x q IHq]; [destruct He|]. cbn [knondec]. intros [A B].
      destruct He as [->|He]; [lia|]. apply IHq; [exact He|]. apply knondec_weaken with (lo := knat x); [lia | exact B]. }
    assert (Hk' : match r with x :: _ => knondec x rest | [] => True end).
    { destruct r as [|x r']; [exact I|]. destruct rest as [|e0 q]; [exact I|].
      assert (X : In (knat e0) (x :: r')) by (apply Hin'; left; reflexivity).
      cbn [knondec] in T4 |- *. destruct T4 as [A B]. split; [|exact B].
      destruct X as [X|X]; [lia|]. cbn [incr] in Hr. destruct Hr as [Hx _]. rewrite Forall_forall in Hx. specialize (Hx _ X). lia. }
    destruct (IH rest Hr Hin' Hk') as [C1 C2].
    destruct (Nat.ltb j (match r with y :: _ => y | [] => j end) || nonempty t || nonempty (@nil dentry)) eqn:G.
    + cbn [map concat c_d0]. split; [rewrite C1; symmetry; exact T2 | constructor; [reflexivity | exact C2]].
    + split; [|exact C2]. apply orb_false_iff in G as [G _]. apply orb_false_iff in G as [_ G].
      destruct t; [|discriminate]. rewrite C1. symmetry. exact T2.
Qed.

(* ---------- stable sort by int key is the identity on key-sorted diffs ---------- *)
Lemma insert_by_key_end e acc : Forall (fun x => knat x <= knat e) acc -> insert_by_key e acc = acc ++ [e].
Proof.
  induction 1 as [|x r Hx Hr IH]; cbn [insert_by_key app]; [reflexivity|].
  replace (Nat.ltb (knat e) (knat x)) with false by (symmetry; apply Nat.ltb_ge; exact Hx). rewrite IH. reflexivity.
Qed.

Lemma sort_by_key_id_go : forall d acc lo,
  knondec lo d -> Forall (fun x => knat x <= lo) acc ->
  fold_left (fun a e => insert_by_key e a) d acc = acc ++ d.
Proof.
  induction d as [|e r IH]; intros acc lo Hk Ha; cbn [fold_left]; [rewrite app_nil_r; reflexivity|].
  cbn [knondec] in Hk. destruct Hk as [H1 H2].
  rewrite insert_by_key_end by (eapply Forall_impl; [|exact Ha]; intros x Hx; cbn beta in *; lia).
  rewrite (IH (acc ++ [e]) (knat e) H2); [rewrite <- app_assoc; reflexivity|].
  apply Forall_app. split; [eapply Forall_impl; [|exact Ha]; intros x Hx; cbn beta in *; lia | constructor; [lia | constructor]].
Qed.

Lemma sort_by_key_id d lo : knondec lo d -> sort_by_key d = d.
Proof. intros Hk. unfold sort_by_key. apply (sort_by_key_id_go d [] lo Hk). constructor. Qed.

(* ---------- the boundary set of a well-formed flat diff ---------- *)
Lemma set_add_in x : forall s y, In y (set_add x s) <-> y = x \/ In y s.
Proof.
  induction s as [|z r IH]; intros y; cbn [set_add].
  - cbn [In]. intuition congruence.
  - destruct (Nat.ltb x z); [cbn [In]; intuition congruence|]. destruct (Nat.eqb x z) eqn:E.
    + apply Nat.eqb_eq in E. subst. cbn [In]. intuition congruence.
    + cbn [In]. rewrite IH. intuition congruence.
Qed.

Lemma set_add_incr x : forall s, incr s -> incr (set_add x s).
Proof.
  induction s as [|z r IH]; intros Hi; cbn [set_add].
  - cbn [incr]. split; constructor.
  - cbn [incr] in Hi. destruct Hi as [Hz Hr]. destruct (Nat.ltb x z) eqn:E.
    + apply Nat.ltb_lt in E. cbn [incr]. split; [|split; assumption].
      constructor; [exact E|]. eapply Forall_impl; [|exact Hz]. intros y Hy. cbn beta in *. lia.
    + apply Nat.ltb_ge in E. destruct (Nat.eqb x z) eqn:E2; [cbn [incr]; split; assumption|].
      apply Nat.eqb_neq in E2. cbn [incr]. split; [|apply IH; exact Hr].
      apply Forall_forall. intros y Hy. apply set_add_in in Hy as [->|Hy]; [lia|].
      rewrite Forall_forall in Hz. apply Hz. exact Hy.
Qed.

Definition bnd_of (d : diff) (b : nat) : Prop :=
  exists e, In e d /\ (b = knat e \/ match e with DRemoveRange _ len => b = knat e + len | DPatch _ _ => b = knat e + 1 | _ => False end).

Lemma gsb_spec : forall d acc, Forall (fun e => exists i, dkey e = KI i) d ->
  exists bs, get_section_boundaries d acc = Ok bs /\ (incr acc -> incr bs)
             /\ (forall b, In b bs <-> In b acc \/ bnd_of d b).
Proof.
  induction d as [|e r IH]; intros acc Hk.
  - exists acc. split; [reflexivity|]. split; [auto|]. intros b. split; [auto|]. intros [X|(e & [] & _)]. exact X.
  - inversion Hk as [|? ? (i & Ei) Hk']; subst. cbn [get_section_boundaries]. unfold key_int. rewrite Ei. cbn [bind].
    set (acc1 := set_add i acc).
    set (acc2 := match e with DRemoveRange _ len => set_add (i + len) acc1 | DPatch _ _ => set_add (i + 1) acc1 | _ => acc1 end).
    destruct (IH acc2 Hk') as (bs & G1 & G2 & G3). exists bs. split; [exact G1|]. split.
    + intros Hi. apply G2. unfold acc2, acc1. destruct e; try (apply set_add_incr; exact Hi); apply set_add_incr; apply set_add_incr; exact Hi.
    + assert (Ke : knat e = i) by (unfold knat; rewrite Ei; reflexivity).
      intros b. rewrite G3. unfold bnd_of. split.
      * intros [X|(e' & He' & Hb)]; [|right; exists e'; split; [right; exact He' | exact Hb]].
        assert (Y : In b acc1 \/ match e with DRemoveRange _ len => b = i + len | DPatch _ _ => b = i + 1 | _ => False end).
        { unfold acc2 in X. destruct e; try (left; exact X); apply set_add_in in X as [->|X]; auto. }
        destruct Y as [Y|Y].
        -- unfold acc1 in Y. apply set_add_in in Y as [->|Y]; [right; exists e; split; [left; reflexivity | left; symmetry; exact Ke] | left; exact Y].
        -- right. exists e. split; [left; reflexivity|]. right. rewrite Ke. exact Y.
      * intros [X|(e' & [<-|He'] & Hb)].
        -- left. unfold acc2, acc1. destruct e; repeat (apply set_add_in; right); exact X.
        -- left. rewrite Ke in Hb. destruct Hb as [->|Hb].
           ++ unfold acc2, acc1. destruct e; repeat (try (apply set_add_in; left; reflexivity); apply set_add_in; right).
           ++ unfold acc2. destruct e; try contradiction; apply set_add_in; left; exact Hb.
        -- right. exists e'. split; assumption.
Qed.

Lemma knondec_all : forall d lo, knondec lo d -> forall e, In e d -> lo <= knat e.
Proof.
  induction d as [|x r IH]; intros lo Hk e He; [destruct He|]. cbn [knondec] in Hk. destruct Hk as [A B].
  destruct He as [->|He]; [exact A|]. specialize (IH _ B e He). lia.
Qed.

Lemma lst_ok_keys n : forall d la lr, lst_ok n la lr d -> Forall (fun e => exists i, dkey e = KI i) d.
Proof.
  induction d as [|e r IH]; intros la lr Hok; [constructor|]. cbn [lst_ok] in Hok.
  destruct e as [[?|?] ?|[?|?]|[?|?] ?|[j|?] vs|[j|?] len|[?|?] ?]; try contradiction.
  - destruct Hok as (_ & _ & C). constructor; [eexists; reflexivity | eapply IH; exact C].
  - destruct Hok as (_ & _ & _ & D). constructor; [eexists; reflexivity | eapply IH; exact D].
Qed.

Lemma lst_ok_flat n : forall d la lr, lst_ok n la lr d -> flat d.
Proof.
  induction d as [|e r IH]; intros la lr Hok; [constructor|]. cbn [lst_ok] in Hok.
  destruct e as [[?|?] ?|[?|?]|[?|?] ?|[j|?] vs|[j|?] len|[?|?] ?]; try contradiction.
  - destruct Hok as (_ & _ & C). constructor; [reflexivity | eapply IH; exact C].
  - destruct Hok as (_ & _ & _ & D). constructor; [reflexivity | eapply IH; exact D].
Qed.

(* every entry of a well-formed flat diff lies within [0, n] *)
Lemma lst_ok_bounds n : forall d la lr, lst_ok n la lr d -> forall b, bnd_of d b -> b <= n.
Proof.
  induction d as [|e r IH]; intros la lr Hok b (e' & He' & Hb); [destruct He'|]. cbn [lst_ok] in Hok.
  destruct e as [[?|?] ?|[?|?]|[?|?] ?|[j|?] vs|[j|?] len|[?|?] ?]; try contradiction.
  - destruct Hok as (A & B & C). destruct He' as [<-|He'].
    + unfold knat in Hb. cbn [dkey] in Hb. destruct Hb as [->|[]]. exact B.
    + apply (IH _ _ C). exists e'. split; assumption.
  - destruct Hok as (A & B & C & D). destruct He' as [<-|He'].
    + unfold knat in Hb. cbn [dkey] in Hb. destruct Hb as [->| ->]; lia.
    + apply (IH _ _ D). exists e'. split; assumption.
Qed.

Lemma lst_ok_pairwise n : forall d la lr, lst_ok n la lr d -> lr <= la ->
  forall j len, rr_in d j len -> forall b, bnd_of d b -> b <= j \/ j + len <= b.
Proof.
  induction d as [|x r IH]; intros la lr Hok Hll j len Hin b (e & He & Hb); [destruct Hin|].
  pose proof Hok as Hok0. cbn [lst_ok] in Hok.
  destruct x as [[?|?] ?|[?|?]|[?|?] ?|[j0|?] vs|[j0|?] l0|[?|?] ?]; try contradiction.
  - (* head is an addrange at j0 *)
    destruct Hok as (A & B & C). destruct Hin as [E|Hin]; [discriminate|].
    destruct (lst_ok_rr n r _ _ j len C ltac:(lia) Hin) as (X & _ & _).
    destruct He as [<-|He].
    + unfold knat in Hb. cbn [dkey] in Hb. destruct Hb as [->|[]]. left. exact X.
    + apply (IH _ _ C ltac:(lia) j len Hin). exists e. split; assumption.
  - destruct Hok as (A & B & C & D). destruct Hin as [E|Hin].
    + inversion E; subst j0 l0. destruct He as [<-|He].
      * unfold knat in Hb. cbn [dkey] in Hb. destruct Hb as [->| ->]; lia.
      * right. pose proof (lst_ok_knondec n r _ _ D (le_n _)) as K. pose proof (knondec_all r _ K e He) as Q.
        destruct Hb as [->|Hb]; [exact Q|]. destruct e; try contradiction; lia.
    + destruct (lst_ok_rr n r _ _ j len D (le_n _) Hin) as (X & _ & _).
      destruct He as [<-|He].
      * unfold knat in Hb. cbn [dkey] in Hb. left. destruct Hb as [->| ->]; lia.
      * apply (IH _ _ D (le_n _) j len Hin). exists e. split; assumption.
Qed.

(* ---------- make_merge_chunks of a one-sided well-formed flat diff ---------- *)
Lemma onesided_chunks gk n d chunks :
  lst_ok n 0 0 d -> make_merge_chunks_with gk n d [] = Ok chunks ->
  concat (map c_d0 chunks) = d /\ Forall (fun c => c_d1' c = []) chunks.
Proof.
  intros Hok E. unfold make_merge_chunks_with in E.
  destruct (gsb_spec d (set_add n [0]) (lst_ok_keys n d 0 0 Hok)) as (bs & G1 & G2 & G3).
  rewrite G1 in E. cbn [bind get_section_boundaries] in E.
  assert (Hi : incr bs) by (apply G2; apply set_add_incr; cbn [incr]; split; constructor).
  assert (Hin0 : forall b, In b (set_add n [0]) <-> b = n \/ b = 0).
  { intros b. rewrite set_add_in. cbn [In]. intuition. }
  unfold split_diffs_on_boundaries in E.
  rewrite (split_go_id n d bs [] 0 0 Hok (le_n _) Hi) in E; [| | |constructor].
  2:{ intros j len Hr. split; apply G3; right; exists (DRemoveRange (KI j) len); (split; [exact Hr|]); [left | right]; reflexivity. }
  2:{ intros j len Hr b Hb. apply G3 in Hb. destruct (lst_ok_rr n d 0 0 j len Hok (le_n _) Hr) as (X & Y & Z).
      destruct Hb as [Hb|Hb].
      - apply Hin0 in Hb. lia.
      - destruct (lst_ok_pairwise n d 0 0 Hok (le_n _) j len Hr b Hb); lia. }
  cbn [app bind split_diffs_go] in E.
  assert (C : concat (map c_d0 (make_chunks bs d [])) = d /\ Forall (fun c => c_d1' c = []) (make_chunks bs d [])).
  { apply make_chunks_concat; [exact Hi | |].
    - intros e He. apply G3. right. exists e. split; [exact He | left; reflexivity].
    - destruct bs as [|x q]; [exact I|].
      assert (x = 0).
      { assert (I0 : In 0 (x :: q)) by (apply G3; left; apply Hin0; right; reflexivity).
        destruct I0 as [->|I0]; [reflexivity|]. cbn [incr] in Hi. destruct Hi as [Hx _]. rewrite Forall_forall in Hx. specialize (Hx 0 I0). lia. }
      subst x. apply (lst_ok_knondec n d 0 0 Hok (le_n _)). }
  destruct (Nat.ltb 0 n || match gk with GuardListTruthy => true | GuardAnyDiff => nonempty d || nonempty [] end).
  - destruct (make_chunks bs d []) as [|[[[j0 k0] a0] b0] rest] eqn:EM; [discriminate|].
    destruct (negb (Nat.eqb j0 0)); [discriminate|].
    destruct (last _ _) as [[[? kn] ?] ?]. destruct (Nat.eqb kn n); [|discriminate]. inversion E; subst chunks. exact C.
  - inversion E; subst chunks. exact C.
Qed.

(* ---------- the chunk switch on one-sided flat chunks ---------- *)
Definition dec_l (p : path) (d0 : diff) : decision := mkDec p ALocal false (Some d0) (Some []) None None None.

Lemma ct_slash : ct "/" = [47%N].
Proof. reflexivity. Qed.

Lemma typename_nonempty d : d <> [] -> let '(an, pn) := chunk_typename d in an ++ pn <> [].
Proof.
  destruct d as [|e r]; [congruence|]. intros _. cbn [chunk_typename]. destruct (chunk_typename r) as [an pn].
  destruct e; cbn [app]; try discriminate; destruct an; discriminate.
Qed.

Lemma str_eqb_snoc_single l c : l <> [] -> str_eqb (l ++ [c]) [c] = false.
Proof.
  intros Hl. destruct (str_eqb (l ++ [c]) [c]) eqn:E; [|reflexivity]. apply str_eqb_eq in E.
  apply (f_equal (@length _)) in E. rewrite app_length in E. cbn [length] in E. destruct l; [congruence | cbn [length] in E; lia].
Qed.

Lemma add_decision_flat_multi B p d0 :
  d0 <> [] -> flat d0 ->
  add_decision B p ALocal (Some d0) (Some []) false None None None = B ++ [dec_l p d0].
Proof.
  intros Hne Hf. unfold add_decision. cbn [odepth]. 
  assert (E : forall f, ensure_common_path (S f) p [Some d0; Some []; None] = (p, [Some d0; Some []; None])).
  { intros f. cbn [ensure_common_path]. unfold pop_path. cbn [pop_path_go].
    destruct d0 as [|e r]; [congruence|]. inversion Hf as [|? ? He Hr]; subst.
    destruct e; try discriminate; destruct r; reflexivity. }
  rewrite E. reflexivity.
Qed.

Section OneSidedList.
  Variable O : oracles.
  Variable cfg : config.
  Variable St : strat.
  Variable H : hooks.
  Variable gk : guard_kind.
  Variable strict : bool.
  Variable cstrict : bool.

  Lemma merge_chunk_onesided M rec base p B j k d0 :
    flat d0 ->
    merge_chunk O cfg St H strict cstrict M rec base p B (j, k, d0, []) = Ok (if nonempty d0 then B ++ [dec_l p d0] else B).
  Proof.
    intros Hf. unfold merge_chunk. cbn [chunk_typename].
    destruct (chunk_typename d0) as [an pn] eqn:ET. cbn [app]. unfold cat3. rewrite ct_slash.
    destruct d0 as [|e r].
    - cbn [chunk_typename] in ET. inversion ET; subst. cbn [app nonempty]. rewrite str_eqb_refl. reflexivity.
    - pose proof (typename_nonempty (e :: r) ltac:(discriminate)) as Hn. rewrite ET in Hn.
      change ch_slash with 47%N.
      rewrite (str_eqb_snoc_single _ _ Hn). cbn [nonempty andb negb].
      unfold b_onesided. cbn [truthy orb andb negb]. rewrite add_decision_flat_multi by (discriminate || exact Hf). reflexivity.
  Qed.

  Lemma merge_chunks_onesided M rec base p : forall chunks B,
    Forall (fun c => c_d1' c = [] /\ flat (c_d0 c)) chunks ->
    merge_chunks O cfg St H strict cstrict M rec base p B chunks
    = Ok (B ++ map (dec_l p) (filter (@nonempty dentry) (map c_d0 chunks))).
  Proof.
    induction chunks as [|[[[j k] d0] d1] r IH]; intros B Hc; cbn [merge_chunks map filter].
    - rewrite app_nil_r. reflexivity.
    - inversion Hc as [|? ? [H1 H2] Hr]; subst. cbn [c_d1' c_d0] in *. subst d1.
      match goal with |- bind ?X _ = _ =>
        replace X with (Ok (if nonempty d0 then B ++ [dec_l p d0] else B) : res builder)
          by (symmetry; apply (merge_chunk_onesided M rec base p B j k d0 H2)) end.
      cbn [bind].
      rewrite (IH _ Hr). destruct (nonempty d0); [cbn [map]; rewrite <- app_assoc; reflexivity | reflexivity].
  Qed.
End OneSidedList.

(* ---------- accumulating the groups: one patch by the whole diff ---------- *)
Definition good (x : diff) : Prop := flat x /\ Forall (fun e => exists i, dkey e = KI i) x /\ knondec 0 x.

Lemma knondec_app_l : forall a b lo, knondec lo (a ++ b) -> knondec lo a.
Proof. induction a as [|e r IH]; intros b lo Hk; [exact I|]. cbn [app knondec] in *. destruct Hk as [A B]. split; [exact A | eapply IH; exact B]. Qed.

Lemma good_prefix a b : good (a ++ b) -> good a.
Proof.
  intros (F & K & N). split; [|split].
  - unfold flat in *. apply Forall_app in F. tauto.
  - apply Forall_app in K. tauto.
  - eapply knondec_app_l. exact N.
Qed.

Lemma all_int_of_ki x : Forall (fun e => exists i, dkey e = KI i) x -> all_int_keys x = true.
Proof. unfold all_int_keys. induction 1 as [|e r (i & Ei) Hr IH]; [reflexivity|]. cbn [forallb]. rewrite Ei, IH. reflexivity. Qed.

Lemma combine_good f x : good x -> combine_patches (S f) x = Ok x.
Proof.
  intros (F & K & N). cbn [combine_patches]. rewrite (combine_fold_flat x F f []). cbn [bind app].
  unfold sort_diff_by_key. rewrite (all_int_of_ki x K). rewrite (sort_by_key_id x 0 N). reflexivity.
Qed.

Lemma acc_diffs_groups : forall gs cur, good (cur ++ concat gs) -> acc_diffs cur gs = Ok (cur ++ concat gs).
Proof.
  induction gs as [|g r IH]; intros cur Hg; cbn [acc_diffs concat].
  - rewrite app_nil_r. reflexivity.
  - cbn [concat] in Hg. rewrite app_assoc in Hg. unfold afuel. rewrite (combine_good _ (cur ++ g) (good_prefix _ _ Hg)). cbn [bind].
    rewrite (IH (cur ++ g) Hg). rewrite <- app_assoc. reflexivity.
Qed.

Lemma concat_filter_nonempty (l : list diff) : concat (filter (@nonempty dentry) l) = concat l.
Proof. induction l as [|x r IH]; [reflexivity|]. cbn [filter concat]. destruct x as [|e x']; cbn [nonempty]; [exact IH | cbn [concat]; rewrite IH; reflexivity]. Qed.

Section OneSidedListFinal.
  Variable O : oracles.
  Variable cfg : config.
  Variable St : strat.
  Variable H : hooks.
  Variable gk : guard_kind.
  Variable strict : bool.
  Variable cstrict : bool.

  Theorem onesided_flat_list l d decs :
    lst_ok (length l) 0 0 d -> d <> [] ->
    decide_merge_with_diff O cfg St H gk strict cstrict (JArr l) d [] = Ok decs ->
    no_conf decs /\ apply_decisions (JArr l) decs = patch (pfuel (JArr l) d) (JArr l) d.
  Proof.
    intros Hok Hne E. unfold decide_merge_with_diff, mfuel in E.
    replace (depth (JArr l) + 3) with (S (depth (JArr l) + 2)) in E by lia. cbn [merge] in E.
    unfold merge_lists in E.
    destruct (make_merge_chunks_with gk (length l) d []) as [chunks|] eqn:EC; [cbn [bind] in E|discriminate].
    destruct (onesided_chunks gk (length l) d chunks Hok EC) as [C1 C2].
    pose proof (lst_ok_flat _ d 0 0 Hok) as Fd.
    assert (HC : Forall (fun c => c_d1' c = [] /\ flat (c_d0 c)) chunks).
    { rewrite Forall_forall in *. intros c Hc. split; [apply C2; exact Hc|].
      unfold flat in *. rewrite Forall_forall in *. intros e He. apply Fd. rewrite <- C1. apply in_concat.
      exists (c_d0 c). split; [apply in_map; exact Hc | exact He]. }
    set (groups := filter (@nonempty dentry) (map c_d0 chunks)) in *.
    match type of E with bind (bind ?X _) _ = _ =>
      replace X with (Ok ([] ++ map (dec_l []) groups) : res builder) in E
        by (symmetry; apply (merge_chunks_onesided O cfg St H strict cstrict _ false l [] chunks [] HC)) end.
    cbn [bind app] in E.
    assert (NC : no_conf (map (dec_l []) groups)).
    { unfold no_conf. rewrite Forall_map. apply Forall_forall. intros; reflexivity. }
    rewrite (resolve_conflicted_list_no_conf H [] l _ _ NC) in E. cbn [bind] in E.
    rewrite resolve_strategy_generic_no_conf in E by exact NC.
    assert (EV : validated (map (dec_l []) groups) = map (dec_l []) groups).
    { unfold validated. rewrite map_map.
      assert (E1 : map (fun x => drop_strategy (dec_l [] x)) groups = map (dec_l []) groups) by reflexivity.
      rewrite E1. apply sort_desc_root. rewrite Forall_map. apply Forall_forall. intros; reflexivity. }
    rewrite EV in E. inversion E; subst decs. split; [exact NC|].
    assert (CG : concat groups = d) by (unfold groups; rewrite concat_filter_nonempty; exact C1).
    destruct groups as [|g gs] eqn:EG; [cbn [concat] in CG; congruence|].
    cbn [map].
    assert (GD : good d).
    { split; [exact Fd|]. split; [exact (lst_ok_keys _ d 0 0 Hok) | exact (lst_ok_knondec _ d 0 0 Hok (le_n _))]. }
    rewrite <- CG. cbn [concat].
    eapply (apply_root_group_gen (JArr l) (dec_l [] g) (map (dec_l []) gs) g gs).
    - repeat split.
    - clear. induction gs as [|x r IH]; cbn [map]; constructor; [repeat split | exact IH].
    - apply acc_diffs_groups. cbn [concat] in CG. rewrite CG. exact GD.
  Qed.
End OneSidedListFinal.

(* the hypotheses are satisfiable: insert two items at 1 and delete items 2..3 of a five-item list *)
Example onesided_flat_list_example :
  let l := [JInt 0; JInt 1; JInt 2; JInt 3; JInt 4] in
  let d := [DAddRange (KI 1) (VList [JInt 7; JInt 8]); DRemoveRange (KI 2) 2] in
  lst_ok (length l) 0 0 d /\ d <> []
  /\ exists decs, decide_merge_with_diff O0 cfg0 no_strategies no_hooks GuardListTruthy false false (JArr l) d [] = Ok decs
                  /\ apply_decisions (JArr l) decs = Ok (JArr [JInt 0; JInt 7; JInt 8; JInt 1; JInt 4]).
Proof.
  cbv zeta. split; [cbn; lia|]. split; [discriminate|]. eexists. split; vm_compute; reflexivity.
Qed.
Print Assumptions onesided_flat_list.

(* ====================================================================================================
   The same for the remote role and for agreement (both sides made the same change).
   ==================================================================================================== *)
Lemma make_chunks_concat2 : forall bs d0 d1,
  incr bs -> (forall e, In e d0 -> In (knat e) bs) -> (forall e, In e d1 -> In (knat e) bs) ->
  (match bs with x :: _ => knondec x d0 /\ knondec x d1 | [] => True end) ->
  concat (map c_d0 (make_chunks bs d0 d1)) = d0 /\ concat (map c_d1' (make_chunks bs d0 d1)) = d1.
Proof.
  induction bs as [|j r IH]; intros d0 d1 Hi Hin0 Hin1 Hk.
  - cbn [make_chunks map concat]. split.
    + destruct d0 as [|e d']; [reflexivity|]. destruct (Hin0 e (or_introl eq_refl)).
    + destruct d1 as [|e d']; [reflexivity|]. destruct (Hin1 e (or_introl eq_refl)).
  - cbn [incr] in Hi. destruct Hi as [Hj Hr]. destruct Hk as [Hk0 Hk1]. cbn [make_chunks].
    destruct (take_key_spec j d0 Hk0) as (t0 & rest0 & T1 & T2 & T3 & T4). rewrite T1.
    destruct (take_key_spec j d1 Hk1) as (t1 & rest1 & U1 & U2 & U3 & U4). rewrite U1.
    assert (Hrest : forall rest d, d = (d : diff) -> forall (t : diff), knondec (S j) rest ->
                     (forall e, In e rest -> In (knat e) (j :: r)) ->
                     (forall e, In e rest -> In (knat e) r) /\ match r with x :: _ => knondec x rest | [] => True end).
    { intros rest _ _ _ K4 Hin. assert (Hin' : forall e, In e rest -> In (knat e) r).
      { intros e He. destruct (Hin e He) as [X|X]; [|exact X]. exfalso.
        clear -K4 He X. revert K4. induction rest as [|x q IHq]; [destruct He|]. cbn [knondec]. intros [A B].
        destruct He as [->|He]; [lia|]. apply IHq; [exact He|]. apply knondec_weaken with (lo := knat x); [lia | exact B]. }
      split; [exact Hin'|]. destruct r as [|x r']; [exact I|]. destruct rest as [|e0 q]; [exact I|].
      assert (X : In (knat e0) (x :: r')) by (apply Hin'; left; reflexivity).
      cbn [knondec] in K4 |- *. destruct K4 as [A B]. split; [|exact B].
      destruct X as [X|X]; [lia|]. cbn [incr] in Hr. destruct Hr as [Hx _]. rewrite Forall_forall in Hx. specialize (Hx _ X). lia. }
    destruct (Hrest rest0 d0 eq_refl t0 T4) as [I0 K0]. { intros e He. apply Hin0. rewrite T2. apply in_or_app. right. exact He. }
    destruct (Hrest rest1 d1 eq_refl t1 U4) as [I1 K1]. { intros e He. apply Hin1. rewrite U2. apply in_or_app. right. exact He. }
    assert (Hk' : match r with x :: _ => knondec x rest0 /\ knondec x rest1 | [] => True end) by (destruct r; [exact I | split; assumption]).
    destruct (IH rest0 rest1 Hr I0 I1 Hk') as [C0 C1].
    destruct (Nat.ltb j (match r with y :: _ => y | [] => j end) || nonempty t0 || nonempty t1) eqn:G.
    + cbn [map concat c_d0 c_d1']. rewrite C0, C1. split; symmetry; assumption.
    + apply orb_false_iff in G as [G G1]. apply orb_false_iff in G as [_ G0].
      destruct t0; [|discriminate]. destruct t1; [|discriminate]. rewrite C0, C1. split; symmetry; assumption.
Qed.

Lemma make_chunks_left_nil : forall bs d1, Forall (fun c => c_d0 c = []) (make_chunks bs [] d1).
Proof.
  induction bs as [|j r IH]; intros d1; cbn [make_chunks]; [constructor|].
  cbn [take_key]. destruct (take_key d1 j) as [s1 d1'].
  destruct (Nat.ltb j _ || nonempty [] || nonempty s1); [constructor; [reflexivity | apply IH] | apply IH].
Qed.

Lemma make_chunks_same : forall bs d, Forall (fun c => c_d0 c = c_d1' c) (make_chunks bs d d).
Proof.
  induction bs as [|j r IH]; intros d; cbn [make_chunks]; [constructor|].
  destruct (take_key d j) as [s d'].
  destruct (Nat.ltb j _ || nonempty s || nonempty s); [constructor; [reflexivity | apply IH] | apply IH].
Qed.

(* facts about any boundary list that is exactly {0, n} + the boundaries of d *)
Lemma bs_facts n d bs :
  lst_ok n 0 0 d -> incr bs -> (forall b, In b bs <-> (b = n \/ b = 0) \/ bnd_of d b) ->
  split_diffs_go d bs [] = Ok d /\ (forall e, In e d -> In (knat e) bs)
  /\ match bs with x :: _ => knondec x d | [] => True end.
Proof.
  intros Hok Hi G3. split; [|split].
  - rewrite (split_go_id n d bs [] 0 0 Hok (le_n _) Hi); [reflexivity | | | constructor].
    + intros j len Hr. split; apply G3; right; exists (DRemoveRange (KI j) len); (split; [exact Hr|]); [left | right]; reflexivity.
    + intros j len Hr b Hb. apply G3 in Hb. destruct (lst_ok_rr n d 0 0 j len Hok (le_n _) Hr) as (X & Y & Z).
      destruct Hb as [Hb|Hb]; [lia|]. destruct (lst_ok_pairwise n d 0 0 Hok (le_n _) j len Hr b Hb); lia.
  - intros e He. apply G3. right. exists e. split; [exact He | left; reflexivity].
  - destruct bs as [|x q]; [exact I|].
    assert (x = 0).
    { assert (I0 : In 0 (x :: q)) by (apply G3; left; right; reflexivity).
      destruct I0 as [->|I0]; [reflexivity|]. cbn [incr] in Hi. destruct Hi as [Hx _]. rewrite Forall_forall in Hx. specialize (Hx 0 I0). lia. }
    subst x. apply (lst_ok_knondec n d 0 0 Hok (le_n _)).
Qed.

Lemma mmc_result gk n bs s0 s1 chunks :
  (if Nat.ltb 0 n || match gk with GuardListTruthy => true | GuardAnyDiff => nonempty s0 || nonempty s1 end
   then match make_chunks bs s0 s1 with
        | [] => Err AssertionError
        | (j0, _, _, _) :: _ =>
            if negb (Nat.eqb j0 0) then Err AssertionError else
            match last (make_chunks bs s0 s1) (0, 0, [], []) with
            | (_, kn, _, _) => if Nat.eqb kn n then Ok (make_chunks bs s0 s1) else Err AssertionError
            end
        end
   else Ok (make_chunks bs s0 s1)) = Ok chunks -> chunks = make_chunks bs s0 s1.
Proof.
  intros E. destruct (Nat.ltb 0 n || _).
  - destruct (make_chunks bs s0 s1) as [|[[[j0 k0] a0] b0] rest] eqn:EM; [discriminate|].
    destruct (negb (Nat.eqb j0 0)); [discriminate|].
    destruct (last _ _) as [[[? kn] ?] ?]. destruct (Nat.eqb kn n); [|discriminate]. inversion E; reflexivity.
  - inversion E; reflexivity.
Qed.

Lemma remote_chunks gk n d chunks :
  lst_ok n 0 0 d -> make_merge_chunks_with gk n [] d = Ok chunks ->
  concat (map c_d1' chunks) = d /\ Forall (fun c => c_d0 c = []) chunks.
Proof.
  intros Hok E. unfold make_merge_chunks_with in E. cbn [get_section_boundaries bind] in E.
  destruct (gsb_spec d (set_add n [0]) (lst_ok_keys n d 0 0 Hok)) as (bs & G1 & G2 & G3).
  rewrite G1 in E. cbn [bind] in E.
  assert (Hi : incr bs) by (apply G2; apply set_add_incr; cbn [incr]; split; constructor).
  assert (G3' : forall b, In b bs <-> (b = n \/ b = 0) \/ bnd_of d b).
  { intros b. rewrite G3, set_add_in. cbn [In]. intuition. }
  destruct (bs_facts n d bs Hok Hi G3') as (S1 & S2 & S3).
  unfold split_diffs_on_boundaries in E. cbn [split_diffs_go bind] in E. rewrite S1 in E. cbn [bind] in E.
  apply mmc_result in E. subst chunks.
  split; [|apply make_chunks_left_nil].
  apply (make_chunks_concat2 bs [] d Hi); [intros e [] | exact S2 | destruct bs; [exact I | split; [exact I | exact S3]]].
Qed.

Lemma agree_chunks gk n d chunks :
  lst_ok n 0 0 d -> make_merge_chunks_with gk n d d = Ok chunks ->
  concat (map c_d0 chunks) = d /\ Forall (fun c => c_d0 c = c_d1' c) chunks.
Proof.
  intros Hok E. unfold make_merge_chunks_with in E.
  destruct (gsb_spec d (set_add n [0]) (lst_ok_keys n d 0 0 Hok)) as (b0 & G1 & G2 & G3).
  rewrite G1 in E. cbn [bind] in E.
  destruct (gsb_spec d b0 (lst_ok_keys n d 0 0 Hok)) as (bs & F1 & F2 & F3).
  rewrite F1 in E. cbn [bind] in E.
  assert (Hi : incr bs) by (apply F2; apply G2; apply set_add_incr; cbn [incr]; split; constructor).
  assert (G3' : forall b, In b bs <-> (b = n \/ b = 0) \/ bnd_of d b).
  { intros b. rewrite F3, G3, set_add_in. cbn [In]. intuition. }
  destruct (bs_facts n d bs Hok Hi G3') as (S1 & S2 & S3).
  unfold split_diffs_on_boundaries in E. rewrite S1 in E. cbn [bind] in E.
  apply mmc_result in E. subst chunks.
  split; [|apply make_chunks_same].
  apply (make_chunks_concat2 bs d d Hi); [exact S2 | exact S2 | destruct bs; [exact I | split; exact S3]].
Qed.

Definition dec_r (p : path) (d1 : diff) : decision := mkDec p ARemote false (Some []) (Some d1) None None None.
Definition dec_e (p : path) (g : diff) : decision := mkDec p AEither false (Some g) (Some g) None None None.

Lemma add_decision_flat_multi_r B p d1 :
  d1 <> [] -> flat d1 ->
  add_decision B p ARemote (Some []) (Some d1) false None None None = B ++ [dec_r p d1].
Proof.
  intros Hne Hf. unfold add_decision. cbn [odepth].
  assert (E : forall f, ensure_common_path (S f) p [Some []; Some d1; None] = (p, [Some []; Some d1; None])).
  { intros f. cbn [ensure_common_path]. unfold pop_path. cbn [pop_path_go].
    destruct d1 as [|e r]; [congruence|]. inversion Hf as [|? ? He Hr]; subst.
    destruct e; try discriminate; destruct r; reflexivity. }
  rewrite E. reflexivity.
Qed.

Lemma add_decision_flat_multi_e B p g :
  g <> [] -> flat g ->
  add_decision B p AEither (Some g) (Some g) false None None None = B ++ [dec_e p g].
Proof.
  intros Hne Hf. unfold add_decision. cbn [odepth].
  assert (E : forall f, ensure_common_path (S f) p [Some g; Some g; None] = (p, [Some g; Some g; None])).
  { intros f. cbn [ensure_common_path]. unfold pop_path. cbn [pop_path_go].
    destruct g as [|e r]; [congruence|]. inversion Hf as [|? ? He Hr]; subst.
    destruct e; try discriminate; destruct r; reflexivity. }
  rewrite E. reflexivity.
Qed.

Lemma str_eqb_cons_single c l : l <> [] -> str_eqb (c :: l) [c] = false.
Proof.
  intros Hl. destruct (str_eqb (c :: l) [c]) eqn:E; [|reflexivity]. apply str_eqb_eq in E. inversion E. congruence.
Qed.

Lemma str_eqb_mid_single a c b : a <> [] -> str_eqb (a ++ c :: b) [c] = false.
Proof.
  intros Ha. destruct (str_eqb (a ++ c :: b) [c]) eqn:E; [|reflexivity]. apply str_eqb_eq in E.
  apply (f_equal (@length _)) in E. rewrite app_length in E. cbn [length] in E. destruct a; [congruence | cbn [length] in E; lia].
Qed.

Section RemoteAgree.
  Variable O : oracles.
  Variable cfg : config.
  Variable St : strat.
  Variable H : hooks.
  Variable gk : guard_kind.
  Variable strict : bool.
  Variable cstrict : bool.

  Lemma merge_chunk_remote M rec base p B j k d1 :
    flat d1 ->
    merge_chunk O cfg St H strict cstrict M rec base p B (j, k, [], d1) = Ok (if nonempty d1 then B ++ [dec_r p d1] else B).
  Proof.
    intros Hf. unfold merge_chunk. cbn [chunk_typename].
    destruct (chunk_typename d1) as [an pn] eqn:ET. cbn [app]. unfold cat3. rewrite ct_slash.
    destruct d1 as [|e r].
    - cbn [chunk_typename] in ET. inversion ET; subst. cbn [app nonempty]. rewrite str_eqb_refl. reflexivity.
    - pose proof (typename_nonempty (e :: r) ltac:(discriminate)) as Hn. rewrite ET in Hn.
      change ch_slash with 47%N. cbn [app].
      rewrite (str_eqb_cons_single _ _ Hn). cbn [nonempty andb negb].
      unfold b_onesided. cbn [truthy orb andb negb]. rewrite add_decision_flat_multi_r by (discriminate || exact Hf). reflexivity.
  Qed.

  Lemma merge_chunk_agree M rec base p B j k g :
    flat g ->
    merge_chunk O cfg St H strict cstrict M rec base p B (j, k, g, g) = Ok (if nonempty g then B ++ [dec_e p g] else B).
  Proof.
    intros Hf. unfold merge_chunk.
    destruct (chunk_typename g) as [an pn] eqn:ET. unfold cat3. rewrite ct_slash.
    destruct g as [|e r].
    - cbn [chunk_typename] in ET. inversion ET; subst. cbn [app nonempty]. rewrite str_eqb_refl. reflexivity.
    - pose proof (typename_nonempty (e :: r) ltac:(discriminate)) as Hn. rewrite ET in Hn.
      change ch_slash with 47%N.
      rewrite (str_eqb_mid_single _ _ _ Hn). cbn [nonempty andb negb].
      rewrite same_diff_refl.
      unfold b_agreement. cbn [truthy andb negb odiff_pyeqb]. rewrite diff_pyeqb_refl. cbn [negb].
      rewrite add_decision_flat_multi_e by (discriminate || exact Hf). reflexivity.
  Qed.

  Lemma merge_chunks_remote M rec base p : forall chunks B,
    Forall (fun c => c_d0 c = [] /\ flat (c_d1' c)) chunks ->
    merge_chunks O cfg St H strict cstrict M rec base p B chunks
    = Ok (B ++ map (dec_r p) (filter (@nonempty dentry) (map c_d1' chunks))).
  Proof.
    induction chunks as [|[[[j k] d0] d1] r IH]; intros B Hc; cbn [merge_chunks map filter].
    - rewrite app_nil_r. reflexivity.
    - inversion Hc as [|? ? [H1 H2] Hr]; subst. cbn [c_d1' c_d0] in *. subst d0.
      match goal with |- bind ?X _ = _ =>
        replace X with (Ok (if nonempty d1 then B ++ [dec_r p d1] else B) : res builder)
          by (symmetry; apply (merge_chunk_remote M rec base p B j k d1 H2)) end.
      cbn [bind].
      rewrite (IH _ Hr). destruct (nonempty d1); [cbn [map]; rewrite <- app_assoc; reflexivity | reflexivity].
  Qed.

  Lemma merge_chunks_agree M rec base p : forall chunks B,
    Forall (fun c => c_d0 c = c_d1' c /\ flat (c_d0 c)) chunks ->
    merge_chunks O cfg St H strict cstrict M rec base p B chunks
    = Ok (B ++ map (dec_e p) (filter (@nonempty dentry) (map c_d0 chunks))).
  Proof.
    induction chunks as [|[[[j k] d0] d1] r IH]; intros B Hc; cbn [merge_chunks map filter].
    - rewrite app_nil_r. reflexivity.
    - inversion Hc as [|? ? [H1 H2] Hr]; subst. cbn [c_d1' c_d0] in *. subst d1.
      match goal with |- bind ?X _ = _ =>
        replace X with (Ok (if nonempty d0 then B ++ [dec_e p d0] else B) : res builder)
          by (symmetry; apply (merge_chunk_agree M rec base p B j k d0 H2)) end.
      cbn [bind].
      rewrite (IH _ Hr). destruct (nonempty d0); [cbn [map]; rewrite <- app_assoc; reflexivity | reflexivity].
  Qed.

  (* the common tail: a builder of conflict-free root decisions whose resolved diffs are the groups *)
  Lemma finish l d (mk : diff -> decision) groups decs :
    (forall g, d_path (mk g) = [] /\ d_conflict (mk g) = false /\ resolve_action (JArr l) (mk g) = Ok g
               /\ is_clear_all (d_action (mk g)) = false /\ drop_strategy (mk g) = mk g) ->
    good d -> d <> [] -> concat groups = d ->
    (do B <- resolve_conflicted_list H [] l (map mk groups) (list_strategy St []);
     Ok (validated (resolve_strategy_generic B (strat_get St s_slash)))) = Ok decs ->
    no_conf decs /\ apply_decisions (JArr l) decs = patch (pfuel (JArr l) d) (JArr l) d.
  Proof.
    intros Hmk GD Hne CG E.
    assert (NC : no_conf (map mk groups)).
    { unfold no_conf. rewrite Forall_map. apply Forall_forall. intros g _. apply (Hmk g). }
    rewrite (resolve_conflicted_list_no_conf H [] l _ _ NC) in E. cbn [bind] in E.
    rewrite resolve_strategy_generic_no_conf in E by exact NC.
    assert (EV : validated (map mk groups) = map mk groups).
    { unfold validated. rewrite map_map.
      assert (E1 : map (fun x => drop_strategy (mk x)) groups = map mk groups) by (apply map_ext; intros g; apply (Hmk g)).
      rewrite E1. apply sort_desc_root. rewrite Forall_map. apply Forall_forall. intros g _. apply (Hmk g). }
    rewrite EV in E. inversion E; subst decs. split; [exact NC|].
    destruct groups as [|g gs]; [cbn [concat] in CG; congruence|].
    cbn [map]. rewrite <- CG. cbn [concat].
    eapply (apply_root_group_gen (JArr l) (mk g) (map mk gs) g gs).
    - destruct (Hmk g) as (A1 & A2 & A3 & A4 & A5). repeat split; assumption.
    - clear -Hmk. induction gs as [|x r IH]; cbn [map]; constructor; [|exact IH].
      destruct (Hmk x) as (A1 & A2 & A3 & A4 & A5). repeat split; assumption.
    - apply acc_diffs_groups. cbn [concat] in CG. rewrite CG. exact GD.
  Qed.

  Theorem onesided_remote_flat_list l d decs :
    lst_ok (length l) 0 0 d -> d <> [] ->
    decide_merge_with_diff O cfg St H gk strict cstrict (JArr l) [] d = Ok decs ->
    no_conf decs /\ apply_decisions (JArr l) decs = patch (pfuel (JArr l) d) (JArr l) d.
  Proof.
    intros Hok Hne E. unfold decide_merge_with_diff, mfuel in E.
    replace (depth (JArr l) + 3) with (S (depth (JArr l) + 2)) in E by lia. cbn [merge] in E.
    unfold merge_lists in E.
    destruct (make_merge_chunks_with gk (length l) [] d) as [chunks|] eqn:EC; [cbn [bind] in E|discriminate].
    destruct (remote_chunks gk (length l) d chunks Hok EC) as [C1 C2].
    pose proof (lst_ok_flat _ d 0 0 Hok) as Fd.
    assert (HC : Forall (fun c => c_d0 c = [] /\ flat (c_d1' c)) chunks).
    { rewrite Forall_forall in *. intros c Hc. split; [apply C2; exact Hc|].
      unfold flat in *. rewrite Forall_forall in *. intros e He. apply Fd. rewrite <- C1. apply in_concat.
      exists (c_d1' c). split; [apply in_map; exact Hc | exact He]. }
    match type of E with bind (bind ?X _) _ = _ =>
      replace X with (Ok ([] ++ map (dec_r []) (filter (@nonempty dentry) (map c_d1' chunks))) : res builder) in E
        by (symmetry; apply (merge_chunks_remote _ false l [] chunks [] HC)) end.
    cbn [bind app] in E.
    apply (finish l d (dec_r []) (filter (@nonempty dentry) (map c_d1' chunks)) decs); [intros g; repeat split | | exact Hne | rewrite concat_filter_nonempty; exact C1 | exact E].
    split; [exact Fd|]. split; [exact (lst_ok_keys _ d 0 0 Hok) | exact (lst_ok_knondec _ d 0 0 Hok (le_n _))].
  Qed.

  Theorem agree_flat_list l d decs :
    lst_ok (length l) 0 0 d -> d <> [] ->
    decide_merge_with_diff O cfg St H gk strict cstrict (JArr l) d d = Ok decs ->
    no_conf decs /\ apply_decisions (JArr l) decs = patch (pfuel (JArr l) d) (JArr l) d.
  Proof.
    intros Hok Hne E. unfold decide_merge_with_diff, mfuel in E.
    replace (depth (JArr l) + 3) with (S (depth (JArr l) + 2)) in E by lia. cbn [merge] in E.
    unfold merge_lists in E.
    destruct (make_merge_chunks_with gk (length l) d d) as [chunks|] eqn:EC; [cbn [bind] in E|discriminate].
    destruct (agree_chunks gk (length l) d chunks Hok EC) as [C1 C2].
    pose proof (lst_ok_flat _ d 0 0 Hok) as Fd.
    assert (HC : Forall (fun c => c_d0 c = c_d1' c /\ flat (c_d0 c)) chunks).
    { rewrite Forall_forall in *. intros c Hc. split; [apply C2; exact Hc|].
      unfold flat in *. rewrite Forall_forall in *. intros e He. apply Fd. rewrite <- C1. apply in_concat.
      exists (c_d0 c). split; [apply in_map; exact Hc | exact He]. }
    match type of E with bind (bind ?X _) _ = _ =>
      replace X with (Ok ([] ++ map (dec_e []) (filter (@nonempty dentry) (map c_d0 chunks))) : res builder) in E
        by (symmetry; apply (merge_chunks_agree _ false l [] chunks [] HC)) end.
    cbn [bind app] in E.
    apply (finish l d (dec_e []) (filter (@nonempty dentry) (map c_d0 chunks)) decs); [intros g; repeat split | | exact Hne | rewrite concat_filter_nonempty; exact C1 | exact E].
    split; [exact Fd|]. split; [exact (lst_ok_keys _ d 0 0 Hok) | exact (lst_ok_knondec _ d 0 0 Hok (le_n _))].
  Qed.
End RemoteAgree.
Print Assumptions onesided_remote_flat_list.
Print Assumptions agree_flat_list.
