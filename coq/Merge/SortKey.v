(* Paths of merge decisions: decisions._sort_key and its ordering, utils.star_path / join_path /
   split_path / r_is_int, and the Strategies table lookup (utils.Strategies.get).
   r_is_int = re.compile(r"^[-+]?\d+$"): optional sign, one or more digits, and -- because `$` also
   matches just before a final newline -- optionally one trailing "\n".  Only ASCII digits are
   modelled (Python's \d also accepts other Unicode decimal digits; stated in the notes). *)
From Coq Require Import List NArith ZArith Bool Lia.
From NB Require Import Base.Res.
From NB Require Import Base.Json.
From NB Require Import Diff.DiffFormat.
From NB Require Import Diff.Codec.
Import ListNotations.

Definition path := list key.

Definition key_eqb (a b : key) : bool :=
  match a, b with
  | KI i, KI j => Nat.eqb i j
  | KS s, KS t => str_eqb s t
  | _, _ => false
  end.

Fixpoint path_eqb (p q : path) : bool :=
  match p, q with
  | [], [] => true
  | a :: p', b :: q' => key_eqb a b && path_eqb p' q'
  | _, _ => false
  end.

(* ---------- r_is_int and int(s) ---------- *)
Definition is_digit (c : N) : bool := (N.leb 48 c && N.leb c 57)%bool.

Fixpoint digits_val (s : pystr) (acc : Z) : option Z :=    (* all digits, maybe a final "\n" *)
  match s with
  | [] => Some acc
  | c :: r =>
      if is_digit c then digits_val r (acc * 10 + Z.of_N (c - 48))%Z
      else if N.eqb c 10 then match r with [] => Some acc | _ => None end
      else None
  end.

Definition unsigned_int (s : pystr) : option Z :=
  match s with
  | c :: _ => if is_digit c then digits_val s 0%Z else None
  | [] => None
  end.

(* Some z iff r_is_int.match(s); then z = int(s) *)
Definition str_int (s : pystr) : option Z :=
  match s with
  | c :: r =>
      if N.eqb c 45 then option_map Z.opp (unsigned_int r)
      else if N.eqb c 43 then unsigned_int r
      else unsigned_int s
  | [] => None
  end.

(* ---------- _sort_key ---------- *)
Inductive skel := SKInt (z : Z) | SKStr (s : pystr).       (* ('', z)  |  (s,) *)

Definition sort_key_elt (k : key) : skel :=
  match k with
  | KI i => SKInt (- Z.of_nat i)
  | KS s => match str_int s with Some z => SKInt (- z) | None => SKStr s end
  end.

Definition sort_key (p : path) : list skel := map sort_key_elt p.

(* Python tuple comparison of ('', z) and (s,) *)
Definition skel_cmp (a b : skel) : comparison :=
  match a, b with
  | SKInt x, SKInt y => Z.compare x y
  | SKStr s, SKStr t => str_cmp s t
  | SKInt _, SKStr s => match s with [] => Gt | _ => Lt end    (* ('',z) vs (s,): '' < s, or (s,) is a proper prefix *)
  | SKStr s, SKInt _ => match s with [] => Lt | _ => Gt end
  end.

Fixpoint sk_cmp (a b : list skel) : comparison :=
  match a, b with
  | [], [] => Eq
  | [], _ :: _ => Lt
  | _ :: _, [] => Gt
  | x :: xs, y :: ys => match skel_cmp x y with Eq => sk_cmp xs ys | c => c end
  end.

(* sorted(l, key=f, reverse=True): stable, descending.  Insertion from the right: an element goes
   in front of everything that is not strictly greater, so equal keys keep their original order. *)
Section SortDesc.
  Context {A : Type}.
  Variable f : A -> list skel.
  Fixpoint insert_desc (x : A) (l : list A) : list A :=
    match l with
    | [] => [x]
    | y :: r => match sk_cmp (f y) (f x) with
                | Gt => y :: insert_desc x r
                | _ => x :: l
                end
    end.
  Definition sort_desc (l : list A) : list A := fold_right insert_desc [] l.
End SortDesc.

(* ---------- join_path / star_path / split_path ---------- *)
Definition s_slash : pystr := [47%N].
Definition s_star : pystr := [42%N].

Fixpoint join_with_slash (l : list pystr) : pystr :=
  match l with
  | [] => []
  | [x] => x
  | x :: r => x ++ 47%N :: join_with_slash r
  end.

(* join_path(list of str): drop "" and "/", join with "/", make it start with "/" *)
Definition join_path (l : list pystr) : pystr :=
  let l := filter (fun a => negb (str_eqb a [] || str_eqb a s_slash)) l in
  let r := join_with_slash l in
  match r with
  | c :: _ => if N.eqb c 47 then r else 47%N :: r
  | [] => s_slash
  end.

Definition star_key (k : key) : pystr :=
  match k with
  | KI _ => s_star
  | KS s => match str_int s with Some _ => s_star | None => s end
  end.

Definition star_path (p : path) : pystr := join_path (map star_key p).

(* split_path: [x for x in path.strip("/").split("/") if x] *)
Fixpoint split_slash (s : pystr) (cur : pystr) : list pystr :=
  match s with
  | [] => match cur with [] => [] | _ => [rev cur] end
  | c :: r => if N.eqb c 47
              then match cur with [] => split_slash r [] | _ => rev cur :: split_slash r [] end
              else split_slash r (c :: cur)
  end.
Definition split_path (s : pystr) : list pystr := split_slash s [].

(* ---------- Strategies ---------- *)
Record strat := { st_table : list (pystr * pystr); st_transients : list pystr }.

Fixpoint assoc_str (k : pystr) (l : list (pystr * pystr)) : option pystr :=
  match l with
  | [] => None
  | (k', v) :: r => if str_eqb k k' then Some v else assoc_str k r
  end.

(* Strategies.get(k): dict.get(star_path(split_path(k))) *)
Definition strat_get (S : strat) (k : pystr) : option pystr :=
  assoc_str (star_path (map KS (split_path k))) (st_table S).

Definition in_transients (S : strat) (p : pystr) : bool := existsb (str_eqb p) (st_transients S).

Definition no_strategies : strat := {| st_table := []; st_transients := [] |}.
