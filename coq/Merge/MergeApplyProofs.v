(* Composition of decision making and decision application (C05, growth step): decisions that all sit at the root path
   are applied as ONE patch whose diff is the iterated combine_patches of their diffs (apply_root_group); flat key-sorted
   object diffs are fixed points of combine_patches; hence for every object base and every non-empty flat key-sorted object
   diff d, a one-sided merge is conflict-free and apply_decisions gives exactly patch base d (onesided_flat_object). *)
From Coq Require Import String.
From Coq Require Import List NArith ZArith Bool Lia.
From NB Require Import Base.Res.
From NB Require Import Base.Json.
From NB Require Import Base.PyStr.
From NB Require Import Diff.DiffFormat.
From NB Require Import Diff.Patch.
From NB Require Import Diff.GenericDiff.
From NB Require Import Diff.Codec.
From NB Require Import Merge.SortKey.
From NB Require Import Merge.Chunks.
From NB Require Import Merge.Decisions.
From NB Require Import Merge.Apply.
From NB Require Import Merge.MergeGeneric.
From NB Require Import Gen.MergeFacts.
From NB Require Import Merge.MergeProofs.
Import ListNotations.

(* ---------- decisions that all sit at the root path: apply_decisions = one patch ---------- *)
Definition root_local (d : diff) : decision := mkDec [] ALocal false (Some d) None None None None.

(* the diff accumulated by the "same path" branch of apply_decisions *)
Fixpoint acc_diffs (cur : diff) (ds : list diff) : res diff :=
  match ds with
  | [] => Ok cur
  | d :: r => do c <- combine_patches (afuel (cur ++ d)) (cur ++ d); acc_diffs c r
  end.

Lemma split_string_path_nil base : split_string_path base [] = Ok ([], []).
Proof. reflexivity. Qed.

Lemma apply_loop_root base cur ds :
  forall D, acc_diffs cur ds = Ok D ->
  apply_loop (mkA base (Some []) base cur false) (map root_local ds) = Ok (mkA base (Some []) base D false).
Proof.
  revert cur. induction ds as [|d r IH]; intros cur D E; cbn [acc_diffs] in E.
  - inversion E; subst. reflexivity.
  - destruct (combine_patches (afuel (cur ++ d)) (cur ++ d)) as [c|] eqn:EC; [cbn [bind] in E|discriminate].
    cbn [map apply_loop]. unfold apply_step at 1. unfold root_local at 1 2 3 4 5.
    cbn -[combine_patches afuel apply_loop root_local].
    rewrite EC. cbn -[combine_patches afuel apply_loop root_local]. apply IH. exact E.
Qed.

Theorem apply_root_group base d0 ds D :
  acc_diffs d0 ds = Ok D ->
  apply_decisions base (map root_local (d0 :: ds)) = patch (pfuel base D) base D.
Proof.
  intros E. unfold apply_decisions. cbn [map apply_loop].
  unfold apply_step at 1. unfold root_local at 1 2 3 4.
  cbn -[combine_patches afuel apply_loop root_local patch pfuel].
  change (resolve_action base (root_local d0)) with (Ok d0 : res diff).
  change (is_clear_all (d_action (root_local d0))) with false. cbn [bind].
  match goal with |- bind ?X _ = _ =>
    replace X with (Ok (mkA base (Some []) base D false) : res astate)
      by (symmetry; apply apply_loop_root; exact E) end.
  cbn -[patch pfuel].
  destruct (patch (pfuel base D) base D); reflexivity.
Qed.

(* ---------- flat, key-sorted diffs are fixed points of combine_patches ---------- *)
Definition flat (d : diff) : Prop := Forall (fun e => is_patch e = false) d.

Lemma combine_fold_flat d : flat d -> forall f acc,
  fold_left (fun (acc : res (list dentry)) (d : dentry) =>
               do nd <- acc;
               match d with
               | DPatch k dd =>
                   match find_patch k nd with
                   | None => do c <- combine_patches f dd; Ok (nd ++ [DPatch k c])
                   | Some pd => do c <- combine_patches f (pd ++ dd); Ok (update_patch k (fun _ => c) nd)
                   end
               | _ => Ok (nd ++ [d])
               end) d (Ok acc) = Ok (acc ++ d).
Proof.
  induction 1 as [|e r He Hr IH]; intros f acc; simpl.
  - rewrite app_nil_r. reflexivity.
  - destruct e; try discriminate; simpl; rewrite IH, <- app_assoc; reflexivity.
Qed.

(* strictly increasing string keys *)
Fixpoint skeys_lt (prev : option pystr) (d : diff) : Prop :=
  match d with
  | [] => True
  | e :: r => match dkey e with
              | KS k => match prev with None => True | Some p => str_ltb p k = true end /\ skeys_lt (Some k) r
              | KI _ => False
              end
  end.

Lemma skeys_all_str prev d : skeys_lt prev d -> all_str_keys d = true.
Proof.
  revert prev. induction d as [|e r IH]; intros prev Hs; [reflexivity|].
  simpl in *. destruct (dkey e); [contradiction|]. destruct Hs as [_ Hr]. simpl. eapply IH. exact Hr.
Qed.

Lemma skeys_not_int prev d : skeys_lt prev d -> d <> [] -> all_int_keys d = false.
Proof.
  destruct d as [|e r]; [congruence|]. simpl. destruct (dkey e); [contradiction|]. reflexivity.
Qed.

(* inserting a key greater than everything present appends *)
Definition all_keys_lt (acc : list dentry) (k : pystr) : Prop := Forall (fun x => str_ltb (key_str_of x) k = true) acc.

Lemma insert_by_skey_append e acc :
  all_keys_lt acc (key_str_of e) -> insert_by_skey e acc = acc ++ [e].
Proof.
  induction 1 as [|x r Hx Hr IH]; simpl; [reflexivity|].
  rewrite (str_ltb_asym _ _ Hx). rewrite IH. reflexivity.
Qed.

Lemma sort_skeys_id d : forall acc prev,
  skeys_lt prev d ->
  (forall k, prev = Some k -> Forall (fun x => str_ltb (key_str_of x) k = true \/ key_str_of x = k) acc) ->
  (prev = None -> acc = []) ->
  fold_left (fun a e => insert_by_skey e a) d acc = acc ++ d.
Proof.
  induction d as [|e r IH]; intros acc prev Hs Hacc Hnone; simpl.
  - rewrite app_nil_r. reflexivity.
  - simpl in Hs. destruct (dkey e) as [|k] eqn:Ek; [contradiction|]. destruct Hs as [Hp Hr].
    assert (Hk : key_str_of e = k) by (unfold key_str_of; rewrite Ek; reflexivity).
    assert (Hall : all_keys_lt acc (key_str_of e)).
    { rewrite Hk. destruct prev as [p|].
      - specialize (Hacc p eq_refl). unfold all_keys_lt. eapply Forall_impl; [|exact Hacc].
        intros x [Hx|Hx]; [eapply str_ltb_trans; eassumption | rewrite Hx; exact Hp].
      - rewrite (Hnone eq_refl). constructor. }
    rewrite (insert_by_skey_append e acc Hall).
    rewrite (IH (acc ++ [e]) (Some k) Hr).
    + rewrite <- app_assoc. reflexivity.
    + intros k0 E0. inversion E0; subst k0. apply Forall_app. split.
      * unfold all_keys_lt in Hall. rewrite Hk in Hall. eapply Forall_impl; [|exact Hall]. intros x Hx. left. exact Hx.
      * constructor; [right; exact Hk | constructor].
    + discriminate.
Qed.

Lemma combine_patches_flat_sorted f d :
  flat d -> skeys_lt None d -> combine_patches (S f) d = Ok d.
Proof.
  intros Hf Hs. cbn [combine_patches]. rewrite (combine_fold_flat d Hf f []). cbn [bind app].
  unfold sort_diff_by_key. destruct d as [|e r]; [reflexivity|].
  rewrite (skeys_not_int None (e :: r) Hs) by discriminate.
  rewrite (skeys_all_str None (e :: r) Hs).
  rewrite (sort_skeys_id (e :: r) [] None Hs); [reflexivity | discriminate | reflexivity].
Qed.

Lemma skeys_lt_app_l prev a b : skeys_lt prev (a ++ b) -> skeys_lt prev a.
Proof.
  revert prev. induction a as [|x r IH]; intros prev Hs; simpl in *; [exact I|].
  destruct (dkey x); [contradiction|]. destruct Hs as [H1 H2]. split; [exact H1 | eapply IH; exact H2].
Qed.

Lemma flat_app_l a b : flat (a ++ b) -> flat a.
Proof. unfold flat. intros Hf. apply Forall_app in Hf. tauto. Qed.

Lemma skeys_lt_weaken p k d : skeys_lt (Some k) d -> str_ltb p k = true -> skeys_lt (Some p) d.
Proof.
  destruct d as [|e r]; simpl; [auto|]. destruct (dkey e); [auto|]. intros [H1 H2] Hp.
  split; [eapply str_ltb_trans; eassumption | exact H2].
Qed.

(* every key before position |a| is smaller than the key at that position *)
Lemma skeys_lt_before a : forall prev e b k,
  skeys_lt prev (a ++ e :: b) -> dkey e = KS k ->
  Forall (fun x => str_ltb (key_str_of x) k = true) a /\ (forall p, prev = Some p -> str_ltb p k = true).
Proof.
  induction a as [|x r IH]; intros prev e b k Hs Ek; simpl in Hs.
  - rewrite Ek in Hs. destruct Hs as [H1 _]. split; [constructor|]. intros p ->. exact H1.
  - destruct (dkey x) as [|kx] eqn:Ex; [contradiction|]. destruct Hs as [H1 H2].
    destruct (IH (Some kx) e b k H2 Ek) as [Hr Hp]. specialize (Hp kx eq_refl). split.
    + constructor; [unfold key_str_of; rewrite Ex; exact Hp | exact Hr].
    + intros p ->. eapply str_ltb_trans; eassumption.
Qed.

Definition single (e : dentry) : diff := [e].

Lemma acc_diffs_flat_sorted rest : forall pre,
  pre <> [] -> flat (pre ++ rest) -> skeys_lt None (pre ++ rest) ->
  acc_diffs pre (map single rest) = Ok (pre ++ rest).
Proof.
  induction rest as [|e r IH]; intros pre Hne Hf Hs; cbn [map acc_diffs].
  - rewrite app_nil_r. reflexivity.
  - unfold single at 1.
    assert (E : pre ++ e :: r = (pre ++ [e]) ++ r) by (rewrite <- app_assoc; reflexivity).
    rewrite E in Hf, Hs.
    unfold afuel. rewrite (combine_patches_flat_sorted _ (pre ++ [e]) (flat_app_l _ _ Hf) (skeys_lt_app_l _ _ _ Hs)).
    cbn [bind]. rewrite (IH (pre ++ [e])); [rewrite <- app_assoc; reflexivity | | exact Hf | exact Hs].
    destruct pre; discriminate.
Qed.

(* ---------- the dict-based diff of a key-sorted diff is the diff itself ---------- *)
Definition pair_of (e : dentry) : pystr * dentry := (key_str_of e, e).

Lemma dict_set_append k e l :
  Forall (fun kv => str_ltb (fst kv) k = true) l -> dict_set k e l = l ++ [(k, e)].
Proof.
  induction 1 as [|[k' e'] r Hk Hr IH]; simpl; [reflexivity|]. simpl in Hk.
  assert (C : str_cmp k k' = Gt).
  { unfold str_ltb in Hk. destruct (str_cmp k' k) eqn:C'; try discriminate.
    rewrite (str_cmp_antisym k' k), C'. reflexivity. }
  rewrite C, IH. reflexivity.
Qed.

Lemma as_dict_sorted_id rest : forall pre L,
  skeys_lt None (pre ++ rest) ->
  as_dict_based_diff rest (map pair_of pre) = Ok L -> L = map pair_of (pre ++ rest).
Proof.
  induction rest as [|e r IH]; intros pre L Hs E; cbn [as_dict_based_diff] in E.
  - inversion E; subst. rewrite app_nil_r. reflexivity.
  - destruct (dkey e) as [|k] eqn:Ek; [discriminate|].
    destruct (skeys_lt_before pre None e r k Hs Ek) as [Hb _].
    rewrite dict_set_append in E.
    + assert (X : map pair_of pre ++ [(k, e)] = map pair_of (pre ++ [e])).
      { rewrite map_app. simpl. unfold pair_of at 3. unfold key_str_of. rewrite Ek. reflexivity. }
      rewrite X in E. apply IH in E; [|rewrite <- app_assoc; exact Hs]. rewrite <- app_assoc in E. exact E.
    + rewrite Forall_map. exact Hb.
Qed.

(* ---------- a one-sided, flat, key-sorted object diff: decisions and merged document ---------- *)
Lemma add_decision_flat B p e :
  is_patch e = false ->
  add_decision B p ALocal (Some [e]) None false None None None
  = B ++ [mkDec p ALocal false (Some [e]) None None None None].
Proof. intros He. unfold add_decision. destruct e; try discriminate; reflexivity. Qed.

Lemma filter_absent_nil (l : list (pystr * dentry)) :
  filter (fun kv => match dict_get (fst kv) [] with None => true | Some _ => false end) l = l.
Proof.
  assert (G : forall (f : pystr * dentry -> bool), (forall x, f x = true) -> filter f l = l).
  { intros f Hf. induction l as [|x r IH]; [reflexivity|]. cbn [filter]. rewrite Hf, IH. reflexivity. }
  apply G. intros x. reflexivity.
Qed.

Definition dec_at (p : path) (e : dentry) : decision := mkDec p ALocal false (Some [e]) None None None None.

Lemma onesided_fold p L : forall l B,
  Forall (fun kv => dict_get (fst kv) L = Some (snd kv) /\ is_patch (snd kv) = false) l ->
  fold_left (fun (acc : res builder) kv =>
               do B <- acc;
               b_onesided B p (option_map (fun e => [e]) (dict_get (fst kv) L))
                              (option_map (fun e => [e]) (dict_get (fst kv) []))) l (Ok B)
  = Ok (B ++ map (fun kv => dec_at p (snd kv)) l).
Proof.
  induction l as [|[k e] r IH]; intros B Hl; simpl.
  - rewrite app_nil_r. reflexivity.
  - inversion Hl as [|? ? [Hk He] Hr]; subst. simpl in Hk, He. rewrite Hk. cbn [option_map].
    unfold b_onesided. cbn [truthy orb andb negb]. rewrite add_decision_flat by exact He.
    rewrite IH by exact Hr. rewrite <- app_assoc. reflexivity.
Qed.

Lemma second_fold_nil (St : strat) strict cstrict M rec base p : forall (L : list (pystr * dentry)) (B : builder),
  fold_left (fun (acc : res builder) kv =>
               do B <- acc;
               match dict_get (fst kv) [] with
               | Some rd => merge_key St strict cstrict M rec base p B (fst kv) (snd kv) rd
               | None => Ok B
               end) L (Ok B) = Ok B.
Proof. induction L as [|x r IH]; intros B; simpl; [reflexivity | apply IH]. Qed.

Lemma sort_desc_root (l : list decision) :
  Forall (fun d => d_path d = []) l -> sort_desc (fun d => sort_key (d_path d)) l = l.
Proof.
  induction 1 as [|x r Hx Hr IH]; [reflexivity|].
  unfold sort_desc in *. cbn [fold_right]. rewrite IH.
  destruct r as [|y r']; [reflexivity|]. cbn [insert_desc].
  inversion Hr; subst. rewrite Hx, H1. reflexivity.
Qed.

Section FlatObject.
  Variable O : oracles.
  Variable cfg : config.
  Variable St : strat.
  Variable H : hooks.
  Variable gk : guard_kind.
  Variable strict : bool.
  Variable cstrict : bool.

  Lemma merge_dicts_flat M rec base p d :
    flat d -> skeys_lt None d ->
    merge_dicts St H strict cstrict M rec base p d [] = Ok (map (dec_at p) d).
  Proof.
    intros Hf Hs. unfold merge_dicts.
    destruct (as_dict_based_diff d []) as [L|] eqn:EL.
    2:{ exfalso. clear -Hs EL. revert EL. generalize (@nil (pystr * dentry)).
        generalize (@None pystr) Hs. clear Hs. induction d as [|x r IH]; intros prev Hs' acc E; simpl in E; [discriminate|].
        simpl in Hs'. destruct (dkey x); [contradiction|]. destruct Hs' as [_ Hr]. eapply IH; eassumption. }
    cbn [bind as_dict_based_diff].
    pose proof (as_dict_sorted_id d [] L Hs EL) as HL. cbn [app] in HL.
    pose proof (sorted_lookup L (as_dict_sorted d [] L I EL)) as Hlook.
    cbn [filter fold_left]. rewrite filter_absent_nil.
    assert (HF : Forall (fun kv => dict_get (fst kv) L = Some (snd kv) /\ is_patch (snd kv) = false) L).
    { rewrite Forall_forall in *. intros kv Hin. split; [apply Hlook; exact Hin|].
      subst L. apply in_map_iff in Hin. destruct Hin as (e & <- & He). simpl.
      unfold flat in Hf. rewrite Forall_forall in Hf. apply Hf. exact He. }
    match goal with |- bind ?X _ = _ =>
      replace X with (Ok ([] ++ map (fun kv => dec_at p (snd kv)) L) : res builder)
        by (symmetry; apply (onesided_fold p L L []); exact HF) end.
    cbn [bind app]. rewrite second_fold_nil. cbn [bind].
    assert (EB : map (fun kv : pystr * dentry => dec_at p (snd kv)) L = map (dec_at p) d).
    { subst L. rewrite map_map. reflexivity. }
    rewrite EB. apply resolve_conflicted_dict_no_conf.
    unfold no_conf. rewrite Forall_map. apply Forall_forall. intros; reflexivity.
  Qed.

  Theorem onesided_flat_object kv d :
    d <> [] -> flat d -> skeys_lt None d ->
    exists decs,
      decide_merge_with_diff O cfg St H gk strict cstrict (JObj kv) d [] = Ok decs
      /\ no_conf decs
      /\ apply_decisions (JObj kv) decs = patch (pfuel (JObj kv) d) (JObj kv) d.
  Proof.
    intros Hne Hf Hs.
    assert (NC : no_conf (map (dec_at []) d)).
    { unfold no_conf. rewrite Forall_map. apply Forall_forall. intros; reflexivity. }
    exists (map (dec_at []) d). unfold decide_merge_with_diff, mfuel.
    replace (depth (JObj kv) + 3) with (S (depth (JObj kv) + 2)) by lia. cbn [merge].
    rewrite merge_dicts_flat by assumption. cbn [bind].
    rewrite resolve_strategy_generic_no_conf by exact NC.
    assert (EV : validated (map (dec_at []) d) = map (dec_at []) d).
    { unfold validated. rewrite map_map.
      assert (E1 : map (fun x => drop_strategy (dec_at [] x)) d = map (dec_at []) d) by reflexivity.
      rewrite E1. apply sort_desc_root. rewrite Forall_map. apply Forall_forall. intros; reflexivity. }
    rewrite EV. split; [reflexivity|]. split; [exact NC|].
    destruct d as [|e r]; [congruence|].
    assert (ER : map (dec_at []) (e :: r) = map root_local (single e :: map single r)).
    { cbn [map]. f_equal. rewrite map_map. reflexivity. }
    rewrite ER. apply apply_root_group.
    apply (acc_diffs_flat_sorted r [e]); [discriminate | exact Hf | exact Hs].
  Qed.
End FlatObject.

(* ---------- the root-group lemma for arbitrary decisions at the root ---------- *)
Definition root_dec_ok (base : json) (d : decision) (x : diff) : Prop :=
  d_path d = [] /\ resolve_action base d = Ok x /\ is_clear_all (d_action d) = false.

Lemma apply_loop_root_gen base : forall decs ds cur D,
  Forall2 (root_dec_ok base) decs ds -> acc_diffs cur ds = Ok D ->
  apply_loop (mkA base (Some []) base cur false) decs = Ok (mkA base (Some []) base D false).
Proof.
  induction decs as [|md r IH]; intros ds cur D HF E; inversion HF; subst; cbn [acc_diffs] in E.
  - inversion E; subst. reflexivity.
  - destruct H1 as (Hp & Hr & Hc).
    destruct (combine_patches (afuel (cur ++ y)) (cur ++ y)) as [c|] eqn:EC; [cbn [bind] in E|discriminate].
    cbn [apply_loop]. unfold apply_step at 1. cbn [a_merged]. rewrite Hp, split_string_path_nil. cbn [bind].
    cbn [opath_eqb a_prev path_eqb a_clear_all]. rewrite Hc. cbn [a_resolved]. rewrite Hr. cbn [bind a_diffs].
    rewrite EC. cbn [bind a_merged a_prev a_resolved a_clear_all]. eapply IH; eassumption.
Qed.

Theorem apply_root_group_gen base md decs d0 ds D :
  root_dec_ok base md d0 -> Forall2 (root_dec_ok base) decs ds -> acc_diffs d0 ds = Ok D ->
  apply_decisions base (md :: decs) = patch (pfuel base D) base D.
Proof.
  intros (Hp & Hr & Hc) HF E. unfold apply_decisions. cbn [apply_loop].
  unfold apply_step at 1. cbn [a_merged]. rewrite Hp, split_string_path_nil. cbn [bind].
  cbn [opath_eqb a_prev flush a_merged bind get_path]. rewrite Hr, Hc. cbn [bind].
  match goal with |- bind ?X _ = _ =>
    replace X with (Ok (mkA base (Some []) base D false) : res astate)
      by (symmetry; eapply apply_loop_root_gen; eassumption) end.
  cbn -[patch pfuel]. destruct (patch (pfuel base D) base D); reflexivity.
Qed.

(* ---------- remote-only and agreeing flat object diffs ---------- *)
Definition dec_remote_at (p : path) (e : dentry) : decision := mkDec p ARemote false None (Some [e]) None None None.
Definition dec_either_at (p : path) (e : dentry) : decision := mkDec p AEither false (Some [e]) (Some [e]) None None None.

Lemma add_decision_flat_remote B p e :
  is_patch e = false ->
  add_decision B p ARemote None (Some [e]) false None None None = B ++ [dec_remote_at p e].
Proof. intros He. unfold add_decision. destruct e; try discriminate; reflexivity. Qed.

Lemma add_decision_flat_either B p e :
  is_patch e = false ->
  add_decision B p AEither (Some [e]) (Some [e]) false None None None = B ++ [dec_either_at p e].
Proof. intros He. unfold add_decision. destruct e; try discriminate; reflexivity. Qed.

Lemma rebuild_sorted rest : forall pre,
  skeys_lt None (pre ++ rest) ->
  fold_left (fun acc (kv : pystr * dentry) => dict_set (fst kv) (snd kv) acc) (map pair_of rest) (map pair_of pre)
  = map pair_of (pre ++ rest).
Proof.
  induction rest as [|e r IH]; intros pre Hs; cbn [map fold_left].
  - rewrite app_nil_r. reflexivity.
  - destruct (dkey e) as [|k] eqn:Ek.
    { exfalso. clear -Hs Ek. revert Hs. generalize (@None pystr). induction pre as [|x q IHq]; intros prev Hs; simpl in Hs.
      - rewrite Ek in Hs. exact Hs.
      - destruct (dkey x); [exact Hs|]. destruct Hs as [_ Hr]. eapply IHq. exact Hr. }
    destruct (skeys_lt_before pre None e r k Hs Ek) as [Hb _].
    assert (Hk : key_str_of e = k) by (unfold key_str_of; rewrite Ek; reflexivity).
    change (fst (pair_of e)) with (key_str_of e). change (snd (pair_of e)) with e. rewrite Hk.
    rewrite dict_set_append by (rewrite Forall_map; exact Hb).
    assert (X : map pair_of pre ++ [(k, e)] = map pair_of (pre ++ [e])).
    { rewrite map_app. simpl. unfold pair_of at 3. rewrite Hk. reflexivity. }
    rewrite X, IH by (rewrite <- app_assoc; exact Hs). rewrite <- app_assoc. reflexivity.
Qed.

Lemma remote_fold p R : forall l B,
  Forall (fun kv => dict_get (fst kv) R = Some (snd kv) /\ is_patch (snd kv) = false) l ->
  fold_left (fun (acc : res builder) kv =>
               do B <- acc;
               b_onesided B p (option_map (fun e => [e]) (dict_get (fst kv) []))
                              (option_map (fun e => [e]) (dict_get (fst kv) R))) l (Ok B)
  = Ok (B ++ map (fun kv => dec_remote_at p (snd kv)) l).
Proof.
  induction l as [|[k e] r IH]; intros B Hl; simpl.
  - rewrite app_nil_r. reflexivity.
  - inversion Hl as [|? ? [Hk He] Hr]; subst. simpl in Hk, He. rewrite Hk. cbn [option_map].
    unfold b_onesided. cbn [truthy orb andb negb]. rewrite add_decision_flat_remote by exact He.
    rewrite IH by exact Hr. rewrite <- app_assoc. reflexivity.
Qed.

Lemma filter_all_false {A} (f : A -> bool) l : (forall x, In x l -> f x = false) -> filter f l = [].
Proof.
  induction l as [|x r IH]; intros Hf; [reflexivity|]. cbn [filter]. rewrite (Hf x (or_introl eq_refl)).
  apply IH. intros y Hy. apply Hf. right. exact Hy.
Qed.

Section FlatObject2.
  Variable O : oracles.
  Variable cfg : config.
  Variable St : strat.
  Variable H : hooks.
  Variable gk : guard_kind.
  Variable strict : bool.
  Variable cstrict : bool.

  Lemma as_dict_ok d : skeys_lt None d -> as_dict_based_diff d [] = Ok (map pair_of d).
  Proof.
    intros Hs. destruct (as_dict_based_diff d []) as [L|] eqn:EL.
    - rewrite (as_dict_sorted_id d [] L Hs EL). reflexivity.
    - exfalso. clear -Hs EL. revert EL. generalize (@nil (pystr * dentry)).
      generalize (@None pystr) Hs. clear Hs. induction d as [|x r IH]; intros prev Hs' acc E; simpl in E; [discriminate|].
      simpl in Hs'. destruct (dkey x); [contradiction|]. destruct Hs' as [_ Hr]. eapply IH; eassumption.
  Qed.

  Lemma lookup_pairs d : skeys_lt None d -> flat d ->
    Forall (fun kv => dict_get (fst kv) (map pair_of d) = Some (snd kv) /\ is_patch (snd kv) = false) (map pair_of d).
  Proof.
    intros Hs Hf.
    pose proof (sorted_lookup _ (as_dict_sorted d [] _ I (as_dict_ok d Hs))) as Hlook.
    rewrite Forall_forall in *. intros kv Hin. split; [apply Hlook; exact Hin|].
    apply in_map_iff in Hin. destruct Hin as (e & <- & He). simpl.
    unfold flat in Hf. rewrite Forall_forall in Hf. apply Hf. exact He.
  Qed.

  Lemma merge_dicts_flat_remote M rec base p d :
    flat d -> skeys_lt None d ->
    merge_dicts St H strict cstrict M rec base p [] d = Ok (map (dec_remote_at p) d).
  Proof.
    intros Hf Hs. unfold merge_dicts. cbn [as_dict_based_diff bind]. rewrite (as_dict_ok d Hs). cbn [bind].
    cbn [filter]. rewrite filter_absent_nil.
    pose proof (rebuild_sorted d [] Hs) as HR. cbn [map app] in HR. rewrite HR.
    match goal with |- bind ?X _ = _ =>
      replace X with (Ok ([] ++ map (fun kv => dec_remote_at p (snd kv)) (map pair_of d)) : res builder)
        by (symmetry; apply (remote_fold p (map pair_of d) (map pair_of d) []); apply lookup_pairs; assumption) end.
    cbn [bind app fold_left]. rewrite map_map.
    apply resolve_conflicted_dict_no_conf.
    unfold no_conf. rewrite Forall_map. apply Forall_forall. intros; reflexivity.
  Qed.

  Theorem onesided_remote_flat_object kv d :
    d <> [] -> flat d -> skeys_lt None d ->
    exists decs,
      decide_merge_with_diff O cfg St H gk strict cstrict (JObj kv) [] d = Ok decs
      /\ no_conf decs
      /\ apply_decisions (JObj kv) decs = patch (pfuel (JObj kv) d) (JObj kv) d.
  Proof.
    intros Hne Hf Hs.
    assert (NC : no_conf (map (dec_remote_at []) d)).
    { unfold no_conf. rewrite Forall_map. apply Forall_forall. intros; reflexivity. }
    exists (map (dec_remote_at []) d). unfold decide_merge_with_diff, mfuel.
    replace (depth (JObj kv) + 3) with (S (depth (JObj kv) + 2)) by lia. cbn [merge].
    rewrite merge_dicts_flat_remote by assumption. cbn [bind].
    rewrite resolve_strategy_generic_no_conf by exact NC.
    assert (EV : validated (map (dec_remote_at []) d) = map (dec_remote_at []) d).
    { unfold validated. rewrite map_map.
      assert (E1 : map (fun x => drop_strategy (dec_remote_at [] x)) d = map (dec_remote_at []) d) by reflexivity.
      rewrite E1. apply sort_desc_root. rewrite Forall_map. apply Forall_forall. intros; reflexivity. }
    rewrite EV. split; [reflexivity|]. split; [exact NC|].
    destruct d as [|e r]; [congruence|]. cbn [map].
    eapply (apply_root_group_gen (JObj kv) (dec_remote_at [] e) (map (dec_remote_at []) r) (single e) (map single r)).
    - repeat split.
    - clear. induction r as [|x r IH]; cbn [map]; constructor; [repeat split | exact IH].
    - apply (acc_diffs_flat_sorted r [e]); [discriminate | exact Hf | exact Hs].
  Qed.
End FlatObject2.

Section FlatObject3.
  Variable O : oracles.
  Variable cfg : config.
  Variable St : strat.
  Variable H : hooks.
  Variable gk : guard_kind.
  Variable strict : bool.
  Variable cstrict : bool.

  Lemma b_agreement_flat B p e :
    is_patch e = false -> b_agreement B p (Some [e]) (Some [e]) = Ok (B ++ [dec_either_at p e]).
  Proof.
    intros He. unfold b_agreement. cbn [truthy andb negb odiff_pyeqb].
    rewrite diff_pyeqb_refl. cbn [negb]. rewrite add_decision_flat_either by exact He. reflexivity.
  Qed.

  Lemma merge_key_flat_same M rec base p B k e :
    is_patch e = false ->
    merge_key St strict cstrict M rec base p B k e e = Ok (B ++ [dec_either_at p e]).
  Proof.
    intros He. unfold merge_key, one.
    destruct (is_remove e); cbn [orb andb].
    - apply b_agreement_flat. exact He.
    - rewrite opk_eqb_refl. cbn [negb]. rewrite same_entry_refl. apply b_agreement_flat. exact He.
  Qed.

  Lemma agree_fold M rec base p R : forall l B,
    Forall (fun kv => dict_get (fst kv) R = Some (snd kv) /\ is_patch (snd kv) = false) l ->
    fold_left (fun (acc : res builder) kv =>
                 do B <- acc;
                 match dict_get (fst kv) R with
                 | Some rd => merge_key St strict cstrict M rec base p B (fst kv) (snd kv) rd
                 | None => Ok B
                 end) l (Ok B)
    = Ok (B ++ map (fun kv => dec_either_at p (snd kv)) l).
  Proof.
    induction l as [|[k e] r IH]; intros B Hl; simpl.
    - rewrite app_nil_r. reflexivity.
    - inversion Hl as [|? ? [Hk He] Hr]; subst. simpl in Hk, He. rewrite Hk.
      rewrite merge_key_flat_same by exact He. rewrite IH by exact Hr. rewrite <- app_assoc. reflexivity.
  Qed.

  Lemma merge_dicts_flat_agree M rec base p d :
    flat d -> skeys_lt None d ->
    merge_dicts St H strict cstrict M rec base p d d = Ok (map (dec_either_at p) d).
  Proof.
    intros Hf Hs. unfold merge_dicts. rewrite (as_dict_ok d Hs). cbn [bind].
    pose proof (lookup_pairs d Hs Hf) as HL.
    assert (HN : filter (fun kv : pystr * dentry => match dict_get (fst kv) (map pair_of d) with None => true | Some _ => false end)
                        (map pair_of d) = []).
    { apply filter_all_false. intros kv Hin. rewrite Forall_forall in HL. destruct (HL kv Hin) as [-> _]. reflexivity. }
    rewrite HN. cbn [fold_left bind].
    match goal with |- bind ?X _ = _ =>
      replace X with (Ok ([] ++ map (fun kv => dec_either_at p (snd kv)) (map pair_of d)) : res builder)
        by (symmetry; apply (agree_fold M rec base p (map pair_of d) (map pair_of d) []); exact HL) end.
    cbn [bind app]. rewrite map_map.
    apply resolve_conflicted_dict_no_conf.
    unfold no_conf. rewrite Forall_map. apply Forall_forall. intros; reflexivity.
  Qed.

  Theorem agree_flat_object kv d :
    d <> [] -> flat d -> skeys_lt None d ->
    exists decs,
      decide_merge_with_diff O cfg St H gk strict cstrict (JObj kv) d d = Ok decs
      /\ no_conf decs
      /\ apply_decisions (JObj kv) decs = patch (pfuel (JObj kv) d) (JObj kv) d.
  Proof.
    intros Hne Hf Hs.
    assert (NC : no_conf (map (dec_either_at []) d)).
    { unfold no_conf. rewrite Forall_map. apply Forall_forall. intros; reflexivity. }
    exists (map (dec_either_at []) d). unfold decide_merge_with_diff, mfuel.
    replace (depth (JObj kv) + 3) with (S (depth (JObj kv) + 2)) by lia. cbn [merge].
    rewrite merge_dicts_flat_agree by assumption. cbn [bind].
    rewrite resolve_strategy_generic_no_conf by exact NC.
    assert (EV : validated (map (dec_either_at []) d) = map (dec_either_at []) d).
    { unfold validated. rewrite map_map.
      assert (E1 : map (fun x => drop_strategy (dec_either_at [] x)) d = map (dec_either_at []) d) by reflexivity.
      rewrite E1. apply sort_desc_root. rewrite Forall_map. apply Forall_forall. intros; reflexivity. }
    rewrite EV. split; [reflexivity|]. split; [exact NC|].
    destruct d as [|e r]; [congruence|]. cbn [map].
    eapply (apply_root_group_gen (JObj kv) (dec_either_at [] e) (map (dec_either_at []) r) (single e) (map single r)).
    - repeat split.
    - clear. induction r as [|x r IH]; cbn [map]; constructor; [repeat split | exact IH].
    - apply (acc_diffs_flat_sorted r [e]); [discriminate | exact Hf | exact Hs].
  Qed.
End FlatObject3.
