(* The strategy layer of the merge, table-driven: the dispatchers of nbdime/merging/decisions.py (tryresolve) and
   nbdime/merging/strategies.py (resolve_strategy_generic, resolve_conflicted_decisions_list/_dict/_strings) written as
   INTERPRETERS of the if/elif chains that tools/gen/gen_strategies.py reads off the source (Gen/Strategies.v).
   StrategiesProofs.v shows that the hand-written dispatchers of the merge core (Decisions.b_tryresolve,
   MergeGeneric.resolve_strategy_generic, resolve_conflicted_list, _dict, _strings) are these interpreters applied to the generated chains, so
   that adding, removing or reordering an arm in the source breaks a proof obligation.

   Also here: what "resolving a conflicted decision to a side" means (C10). *)
From Coq Require Import List NArith Bool String.
From NB Require Import Base.Res.
From NB Require Import Base.Json.
From NB Require Import Diff.DiffFormat.
From NB Require Import Diff.Codec.
From NB Require Import Merge.SortKey.
From NB Require Import Merge.Decisions.
From NB Require Import Merge.Apply.
From NB Require Import Merge.MergeGeneric.
From NB Require Import Merge.StrategyBase.
From NB Require Import Gen.Strategies.
From NB Require Import Merge.StrategyTable.
Import ListNotations.

(* ---------- resolving conflicts to a side (C10) ---------- *)
(* the decision keeps its path and diffs; the proposed action (base, local_then_remote, remote_then_local, custom ...) is
   replaced and the conflict flag cleared *)
Definition resolve_to (a : action) (d : decision) : decision := set_action d a false.

Definition relabel_conflicts (a : action) (ds : list decision) : list decision :=
  map (fun d => if d_conflict d then resolve_to a d else d) ds.

(* inside the merge, decisions already claimed by a strategy (inline renderings) are not touched *)
Definition relabel_open (a : action) (ds : list decision) : list decision :=
  map (fun d => if d_conflict d && negb (strategy_set (d_strategy d)) then resolve_to a d else d) ds.

Definition side_action (side : pystr) : action := action_of_name side.

Definition all_conflicts_open (B : builder) : Prop :=
  forall d, In d B -> d_conflict d = true -> strategy_set (d_strategy d) = false.

(* ---------- tryresolve, driven by the generated chain ---------- *)
Definition arm_try_action (a : arm) : res (option action) :=
  match a with
  | ArmAction n => Ok (Some (action_of_name n))
  | ArmRaise e => Err e
  | _ => Ok None
  end.

Definition src_try_action (s : pystr) : res (option action) :=
  arm_try_action (select_arm (d_chain src_tryresolve) (d_else src_tryresolve) s).

Definition tryresolve_src (cs : bool) (B : builder) (p : path) (l r : option diff) (strategy : option pystr)
  : res (builder * bool) :=
  match strategy with
  | None | Some [] => Ok (B, false)
  | Some s =>
      if negb (truthy l && truthy r) then Err AssertionError else
      if conflict_args_eqb cs l r then Err AssertionError else
      do a <- src_try_action s;
      match a with
      | Some a => Ok (add_decision B p a l r false strategy None None, true)
      | None => Ok (B, false)
      end
  end.

(* ---------- the resolving loops ---------- *)
Definition set_loop (a : action) (skip_marked : bool) (B : builder) : builder :=
  map (fun d => if d_conflict d && (if skip_marked then negb (strategy_set (d_strategy d)) else true)
                then set_action d a false else d) B.

Definition guard_src (src : dispatcher_src) (B : builder) (strategy : option pystr) : bool :=
  strategy_set strategy
  && negb (match strategy with Some s => str_in s (d_skip src) | None => false end)
  && (if d_needs_conflict src then has_conflicted B else true).

(* arms that need neither the base value nor a callee *)
Definition interp_plain_arm (a : arm) (s : pystr) (B : builder) : builder :=
  match a with
  | ArmUseSide pre skip => set_loop (action_of_name (remove_all_sub (S (List.length s)) pre s)) skip B
  | ArmSetAction n skip false => set_loop (action_of_name n) skip B
  | _ => B
  end.

Definition generic_src (B : builder) (strategy : option pystr) : builder :=
  if negb (guard_src src_resolve_strategy_generic B strategy) then B else
  match strategy with
  | Some s => interp_plain_arm (select_arm (d_chain src_resolve_strategy_generic)
                                          (d_else src_resolve_strategy_generic) s) s B
  | None => B
  end.

Definition strings_src (B : builder) (strategy : option pystr) : builder :=
  if negb (guard_src src_resolve_conflicted_decisions_strings B strategy) then B else
  match strategy with
  | Some s =>
      match select_arm (d_chain src_resolve_conflicted_decisions_strings)
                       (d_else src_resolve_conflicted_decisions_strings) s with
      | ArmGeneric => generic_src B strategy
      | a => interp_plain_arm a s B
      end
  | None => B
  end.

(* list / dict level: callees are the hooks of the merge core; the union loop looks at the base value *)
Definition union_loop (a : action) (p : path) (base : json) (B : builder) : res builder :=
  mapM (fun d =>
          if d_conflict d then
            do v <- get_path base (skipn (List.length p) (d_path d));
            match v with
            | JObj _ => Ok d
            | _ => Ok (set_action d a false)
            end
          else Ok d) B.

Definition interp_container_arm (call : pystr -> res builder) (p : path) (base : json)
           (a : arm) (s : pystr) (B : builder) (strategy : option pystr) : res builder :=
  match a with
  | ArmCall _ => call s
  | ArmSetAction n false true => union_loop (action_of_name n) p base B
  | ArmGeneric => Ok (generic_src B strategy)
  | ArmRaise e => Err e
  | a => Ok (interp_plain_arm a s B)
  end.

Definition list_src (H : hooks) (p : path) (base : list json) (B : builder) (strategy : option pystr)
  : res builder :=
  if negb (guard_src src_resolve_conflicted_decisions_list B strategy) then Ok B else
  match strategy with
  | Some s =>
      interp_container_arm (fun s => hk_list H p base B s) p (JArr base)
        (select_arm (d_chain src_resolve_conflicted_decisions_list) (d_else src_resolve_conflicted_decisions_list) s)
        s B strategy
  | None => Ok B
  end.

Definition dict_src (H : hooks) (p : path) (base : list (pystr * json)) (B : builder) (strategy : option pystr)
  : res builder :=
  if negb (guard_src src_resolve_conflicted_decisions_dict B strategy) then Ok B else
  match strategy with
  | Some s =>
      interp_container_arm (fun s => hk_dict H p base B s) p (JObj base)
        (select_arm (d_chain src_resolve_conflicted_decisions_dict) (d_else src_resolve_conflicted_decisions_dict) s)
        s B strategy
  | None => Ok B
  end.

(* the use-X strategy strings *)
Definition use_strategy (side : pystr) : pystr := use_ side.

(* ---------- strategies.adjust_patch_level / collect_diffs / the clear-all arm of resolve_conflicted_decisions_list ----------
   Python lists and None: a diff argument is [option diff]; `list.extend(None)` raises TypeError; `for d in None` too. *)
Definition adjust_patch_level (v : apl_variant) (target common : path) (d : option diff) : res (option diff) :=
  let n := List.length target in
  if negb (path_eqb (firstn n common) target) then Err AssertionError else
  match v with
  | APLPinned =>
      (* `if n == len(target_path): return diff` -- always taken *)
      Ok d
  | APLFixed =>
      match d with
      | None | Some [] => Ok (Some [])
      | Some es =>
          if Nat.eqb n (List.length common) then Ok d
          else Ok (Some (map (fun e => fold_left (fun nd k => DPatch k [nd]) (rev (skipn n common)) e) es))
      end
  | APLOther => Err OutOfFuel      (* not modelled: the correspondence check will report the disagreement *)
  end.

Definition extend (acc : diff) (d : option diff) : res diff :=
  match d with Some x => Ok (acc ++ x) | None => Err TypeError end.

Fixpoint collect_diffs_go (v : apl_variant) (p : path) (B : builder) (accl accr : diff) : res (diff * diff) :=
  match B with
  | [] => Ok (accl, accr)
  | d :: rest =>
      do ld <- adjust_patch_level v p (d_path d) (d_local d);
      do rd <- adjust_patch_level v p (d_path d) (d_remote d);
      do accl' <- extend accl ld;
      do accr' <- extend accr rd;
      collect_diffs_go v p rest accl' accr'
  end.

Definition bdepth (B : builder) : nat :=
  fold_right (fun d acc => Nat.max (Nat.max (odepth (d_local d)) (odepth (d_remote d)) + List.length (d_path d)) acc) 0 B.

Definition collect_diffs (v : apl_variant) (p : path) (B : builder) : res (diff * diff) :=
  do lr <- collect_diffs_go v p B [] [];
  let fuel := S (S (bdepth B)) + List.length B in
  do l <- combine_patches fuel (fst lr);
  do r <- combine_patches fuel (snd lr);
  Ok (l, r).

(* elif strategy == "clear-all": ... decisions.custom(path, local_diff, remote_diff, [op_removerange(0, len(base))], strategy=strategy) *)
Definition clear_all_arm (v : apl_variant) (p : path) (base : list json) (B : builder) : res builder :=
  do lr <- collect_diffs v p B;
  Ok (b_custom [] p (Some (fst lr)) (Some (snd lr)) (Some [DRemoveRange (KI 0) (List.length base)]) false
               (Some (of_ascii "clear-all"))).

(* ---------- executable comparison used by the clear-all correspondence (harness/c03_common.py) ---------- *)
Definition odiff_eqb (a b : option diff) : bool :=
  match a, b with Some x, Some y => diff_eqb x y | None, None => true | _, _ => false end.

Definition decision_eqb (a b : decision) : bool :=
  path_eqb (d_path a) (d_path b) && str_eqb (action_name (d_action a)) (action_name (d_action b))
  && Bool.eqb (d_conflict a) (d_conflict b) && odiff_eqb (d_local a) (d_local b) && odiff_eqb (d_remote a) (d_remote b)
  && odiff_eqb (d_custom a) (d_custom b) && opt_str_eqb (d_strategy a) (d_strategy b).

Fixpoint builder_eqb (a b : builder) : bool :=
  match a, b with
  | [], [] => true
  | x :: a', y :: b' => decision_eqb x y && builder_eqb a' b'
  | _, _ => false
  end.

(* observed outcome of the real arm: exception class name, or the decisions afterwards *)
Definition clear_all_agrees (p : path) (base : list json) (B : builder) (obs : pystr + builder) : bool :=
  match clear_all_arm adjust_patch_level_variant p base B, obs with
  | Err e, inl name => str_eqb (err_name e) name
  | Ok B', inr Bobs => builder_eqb B' Bobs
  | _, _ => false
  end.

Fixpoint clear_all_mismatches (i : nat) (cases : list (path * list json * builder * (pystr + builder))) : list nat :=
  match cases with
  | [] => []
  | (p, base, B, obs) :: rest =>
      (if clear_all_agrees p base B obs then [] else [i]) ++ clear_all_mismatches (S i) rest
  end.
