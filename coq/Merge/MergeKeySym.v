(* Side symmetry, per key, of the dict merger (nbdime/merging/generic.py, _merge_dicts steps (4)-(8)):
   exchanging local and remote exchanges the sides of the decision and nothing else.
   Ingredients: Python == and JSON identity on values / diff entries are symmetric relations (py_eqb_sym,
   entry_pyeqb_sym, entry_eqb_sym, conflict_args_eqb_sym), so every test the arm makes has the same outcome in both
   orders; a decision one of whose sides is a single non-patch entry keeps its path (add_decision_flat). *)
From Coq Require Import String.
From Coq Require Import List NArith ZArith Bool Lia.
Import ListNotations.
From NB Require Import Base.Res.
From NB Require Import Base.Json.
From NB Require Import Base.PyStr.
From NB Require Import Diff.DiffFormat.
From NB Require Import Diff.Patch.
From NB Require Import Diff.DictProofs.
From NB Require Import Merge.SortKey.
From NB Require Import Merge.Decisions.
From NB Require Import Merge.MergeGeneric.

Lemma num_eqb_sym x y : num_eqb x y = num_eqb y x.
Proof.
  destruct x as [m e], y as [m' e']. unfold num_eqb.
  destruct (Z.leb_spec e e') as [L1|L1], (Z.leb_spec e' e) as [L2|L2]; try lia.
  - assert (e = e') by lia. subst e'. destruct (Z.leb 0 e); [apply Z.eqb_sym|].
    rewrite Z.sub_diag. simpl. rewrite !Z.mul_1_r. apply Z.eqb_sym.
  - destruct (Z.leb 0 e); apply Z.eqb_sym.
  - destruct (Z.leb 0 e'); apply Z.eqb_sym.
Qed.

Lemma py_eqb_sym a : forall b, py_eqb a b = py_eqb b a.
Proof.
  induction a using json_ind'; intros j; destruct j; cbn -[num_eqb]; try reflexivity;
    repeat (match goal with |- context [Z.eqb ?m 0] => destruct (Z.eqb m 0) end);
    cbn -[num_eqb]; try reflexivity; try (apply num_eqb_sym).
  - apply str_eqb_sym.
  - revert l0. induction H as [|x xs Hx Hxs IH]; intros [|y ys]; try reflexivity.
    rewrite Hx. f_equal. apply IH.
  - revert kv0. induction H as [|[k x] xs Hx Hxs IH]; intros [|[k' y] ys]; try reflexivity.
    simpl in Hx. rewrite Hx, (str_eqb_sym k k'). f_equal. apply IH.
Qed.

Lemma key_eqb_sym a b : key_eqb a b = key_eqb b a.
Proof. destruct a, b; simpl; try reflexivity; [apply Nat.eqb_sym | apply str_eqb_sym]. Qed.

Lemma list_pyeqb_sym l : forall m, list_pyeqb l m = list_pyeqb m l.
Proof. induction l as [|x xs IH]; intros [|y ys]; simpl; try reflexivity. rewrite py_eqb_sym, IH. reflexivity. Qed.

Lemma vlist_pyeqb_sym a b : vlist_pyeqb a b = vlist_pyeqb b a.
Proof. destruct a, b; simpl; try reflexivity; [apply list_pyeqb_sym | apply str_eqb_sym]. Qed.

Lemma json_eqb_sym a b : json_eqb a b = json_eqb b a.
Proof.
  destruct (json_eqb a b) eqn:E.
  - apply json_eqb_eq in E. subst. symmetry. apply json_eqb_refl.
  - apply json_eqb_neq in E. symmetry. apply json_eqb_neq. congruence.
Qed.

Lemma vlist_eqb_sym a b : vlist_eqb a b = vlist_eqb b a.
Proof. destruct a, b; simpl; try reflexivity; [apply (json_eqb_sym (JArr l) (JArr l0)) | apply str_eqb_sym]. Qed.

Fixpoint entry_pyeqb_sym (a : dentry) : forall b, entry_pyeqb a b = entry_pyeqb b a.
Proof.
  destruct a; intros b; destruct b; simpl; try reflexivity;
    rewrite (key_eqb_sym k k0); try reflexivity; f_equal;
    try apply py_eqb_sym; try apply vlist_pyeqb_sym; try apply Nat.eqb_sym.
  revert d0. induction d as [|x xs IH]; intros [|y ys]; try reflexivity.
  rewrite (entry_pyeqb_sym x y). f_equal. apply IH.
Qed.

Fixpoint entry_eqb_sym (a : dentry) : forall b, entry_eqb a b = entry_eqb b a.
Proof.
  destruct a; intros b; destruct b; simpl; try reflexivity;
    rewrite (key_eqb_sym k k0); try reflexivity; f_equal;
    try apply json_eqb_sym; try apply vlist_eqb_sym; try apply Nat.eqb_sym.
  revert d0. induction d as [|x xs IH]; intros [|y ys]; try reflexivity.
  rewrite (entry_eqb_sym x y). f_equal. apply IH.
Qed.

Lemma diff_pyeqb_sym l : forall m, diff_pyeqb l m = diff_pyeqb m l.
Proof. induction l as [|x xs IH]; intros [|y ys]; simpl; try reflexivity. rewrite entry_pyeqb_sym, IH. reflexivity. Qed.

Lemma diff_eqb_sym l : forall m, diff_eqb l m = diff_eqb m l.
Proof. induction l as [|x xs IH]; intros [|y ys]; simpl; try reflexivity. rewrite entry_eqb_sym, IH. reflexivity. Qed.

Lemma odiff_pyeqb_sym a b : odiff_pyeqb a b = odiff_pyeqb b a.
Proof. destruct a, b; simpl; try reflexivity. apply diff_pyeqb_sym. Qed.

Lemma conflict_args_eqb_sym cs a b : conflict_args_eqb cs a b = conflict_args_eqb cs b a.
Proof. unfold conflict_args_eqb. destruct cs; [|apply odiff_pyeqb_sym]. destruct a, b; try reflexivity. apply diff_eqb_sym. Qed.

Lemma same_entry_sym strict a b : same_entry strict a b = same_entry strict b a.
Proof. unfold same_entry. destruct strict; [apply entry_eqb_sym | apply entry_pyeqb_sym]. Qed.

Lemma opk_eqb_sym a b : opk_eqb a b = opk_eqb b a.
Proof. destruct a, b; reflexivity. Qed.

(* ---------- swapping the two sides of a decision ---------- *)
Definition swap_action (a : action) : action :=
  match a with
  | ALocal => ARemote | ARemote => ALocal
  | ALocalThenRemote => ARemoteThenLocal | ARemoteThenLocal => ALocalThenRemote
  | x => x
  end.
Definition swap_dec (d : decision) : decision :=
  mkDec (d_path d) (swap_action (d_action d)) (d_conflict d) (d_remote d) (d_local d) (d_custom d)
        (d_strategy d) (d_similar d).
Definition swap_res (r : res builder) : res builder :=
  match r with Ok B => Ok (map swap_dec B) | Err e => Err e end.

(* a decision one of whose sides is a single non-patch entry is recorded at the path it was made for *)
Lemma add_decision_flat B p a (l r : dentry) c s sim :
  is_patch l && is_patch r = false ->
  add_decision B p a (Some [l]) (Some [r]) c s None sim = B ++ [mkDec p a c (Some [l]) (Some [r]) None s sim].
Proof.
  intros Hf. unfold add_decision.
  assert (E : forall f, ensure_common_path (S f) p [Some [l]; Some [r]; None] = (p, [Some [l]; Some [r]; None])).
  { intros f. cbn [ensure_common_path]. unfold pop_path.
    destruct l, r; try discriminate Hf; cbn; try reflexivity;
      repeat (match goal with |- context [key_eqb ?a ?b] => destruct (key_eqb a b) end); reflexivity. }
  rewrite E. reflexivity.
Qed.

(* ---------- the per-key arm of _merge_dicts is side-symmetric ----------
   For a key both sides changed, at least one of them with a non-patch entry, and no strategy configured for that key:
   merging with the sides exchanged gives exactly the decisions of the original order with the sides exchanged
   (same path, same conflict flag, local/remote diffs and the local/remote actions swapped), and fails with the same
   error exactly when the original fails.  Holds for both readings of the generated source facts. *)
Theorem merge_key_swap St strict cstrict M rec base p B key ld rd :
  is_patch ld && is_patch rd = false ->
  strat_get St (dspath p ++ 47%N :: key) = None ->
  merge_key St strict cstrict M rec base p (map swap_dec B) key rd ld
  = swap_res (merge_key St strict cstrict M rec base p B key ld rd).
Proof.
  intros Hf Hs. unfold merge_key. rewrite Hs.
  assert (Hf' : is_patch rd && is_patch ld = false) by (rewrite andb_comm; exact Hf).
  rewrite (orb_comm (is_remove rd)), (andb_comm (is_remove rd)).
  rewrite (opk_eqb_sym (op_of rd)), (same_entry_sym strict rd ld).
  unfold b_agreement, b_local, b_remote, b_conflict, b_conflict_gen, b_tryresolve, one.
  rewrite (odiff_pyeqb_sym (Some [rd])), (conflict_args_eqb_sym cstrict (Some [rd])).
  cbn [bind].
  rewrite !(add_decision_flat _ _ _ rd ld) by exact Hf'.
  rewrite !(add_decision_flat _ _ _ ld rd) by exact Hf.
  cbn [truthy andb negb].
  assert (Fin : forall a c sim, Ok (map swap_dec B ++ [mkDec p (swap_action a) c (Some [rd]) (Some [ld]) None None sim])
                 = swap_res (Ok (B ++ [mkDec p a c (Some [ld]) (Some [rd]) None None sim]))).
  { intros a c sim. cbn [swap_res]. rewrite map_app. reflexivity. }
  destruct (is_remove ld) eqn:Rl, (is_remove rd) eqn:Rr; cbn [orb andb].
  - destruct (odiff_pyeqb (Some [ld]) (Some [rd])); cbn [negb]; [|reflexivity]. apply (Fin AEither).
  - destruct (is_diff_all_transients St [rd] p); [apply (Fin ALocal)|].
    destruct (conflict_args_eqb cstrict (Some [ld]) (Some [rd])); [reflexivity|]. apply (Fin ABase).
  - destruct (is_diff_all_transients St [ld] p); [apply (Fin ARemote)|].
    destruct (conflict_args_eqb cstrict (Some [ld]) (Some [rd])); [reflexivity|]. apply (Fin ABase).
  - destruct (opk_eqb (op_of ld) (op_of rd)) eqn:Eo; cbn [negb].
    + destruct (same_entry strict ld rd).
      * destruct (odiff_pyeqb (Some [ld]) (Some [rd])); cbn [negb]; [|reflexivity]. apply (Fin AEither).
      * destruct ld, rd; try discriminate Eo; try discriminate Hf; try reflexivity;
          (destruct (conflict_args_eqb cstrict _ _); [reflexivity|apply (Fin ABase)]).
    + destruct (conflict_args_eqb cstrict (Some [ld]) (Some [rd])); [reflexivity|]. apply (Fin ABase).
Qed.

(* ---------- the general form: ensure_common_path does not care which side is which ---------- *)
Lemma key_eqb_true a b : key_eqb a b = true -> a = b.
Proof.
  destruct a, b; simpl; try discriminate; intros E.
  - apply Nat.eqb_eq in E. congruence.
  - apply str_eqb_eq in E. congruence.
Qed.

Lemma key_eqb_rfl k : key_eqb k k = true.
Proof. destruct k; simpl; [apply Nat.eqb_refl | apply str_eqb_refl]. Qed.

Definition swap2 (l : list (option diff)) : list (option diff) :=
  match l with a :: b :: r => b :: a :: r | x => x end.

Lemma pop_path_swap l r c :
  pop_path [r; l; c] = match pop_path [l; r; c] with Some (k, ds) => Some (k, swap2 ds) | None => None end.
Proof.
  unfold pop_path.
  destruct l as [[|[] [|]]|], r as [[|[] [|]]|], c as [[|[] [|]]|]; cbn; try reflexivity;
    repeat (match goal with
            | |- context [key_eqb ?a ?b] =>
                let E := fresh "E" in destruct (key_eqb a b) eqn:E;
                [apply key_eqb_true in E; subst; rewrite ?key_eqb_rfl | rewrite ?(key_eqb_sym b a), ?E]
            end; cbn); try reflexivity.
  all: try (match goal with E : key_eqb ?k ?k = false |- _ => rewrite key_eqb_rfl in E; discriminate E end).
Qed.

Lemma pop_path_len3 l r c k ds : pop_path [l; r; c] = Some (k, ds) -> exists l' r' c', ds = [l'; r'; c'].
Proof.
  unfold pop_path.
  destruct l as [[|[] [|]]|], r as [[|[] [|]]|], c as [[|[] [|]]|]; cbn;
    repeat (match goal with |- context [key_eqb ?a ?b] => destruct (key_eqb a b) end; cbn);
    intros E; inversion E; eauto.
Qed.

Lemma ensure_common_path_swap fuel : forall p l r c,
  ensure_common_path fuel p [r; l; c]
  = (fst (ensure_common_path fuel p [l; r; c]), swap2 (snd (ensure_common_path fuel p [l; r; c]))).
Proof.
  induction fuel as [|f IH]; intros p l r c; [reflexivity|].
  cbn [ensure_common_path]. rewrite (pop_path_swap l r c).
  destruct (pop_path [l; r; c]) as [[k ds]|] eqn:E; [|reflexivity].
  apply pop_path_len3 in E as (l' & r' & c' & ->). cbn [swap2]. apply IH.
Qed.

Lemma odepth_comm3 (l r c : option diff) : odepth r + odepth l + odepth c = odepth l + odepth r + odepth c.
Proof. lia. Qed.

(* recording a decision with the sides exchanged records the exchanged decision (any diffs, any depth) *)
Lemma add_decision_swap B p a l r c s cu sim :
  add_decision (map swap_dec B) p (swap_action a) r l c s cu sim
  = map swap_dec (add_decision B p a l r c s cu sim).
Proof.
  unfold add_decision. rewrite odepth_comm3, ensure_common_path_swap.
  destruct (ensure_common_path _ p [l; r; cu]) as [p' ds]. cbn [fst snd].
  destruct ds as [|l' [|r' [|c' [|x ds]]]]; cbn [swap2]; try reflexivity.
  rewrite map_app. reflexivity.
Qed.

Lemma truthy_comm (l r : option diff) : truthy r && truthy l = truthy l && truthy r.
Proof. apply andb_comm. Qed.

(* the builder entry points used by the dict merger, sides exchanged *)
Lemma b_onesided_swap B p l r : b_onesided (map swap_dec B) p r l = swap_res (b_onesided B p l r).
Proof.
  unfold b_onesided. rewrite (orb_comm (truthy r)), (andb_comm (truthy r)).
  destruct (truthy l) eqn:Tl, (truthy r) eqn:Tr; cbn [orb andb negb swap_res]; try reflexivity.
  - rewrite <- add_decision_swap. reflexivity.
  - rewrite <- add_decision_swap. reflexivity.
Qed.

Lemma b_agreement_swap B p l r : b_agreement (map swap_dec B) p r l = swap_res (b_agreement B p l r).
Proof.
  unfold b_agreement. rewrite (andb_comm (truthy r)), (odiff_pyeqb_sym r l).
  destruct (negb (truthy l && truthy r)); [reflexivity|]. destruct (negb (odiff_pyeqb l r)); [reflexivity|].
  cbn [swap_res]. rewrite <- add_decision_swap. reflexivity.
Qed.

Lemma b_local_remote_swap B p l r : b_remote (map swap_dec B) p r l = swap_res (b_local B p l r).
Proof. unfold b_remote, b_local. destruct (truthy l); [|reflexivity]. cbn [swap_res]. rewrite <- add_decision_swap. reflexivity. Qed.

Lemma b_remote_local_swap B p l r : b_local (map swap_dec B) p r l = swap_res (b_remote B p l r).
Proof. unfold b_remote, b_local. destruct (truthy r); [|reflexivity]. cbn [swap_res]. rewrite <- add_decision_swap. reflexivity. Qed.

Lemma b_conflict_swap cs B p l r : b_conflict cs (map swap_dec B) p r l None = swap_res (b_conflict cs B p l r None).
Proof.
  unfold b_conflict, b_conflict_gen, b_tryresolve. rewrite (andb_comm (truthy r)), (conflict_args_eqb_sym cs r l).
  destruct (negb (truthy l && truthy r)); [reflexivity|]. destruct (conflict_args_eqb cs l r); [reflexivity|].
  cbn [bind swap_res]. rewrite <- add_decision_swap. reflexivity.
Qed.

(* the per-key arm with no restriction on the entries: when both sides patch the key the arm recurses, so the statement
   carries the same symmetry of the recursive call as a hypothesis (discharged by induction on the fuel below) *)
Definition merge_fn_sym (M : merge_fn) : Prop :=
  forall rec bv dl dr q, M rec bv dr dl q = swap_res (M rec bv dl dr q).

(* relative form: the recursive call only has to be symmetric on the sub-merge this key actually makes *)
Theorem merge_key_swap_rel St strict cstrict (M : merge_fn) rec base p B key ld rd :
  (forall k1 dl k2 dr bv, ld = DPatch k1 dl -> rd = DPatch k2 dr -> obj_get key base = Some bv ->
     M rec bv dr dl (p ++ [KS key]) = swap_res (M rec bv dl dr (p ++ [KS key]))) ->
  strat_get St (dspath p ++ 47%N :: key) = None ->
  merge_key St strict cstrict M rec base p (map swap_dec B) key rd ld
  = swap_res (merge_key St strict cstrict M rec base p B key ld rd).
Proof.
  intros HM Hs. unfold merge_key. rewrite Hs.
  rewrite (orb_comm (is_remove rd)), (andb_comm (is_remove rd)).
  rewrite (opk_eqb_sym (op_of rd)), (same_entry_sym strict rd ld).
  unfold one.
  destruct (is_remove ld) eqn:Rl, (is_remove rd) eqn:Rr; cbn [orb andb].
  - apply b_agreement_swap.
  - destruct (is_diff_all_transients St [rd] p); [apply b_local_remote_swap | apply b_conflict_swap].
  - destruct (is_diff_all_transients St [ld] p); [apply b_remote_local_swap | apply b_conflict_swap].
  - destruct (opk_eqb (op_of ld) (op_of rd)) eqn:Eo; cbn [negb]; [|apply b_conflict_swap].
    destruct (same_entry strict ld rd); [apply b_agreement_swap|].
    destruct ld, rd; try discriminate Eo; try reflexivity; try apply b_conflict_swap.
    destruct (obj_get key base) as [bv|] eqn:Eb; [|reflexivity].
    rewrite (HM k d k0 d0 bv eq_refl eq_refl eq_refl). destruct (M rec bv d d0 (p ++ [KS key])) as [sub|e]; [|reflexivity].
    cbn [bind swap_res]. rewrite map_app. reflexivity.
Qed.

Theorem merge_key_swap_gen St strict cstrict M rec base p B key ld rd :
  merge_fn_sym M ->
  strat_get St (dspath p ++ 47%N :: key) = None ->
  merge_key St strict cstrict M rec base p (map swap_dec B) key rd ld
  = swap_res (merge_key St strict cstrict M rec base p B key ld rd).
Proof. intros HM Hs. apply merge_key_swap_rel; [|exact Hs]. intros. apply HM. Qed.
