(* C07 -- proofs about the models in Render.v *)
From Coq Require Import List NArith ZArith Bool Lia.
From NB Require Import Base.Json Base.PyStr Diff.DiffFormat Merge.Render.
Import ListNotations.
Local Open Scope N_scope.

Lemma pystr_eqb_refl a : pystr_eqb a a = true.
Proof. induction a; simpl; [reflexivity|]. rewrite N.eqb_refl. assumption. Qed.
