(* C07 -- proofs about the models in Render.v *)
From Coq Require Import List NArith ZArith Bool Lia.
From Coq Require String.
Delimit Scope string_scope with string.
Import String.StringSyntax.
From NB Require Import Base.Json.
From NB Require Import Base.PyStr.
From NB Require Import Diff.DiffFormat.
From NB Require Import Diff.Codec.
From NB Require Import Merge.Render.
Import ListNotations.
Local Open Scope N_scope.

Lemma pystr_eqb_refl a : pystr_eqb a a = true.
Proof. induction a; simpl; [reflexivity|]. rewrite N.eqb_refl. assumption. Qed.

Lemma pystr_eqb_eq a b : pystr_eqb a b = true <-> a = b.
Proof.
  revert b; induction a as [|x a IH]; intros [|y b]; simpl; split; intro H;
    try reflexivity; try discriminate.
  - apply andb_true_iff in H. destruct H as [H1 H2]. apply N.eqb_eq in H1. apply IH in H2. subst; reflexivity.
  - inversion H; subst. rewrite N.eqb_refl. simpl. apply IH. reflexivity.
Qed.

Lemma mem_In x l : mem x l = true <-> In x l.
Proof.
  unfold mem. rewrite existsb_exists. split.
  - intros [y [Hy E]]. apply pystr_eqb_eq in E. subst. assumption.
  - intros H. exists x. split; [assumption | apply pystr_eqb_refl].
Qed.

(* ------------------------------------------------------------------ chomp *)
Lemma chomp_app_nl l : chomp (l ++ [10]) = chomp l.
Proof. induction l as [|c l IH]; [reflexivity|]. simpl. rewrite IH. reflexivity. Qed.

Lemma chomp_idem l : chomp (chomp l) = chomp l.
Proof.
  induction l as [|c l IH]; [reflexivity|]. simpl.
  destruct (chomp l) as [|d r'] eqn:E.
  - destruct (is_nl c) eqn:Ec; [reflexivity|]. simpl. rewrite Ec. reflexivity.
  - simpl in IH. simpl. destruct (chomp r') as [|e r''] eqn:E2.
    + destruct (is_nl d) eqn:Ed; [discriminate IH|]. inversion IH; subst. reflexivity.
    + rewrite IH. reflexivity.
Qed.

Lemma chomp_ensure_nl l : chomp (ensure_nl l) = chomp l.
Proof. unfold ensure_nl. destruct (ends_nl l); [reflexivity | apply chomp_app_nl]. Qed.

Lemma map_chomp_ensure ls : map chomp (map ensure_nl ls) = map chomp ls.
Proof. rewrite map_map. apply map_ext. intros. apply chomp_ensure_nl. Qed.

Lemma map_chomp_bump ls : map chomp (bump_last ls) = map chomp ls.
Proof.
  induction ls as [|l r IH]; [reflexivity|]. destruct r as [|l' r'].
  - simpl. destruct (ends_nl l); [rewrite chomp_app_nl|]; reflexivity.
  - change (map chomp (bump_last (l :: l' :: r'))) with (chomp l :: map chomp (bump_last (l' :: r'))).
    rewrite IH. reflexivity.
Qed.

Lemma map_chomp_last ls : map chomp (chomp_last ls) = map chomp ls.
Proof.
  induction ls as [|l r IH]; [reflexivity|]. destruct r as [|l' r'].
  - simpl. rewrite chomp_idem. reflexivity.
  - change (map chomp (chomp_last (l :: l' :: r'))) with (chomp l :: map chomp (chomp_last (l' :: r'))).
    rewrite IH. reflexivity.
Qed.

(* ------------------------------------------------------------------ the two extraction loops *)
Lemma common_prefix_spec l r p l2 r2 :
  common_prefix l r = (p, l2, r2) -> l = p ++ l2 /\ r = p ++ r2.
Proof.
  revert r p l2 r2. induction l as [|x l IH]; intros r p l2 r2 H.
  - simpl in H. inversion H; subst. split; reflexivity.
  - destruct r as [|y r].
    + simpl in H. inversion H; subst. split; reflexivity.
    + simpl in H. destruct (pystr_eqb x y) eqn:E.
      * destruct (common_prefix l r) as [[p' l2'] r2'] eqn:E2. inversion H; subst.
        apply pystr_eqb_eq in E. subst. destruct (IH _ _ _ _ E2) as [A B].
        split; simpl; f_equal; assumption.
      * inversion H; subst. split; reflexivity.
Qed.

(* the lines of the two branches differ at their first position (when both are non-empty) *)
Lemma common_prefix_heads l r p x l2 y r2 :
  common_prefix l r = (p, x :: l2, y :: r2) -> x <> y.
Proof.
  revert r p. induction l as [|a l IH]; intros r p H.
  - simpl in H. inversion H.
  - destruct r as [|b r]; [simpl in H; inversion H|].
    simpl in H. destruct (pystr_eqb a b) eqn:E.
    + destruct (common_prefix l r) as [[p' l2'] r2'] eqn:E2. inversion H; subst. eapply IH. eassumption.
    + inversion H; subst. intro K. subst. rewrite pystr_eqb_refl in E. discriminate.
Qed.

Lemma post_loop_spec fuel local remote i j post i' j' post' :
  post_loop fuel local remote i j post = (i', j', post') ->
  (i <= i')%Z /\ (j <= j')%Z /\ (forall x, In x post' -> In x post \/ In x local).
Proof.
  revert i j post. induction fuel as [|f IH]; intros i j post H; simpl in H.
  - inversion H; subst. repeat split; try lia. auto.
  - destruct (((0 <=? i)%Z && (i <? zlen local)%Z && (0 <=? j)%Z && (j <? zlen remote)%Z)
              && pystr_eqb (znth local i) (znth remote j)) eqn:E.
    + apply IH in H. destruct H as (A & B & C). repeat split; try lia.
      intros x Hx. destruct (C x Hx) as [Hp|Hl]; [|auto].
      apply in_app_or in Hp. destruct Hp as [Hp|Hp]; [auto|]. right.
      destruct Hp as [Hp|[]]. subst x.
      repeat (apply andb_true_iff in E; destruct E as [E ?]).
      apply Z.leb_le in E. match goal with K : (i <? zlen local)%Z = true |- _ => apply Z.ltb_lt in K; unfold zlen in K end.
      unfold znth. apply nth_In. lia.
    + inversion H; subst. repeat split; try lia. auto.
Qed.

Lemma zfirstn_all k (l : list pystr) : (zlen l - 1 <= k)%Z -> zfirstn (k + 1) l = l.
Proof. intros H. unfold zfirstn, zlen in *. apply firstn_all2. lia. Qed.

(* shape of the rendered line list *)
Definition assembled (pre lo re post : list pystr) : list pystr :=
  pre ++ [sep0_line] ++ lo ++ [sep2_line] ++ re ++ [sep3_line] ++ post.

Lemma fmr_struct base local remote :
  exists pre lo re post,
    bump_last local = pre ++ lo /\ bump_last remote = pre ++ re /\
    (forall x, In x post -> In x lo) /\
    format_merge_render_lines base local remote = chomp_last (map ensure_nl (assembled pre lo re post)).
Proof.
  unfold format_merge_render_lines. cbv zeta.
  destruct (common_prefix (bump_last local) (bump_last remote)) as [[pre lo] re] eqn:E.
  cbv beta match.
  destruct (post_loop (S (length lo)) lo re (zlen lo - 1) (zlen re - 1) []) as [[i j] post] eqn:E2.
  cbv beta match.
  apply common_prefix_spec in E. destruct E as [E1 E3].
  apply post_loop_spec in E2. destruct E2 as (A & B & C).
  exists pre, lo, re, (rev post). repeat split; try assumption.
  - intros x Hx. apply in_rev in Hx. destruct (C x Hx) as [[]|K]; exact K.
  - rewrite (zfirstn_all i lo A), (zfirstn_all j re B). reflexivity.
Qed.

Lemma fmr_chomp base local remote :
  exists pre lo re post,
    map chomp local = map chomp (pre ++ lo) /\ map chomp remote = map chomp (pre ++ re) /\
    (forall x, In x post -> In x lo) /\
    map chomp (format_merge_render_lines base local remote) = map chomp (assembled pre lo re post).
Proof.
  destruct (fmr_struct base local remote) as (pre & lo & re & post & A & B & C & D).
  exists pre, lo, re, post. repeat split; try assumption.
  - rewrite <- A. symmetry. apply map_chomp_bump.
  - rewrite <- B. symmetry. apply map_chomp_bump.
  - rewrite D, map_chomp_last, map_chomp_ensure. reflexivity.
Qed.

(* ------------------------------------------------------------------ the built-in renderer: no hypothesis *)
(* every line of local and of remote (not only the added ones) occurs in the rendering *)
Theorem builtin_survival base local remote x :
  In x local \/ In x remote ->
  In (chomp x) (map chomp (format_merge_render_lines base local remote)).
Proof.
  destruct (fmr_chomp base local remote) as (pre & lo & re & post & A & B & C & D).
  rewrite D. unfold assembled. intros [H|H]; apply (in_map chomp) in H.
  - rewrite A in H. rewrite map_app in H. rewrite !map_app, !in_app_iff. apply in_app_or in H. tauto.
  - rewrite B in H. rewrite map_app in H. rewrite !map_app, !in_app_iff. apply in_app_or in H. tauto.
Qed.

Lemma marker_sep0 : is_marker (chomp sep0_line) = true. Proof. vm_compute. reflexivity. Qed.
Lemma marker_sep2 : is_marker (chomp sep2_line) = true. Proof. vm_compute. reflexivity. Qed.
Lemma marker_sep3 : is_marker (chomp sep3_line) = true. Proof. vm_compute. reflexivity. Qed.

(* every rendered line is a line of local or of remote, or one of the three marker lines *)
Theorem builtin_provenance base local remote y :
  In y (format_merge_render_lines base local remote) ->
  In (chomp y) (map chomp local) \/ In (chomp y) (map chomp remote) \/ is_marker (chomp y) = true.
Proof.
  destruct (fmr_chomp base local remote) as (pre & lo & re & post & A & B & C & D).
  intros H. apply (in_map chomp) in H. rewrite D in H. unfold assembled in H.
  rewrite A, B. rewrite !map_app in *. rewrite !in_app_iff in *.
  assert (P : In (chomp y) (map chomp post) -> In (chomp y) (map chomp lo)).
  { intros K. apply in_map_iff in K. destruct K as (z & Ez & Hz). rewrite <- Ez. apply in_map. auto. }
  simpl in H.
  destruct H as [H|[[H|[]]|[H|[[H|[]]|[H|[[H|[]]|H]]]]]]; try tauto.
  - right. right. rewrite <- H. apply marker_sep0.
  - right. right. rewrite <- H. apply marker_sep2.
  - right. right. rewrite <- H. apply marker_sep3.
Qed.

(* status 0 exactly when the two texts are equal (and then the text is returned unchanged); otherwise the rendering is
   common-prefix, <<<<<<< local, the rest of local, =======, the rest of remote, >>>>>>> remote, [repeated last line]:
   both variants are presented in full *)
Theorem builtin_flags base local remote :
  (snd (builtin_merge_render base local remote) = 0%Z <-> local = remote) /\
  (local = remote -> fst (builtin_merge_render base local remote) = local) /\
  (local <> remote ->
     snd (builtin_merge_render base local remote) = 1%Z /\
     exists pre lo re post,
       map chomp (splitlines local) = map chomp (pre ++ lo) /\
       map chomp (splitlines remote) = map chomp (pre ++ re) /\
       (forall x, In x post -> In x lo) /\
       map chomp (format_merge_render_lines (splitlines base) (splitlines local) (splitlines remote))
       = map chomp (assembled pre lo re post) /\
       fst (builtin_merge_render base local remote)
       = concat (format_merge_render_lines (splitlines base) (splitlines local) (splitlines remote))).
Proof.
  unfold builtin_merge_render. destruct (pystr_eqb local remote) eqn:E.
  - apply pystr_eqb_eq in E. subst. simpl. split; [tauto|]. split; [reflexivity|]. intros K. contradiction.
  - assert (N : local <> remote) by (intro K; subst; rewrite pystr_eqb_refl in E; discriminate).
    simpl. split; [split; [discriminate | contradiction]|]. split; [contradiction|].
    intros _. split; [reflexivity|].
    destruct (fmr_chomp (splitlines base) (splitlines local) (splitlines remote)) as (pre & lo & re & post & A & B & C & D).
    exists pre, lo, re, post. repeat split; assumption.
Qed.

(* non-vacuity / a concrete rendering: both append to an unterminated last line *)
Example builtin_example :
  builtin_merge_render (of_ascii "a"%string) (of_ascii "a"%string ++ [10] ++ of_ascii "x"%string) (of_ascii "a"%string ++ [10] ++ of_ascii "y"%string)
  = (of_ascii "a"%string ++ [10] ++ chomp sep0_line ++ [10] ++ of_ascii "x"%string ++ [10] ++ chomp sep2_line ++ [10]
       ++ of_ascii "y"%string ++ [10] ++ chomp sep3_line, 1%Z).
Proof. vm_compute. reflexivity. Qed.

(* ------------------------------------------------------------------ resolve_strategy_inline_source *)
Definition plain_char (c : N) : bool := negb (is_sep c) && negb (c =? 13).

Lemma splitlines_line_app p r :
  forallb plain_char p = true -> splitlines (p ++ 10 :: r) = (p ++ [10]) :: splitlines r.
Proof.
  induction p as [|c p IH]; intros H.
  - reflexivity.
  - simpl in H. apply andb_true_iff in H. destruct H as [Hc Hp]. unfold plain_char in Hc.
    apply andb_true_iff in Hc. destruct Hc as [H1 H2].
    apply negb_true_iff in H1. apply negb_true_iff in H2.
    change ((c :: p) ++ 10 :: r) with (c :: (p ++ 10 :: r)).
    rewrite splitlines_cons. unfold splitlines_step. rewrite H2, H1, (IH Hp). reflexivity.
Qed.

Lemma tlines_marker_app p r :
  forallb plain_char p = true -> tlines ((p ++ [10]) ++ r) = chomp (p ++ [10]) :: tlines r.
Proof.
  intros H. unfold tlines. rewrite <- app_assoc. change ([10] ++ r) with (10 :: r).
  rewrite (splitlines_line_app p r H). reflexivity.
Qed.

Definition ld_body := of_ascii "<<<<<<< LOCAL CELL DELETED >>>>>>>"%string.
Definition rd_body := of_ascii "<<<<<<< REMOTE CELL DELETED >>>>>>>"%string.
Lemma ld_plain : forallb plain_char ld_body = true. Proof. vm_compute. reflexivity. Qed.
Lemma rd_plain : forallb plain_char rd_body = true. Proof. vm_compute. reflexivity. Qed.
Lemma ld_marker : is_marker (chomp (ld_body ++ [10])) = true. Proof. vm_compute. reflexivity. Qed.
Lemma rd_marker : is_marker (chomp (rd_body ++ [10])) = true. Proof. vm_compute. reflexivity. Qed.

Lemma tlines_local_deleted r : tlines (local_deleted_marker ++ r) = chomp (ld_body ++ [10]) :: tlines r.
Proof. apply (tlines_marker_app ld_body r ld_plain). Qed.
Lemma tlines_remote_deleted r : tlines (remote_deleted_marker ++ r) = chomp (rd_body ++ [10]) :: tlines r.
Proof. apply (tlines_marker_app rd_body r rd_plain). Qed.

Definition side_lines (s : option pystr) : list pystr := match s with Some t => tlines t | None => [] end.

Section InlineSourceThms.
  Variable tool : pystr -> pystr -> pystr -> pystr * Z.

  (* the contract of the text-merge tool, asked only of the call that is actually made *)
  Definition tool_contract (base : pystr) (local remote : option pystr) : Prop :=
    forall l r, local = Some l -> remote = Some r ->
                contract_ok base l r (fst (tool base l r)) (snd (tool base l r)) = true.

  Lemma contract_parts b l r :
    contract_ok b l r (fst (tool b l r)) (snd (tool b l r)) = true ->
    contract_provenance b l r (fst (tool b l r)) = true /\
    contract_survival b l r (fst (tool b l r)) = true /\
    contract_flags b l r (fst (tool b l r)) (snd (tool b l r)) = true.
  Proof.
    unfold contract_ok. intros H. apply andb_true_iff in H. destruct H as [H H3].
    apply andb_true_iff in H. destruct H as [H1 H2]. auto.
  Qed.

  Lemma risrc_both base l r d :
    resolve_strategy_inline_source tool base (Some l) (Some r) = Some d ->
    d_source d = fst (tool base l r) /\ d_conflict d = negb (snd (tool base l r) =? 0)%Z.
  Proof.
    unfold resolve_strategy_inline_source. destruct (tool base l r) as [m st]. intros H.
    injection H as <-. split; reflexivity.
  Qed.
  Lemma risrc_rd base l d :
    resolve_strategy_inline_source tool base (Some l) None = Some d ->
    d_source d = remote_deleted_marker ++ l /\ d_conflict d = true.
  Proof. intros H. injection H as <-. split; reflexivity. Qed.
  Lemma risrc_ld base r d :
    resolve_strategy_inline_source tool base None (Some r) = Some d ->
    d_source d = local_deleted_marker ++ r /\ d_conflict d = true.
  Proof. intros H. injection H as <-. split; reflexivity. Qed.

  Theorem inline_source_survival base local remote d x :
    resolve_strategy_inline_source tool base local remote = Some d ->
    tool_contract base local remote ->
    In x (side_lines local ++ side_lines remote) -> nonblank x = true ->
    In x (tlines base) \/ In x (tlines (d_source d)).
  Proof.
    intros H Hc Hx Hn. destruct local as [l|], remote as [r|].
    - specialize (Hc l r eq_refl eq_refl). apply contract_parts in Hc. destruct Hc as (_ & Hs & _).
      destruct (risrc_both _ _ _ _ H) as [Es _]. rewrite Es. unfold side_lines in Hx.
      unfold contract_survival in Hs. rewrite forallb_forall in Hs. specialize (Hs x Hx).
      rewrite Hn in Hs. cbn [negb orb] in Hs. apply orb_true_iff in Hs. destruct Hs as [Hs|Hs]; apply mem_In in Hs; auto.
    - destruct (risrc_rd _ _ _ H) as [Es _]. rewrite Es. unfold side_lines in Hx. rewrite app_nil_r in Hx. right.
      rewrite tlines_remote_deleted. right. assumption.
    - destruct (risrc_ld _ _ _ H) as [Es _]. rewrite Es. unfold side_lines in Hx. cbn [app] in Hx. right.
      rewrite tlines_local_deleted. right. assumption.
    - discriminate.
  Qed.

  Theorem inline_source_provenance base local remote d y :
    resolve_strategy_inline_source tool base local remote = Some d ->
    tool_contract base local remote ->
    In y (tlines (d_source d)) -> nonblank y = true ->
    In y (tlines base) \/ In y (side_lines local) \/ In y (side_lines remote) \/ is_marker y = true.
  Proof.
    intros H Hc Hy Hn. destruct local as [l|], remote as [r|].
    - specialize (Hc l r eq_refl eq_refl). apply contract_parts in Hc. destruct Hc as (Hp & _ & _).
      destruct (risrc_both _ _ _ _ H) as [Es _]. rewrite Es in Hy. unfold side_lines.
      unfold contract_provenance in Hp. rewrite forallb_forall in Hp. specialize (Hp y Hy).
      rewrite Hn in Hp. rewrite !orb_true_iff in Hp.
      destruct Hp as [[[[Hp|Hp]|Hp]|Hp]|Hp]; [discriminate Hp | apply mem_In in Hp; auto | apply mem_In in Hp; auto | apply mem_In in Hp; auto | auto].
    - destruct (risrc_rd _ _ _ H) as [Es _]. rewrite Es in Hy. unfold side_lines.
      rewrite tlines_remote_deleted in Hy. destruct Hy as [Hy|Hy].
      + right. right. right. rewrite <- Hy. apply rd_marker.
      + auto.
    - destruct (risrc_ld _ _ _ H) as [Es _]. rewrite Es in Hy. unfold side_lines.
      rewrite tlines_local_deleted in Hy. destruct Hy as [Hy|Hy].
      + right. right. right. rewrite <- Hy. apply ld_marker.
      + auto.
    - discriminate.
  Qed.

  (* a deleted side always yields a conflict; a rewrite of the same position by both sides to different fresh lines
     yields a conflict with the local variant in a local branch and the remote variant in a remote branch *)
  Theorem inline_source_flags base local remote d :
    resolve_strategy_inline_source tool base local remote = Some d ->
    tool_contract base local remote ->
    (local = None \/ remote = None -> d_conflict d = true) /\
    (forall l r x y, local = Some l -> remote = Some r -> In (x, y) (clashes base l r) ->
       d_conflict d = true /\
       In x (fst (branches Outside (tlines (d_source d)))) /\
       In y (snd (branches Outside (tlines (d_source d))))).
  Proof.
    intros H Hc. split.
    - intros K. destruct local as [l|], remote as [r|].
      + destruct K; discriminate.
      + apply (risrc_rd _ _ _ H).
      + apply (risrc_ld _ _ _ H).
      + discriminate.
    - intros l r x y -> -> Hin. specialize (Hc l r eq_refl eq_refl). apply contract_parts in Hc.
      destruct Hc as (_ & _ & Hf). destruct (risrc_both _ _ _ _ H) as [Es Ec]. rewrite Es, Ec.
      unfold contract_flags in Hf. destruct (branches Outside (tlines (fst (tool base l r)))) as [lo re].
      rewrite forallb_forall in Hf. specialize (Hf (x, y) Hin). cbn [fst snd] in Hf.
      apply andb_true_iff in Hf. destruct Hf as [Hf H3]. apply andb_true_iff in Hf. destruct Hf as [H1 H2].
      apply mem_In in H2. apply mem_In in H3. cbn [fst snd]. auto.
  Qed.
End InlineSourceThms.

(* non-vacuity: the contract (with a non-empty clash set) is met by the built-in renderer on a concrete call *)
Example tool_contract_example :
  let b := [117; 10; 118; 10] in let l := [120; 10; 118; 10] in let r := [121; 10; 118; 10] in
  clashes b l r = [([120], [121])] /\
  contract_ok b l r (fst (builtin_merge_render b l r)) (snd (builtin_merge_render b l r)) = true.
Proof. vm_compute. split; reflexivity. Qed.

(* ------------------------------------------------------------------ make_inline_cell_conflict *)
Lemma In_firstn {A} n (l : list A) x : In x (firstn n l) -> In x l.
Proof. revert l; induction n; intros [|a l] H; simpl in *; try contradiction. destruct H; auto. Qed.
Lemma In_skipn {A} n (l : list A) x : In x (skipn n l) -> In x l.
Proof. revert l; induction n; intros [|a l] H; simpl in *; try contradiction; auto. Qed.

Theorem inline_cells_keep_both (cell : Type) (mk : pystr -> cell) base_cells start lvals lremove rvals rremove c :
  In c lvals \/ In c rvals ->
  In c (make_inline_cell_conflict cell mk base_cells start lvals lremove rvals rremove).
Proof.
  unfold make_inline_cell_conflict. intros H. rewrite !in_app_iff. simpl. tauto.
Qed.

Theorem inline_cells_provenance (cell : Type) (mk : pystr -> cell) base_cells start lvals lremove rvals rremove c :
  In c (make_inline_cell_conflict cell mk base_cells start lvals lremove rvals rremove) ->
  In c lvals \/ In c rvals \/ In c base_cells \/ c = mk m0_text \/ c = mk m1_text \/ c = mk m2_text.
Proof.
  unfold make_inline_cell_conflict. rewrite !in_app_iff. simpl.
  intros H.
  assert (F : forall k, In c (firstn k (skipn start base_cells)) -> In c base_cells)
    by (intros k K; apply In_firstn in K; apply In_skipn in K; exact K).
  destruct H as [[H|[]]|[[H|H]|[[H|[]]|[[H|H]|[H|[]]]]]]; auto 10.
  - apply F in H. auto.
  - apply F in H. auto.
Qed.

(* ------------------------------------------------------------------ delete-vs-edit countering *)
Definition is_patch (e : dentry) : bool := match e with DPatch _ _ => true | _ => false end.

Lemma idat_cons f e rest p tr :
  is_diff_all_transients (S f) (e :: rest) p tr =
  match e with
  | DPatch _ dd =>
      if path_in (p ++ [seg (dkey e)]) tr then is_diff_all_transients (S f) rest p tr
      else if negb (is_diff_all_transients f dd (p ++ [seg (dkey e)]) tr) then false
           else is_diff_all_transients (S f) rest p tr
  | _ => if negb (path_in (p ++ [seg (dkey e)]) tr) then false else is_diff_all_transients (S f) rest p tr
  end.
Proof. destruct e; reflexivity. Qed.

Definition nontransient (f : nat) (e : dentry) (p : path) (tr : list path) : bool :=
  match e with
  | DPatch _ dd => negb (path_in (p ++ [seg (dkey e)]) tr) && negb (is_diff_all_transients f dd (p ++ [seg (dkey e)]) tr)
  | _ => negb (path_in (p ++ [seg (dkey e)]) tr)
  end.

(* one non-transient entry anywhere in the diff makes the diff non-transient *)
Lemma idat_false f d p tr e :
  In e d -> nontransient f e p tr = true -> is_diff_all_transients (S f) d p tr = false.
Proof.
  induction d as [|h rest IH]; intros Hin Hn; [destruct Hin|].
  rewrite idat_cons. destruct Hin as [->|Hin].
  - destruct e; cbn [dkey nontransient] in Hn |- *; try (rewrite Hn; reflexivity).
    apply andb_true_iff in Hn. destruct Hn as [H1 H2]. apply negb_true_iff in H1. rewrite H1, H2. reflexivity.
  - specialize (IH Hin Hn). rewrite IH.
    destruct h; try (destruct (negb _); reflexivity).
    destruct (path_in _ _); [reflexivity|]. destruct (negb _); reflexivity.
Qed.

Lemma wdc_cons counters f e rest p :
  will_diff_counter_parent_deletion counters (S f) (e :: rest) p =
  if counters (p ++ [seg (dkey e)]) then true
  else match e with
       | DPatch _ dd => if will_diff_counter_parent_deletion counters f dd (p ++ [seg (dkey e)]) then true
                        else will_diff_counter_parent_deletion counters (S f) rest p
       | _ => will_diff_counter_parent_deletion counters (S f) rest p
       end.
Proof. destruct e; reflexivity. Qed.

Lemma wdc_true counters f d p e :
  In e d -> counters (p ++ [seg (dkey e)]) = true -> will_diff_counter_parent_deletion counters (S f) d p = true.
Proof.
  induction d as [|h rest IH]; intros Hin Hc; [destruct Hin|].
  rewrite wdc_cons. destruct Hin as [->|Hin].
  - rewrite Hc. reflexivity.
  - rewrite (IH Hin Hc). destruct (counters (p ++ [seg (dkey h)])); [reflexivity|].
    destruct h; try reflexivity.
    match goal with |- (if ?c then true else true) = true => destruct c; reflexivity end.
Qed.

Lemma cpd_cons counters f e rest p :
  create_parent_deletion_counter_diff counters (S f) (e :: rest) p =
  if counters (p ++ [seg (dkey e)]) then CParentDeleted (dkey e) :: create_parent_deletion_counter_diff counters (S f) rest p
  else match e with
       | DPatch k dd =>
           match create_parent_deletion_counter_diff counters f dd (p ++ [seg (dkey e)]) with
           | [] => create_parent_deletion_counter_diff counters (S f) rest p
           | subdiff => CPatch k subdiff :: create_parent_deletion_counter_diff counters (S f) rest p
           end
       | _ => create_parent_deletion_counter_diff counters (S f) rest p
       end.
Proof. destruct e; reflexivity. Qed.

Lemma cpd_in counters f d p e :
  In e d -> counters (p ++ [seg (dkey e)]) = true ->
  In (CParentDeleted (dkey e)) (create_parent_deletion_counter_diff counters (S f) d p).
Proof.
  induction d as [|h rest IH]; intros Hin Hc; [destruct Hin|].
  rewrite cpd_cons. destruct Hin as [->|Hin].
  - rewrite Hc. left. reflexivity.
  - specialize (IH Hin Hc). destruct (counters (p ++ [seg (dkey h)])); [right; exact IH|].
    destruct h; try exact IH.
    match goal with |- In _ (match ?c with [] => _ | _ => _ end) => destruct c; [exact IH | right; exact IH] end.
Qed.

(* every patch entry of a counter diff has a non-empty sub-diff (generic.py: "if subdiff:") *)
Fixpoint centry_nonempty (c : centry) : bool :=
  match c with
  | CParentDeleted _ => true
  | CPatch _ d => negb (match d with [] => true | _ => false end) && forallb centry_nonempty d
  end.

Lemma cpd_nonempty counters f : forall d p,
  forallb centry_nonempty (create_parent_deletion_counter_diff counters f d p) = true.
Proof.
  induction f as [|f IHf]; intros d p; [reflexivity|].
  induction d as [|e rest IH]; [reflexivity|].
  rewrite cpd_cons. destruct (counters (p ++ [seg (dkey e)])); [exact IH|].
  destruct e; try exact IH.
  pose proof (IHf d (p ++ [seg (dkey (DPatch k d))])) as Hs.
  destruct (create_parent_deletion_counter_diff counters f d (p ++ [seg (dkey (DPatch k d))])) as [|c cs]; [exact IH|].
  cbn [forallb]. apply andb_true_iff. split; [|exact IH].
  cbn [centry_nonempty]. apply andb_true_iff. split; [reflexivity | exact Hs].
Qed.

Lemma not_transient_under_source s :
  path_in ([p_cells; star; p_source] ++ [s]) default_transients = false.
Proof. vm_compute. reflexivity. Qed.

Lemma source_diff_not_transient f sd :
  (exists e rest, sd = e :: rest /\ is_patch e = false) ->
  is_diff_all_transients (S f) sd [p_cells; star; p_source] default_transients = false.
Proof.
  intros (e & rest & -> & Hp). rewrite idat_cons, not_transient_under_source.
  destruct e; simpl in Hp; try discriminate; reflexivity.
Qed.

(* One side deleted the cell, the other side's diff of the cell patches /source with a line diff (whatever else it
   changes, transient or not, before or after): the deletion is NOT taken; the cell is recursed into with the internal
   op "parent_deleted" at source, which resolve_strategy_inline_source turns into marker + edited source (conflict). *)
Theorem countered_deletion_keeps_cell f d sd :
  In (DPatch (KS p_source) sd) d ->
  (exists e rest, sd = e :: rest /\ is_patch e = false) ->
  exists cd,
    delete_vs_patch default_counters (S (S f)) d cell_path default_transients = CounterDeletion cd /\
    In (CParentDeleted (KS p_source)) cd.
Proof.
  intros Hin Hsd. unfold delete_vs_patch.
  rewrite (idat_false (S f) d cell_path default_transients _ Hin).
  - rewrite (wdc_true default_counters (S f) d cell_path _ Hin); [|reflexivity].
    eexists. split; [reflexivity|].
    apply (cpd_in default_counters (S f) d cell_path _ Hin). reflexivity.
  - unfold nontransient. change (cell_path ++ [seg (dkey (DPatch (KS p_source) sd))]) with [p_cells; star; p_source].
    rewrite (source_diff_not_transient f sd Hsd). vm_compute. reflexivity.
Qed.

(* non-vacuity, and the situation of the seeded defect: a transient metadata patch BEFORE the source patch *)
Example countered_example :
  let d := [DPatch (KS (of_ascii "metadata"%string)) [DReplace (KS (of_ascii "collapsed"%string)) (JBool true)];
            DPatch (KS p_source) [DAddRange (KI 0) (VList [JStr [120; 10]])]] in
  delete_vs_patch default_counters 3 d cell_path default_transients
  = CounterDeletion [CParentDeleted (KS p_source)]
  /\ delete_vs_patch default_counters 3 [DPatch (KS (of_ascii "metadata"%string)) [DReplace (KS (of_ascii "collapsed"%string)) (JBool true)]]
       cell_path default_transients = TakeDeletion.
Proof. vm_compute. split; reflexivity. Qed.

(* ------------------------------------------------------------------ the built-in rendering read back: variants sit in their branches *)
Lemma not_marker_parts l :
  is_marker l = false -> marker_of 60 l = false /\ marker_of 61 l = false /\ marker_of 62 l = false /\ marker_of 124 l = false.
Proof.
  unfold is_marker. intros H. apply orb_false_iff in H. destruct H as [H H4].
  apply orb_false_iff in H. destruct H as [H H3]. apply orb_false_iff in H. destruct H as [H1 H2]. auto.
Qed.

Lemma branches_plain z ls rest :
  no_markers ls = true ->
  branches z (ls ++ rest) =
  match z with
  | InLocal => (ls ++ fst (branches z rest), snd (branches z rest))
  | InRemote => (fst (branches z rest), ls ++ snd (branches z rest))
  | _ => branches z rest
  end.
Proof.
  induction ls as [|l ls IH]; intros H.
  - simpl. destruct z; destruct (branches _ rest); reflexivity.
  - simpl in H. apply andb_true_iff in H. destruct H as [Hl Hls]. apply negb_true_iff in Hl.
    destruct (not_marker_parts l Hl) as (M1 & M2 & M3 & M4).
    change ((l :: ls) ++ rest) with (l :: (ls ++ rest)). cbn [branches]. rewrite M1, M4, M2, M3.
    rewrite (IH Hls). destruct z; destruct (branches _ rest); reflexivity.
Qed.

Lemma no_markers_app a b : no_markers (a ++ b) = true <-> no_markers a = true /\ no_markers b = true.
Proof. unfold no_markers. rewrite forallb_app. apply andb_true_iff. Qed.

Lemma no_markers_sub a b : (forall x, In x a -> In x b) -> no_markers b = true -> no_markers a = true.
Proof.
  unfold no_markers. intros S H. rewrite forallb_forall in *. intros x Hx. apply H. apply S. exact Hx.
Qed.

Lemma branches_block P L R Q s0 s2 s3 :
  no_markers P = true -> no_markers L = true -> no_markers R = true -> no_markers Q = true ->
  (forall z r, branches z (s0 :: r) = branches InLocal r) ->
  (forall r, branches InLocal (s2 :: r) = branches InRemote r) ->
  (forall r, branches InRemote (s3 :: r) = branches Outside r) ->
  branches Outside (P ++ s0 :: L ++ s2 :: R ++ s3 :: Q) = (L, R).
Proof.
  intros HP HL HR HQ S0 S2 S3.
  rewrite (branches_plain Outside P _ HP). rewrite S0.
  rewrite (branches_plain InLocal L _ HL). rewrite S2.
  rewrite (branches_plain InRemote R _ HR). rewrite S3.
  replace Q with (Q ++ []) by apply app_nil_r. rewrite (branches_plain Outside Q [] HQ).
  cbn [branches fst snd]. rewrite !app_nil_r. reflexivity.
Qed.

Lemma branches_assembled pre lo re post :
  no_markers (map chomp pre) = true -> no_markers (map chomp lo) = true ->
  no_markers (map chomp re) = true -> no_markers (map chomp post) = true ->
  branches Outside (map chomp (assembled pre lo re post)) = (map chomp lo, map chomp re).
Proof.
  intros Hp Hl Hr Hq. unfold assembled. rewrite !map_app. cbn [map app].
  apply branches_block; try assumption; intros; reflexivity.
Qed.

Lemma diff_pos_in_tail {A} (p a b : list A) i x y :
  nth_error (p ++ a) i = Some x -> nth_error (p ++ b) i = Some y -> x <> y -> In x a /\ In y b.
Proof.
  revert i. induction p as [|h p IH]; intros i Hx Hy N.
  - simpl in *. split; eapply nth_error_In; eassumption.
  - destruct i as [|i]; simpl in *.
    + inversion Hx; inversion Hy; subst. contradiction.
    + eapply IH; eassumption.
Qed.

Lemma clash_at_nth bl ll rl allb x y :
  In (x, y) (clash_at bl ll rl allb) ->
  exists i, nth_error ll i = Some x /\ nth_error rl i = Some y /\ x <> y.
Proof.
  revert ll rl. induction bl as [|b bl IH]; intros ll rl H; [destruct H|].
  destruct ll as [|l ll]; [destruct H|]. destruct rl as [|r rl]; [destruct H|].
  cbn [clash_at] in H.
  destruct (negb (pystr_eqb l b) && negb (pystr_eqb r b) && negb (pystr_eqb l r) && negb (mem l allb) &&
            negb (mem r allb) && nonblank l && nonblank r) eqn:E.
  - destruct H as [H|H].
    + inversion H; subst. exists O. repeat split.
      repeat (apply andb_true_iff in E; destruct E as [E ?]).
      match goal with K : negb (pystr_eqb x y) = true |- _ => apply negb_true_iff in K; intro Q; subst; rewrite pystr_eqb_refl in K; discriminate end.
    + destruct (IH _ _ H) as (i & A & B & C). exists (S i). auto.
  - destruct (IH _ _ H) as (i & A & B & C). exists (S i). auto.
Qed.

(* Flagging for the built-in renderer, no hypothesis: if both sides rewrite the same position to different fresh lines
   (and no input line looks like a marker), the local variant is in the local branch and the remote variant in the remote
   branch of the rendered conflict block, and the status is 1. *)
Theorem builtin_flags_variants base local remote x y :
  In (x, y) (clashes base local remote) ->
  snd (builtin_merge_render base local remote) = 1%Z /\
  let out := map chomp (format_merge_render_lines (splitlines base) (splitlines local) (splitlines remote)) in
  In x (fst (branches Outside out)) /\ In y (snd (branches Outside out)).
Proof.
  unfold clashes, tlines. intros H.
  destruct ((length (map chomp (splitlines base)) =? length (map chomp (splitlines local)))%nat &&
            (length (map chomp (splitlines base)) =? length (map chomp (splitlines remote)))%nat &&
            no_markers (map chomp (splitlines base)) && no_markers (map chomp (splitlines local)) &&
            no_markers (map chomp (splitlines remote))) eqn:E; [|destruct H].
  apply andb_true_iff in E. destruct E as [E Nr]. apply andb_true_iff in E. destruct E as [E Nl].
  destruct (clash_at_nth _ _ _ _ _ _ H) as (i & Hx & Hy & Nxy).
  assert (Ne : local <> remote).
  { intro Q. subst. rewrite Hx in Hy. inversion Hy. contradiction. }
  split.
  - unfold builtin_merge_render. destruct (pystr_eqb local remote) eqn:Q; [apply pystr_eqb_eq in Q; contradiction | reflexivity].
  - cbv zeta.
    destruct (fmr_chomp (splitlines base) (splitlines local) (splitlines remote)) as (pre & lo & re & post & A & B & C & D).
    rewrite D. rewrite A in Nl, Hx. rewrite B in Nr, Hy. rewrite map_app in *.
    apply no_markers_app in Nl. destruct Nl as [Np Nlo]. apply no_markers_app in Nr. destruct Nr as [_ Nre].
    rewrite branches_assembled; try assumption.
    + cbn [fst snd]. eapply diff_pos_in_tail; eassumption.
    + apply (no_markers_sub _ (map chomp lo)); [|assumption].
      intros z Hz. apply in_map_iff in Hz. destruct Hz as (w & <- & Hw). apply in_map. auto.
Qed.
