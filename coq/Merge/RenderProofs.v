(* C07 -- proofs about the models in Render.v *)
From Coq Require Import List NArith ZArith Bool Lia.
From Coq Require String.
Delimit Scope string_scope with string.
Import String.StringSyntax.
From NB Require Import Base.Json Base.PyStr Diff.DiffFormat Diff.Codec Merge.Render.
Import ListNotations.
Local Open Scope N_scope.

Lemma pystr_eqb_refl a : pystr_eqb a a = true.
Proof. induction a; simpl; [reflexivity|]. rewrite N.eqb_refl. assumption. Qed.

Lemma pystr_eqb_eq a b : pystr_eqb a b = true <-> a = b.
Proof.
  revert b; induction a as [|x a IH]; intros [|y b]; simpl; split; intro H;
    try reflexivity; try discriminate.
  - apply andb_true_iff in H. destruct H as [H1 H2]. apply N.eqb_eq in H1. apply IH in H2. subst; reflexivity.
  - inversion H; subst. rewrite N.eqb_refl. simpl. apply IH. reflexivity.
Qed.

Lemma mem_In x l : mem x l = true <-> In x l.
Proof.
  unfold mem. rewrite existsb_exists. split.
  - intros [y [Hy E]]. apply pystr_eqb_eq in E. subst. assumption.
  - intros H. exists x. split; [assumption | apply pystr_eqb_refl].
Qed.

(* ------------------------------------------------------------------ chomp *)
Lemma chomp_app_nl l : chomp (l ++ [10]) = chomp l.
Proof. induction l as [|c l IH]; [reflexivity|]. simpl. rewrite IH. reflexivity. Qed.

Lemma chomp_idem l : chomp (chomp l) = chomp l.
Proof.
  induction l as [|c l IH]; [reflexivity|]. simpl.
  destruct (chomp l) as [|d r'] eqn:E.
  - destruct (is_nl c) eqn:Ec; [reflexivity|]. simpl. rewrite Ec. reflexivity.
  - simpl in IH. simpl. destruct (chomp r') as [|e r''] eqn:E2.
    + destruct (is_nl d) eqn:Ed; [discriminate IH|]. inversion IH; subst. reflexivity.
    + rewrite IH. reflexivity.
Qed.

Lemma chomp_ensure_nl l : chomp (ensure_nl l) = chomp l.
Proof. unfold ensure_nl. destruct (ends_nl l); [reflexivity | apply chomp_app_nl]. Qed.

Lemma map_chomp_ensure ls : map chomp (map ensure_nl ls) = map chomp ls.
Proof. rewrite map_map. apply map_ext. intros. apply chomp_ensure_nl. Qed.

Lemma map_chomp_bump ls : map chomp (bump_last ls) = map chomp ls.
Proof.
  induction ls as [|l r IH]; [reflexivity|]. destruct r as [|l' r'].
  - simpl. destruct (ends_nl l); [rewrite chomp_app_nl|]; reflexivity.
  - change (map chomp (bump_last (l :: l' :: r'))) with (chomp l :: map chomp (bump_last (l' :: r'))).
    rewrite IH. reflexivity.
Qed.

Lemma map_chomp_last ls : map chomp (chomp_last ls) = map chomp ls.
Proof.
  induction ls as [|l r IH]; [reflexivity|]. destruct r as [|l' r'].
  - simpl. rewrite chomp_idem. reflexivity.
  - change (map chomp (chomp_last (l :: l' :: r'))) with (chomp l :: map chomp (chomp_last (l' :: r'))).
    rewrite IH. reflexivity.
Qed.

(* ------------------------------------------------------------------ the two extraction loops *)
Lemma common_prefix_spec l r p l2 r2 :
  common_prefix l r = (p, l2, r2) -> l = p ++ l2 /\ r = p ++ r2.
Proof.
  revert r p l2 r2. induction l as [|x l IH]; intros r p l2 r2 H.
  - simpl in H. inversion H; subst. split; reflexivity.
  - destruct r as [|y r].
    + simpl in H. inversion H; subst. split; reflexivity.
    + simpl in H. destruct (pystr_eqb x y) eqn:E.
      * destruct (common_prefix l r) as [[p' l2'] r2'] eqn:E2. inversion H; subst.
        apply pystr_eqb_eq in E. subst. destruct (IH _ _ _ _ E2) as [A B].
        split; simpl; f_equal; assumption.
      * inversion H; subst. split; reflexivity.
Qed.

(* the lines of the two branches differ at their first position (when both are non-empty) *)
Lemma common_prefix_heads l r p x l2 y r2 :
  common_prefix l r = (p, x :: l2, y :: r2) -> x <> y.
Proof.
  revert r p. induction l as [|a l IH]; intros r p H.
  - simpl in H. inversion H.
  - destruct r as [|b r]; [simpl in H; inversion H|].
    simpl in H. destruct (pystr_eqb a b) eqn:E.
    + destruct (common_prefix l r) as [[p' l2'] r2'] eqn:E2. inversion H; subst. eapply IH. eassumption.
    + inversion H; subst. intro K. subst. rewrite pystr_eqb_refl in E. discriminate.
Qed.

Lemma post_loop_spec fuel local remote i j post i' j' post' :
  post_loop fuel local remote i j post = (i', j', post') ->
  (i <= i')%Z /\ (j <= j')%Z /\ (forall x, In x post' -> In x post \/ In x local).
Proof.
  revert i j post. induction fuel as [|f IH]; intros i j post H; simpl in H.
  - inversion H; subst. repeat split; try lia. auto.
  - destruct (((0 <=? i)%Z && (i <? zlen local)%Z && (0 <=? j)%Z && (j <? zlen remote)%Z)
              && pystr_eqb (znth local i) (znth remote j)) eqn:E.
    + apply IH in H. destruct H as (A & B & C). repeat split; try lia.
      intros x Hx. destruct (C x Hx) as [Hp|Hl]; [|auto].
      apply in_app_or in Hp. destruct Hp as [Hp|Hp]; [auto|]. right.
      destruct Hp as [Hp|[]]. subst x.
      repeat (apply andb_true_iff in E; destruct E as [E ?]).
      apply Z.leb_le in E. match goal with K : (i <? zlen local)%Z = true |- _ => apply Z.ltb_lt in K; unfold zlen in K end.
      unfold znth. apply nth_In. lia.
    + inversion H; subst. repeat split; try lia. auto.
Qed.

Lemma zfirstn_all k (l : list pystr) : (zlen l - 1 <= k)%Z -> zfirstn (k + 1) l = l.
Proof. intros H. unfold zfirstn, zlen in *. apply firstn_all2. lia. Qed.

(* shape of the rendered line list *)
Definition assembled (pre lo re post : list pystr) : list pystr :=
  pre ++ [sep0_line] ++ lo ++ [sep2_line] ++ re ++ [sep3_line] ++ post.

Lemma fmr_struct base local remote :
  exists pre lo re post,
    bump_last local = pre ++ lo /\ bump_last remote = pre ++ re /\
    (forall x, In x post -> In x lo) /\
    format_merge_render_lines base local remote = chomp_last (map ensure_nl (assembled pre lo re post)).
Proof.
  unfold format_merge_render_lines. cbv zeta.
  destruct (common_prefix (bump_last local) (bump_last remote)) as [[pre lo] re] eqn:E.
  cbv beta match.
  destruct (post_loop (S (length lo)) lo re (zlen lo - 1) (zlen re - 1) []) as [[i j] post] eqn:E2.
  cbv beta match.
  apply common_prefix_spec in E. destruct E as [E1 E3].
  apply post_loop_spec in E2. destruct E2 as (A & B & C).
  exists pre, lo, re, (rev post). repeat split; try assumption.
  - intros x Hx. apply in_rev in Hx. destruct (C x Hx) as [[]|K]; exact K.
  - rewrite (zfirstn_all i lo A), (zfirstn_all j re B). reflexivity.
Qed.

Lemma fmr_chomp base local remote :
  exists pre lo re post,
    map chomp local = map chomp (pre ++ lo) /\ map chomp remote = map chomp (pre ++ re) /\
    (forall x, In x post -> In x lo) /\
    map chomp (format_merge_render_lines base local remote) = map chomp (assembled pre lo re post).
Proof.
  destruct (fmr_struct base local remote) as (pre & lo & re & post & A & B & C & D).
  exists pre, lo, re, post. repeat split; try assumption.
  - rewrite <- A. symmetry. apply map_chomp_bump.
  - rewrite <- B. symmetry. apply map_chomp_bump.
  - rewrite D, map_chomp_last, map_chomp_ensure. reflexivity.
Qed.

(* ------------------------------------------------------------------ the built-in renderer: no hypothesis *)
(* every line of local and of remote (not only the added ones) occurs in the rendering *)
Theorem builtin_survival base local remote x :
  In x local \/ In x remote ->
  In (chomp x) (map chomp (format_merge_render_lines base local remote)).
Proof.
  destruct (fmr_chomp base local remote) as (pre & lo & re & post & A & B & C & D).
  rewrite D. unfold assembled. intros [H|H]; apply (in_map chomp) in H.
  - rewrite A in H. rewrite map_app in H. rewrite !map_app, !in_app_iff. apply in_app_or in H. tauto.
  - rewrite B in H. rewrite map_app in H. rewrite !map_app, !in_app_iff. apply in_app_or in H. tauto.
Qed.

Lemma marker_sep0 : is_marker (chomp sep0_line) = true. Proof. vm_compute. reflexivity. Qed.
Lemma marker_sep2 : is_marker (chomp sep2_line) = true. Proof. vm_compute. reflexivity. Qed.
Lemma marker_sep3 : is_marker (chomp sep3_line) = true. Proof. vm_compute. reflexivity. Qed.

(* every rendered line is a line of local or of remote, or one of the three marker lines *)
Theorem builtin_provenance base local remote y :
  In y (format_merge_render_lines base local remote) ->
  In (chomp y) (map chomp local) \/ In (chomp y) (map chomp remote) \/ is_marker (chomp y) = true.
Proof.
  destruct (fmr_chomp base local remote) as (pre & lo & re & post & A & B & C & D).
  intros H. apply (in_map chomp) in H. rewrite D in H. unfold assembled in H.
  rewrite A, B. rewrite !map_app in *. rewrite !in_app_iff in *.
  assert (P : In (chomp y) (map chomp post) -> In (chomp y) (map chomp lo)).
  { intros K. apply in_map_iff in K. destruct K as (z & Ez & Hz). rewrite <- Ez. apply in_map. auto. }
  simpl in H.
  destruct H as [H|[[H|[]]|[H|[[H|[]]|[H|[[H|[]]|H]]]]]]; try tauto.
  - right. right. rewrite <- H. apply marker_sep0.
  - right. right. rewrite <- H. apply marker_sep2.
  - right. right. rewrite <- H. apply marker_sep3.
Qed.

(* status 0 exactly when the two texts are equal (and then the text is returned unchanged); otherwise the rendering is
   common-prefix, <<<<<<< local, the rest of local, =======, the rest of remote, >>>>>>> remote, [repeated last line]:
   both variants are presented in full *)
Theorem builtin_flags base local remote :
  (snd (builtin_merge_render base local remote) = 0%Z <-> local = remote) /\
  (local = remote -> fst (builtin_merge_render base local remote) = local) /\
  (local <> remote ->
     snd (builtin_merge_render base local remote) = 1%Z /\
     exists pre lo re post,
       map chomp (splitlines local) = map chomp (pre ++ lo) /\
       map chomp (splitlines remote) = map chomp (pre ++ re) /\
       (forall x, In x post -> In x lo) /\
       map chomp (format_merge_render_lines (splitlines base) (splitlines local) (splitlines remote))
       = map chomp (assembled pre lo re post) /\
       fst (builtin_merge_render base local remote)
       = concat (format_merge_render_lines (splitlines base) (splitlines local) (splitlines remote))).
Proof.
  unfold builtin_merge_render. destruct (pystr_eqb local remote) eqn:E.
  - apply pystr_eqb_eq in E. subst. simpl. split; [tauto|]. split; [reflexivity|]. intros K. contradiction.
  - assert (N : local <> remote) by (intro K; subst; rewrite pystr_eqb_refl in E; discriminate).
    simpl. split; [split; [discriminate | contradiction]|]. split; [contradiction|].
    intros _. split; [reflexivity|].
    destruct (fmr_chomp (splitlines base) (splitlines local) (splitlines remote)) as (pre & lo & re & post & A & B & C & D).
    exists pre, lo, re, post. repeat split; assumption.
Qed.

(* non-vacuity / a concrete rendering: both append to an unterminated last line *)
Example builtin_example :
  builtin_merge_render (of_ascii "a"%string) (of_ascii "a"%string ++ [10] ++ of_ascii "x"%string) (of_ascii "a"%string ++ [10] ++ of_ascii "y"%string)
  = (of_ascii "a"%string ++ [10] ++ chomp sep0_line ++ [10] ++ of_ascii "x"%string ++ [10] ++ chomp sep2_line ++ [10]
       ++ of_ascii "y"%string ++ [10] ++ chomp sep3_line, 1%Z).
Proof. vm_compute. reflexivity. Qed.
