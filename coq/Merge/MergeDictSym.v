From Coq Require Import String.
From Coq Require Import List NArith ZArith Bool Lia.
Import ListNotations.
From NB Require Import Base.Res.
From NB Require Import Base.Json.
From NB Require Import Base.PyStr.
From NB Require Import Diff.DiffFormat.
From NB Require Import Diff.Patch.
From NB Require Import Diff.DictProofs.
From NB Require Import Merge.SortKey.
From NB Require Import Merge.Decisions.
From NB Require Import Merge.MergeGeneric.
From NB Require Import Merge.Apply.
From NB Require Import Merge.MergeProofs.
From NB Require Import Merge.MergeDisjointFlat.
From NB Require Import Merge.MergeKeySym.

(* ---------- two key-sorted association lists with the same key set list their keys in the same order ---------- *)
Lemma dict_get_some_gt k0 l : all_gt k0 l -> forall k, dict_get k l <> None -> str_ltb k0 k = true.
Proof.
  induction 1 as [|[k' e'] r Hk Hr IH]; intros k Hn; [contradiction Hn; reflexivity|].
  simpl in Hn. destruct (str_eqb k k') eqn:E; [apply str_eqb_eq in E; subst; exact Hk | apply IH; exact Hn].
Qed.

Lemma dsorted_keys_ext a : forall b, dsorted a -> dsorted b ->
  (forall k, dict_get k a = None <-> dict_get k b = None) -> map fst a = map fst b.
Proof.
  induction a as [|[ka ea] ra IH]; intros [|[kb eb] rb] Sa Sb Hx; try reflexivity.
  - exfalso. specialize (Hx kb). simpl in Hx. rewrite str_eqb_refl in Hx. destruct Hx as [Hx _]. discriminate (Hx eq_refl).
  - exfalso. specialize (Hx ka). simpl in Hx. rewrite str_eqb_refl in Hx. destruct Hx as [_ Hx]. discriminate (Hx eq_refl).
  - simpl in Sa, Sb. destruct Sa as [Ga Sa], Sb as [Gb Sb].
    assert (E : ka = kb).
    { destruct (str_eqb ka kb) eqn:E; [apply str_eqb_eq; exact E|]. exfalso.
      assert (L1 : str_ltb kb ka = true).
      { apply (dict_get_some_gt kb rb Gb). intros Hn. pose proof (Hx ka) as Hk. simpl in Hk.
        rewrite str_eqb_refl, E in Hk. destruct Hk as [_ Hk]. discriminate (Hk Hn). }
      assert (L2 : str_ltb ka kb = true).
      { apply (dict_get_some_gt ka ra Ga). intros Hn. pose proof (Hx kb) as Hk. simpl in Hk.
        rewrite str_eqb_refl, (str_eqb_sym kb ka), E in Hk. destruct Hk as [Hk _]. discriminate (Hk Hn). }
      pose proof (str_ltb_trans _ _ _ L1 L2) as L. rewrite str_ltb_irrefl in L. discriminate. }
    subst kb. simpl. f_equal. apply IH; [exact Sa | exact Sb|].
    intros k. specialize (Hx k). simpl in Hx. destruct (str_eqb k ka) eqn:E.
    + apply str_eqb_eq in E. subst k. rewrite (dict_get_not_gt _ _ Ga), (dict_get_not_gt _ _ Gb). tauto.
    + exact Hx.
Qed.

Lemma all_gt_filter f k l : all_gt k l -> all_gt k (filter f l).
Proof. unfold all_gt. intros Hl. apply Forall_forall. intros x Hx. apply filter_In in Hx as [Hx _]. rewrite Forall_forall in Hl. auto. Qed.

Lemma filter_sorted f l : dsorted l -> dsorted (filter f l).
Proof.
  induction l as [|[k e] r IH]; intros Hs; [exact I|]. simpl in Hs. destruct Hs as [Hg Hr]. cbn [filter].
  destruct (f (k, e)); [simpl; split; [apply all_gt_filter; exact Hg | apply IH; exact Hr] | apply IH; exact Hr].
Qed.

(* filtering an association list by a predicate on the key *)
Lemma dict_get_filter_key (g : pystr -> bool) k l :
  dict_get k (filter (fun kv : pystr * dentry => g (fst kv)) l) = if g k then dict_get k l else None.
Proof.
  induction l as [|[k' e'] r IH]; [destruct (g k); reflexivity|]. cbn [filter fst].
  destruct (g k') eqn:G; cbn [dict_get]; destruct (str_eqb k k') eqn:E; try exact IH.
  - apply str_eqb_eq in E. subst. rewrite G. reflexivity.
  - apply str_eqb_eq in E. subst. rewrite G in *. exact IH.
Qed.

Definition absentb (X : list (pystr * dentry)) (k : pystr) : bool := match dict_get k X with None => true | Some _ => false end.
Definition only_keys (L R : list (pystr * dentry)) : list (pystr * dentry) :=
  fold_left setkv (filter (fun kv => absentb L (fst kv)) R) (filter (fun kv => absentb R (fst kv)) L).
Definition common (L R : list (pystr * dentry)) : list (pystr * dentry) :=
  filter (fun kv => negb (absentb R (fst kv))) L.

Lemma only_keys_sym L R : dsorted L -> dsorted R -> map fst (only_keys L R) = map fst (only_keys R L).
Proof.
  intros SL SR. apply dsorted_keys_ext.
  - apply fold_set_sorted, filter_sorted, SL.
  - apply fold_set_sorted, filter_sorted, SR.
  - intros k. unfold only_keys.
    rewrite !fold_set_get by (apply filter_sorted; assumption).
    rewrite !(dict_get_filter_key (absentb L)), !(dict_get_filter_key (absentb R)). unfold absentb.
    destruct (dict_get k L), (dict_get k R); split; intros; congruence.
Qed.

Lemma common_sym L R : dsorted L -> dsorted R -> map fst (common L R) = map fst (common R L).
Proof.
  intros SL SR. apply dsorted_keys_ext; [apply filter_sorted, SL | apply filter_sorted, SR |].
  intros k. unfold common.
  rewrite (dict_get_filter_key (fun k => negb (absentb R k))), (dict_get_filter_key (fun k => negb (absentb L k))). unfold absentb.
  destruct (dict_get k L), (dict_get k R); cbn; split; intros; congruence.
Qed.

Lemma fold_left_mapfst {A} (g : A -> pystr -> A) (l : list (pystr * dentry)) a :
  fold_left (fun acc kv => g acc (fst kv)) l a = fold_left g (map fst l) a.
Proof. revert a. induction l as [|x r IH]; intros a; [reflexivity|]. cbn. apply IH. Qed.

Lemma bind_ok_id {A} (r : res A) : bind r (fun B => Ok B) = r.
Proof. destruct r; reflexivity. Qed.

Section Dicts.
  Variable St : strat.
  Variable strict cstrict : bool.
  Variable M : merge_fn.
  Variable rec : bool.
  Variable base : list (pystr * json).
  Variable p : path.
  Hypothesis Hkeys : forall key, strat_get St (dspath p ++ 47%N :: key) = None.

  Definition og (k : pystr) (X : list (pystr * dentry)) : option diff := option_map (fun e => [e]) (dict_get k X).

  Definition step1 (L R : list (pystr * dentry)) (acc : res builder) (k : pystr) : res builder :=
    do B <- acc; b_onesided B p (og k L) (og k R).
  Definition step2 (L R : list (pystr * dentry)) (acc : res builder) (k : pystr) : res builder :=
    do B <- acc;
    match dict_get k L, dict_get k R with
    | Some ld, Some rd => merge_key St strict cstrict M rec base p B k ld rd
    | _, _ => Ok B
    end.

  Lemma step1_swap L R acc k : step1 R L (swap_res acc) k = swap_res (step1 L R acc k).
  Proof. unfold step1. destruct acc as [B|e]; [|reflexivity]. cbn [swap_res bind]. apply b_onesided_swap. Qed.

  (* the recursive call is symmetric on the sub-merges the two dict-based diffs L, R make *)
  Definition sub_sym (L R : list (pystr * dentry)) : Prop :=
    forall key k1 dl k2 dr bv, dict_get key L = Some (DPatch k1 dl) -> dict_get key R = Some (DPatch k2 dr) ->
      obj_get key base = Some bv -> M rec bv dr dl (p ++ [KS key]) = swap_res (M rec bv dl dr (p ++ [KS key])).

  Lemma step2_swap L R acc k : sub_sym L R -> step2 R L (swap_res acc) k = swap_res (step2 L R acc k).
  Proof.
    intros HM. unfold step2. destruct acc as [B|e]; [|reflexivity]. cbn [swap_res bind].
    destruct (dict_get k L) as [ld|] eqn:EL, (dict_get k R) as [rd|] eqn:ER; try reflexivity.
    apply merge_key_swap_rel; [|apply Hkeys].
    intros k1 dl k2 dr bv -> -> Eb. exact (HM k k1 dl k2 dr bv EL ER Eb).
  Qed.

  Lemma fold1_swap L R ks : forall acc, fold_left (step1 R L) ks (swap_res acc) = swap_res (fold_left (step1 L R) ks acc).
  Proof. induction ks as [|k r IH]; intros acc; [reflexivity|]. cbn [fold_left]. rewrite step1_swap. apply IH. Qed.

  Lemma fold2_swap L R ks : sub_sym L R -> forall acc, fold_left (step2 R L) ks (swap_res acc) = swap_res (fold_left (step2 L R) ks acc).
  Proof. intros HM. induction ks as [|k r IH]; intros acc; [reflexivity|]. cbn [fold_left]. rewrite (step2_swap _ _ _ _ HM). apply IH. Qed.

  (* the second loop of _merge_dicts, written over the keys both sides changed *)
  Definition body2 (R : list (pystr * dentry)) (acc : res builder) (kv : pystr * dentry) : res builder :=
    do B <- acc;
    match dict_get (fst kv) R with
    | Some rd => merge_key St strict cstrict M rec base p B (fst kv) (snd kv) rd
    | None => Ok B
    end.

  Lemma fold2_general L R X : Forall (fun kv => dict_get (fst kv) L = Some (snd kv)) X -> forall acc,
    fold_left (body2 R) X acc
    = fold_left (step2 L R) (map fst (filter (fun kv => negb (absentb R (fst kv))) X)) acc.
  Proof.
    induction X as [|[k e] r IH]; intros HF acc; [reflexivity|].
    inversion HF as [|x y Hk Hr]; subst. cbn [fst snd] in Hk.
    cbn [fold_left filter fst]. unfold absentb at 1, body2 at 2. cbn [fst snd].
    destruct (dict_get k R) as [rd|] eqn:ER; cbn [negb map fold_left].
    - replace (step2 L R acc (fst (k, e))) with (do B <- acc; merge_key St strict cstrict M rec base p B k e rd)
        by (unfold step2; cbn [fst]; rewrite Hk, ER; reflexivity).
      apply IH. exact Hr.
    - rewrite bind_ok_id. apply IH. exact Hr.
  Qed.

  Lemma fold2_as_common L R : dsorted L -> forall acc,
    fold_left (body2 R) L acc = fold_left (step2 L R) (map fst (common L R)) acc.
  Proof. intros SL acc. apply fold2_general. apply sorted_lookup. exact SL. Qed.

  (* the first loop, over the keys only one side changed *)
  Lemma fold1_as_keys L R (X : list (pystr * dentry)) acc :
    fold_left (fun (acc : res builder) kv =>
                do B <- acc;
                b_onesided B p (option_map (fun e => [e]) (dict_get (fst kv) L))
                               (option_map (fun e => [e]) (dict_get (fst kv) R))) X acc
    = fold_left (step1 L R) (map fst X) acc.
  Proof. apply (fold_left_mapfst (step1 L R)). Qed.

  Lemma as_dict_err d : forall acc e, as_dict_based_diff d acc = Err e -> e = TypeError.
  Proof.
    induction d as [|x r IH]; intros acc e E; simpl in E; [discriminate|].
    destruct (dkey x); [congruence | eapply IH; exact E].
  Qed.

  Variable H : hooks.
  Hypothesis Hdict : strat_get St (dspath p) = None.

  Theorem merge_dicts_swap_rel ld rd :
    (forall key dl dr bv, In (DPatch (KS key) dl) ld -> In (DPatch (KS key) dr) rd -> obj_get key base = Some bv ->
       M rec bv dr dl (p ++ [KS key]) = swap_res (M rec bv dl dr (p ++ [KS key]))) ->
    merge_dicts St H strict cstrict M rec base p rd ld = swap_res (merge_dicts St H strict cstrict M rec base p ld rd).
  Proof.
    intros HMd. unfold merge_dicts.
    destruct (as_dict_based_diff ld []) as [L|eL] eqn:EL; destruct (as_dict_based_diff rd []) as [R|eR] eqn:ER; cbn [bind].
    2: { apply as_dict_err in ER. subst. reflexivity. }
    2: { apply as_dict_err in EL. subst. reflexivity. }
    2: { apply as_dict_err in EL. apply as_dict_err in ER. subst. reflexivity. }
    assert (SL : dsorted L) by (exact (as_dict_sorted ld [] L I EL)).
    assert (SR : dsorted R) by (exact (as_dict_sorted rd [] R I ER)).
    fold (body2 L). fold (body2 R).
    change (fold_left (fun acc kv => dict_set (fst kv) (snd kv) acc)
              (filter (fun kv => match dict_get (fst kv) R with None => true | Some _ => false end) L)
              (filter (fun kv => match dict_get (fst kv) L with None => true | Some _ => false end) R))
      with (only_keys R L).
    change (fold_left (fun acc kv => dict_set (fst kv) (snd kv) acc)
              (filter (fun kv => match dict_get (fst kv) L with None => true | Some _ => false end) R)
              (filter (fun kv => match dict_get (fst kv) R with None => true | Some _ => false end) L))
      with (only_keys L R).
    rewrite (fold1_as_keys R L), (fold1_as_keys L R).
    rewrite (only_keys_sym R L SR SL).
    change (Ok (@nil decision)) with (swap_res (Ok [])) at 1.
    rewrite fold1_swap.
    destruct (fold_left (step1 L R) (map fst (only_keys L R)) (Ok [])) as [B1|e1]; cbn [swap_res bind]; [|reflexivity].
    rewrite (fold2_as_common R L SR), (fold2_as_common L R SL), (common_sym R L SR SL).
    change (Ok (map swap_dec B1)) with (swap_res (Ok B1)).
    assert (HLR : sub_sym L R).
    { intros key k1 dl k2 dr bv E1 E2 Eb.
      apply dict_get_in in E1. apply dict_get_in in E2.
      destruct (as_dict_members ld [] L EL _ _ E1) as [[]|[I1 K1]].
      destruct (as_dict_members rd [] R ER _ _ E2) as [[]|[I2 K2]].
      cbn [dkey] in K1, K2. subst k1 k2. exact (HMd key dl dr bv I1 I2 Eb). }
    rewrite (fold2_swap _ _ _ HLR).
    destruct (fold_left (step2 L R) (map fst (common L R)) (Ok B1)) as [B2|e2]; cbn [swap_res bind]; [|reflexivity].
    unfold dict_strategy. rewrite Hdict. unfold resolve_conflicted_dict.
    destruct (negb (resolve_guard (map swap_dec B2) None)), (negb (resolve_guard B2 None)); reflexivity.
  Qed.

  Theorem merge_dicts_swap ld rd : merge_fn_sym M ->
    merge_dicts St H strict cstrict M rec base p rd ld = swap_res (merge_dicts St H strict cstrict M rec base p ld rd).
  Proof. intros HM. apply merge_dicts_swap_rel. intros. apply HM. Qed.
End Dicts.

(* ---------- the whole recursion, for documents in which the two sides meet only inside objects ----------
   objmeet base ld rd: base is an object, and wherever BOTH diffs patch the same key, the value there again satisfies
   objmeet with the two sub-diffs.  No restriction on anything else: any values, any one-sided or two-sided
   add / remove / replace entries, one-sided patches into lists and strings to any depth, any transients table. *)
Inductive objmeet : json -> diff -> diff -> Prop :=
| om_obj kv ld rd :
    (forall key dl dr bv, In (DPatch (KS key) dl) ld -> In (DPatch (KS key) dr) rd -> obj_get key kv = Some bv ->
       objmeet bv dl dr) ->
    objmeet (JObj kv) ld rd.

Lemma strat_get_empty St k : st_table St = [] -> strat_get St k = None.
Proof. intros E. unfold strat_get. rewrite E. reflexivity. Qed.

Theorem merge_objmeet_swap O cfg St H gk strict cstrict : st_table St = [] ->
  forall n rec base ld rd p, objmeet base ld rd ->
    merge O cfg St H gk strict cstrict n rec base rd ld p
    = swap_res (merge O cfg St H gk strict cstrict n rec base ld rd p).
Proof.
  intros Hst. induction n as [|n IH]; intros rec base ld rd p Hm; [reflexivity|].
  destruct Hm as [kv ld rd Hsub]. cbn [merge].
  apply merge_dicts_swap_rel.
  - intros key. apply strat_get_empty. exact Hst.
  - apply strat_get_empty. exact Hst.
  - intros key dl dr bv I1 I2 Eb. apply IH. exact (Hsub key dl dr bv I1 I2 Eb).
Qed.

(* sorting by a key commutes with any map that leaves the key alone *)
Lemma insert_desc_map {A} (key : A -> list skel) (g : A -> A) (Hg : forall x, key (g x) = key x) x l :
  insert_desc key (g x) (map g l) = map g (insert_desc key x l).
Proof.
  induction l as [|y r IH]; [reflexivity|]. cbn [map insert_desc]. rewrite !Hg.
  destruct (sk_cmp (key y) (key x)); try reflexivity. cbn [map]. rewrite IH. reflexivity.
Qed.

Lemma sort_desc_map {A} (key : A -> list skel) (g : A -> A) (Hg : forall x, key (g x) = key x) l :
  sort_desc key (map g l) = map g (sort_desc key l).
Proof.
  unfold sort_desc. induction l as [|x r IH]; [reflexivity|]. cbn [map fold_right]. rewrite IH.
  apply insert_desc_map. exact Hg.
Qed.

Lemma validated_swap B : validated (map swap_dec B) = map swap_dec (validated B).
Proof.
  unfold validated. rewrite map_map.
  rewrite (map_ext (fun x => drop_strategy (swap_dec x)) (fun x => swap_dec (drop_strategy x))) by reflexivity.
  rewrite <- (map_map drop_strategy swap_dec).
  apply (sort_desc_map (fun d => sort_key (d_path d)) swap_dec). reflexivity.
Qed.

Definition swap_decs (r : res (list decision)) : res (list decision) :=
  match r with Ok B => Ok (map swap_dec B) | Err e => Err e end.

(* the public entry point decide_merge_with_diff: exchanging the two sides' diffs exchanges the sides of every decision
   returned (same paths, same order, same conflict flags, hence the same verdict), and nothing else *)
Theorem decide_objmeet_swap O cfg St H gk strict cstrict base ld rd :
  st_table St = [] -> objmeet base ld rd ->
  decide_merge_with_diff O cfg St H gk strict cstrict base rd ld
  = swap_decs (decide_merge_with_diff O cfg St H gk strict cstrict base ld rd).
Proof.
  intros Hst Hm. unfold decide_merge_with_diff.
  rewrite (merge_objmeet_swap O cfg St H gk strict cstrict Hst _ _ _ _ _ _ Hm).
  destruct (merge O cfg St H gk strict cstrict (mfuel base) false base ld rd []) as [B|e]; [|reflexivity].
  cbn [swap_res bind swap_decs]. rewrite (strat_get_empty St _ Hst).
  unfold resolve_strategy_generic.
  destruct (negb (resolve_guard (map swap_dec B) None)), (negb (resolve_guard B None)); rewrite validated_swap; reflexivity.
Qed.

Lemma has_conflicted_swap B : has_conflicted (map swap_dec B) = has_conflicted B.
Proof. unfold has_conflicted. induction B as [|d r IH]; [reflexivity|]. cbn. rewrite IH. reflexivity. Qed.

(* ---------- the merged document ---------- *)
(* decisions whose application does not depend on which side is called local: everything the merge core records without
   a strategy, except an agreement (action either) whose two sides are not the same JSON diff *)
Definition side_neutral (d : decision) : Prop :=
  match d_action d with
  | ABase | ALocal | ARemote | ACustom | ALocalThenRemote | ARemoteThenLocal | AClearAll => True
  | AEither => d_local d = d_remote d
  | _ => False
  end.

Lemma resolve_action_swap base d : side_neutral d -> resolve_action base (swap_dec d) = resolve_action base d.
Proof.
  unfold side_neutral, resolve_action, swap_dec. destruct d as [p a c l r cu s sim]. cbn [d_action d_local d_remote d_custom swap_action].
  destruct a; cbn [swap_action]; intros Hn; try contradiction; try reflexivity.
  - cbn in Hn. subst. reflexivity.
  - destruct l, r; reflexivity.
  - destruct l, r; reflexivity.
Qed.

Lemma apply_step_swap st d : side_neutral d -> apply_step st (swap_dec d) = apply_step st d.
Proof.
  intros Hn. unfold apply_step.
  assert (Ec : is_clear_all (d_action (swap_dec d)) = is_clear_all (d_action d)) by (destruct d as [p a c l r cu s sim]; destruct a; reflexivity).
  change (d_path (swap_dec d)) with (d_path d). rewrite Ec.
  destruct (split_string_path (a_merged st) (d_path d)) as [[p line]|e]; [|reflexivity]. cbn [bind].
  destruct (opath_eqb p (a_prev st)).
  - destruct (a_clear_all st); [reflexivity|].
    rewrite (resolve_action_swap _ d Hn). reflexivity.
  - destruct (flush st) as [m|e]; [|reflexivity]. cbn [bind].
    destruct (get_path m p) as [resolved|e]; [|reflexivity]. cbn [bind].
    rewrite (resolve_action_swap _ d Hn). reflexivity.
Qed.

Lemma apply_loop_swap ds : forall st, Forall side_neutral ds -> apply_loop st (map swap_dec ds) = apply_loop st ds.
Proof.
  induction ds as [|d r IH]; intros st HF; [reflexivity|]. inversion HF as [|x y Hd Hr]; subst.
  cbn [map apply_loop]. rewrite (apply_step_swap st d Hd).
  destruct (apply_step st d) as [st'|e]; [|reflexivity]. cbn [bind]. apply IH. exact Hr.
Qed.

(* applying the decisions with the sides exchanged builds the same merged document *)
Theorem apply_decisions_swap base ds : Forall side_neutral ds ->
  apply_decisions base (map swap_dec ds) = apply_decisions base ds.
Proof. intros HF. unfold apply_decisions. rewrite (apply_loop_swap ds _ HF). reflexivity. Qed.

(* both halves of the symmetry clause for documents where the sides meet only inside objects: same verdict, and the
   same merged document provided every agreement decision records JSON-identical diffs on its two sides *)
Theorem decide_apply_objmeet_swap O cfg St H gk strict cstrict base ld rd D :
  st_table St = [] -> objmeet base ld rd ->
  decide_merge_with_diff O cfg St H gk strict cstrict base ld rd = Ok D ->
  exists D', decide_merge_with_diff O cfg St H gk strict cstrict base rd ld = Ok D'
             /\ D' = map swap_dec D
             /\ has_conflicted D' = has_conflicted D
             /\ (Forall side_neutral D -> apply_decisions base D' = apply_decisions base D).
Proof.
  intros Hst Hm HD. exists (map swap_dec D).
  rewrite (decide_objmeet_swap O cfg St H gk strict cstrict base ld rd Hst Hm), HD.
  split; [reflexivity|]. split; [reflexivity|]. split; [apply has_conflicted_swap | apply apply_decisions_swap].
Qed.
