(* Totality for flat list diffs: the sanity asserts of make_merge_chunks hold (the first chunk starts at 0, the last ends at
   len(base)), so the one-sided / agreeing merges of MergeOnesidedList.v RETURN: the laws hold unconditionally. *)
From Coq Require Import String.
From Coq Require Import List NArith ZArith Bool Lia.
From NB Require Import Base.Res Base.Json Base.PyStr Diff.DiffFormat Diff.Patch Diff.GenericDiff Diff.Codec
     Merge.SortKey Merge.Chunks Merge.Decisions Merge.Apply Merge.MergeGeneric Gen.MergeFacts
     Merge.MergeProofs Merge.MergeApplyProofs Merge.MergeOnesidedList.
Import ListNotations.

Definition c_j (c : chunk) : nat := let '(j, _, _, _) := c in j.
Definition c_k (c : chunk) : nat := let '(_, k, _, _) := c in k.

Lemma make_chunks_first r s0 s1 : r <> [] -> incr (0 :: r) ->
  exists c rest, make_chunks (0 :: r) s0 s1 = c :: rest /\ c_j c = 0.
Proof.
  intros Hr Hi. cbn [make_chunks]. destruct (take_key s0 0) as [a0 b0]. destruct (take_key s1 0) as [a1 b1].
  destruct r as [|y r']; [congruence|]. cbn [incr] in Hi. destruct Hi as [Hy _]. inversion Hy; subst.
  replace (Nat.ltb 0 y) with true by (symmetry; apply Nat.ltb_lt; assumption). cbn [orb].
  eexists. eexists. split; [reflexivity | reflexivity].
Qed.

Lemma make_chunks_last n : forall bs s0 s1, incr bs -> last bs n = n ->
  forall c rest, make_chunks bs s0 s1 = c :: rest -> c_k (last (c :: rest) (0, 0, [], [])) = n.
Proof.
  induction bs as [|j r IH]; intros s0 s1 Hi Hl c rest E; [discriminate|].
  cbn [make_chunks] in E. destruct (take_key s0 j) as [a0 b0]. destruct (take_key s1 j) as [a1 b1].
  cbn [incr] in Hi. destruct Hi as [Hj Hr].
  destruct r as [|y r'].
  - cbn [last] in Hl. rewrite Hl in E. cbn [make_chunks] in E. destruct (Nat.ltb n n || nonempty a0 || nonempty a1); [|discriminate].
    injection E as E1 E2. rewrite <- E1, <- E2. reflexivity.
  - assert (Hl' : last (y :: r') n = n) by exact Hl.
    destruct (make_chunks (y :: r') b0 b1) as [|c' rest'] eqn:EM.
    + (* nothing after: then y is the last boundary *)
      destruct r' as [|z r''].
      * cbn [last] in Hl'. rewrite Hl' in E. destruct (Nat.ltb j n || nonempty a0 || nonempty a1); [|discriminate].
        injection E as E1 E2. rewrite <- E1, <- E2. reflexivity.
      * exfalso. cbn [make_chunks] in EM. destruct (take_key b0 y) as [p0 q0]. destruct (take_key b1 y) as [p1 q1].
        cbn [incr] in Hr. destruct Hr as [Hz _]. inversion Hz; subst.
        replace (Nat.ltb y z) with true in EM by (symmetry; apply Nat.ltb_lt; assumption). cbn [orb] in EM. discriminate.
    + pose proof (IH b0 b1 Hr Hl' c' rest' EM) as L.
      destruct (Nat.ltb j y || nonempty a0 || nonempty a1).
      * injection E as E1 E2. rewrite <- E1, <- E2.
        change (last ((j, y, a0, a1) :: c' :: rest') (0, 0, [], [])) with (last (c' :: rest') (0, 0, [], [])). exact L.
      * injection E as E1 E2. rewrite <- E1, <- E2. exact L.
Qed.

(* the boundary list of well-formed diffs starts with 0 and ends with n *)
Lemma bs_ends n bs (P : nat -> Prop) :
  incr bs -> (forall b, In b bs <-> (b = n \/ b = 0) \/ P b) -> (forall b, P b -> b <= n) ->
  (exists r, bs = 0 :: r) /\ last bs n = n.
Proof.
  intros Hi Hin Hb. split.
  - destruct bs as [|x q]; [exfalso; apply (Hin 0); left; right; reflexivity|].
    assert (I0 : In 0 (x :: q)) by (apply Hin; left; right; reflexivity).
    destruct I0 as [->|I0]; [eexists; reflexivity|]. cbn [incr] in Hi. destruct Hi as [Hx _]. rewrite Forall_forall in Hx. specialize (Hx 0 I0). lia.
  - assert (Hle : forall b, In b bs -> b <= n) by (intros b Hbi; apply Hin in Hbi as [[->| ->]|X]; [lia | lia | apply Hb; exact X]).
    assert (Hn : In n bs) by (apply Hin; left; left; reflexivity).
    clear Hin Hb. induction bs as [|x q IH]; [destruct Hn|]. cbn [incr] in Hi. destruct Hi as [Hx Hq].
    destruct q as [|y q'].
    + destruct Hn as [->|[]]. reflexivity.
    + change (last (x :: y :: q') n) with (last (y :: q') n). apply IH; [exact Hq | intros b Hbi; apply Hle; right; exact Hbi|].
      destruct Hn as [->|Hn]; [|exact Hn]. exfalso. rewrite Forall_forall in Hx. specialize (Hx y (or_introl eq_refl)).
      specialize (Hle y (or_intror (or_introl eq_refl))). lia.
Qed.

Lemma mmc_guard_ok gk n bs s0 s1 :
  incr bs -> (exists r, bs = 0 :: r) -> last bs n = n -> (n = 0 -> s0 <> [] \/ s1 <> []) ->
  Forall (fun e => knat e <= n) s0 -> Forall (fun e => knat e <= n) s1 ->
  (forall e, In e s0 -> In (knat e) bs) -> (forall e, In e s1 -> In (knat e) bs) ->
  (if Nat.ltb 0 n || match gk with GuardListTruthy => true | GuardAnyDiff => nonempty s0 || nonempty s1 end
   then match make_chunks bs s0 s1 with
        | [] => Err AssertionError
        | (j0, _, _, _) :: _ =>
            if negb (Nat.eqb j0 0) then Err AssertionError else
            match last (make_chunks bs s0 s1) (0, 0, [], []) with
            | (_, kn, _, _) => if Nat.eqb kn n then Ok (make_chunks bs s0 s1) else Err AssertionError
            end
        end
   else Ok (make_chunks bs s0 s1)) = Ok (make_chunks bs s0 s1).
Proof.
  intros Hi (r & ->) Hl Hne _ _ I0 I1.
  destruct (Nat.ltb 0 n || _); [|reflexivity].
  assert (NE : exists c rest, make_chunks (0 :: r) s0 s1 = c :: rest /\ c_j c = 0).
  { destruct r as [|y r'].
    - (* bs = [0], so n = 0: the diff is not empty and all its entries sit at 0 *)
      cbn [last] in Hl. subst n. cbn [make_chunks].
      assert (T : forall s : diff, (forall e, In e s -> In (knat e) [0]) -> take_key s 0 = (s, [])).
      { induction s as [|e s IHs]; intros Hs; [reflexivity|]. cbn [take_key].
        destruct (Hs e (or_introl eq_refl)) as [E|[]]. rewrite <- E. cbn [Nat.eqb].
        rewrite IHs by (intros x Hx; apply Hs; right; exact Hx). reflexivity. }
      rewrite (T s0 I0), (T s1 I1). cbn [make_chunks].
      destruct (Hne eq_refl) as [X|X].
      + destruct s0; [congruence|]. cbn [nonempty orb]. rewrite orb_true_r. cbn [orb]. eexists. eexists. split; reflexivity.
      + destruct s1; [congruence|]. cbn [nonempty]. rewrite orb_true_r. eexists. eexists. split; reflexivity.
    - apply make_chunks_first; [discriminate | exact Hi]. }
  destruct NE as (c & rest & EM & Hj). rewrite EM. destruct c as [[[j0 k0] a0] b0]. cbn [c_j] in Hj. subst j0. cbn [Nat.eqb negb].
  pose proof (make_chunks_last n (0 :: r) s0 s1 Hi Hl _ _ EM) as L.
  assert (G : forall (c : chunk) (X : list chunk), c_k c = n ->
                (let '(_, kn, _, _) := c in if Nat.eqb kn n then Ok X else Err AssertionError) = Ok X).
  { intros [[[? kn] ?] ?] X Hk. cbn [c_k] in Hk. rewrite Hk, Nat.eqb_refl. reflexivity. }
  apply G. exact L.
Qed.

Lemma mmc_flat_ok gk n d (who : nat) :
  lst_ok n 0 0 d -> d <> [] ->
  exists chunks, make_merge_chunks_with gk n (match who with 1 => [] | _ => d end) (match who with 0 => [] | _ => d end) = Ok chunks.
Proof.
  intros Hok Hne.
  assert (KI : Forall (fun e => exists i, dkey e = KI i) d) by exact (lst_ok_keys n d 0 0 Hok).
  assert (BND : forall b, bnd_of d b -> b <= n) by exact (lst_ok_bounds n d 0 0 Hok).
  assert (KN : Forall (fun e => knat e <= n) d).
  { apply Forall_forall. intros e He. apply BND. exists e. split; [exact He | left; reflexivity]. }
  destruct (gsb_spec d (set_add n [0]) KI) as (b1 & G1 & G2 & G3).
  assert (I1 : incr b1) by (apply G2; apply set_add_incr; cbn [incr]; split; constructor).
  assert (G3' : forall b, In b b1 <-> (b = n \/ b = 0) \/ bnd_of d b).
  { intros b. rewrite G3, set_add_in. cbn [In]. intuition. }
  destruct (bs_facts n d b1 Hok I1 G3') as (S1 & S2 & S3).
  destruct (bs_ends n b1 (bnd_of d) I1 G3' BND) as (Hhead & Hlast).
  unfold make_merge_chunks_with.
  destruct who as [|[|who]].
  - (* local only *)
    rewrite G1. cbn [bind get_section_boundaries]. unfold split_diffs_on_boundaries. rewrite S1. cbn [bind split_diffs_go].
    eexists. apply (mmc_guard_ok gk n b1 d [] I1 Hhead Hlast); [intros _; left; exact Hne | exact KN | constructor | exact S2 | intros e []].
  - (* remote only *)
    cbn [bind get_section_boundaries]. rewrite G1. cbn [bind]. unfold split_diffs_on_boundaries. cbn [split_diffs_go bind]. rewrite S1. cbn [bind].
    eexists. apply (mmc_guard_ok gk n b1 [] d I1 Hhead Hlast); [intros _; right; exact Hne | constructor | exact KN | intros e [] | exact S2].
  - (* both *)
    rewrite G1. cbn [bind].
    destruct (gsb_spec d b1 KI) as (b2 & F1 & F2 & F3). rewrite F1. cbn [bind].
    assert (I2 : incr b2) by (apply F2; exact I1).
    assert (F3' : forall b, In b b2 <-> (b = n \/ b = 0) \/ bnd_of d b) by (intros b; rewrite F3, G3'; intuition).
    destruct (bs_facts n d b2 Hok I2 F3') as (T1 & T2 & T3).
    destruct (bs_ends n b2 (bnd_of d) I2 F3' BND) as (Hhead2 & Hlast2).
    unfold split_diffs_on_boundaries. rewrite T1. cbn [bind].
    eexists. apply (mmc_guard_ok gk n b2 d d I2 Hhead2 Hlast2); [intros _; left; exact Hne | exact KN | exact KN | exact T2 | exact T2].
Qed.

Section Total.
  Variable O : oracles.
  Variable cfg : config.
  Variable St : strat.
  Variable H : hooks.
  Variable gk : guard_kind.
  Variable strict : bool.
  Variable cstrict : bool.

  (* the merge of a flat list diff returns, in each of the three roles *)
  Lemma decide_flat_list_returns l d (who : nat) :
    lst_ok (length l) 0 0 d -> d <> [] ->
    exists decs, decide_merge_with_diff O cfg St H gk strict cstrict (JArr l)
                   (match who with 1 => [] | _ => d end) (match who with 0 => [] | _ => d end) = Ok decs.
  Proof.
    intros Hok Hne. destruct (mmc_flat_ok gk (length l) d who Hok Hne) as (chunks & EC).
    pose proof (lst_ok_flat _ d 0 0 Hok) as Fd.
    unfold decide_merge_with_diff, mfuel. replace (depth (JArr l) + 3) with (S (depth (JArr l) + 2)) by lia. cbn [merge].
    unfold merge_lists. rewrite EC. cbn [bind].
    assert (FL : forall c e, In c chunks -> (In e (c_d0 c) \/ In e (c_d1' c)) -> is_patch e = false).
    { destruct who as [|[|who]].
      - destruct (onesided_chunks gk _ d chunks Hok EC) as [C1 C2]. intros c e Hc [He|He].
        + unfold flat in Fd. rewrite Forall_forall in Fd. apply Fd. rewrite <- C1. apply in_concat. exists (c_d0 c). split; [apply in_map; exact Hc | exact He].
        + rewrite Forall_forall in C2. rewrite (C2 c Hc) in He. destruct He.
      - destruct (remote_chunks gk _ d chunks Hok EC) as [C1 C2]. intros c e Hc [He|He].
        + rewrite Forall_forall in C2. rewrite (C2 c Hc) in He. destruct He.
        + unfold flat in Fd. rewrite Forall_forall in Fd. apply Fd. rewrite <- C1. apply in_concat. exists (c_d1' c). split; [apply in_map; exact Hc | exact He].
      - destruct (agree_chunks gk _ d chunks Hok EC) as [C1 C2]. intros c e Hc He.
        assert (He0 : In e (c_d0 c)) by (destruct He as [He|He]; [exact He | rewrite Forall_forall in C2; rewrite (C2 c Hc); exact He]).
        unfold flat in Fd. rewrite Forall_forall in Fd. apply Fd. rewrite <- C1. apply in_concat. exists (c_d0 c). split; [apply in_map; exact Hc | exact He0]. }
    assert (MC : exists B, merge_chunks O cfg St H strict cstrict (merge O cfg St H gk strict cstrict (depth (JArr l) + 2)) false l [] [] chunks = Ok B /\ no_conf B).
    { destruct who as [|[|who]].
      - destruct (onesided_chunks gk _ d chunks Hok EC) as [C1 C2].
        eexists. split; [apply merge_chunks_onesided|].
        + rewrite Forall_forall in *. intros c Hc. split; [apply C2; exact Hc|]. unfold flat. apply Forall_forall. intros e He. apply (FL c e Hc). left. exact He.
        + unfold no_conf. cbn [app]. rewrite Forall_map. apply Forall_forall. intros; reflexivity.
      - destruct (remote_chunks gk _ d chunks Hok EC) as [C1 C2].
        eexists. split; [apply merge_chunks_remote|].
        + rewrite Forall_forall in *. intros c Hc. split; [apply C2; exact Hc|]. unfold flat. apply Forall_forall. intros e He. apply (FL c e Hc). right. exact He.
        + unfold no_conf. cbn [app]. rewrite Forall_map. apply Forall_forall. intros; reflexivity.
      - destruct (agree_chunks gk _ d chunks Hok EC) as [C1 C2].
        eexists. split; [apply merge_chunks_agree|].
        + rewrite Forall_forall in *. intros c Hc. split; [apply C2; exact Hc|]. unfold flat. apply Forall_forall. intros e He. apply (FL c e Hc). left. exact He.
        + unfold no_conf. cbn [app]. rewrite Forall_map. apply Forall_forall. intros; reflexivity. }
    destruct MC as (B & MB & NB).
    match goal with |- context [bind (bind ?X _) _] => replace X with (Ok B : res builder) by (symmetry; exact MB) end.
    cbn [bind]. rewrite (resolve_conflicted_list_no_conf H [] l B _ NB). cbn [bind]. eexists. reflexivity.
  Qed.

  Theorem onesided_flat_list_total l d :
    lst_ok (length l) 0 0 d -> d <> [] ->
    exists decs, decide_merge_with_diff O cfg St H gk strict cstrict (JArr l) d [] = Ok decs
                 /\ no_conf decs /\ apply_decisions (JArr l) decs = patch (pfuel (JArr l) d) (JArr l) d.
  Proof.
    intros Hok Hne. destruct (decide_flat_list_returns l d 0 Hok Hne) as (decs & E).
    exists decs. split; [exact E|]. exact (onesided_flat_list O cfg St H gk strict cstrict l d decs Hok Hne E).
  Qed.

  Theorem onesided_remote_flat_list_total l d :
    lst_ok (length l) 0 0 d -> d <> [] ->
    exists decs, decide_merge_with_diff O cfg St H gk strict cstrict (JArr l) [] d = Ok decs
                 /\ no_conf decs /\ apply_decisions (JArr l) decs = patch (pfuel (JArr l) d) (JArr l) d.
  Proof.
    intros Hok Hne. destruct (decide_flat_list_returns l d 1 Hok Hne) as (decs & E).
    exists decs. split; [exact E|]. exact (onesided_remote_flat_list O cfg St H gk strict cstrict l d decs Hok Hne E).
  Qed.

  Theorem agree_flat_list_total l d :
    lst_ok (length l) 0 0 d -> d <> [] ->
    exists decs, decide_merge_with_diff O cfg St H gk strict cstrict (JArr l) d d = Ok decs
                 /\ no_conf decs /\ apply_decisions (JArr l) decs = patch (pfuel (JArr l) d) (JArr l) d.
  Proof.
    intros Hok Hne. destruct (decide_flat_list_returns l d 2 Hok Hne) as (decs & E).
    exists decs. split; [exact E|]. exact (agree_flat_list O cfg St H gk strict cstrict l d decs Hok Hne E).
  Qed.
End Total.
Print Assumptions onesided_flat_list_total.
Print Assumptions agree_flat_list_total.
