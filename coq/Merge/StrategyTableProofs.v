(* The finite theorems about the generated strategy tables: decided by vm_compute over Gen/Strategies.v and lifted
   to quantified statements with forallb_forall. *)
From Coq Require Import List NArith Bool String Lia.
From NB Require Import Base.Json Base.Res Diff.Codec Merge.StrategyBase Gen.Strategies Merge.StrategyTable.
Import ListNotations.

Lemma all_configs_ok : forallb config_ok all_configs = true.
Proof. vm_compute. reflexivity. Qed.

Lemma all_configs_effective : forallb config_effective all_configs = true.
Proof. vm_compute. reflexivity. Qed.

Lemma all_configs_leaves_handled : forallb config_leaves_handled all_configs = true.
Proof. vm_compute. reflexivity. Qed.

Lemma use_sides_accepted : forallb use_side_accepted sides = true.
Proof. vm_compute. reflexivity. Qed.

(* ---- the statement in quantified form ---- *)

(* No dispatcher that can see strategy [s] at a path of kind [k] takes an "unknown strategy" arm (the logging else-branch
   of resolve_strategy_generic, the dict-union error, a raise); tryresolve raises only for "fail", and "fail" sits only at
   leaf paths that cannot conflict. *)
Definition entry_spec (p s : pystr) : Prop :=
  exists k, kind_of_path p = Some k /\ k <> PMixed /\
    (forall d, In d (container_dispatchers k p s) -> arm_unknown (final_arm d s) = false) /\
    final_arm src_tryresolve s <> Some ArmLogError /\
    (forall e, final_arm src_tryresolve s = Some (ArmRaise e) ->
               In p never_conflict_paths /\ k = PLeaf).

Lemma str_in_In s l : str_in s l = true -> In s l.
Proof.
  unfold str_in. rewrite existsb_exists. intros [x [Hx He]].
  apply str_eqb_eq in He. subst. exact Hx.
Qed.

Lemma entry_ok_spec p s : entry_ok p s = true -> entry_spec p s.
Proof.
  unfold entry_ok, entry_spec. destruct (kind_of_path p) as [k|]; [|discriminate].
  intros H. apply andb_prop in H. destruct H as [H H3]. apply andb_prop in H. destruct H as [H1 H2].
  exists k. split; [reflexivity|]. split.
  { intros ->. discriminate. }
  split.
  { intros d Hd. rewrite forallb_forall in H2. specialize (H2 d Hd).
    destruct (arm_unknown (final_arm d s)); [discriminate | reflexivity]. }
  split.
  { intros E. rewrite E in H3. discriminate. }
  intros e E. rewrite E in H3. apply andb_prop in H3. destruct H3 as [Ha Hb]. split.
  - apply str_in_In. exact Ha.
  - apply pkind_eqb_eq. exact Hb.
Qed.

Theorem strategy_table_dispatch_total :
  forall c, In c all_configs -> forall p s, In (p, Some s) (cfg_table c) -> entry_spec p s.
Proof.
  intros c Hc p s Hin. pose proof all_configs_ok as H. rewrite forallb_forall in H.
  specialize (H c Hc). unfold config_ok in H. rewrite forallb_forall in H.
  specialize (H (p, Some s) Hin). simpl in H. apply entry_ok_spec. exact H.
Qed.

(* every container-level strategy of every configuration has an arm that acts at that level *)
Theorem strategy_table_effective :
  forall c, In c all_configs -> forall p s, In (p, Some s) (cfg_table c) -> entry_effective p s = true.
Proof.
  intros c Hc p s Hin. pose proof all_configs_effective as H. rewrite forallb_forall in H.
  specialize (H c Hc). unfold config_effective in H. rewrite forallb_forall in H.
  exact (H (p, Some s) Hin).
Qed.

(* every leaf-level strategy is one tryresolve knows -- with the single exception "/cells/*/id": "remove" *)
Theorem leaf_strategies_handled :
  forall c, In c all_configs -> forall p s, In (p, Some s) (cfg_table c) -> leaf_entry_handled p s = true.
Proof.
  intros c Hc p s Hin. pose proof all_configs_leaves_handled as H. rewrite forallb_forall in H.
  specialize (H c Hc). unfold config_leaves_handled in H. rewrite forallb_forall in H.
  exact (H (p, Some s) Hin).
Qed.

(* the exception is real: "remove" placed on the cell id reaches only tryresolve's warning arm and never acts *)
Example id_remove_never_acts :
  forall c, In c all_configs ->
    In (id_path, Some (of_ascii "remove")) (cfg_table c) /\
    kind_of_path id_path = Some PLeaf /\
    final_arm src_tryresolve (of_ascii "remove") = Some ArmWarn.
Proof.
  intros c Hc.
  assert (H : forallb (fun c => existsb (fun e => str_eqb (fst e) id_path &&
                 match snd e with Some s => str_eqb s (of_ascii "remove") | None => false end) (cfg_table c)) all_configs = true)
    by (vm_compute; reflexivity).
  rewrite forallb_forall in H. specialize (H c Hc). rewrite existsb_exists in H.
  destruct H as [[p os] [Hin He]]. simpl in He. apply andb_prop in He. destruct He as [Hp Hs].
  apply str_eqb_eq in Hp. subst p. destruct os as [s|]; [|discriminate]. apply str_eqb_eq in Hs. subst s.
  split; [exact Hin|]. split; vm_compute; reflexivity.
Qed.

(* use-base / use-local / use-remote are accepted at every level: tryresolve maps use-X to action X, the generic
   resolver and the three level dispatchers reach the use-side loop (skipping decisions already marked with a strategy),
   the P/R arm of _merge_lists calls decisions.X, and _merge_strings does not divert them from the line-list merge *)
Theorem use_side_accepted_everywhere : forall side, In side sides -> use_side_accepted side = true.
Proof. intros side H. pose proof use_sides_accepted as A. rewrite forallb_forall in A. exact (A side H). Qed.

(* the enumeration is the full product the command line accepts, without repetition, plus the web tool *)
Lemma enumeration_complete :
  List.length cli_configs = expected_config_count /\ nodup_cfg cli_configs = true /\
  forallb cfg_in_cli cli_configs = true /\ List.length all_configs = S expected_config_count /\
  noargs_is_default = true.
Proof. vm_compute. repeat split; reflexivity. Qed.

(* non-vacuity: the tables are not empty and contain every kind of entry the theorem talks about *)
Example tables_nonempty :
  exists c, In c all_configs /\ In (of_ascii "/cells/*/source", Some (of_ascii "use-local")) (cfg_table c)
            /\ In (of_ascii "/nbformat", Some (of_ascii "fail")) (cfg_table c)
            /\ In (of_ascii "/", Some (of_ascii "use-local")) (cfg_table c).
Proof.
  assert (H : existsb (fun c =>
      existsb (fun e => str_eqb (fst e) (of_ascii "/cells/*/source") && match snd e with Some s => str_eqb s (of_ascii "use-local") | None => false end) (cfg_table c)
      && existsb (fun e => str_eqb (fst e) (of_ascii "/nbformat") && match snd e with Some s => str_eqb s (of_ascii "fail") | None => false end) (cfg_table c)
      && existsb (fun e => str_eqb (fst e) (of_ascii "/") && match snd e with Some s => str_eqb s (of_ascii "use-local") | None => false end) (cfg_table c))
      all_configs = true) by (vm_compute; reflexivity).
  rewrite existsb_exists in H. destruct H as [c [Hc H]]. exists c. split; [exact Hc|].
  apply andb_prop in H. destruct H as [H H3]. apply andb_prop in H. destruct H as [H1 H2].
  assert (G : forall P S, existsb (fun e : pystr * option pystr => str_eqb (fst e) P && match snd e with Some s => str_eqb s S | None => false end) (cfg_table c) = true ->
                          In (P, Some S) (cfg_table c)).
  { intros P S E. rewrite existsb_exists in E. destruct E as [[p os] [Hin He]]. simpl in He.
    apply andb_prop in He. destruct He as [Hp Hs]. apply str_eqb_eq in Hp. subst p.
    destruct os as [s|]; [|discriminate]. apply str_eqb_eq in Hs. subst s. exact Hin. }
  repeat split; apply G; assumption.
Qed.
