(* Types shared by the generated Gen/Strategies.v and the hand-written strategy layer (StrategyTable.v,
   Strategies.v): merge configurations as produced by nbdime.merging.notebooks.notebook_merge_strategies, the
   shape of an if/elif chain that dispatches on a strategy string, and the kinds of notebook paths. *)
From Coq Require Import List NArith Bool.
From NB Require Import Base.Json Base.Res.
Import ListNotations.

(* what isinstance(base, ...) selects in generic._merge at a path; PLeaf = a value the differ never patches
   (numbers, null, booleans, enumerated or atomic strings); PMixed = the schema allows several shapes *)
Inductive pkind := PDict | PList | PString | PLeaf | PMixed.

Definition pkind_eqb (a b : pkind) : bool :=
  match a, b with
  | PDict, PDict | PList, PList | PString, PString | PLeaf, PLeaf | PMixed, PMixed => true
  | _, _ => false
  end.

Lemma pkind_eqb_eq a b : pkind_eqb a b = true <-> a = b.
Proof. destruct a, b; simpl; split; intros H; try reflexivity; try discriminate. Qed.

(* utils.Strategies: a dict star-path -> strategy (None allowed as a value) plus .transients *)
Record config := {
  cfg_merge : pystr;                          (* args.merge_strategy *)
  cfg_input : option pystr;                   (* args.input_strategy *)
  cfg_output : option pystr;                  (* args.output_strategy *)
  cfg_ignore_transients : bool;               (* args.ignore_transients *)
  cfg_table : list (pystr * option pystr);
  cfg_transients : list pystr
}.

(* one test of an if/elif chain on the strategy string *)
Inductive stest := TEq (c : pystr) | TPrefix (c : pystr).

(* what the body of an arm does, as far as control flow and the decision fields go *)
Inductive arm :=
| ArmAction (a : pystr)                       (* tryresolve: action = "a" (decision registered afterwards) *)
| ArmSetAction (a : pystr) (skip_marked : bool) (unless_dict : bool)
      (* for d in decisions: if d.conflict [and not d.get("strategy")] [and the value at d's path is not a dict]:
             d.action = a; d.conflict = False *)
| ArmUseSide (prefix : pystr) (skip_marked : bool)
      (* same loop with a = strategy.replace(prefix, "") *)
| ArmRaise (e : err)
| ArmPass
| ArmCall (f : pystr)                         (* delegates to the named resolve_strategy_* function *)
| ArmLogError                                 (* nbdime.log.error("Unexpected strategy ..."), no effect on decisions *)
| ArmWarn                                     (* nbdime.log.warning("Unhandled conflict strategy ..."), no effect *)
| ArmGeneric.                                 (* resolve_strategy_generic(path, decisions, strategy) *)

Record dispatcher_src := {
  d_skip : list pystr;          (* guard: `strategy != c` for these c, else return without effect *)
  d_needs_conflict : bool;      (* guard also requires decisions.has_conflicted() *)
  d_chain : list (stest * arm);
  d_else : arm
}.

(* strategies.adjust_patch_level: the body as pinned (compares n with len(target_path): never wraps; would wrap an entry
   instead of a list; passes None through) or as repaired (notes/C03-fix-2.diff) *)
Inductive apl_variant := APLPinned | APLFixed | APLOther.   (* APLOther: a body the translator does not know *)

(* generic._merge_strings: strategies that bypass the line-list merge *)
Inductive string_switch := SwInlineSource | SwLocalThenRemote.

Definition arm_eqb_err (a b : err) : bool :=
  match a, b with
  | AssertionError, AssertionError | KeyError, KeyError | IndexError, IndexError | RuntimeError, RuntimeError
  | NBDiffFormatError, NBDiffFormatError | ValueError, ValueError | TypeError, TypeError | OutOfFuel, OutOfFuel => true
  | _, _ => false
  end.

Fixpoint starts_with (p s : pystr) : bool :=
  match p, s with
  | [], _ => true
  | _ :: _, [] => false
  | a :: p', b :: s' => N.eqb a b && starts_with p' s'
  end.

Definition stest_matches (t : stest) (s : pystr) : bool :=
  match t with TEq c => str_eqb s c | TPrefix c => starts_with c s end.

(* the arm an if/elif chain selects for a strategy string *)
Fixpoint select_arm (chain : list (stest * arm)) (els : arm) (s : pystr) : arm :=
  match chain with
  | [] => els
  | (t, a) :: rest => if stest_matches t s then a else select_arm rest els s
  end.

Definition str_in (s : pystr) (l : list pystr) : bool := existsb (str_eqb s) l.

Fixpoint assoc {A} (k : pystr) (l : list (pystr * A)) : option A :=
  match l with
  | [] => None
  | (k', v) :: rest => if str_eqb k k' then Some v else assoc k rest
  end.

(* Strategies.get on an already normalised star path: a None value and an absent key are indistinguishable *)
Definition cfg_get (c : config) (spath : pystr) : option pystr :=
  match assoc spath (cfg_table c) with Some (Some s) => Some s | _ => None end.
