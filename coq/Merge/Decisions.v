(* nbdime/merging/decisions.py: MergeDecision, MergeDecisionBuilder and the path helpers.
   A builder is the list of its decisions in append order.  Python truthiness of a diff argument
   (None and [] are falsy) is [truthy]; `==` on diff entries is dict equality, i.e. Python == on the
   values ([entry_pyeqb]) unless the generated source fact says the code uses strict equality. *)
From Coq Require Import String.
From Coq Require Import List NArith ZArith Bool Lia.

From NB Require Import Base.Res.
From NB Require Import Base.Json.
From NB Require Import Diff.DiffFormat.
From NB Require Import Diff.Patch.
From NB Require Import Diff.Codec.
From NB Require Import Merge.SortKey.
Import ListNotations.

Inductive action :=
| ABase | ALocal | ARemote | AEither | ACustom | ALocalThenRemote | ARemoteThenLocal
| AClear | ARemove | AClearAll | ATakeMax
| AOther (s : pystr).          (* resolve_strategy_generic: strategy.replace("use-", "") may be any string *)

Record decision := mkDec {
  d_path : path;               (* common_path *)
  d_action : action;
  d_conflict : bool;
  d_local : option diff;       (* None is Python None; Some [] is [] (both occur) *)
  d_remote : option diff;
  d_custom : option diff;      (* key "custom_diff" present iff Some *)
  d_strategy : option pystr;   (* key "strategy" present iff Some; deleted by validated() *)
  d_similar : option diff;     (* key "similar_insert" present iff Some *)
}.

Definition truthy (d : option diff) : bool := match d with Some (_ :: _) => true | _ => false end.

(* ---------- Python == on diff entries (DiffEntry is a dict) ---------- *)
Fixpoint list_pyeqb (l m : list json) : bool :=
  match l, m with
  | [], [] => true
  | x :: xs, y :: ys => py_eqb x y && list_pyeqb xs ys
  | _, _ => false
  end.

Definition vlist_pyeqb (a b : vlist) : bool :=
  match a, b with
  | VList l, VList m => list_pyeqb l m
  | VStr s, VStr t => str_eqb s t
  | _, _ => false
  end.

Fixpoint entry_pyeqb (a b : dentry) {struct a} : bool :=
  match a, b with
  | DAdd k v, DAdd k' v' => key_eqb k k' && py_eqb v v'
  | DRemove k, DRemove k' => key_eqb k k'
  | DReplace k v, DReplace k' v' => key_eqb k k' && py_eqb v v'
  | DAddRange k vs, DAddRange k' vs' => key_eqb k k' && vlist_pyeqb vs vs'
  | DRemoveRange k n, DRemoveRange k' n' => key_eqb k k' && Nat.eqb n n'
  | DPatch k d, DPatch k' d' =>
      key_eqb k k' &&
      (fix go (l m : list dentry) : bool :=
         match l, m with
         | [], [] => true
         | x :: xs, y :: ys => entry_pyeqb x y && go xs ys
         | _, _ => false
         end) d d'
  | _, _ => false
  end.

Fixpoint diff_pyeqb (l m : diff) : bool :=
  match l, m with
  | [], [] => true
  | x :: xs, y :: ys => entry_pyeqb x y && diff_pyeqb xs ys
  | _, _ => false
  end.

(* strict variant (JSON identity), selected by the source fact entry_eq_strict *)
Definition vlist_eqb (a b : vlist) : bool :=
  match a, b with
  | VList l, VList m => json_eqb (JArr l) (JArr m)
  | VStr s, VStr t => str_eqb s t
  | _, _ => false
  end.

Fixpoint entry_eqb (a b : dentry) {struct a} : bool :=
  match a, b with
  | DAdd k v, DAdd k' v' => key_eqb k k' && json_eqb v v'
  | DRemove k, DRemove k' => key_eqb k k'
  | DReplace k v, DReplace k' v' => key_eqb k k' && json_eqb v v'
  | DAddRange k vs, DAddRange k' vs' => key_eqb k k' && vlist_eqb vs vs'
  | DRemoveRange k n, DRemoveRange k' n' => key_eqb k k' && Nat.eqb n n'
  | DPatch k d, DPatch k' d' =>
      key_eqb k k' &&
      (fix go (l m : list dentry) : bool :=
         match l, m with
         | [], [] => true
         | x :: xs, y :: ys => entry_eqb x y && go xs ys
         | _, _ => false
         end) d d'
  | _, _ => false
  end.

Fixpoint diff_eqb (l m : diff) : bool :=
  match l, m with
  | [], [] => true
  | x :: xs, y :: ys => entry_eqb x y && diff_eqb xs ys
  | _, _ => false
  end.

(* `local_diff == remote_diff` on builder arguments (None == None, [] != None) *)
Definition odiff_pyeqb (a b : option diff) : bool :=
  match a, b with
  | Some x, Some y => diff_pyeqb x y
  | None, None => true
  | _, _ => false
  end.

(* the test inside `assert local_diff != remote_diff` of tryresolve / conflict / similar_insert;
   [cs] is the generated source fact conflict_assert_strict (strict_equals instead of !=) *)
Definition conflict_args_eqb (cs : bool) (a b : option diff) : bool :=
  if cs then match a, b with
             | Some x, Some y => diff_eqb x y
             | None, None => true
             | _, _ => false
             end
  else odiff_pyeqb a b.

(* ---------- _pop_path / ensure_common_path / push_path ---------- *)
Fixpoint pop_path_go (diffs : list (option diff)) (k0 : option key) (acc : list (option diff))
  : option (option key * list (option diff)) :=
  match diffs with
  | [] => Some (k0, rev acc)
  | d :: r =>
      match d with
      | None | Some [] => pop_path_go r k0 (None :: acc)
      | Some [DPatch k dd] =>
          match k0 with
          | None => pop_path_go r (Some k) (Some dd :: acc)
          | Some k1 => if key_eqb k1 k then pop_path_go r k0 (Some dd :: acc) else None
          end
      | Some _ => None
      end
  end.

Definition pop_path (diffs : list (option diff)) : option (key * list (option diff)) :=
  match pop_path_go diffs None [] with
  | Some (Some k, ds) => Some (k, ds)
  | _ => None
  end.

Fixpoint ensure_common_path (fuel : nat) (p : path) (diffs : list (option diff))
  : path * list (option diff) :=
  match fuel with
  | 0 => (p, diffs)
  | S f =>
      match pop_path diffs with
      | Some (k, ds) => ensure_common_path f (p ++ [k]) ds
      | None => (p, diffs)
      end
  end.

Definition odepth (d : option diff) : nat := match d with Some x => ddepth x | None => 0 end.

Definition push_path (p : path) (d : diff) : diff :=
  fold_right (fun k acc => [DPatch k acc]) d p.

(* ---------- MergeDecisionBuilder ---------- *)
Definition builder := list decision.

Definition add_decision (B : builder) (p : path) (a : action) (l r : option diff) (conflict : bool)
           (strategy : option pystr) (custom similar : option diff) : builder :=
  let fuel := S (odepth l + odepth r + odepth custom) in
  match ensure_common_path fuel p [l; r; custom] with
  | (p', [l'; r'; c']) => B ++ [mkDec p' a conflict l' r' c' strategy similar]
  | _ => B                                   (* unreachable: pop_path preserves the length *)
  end.

Definition b_base (B : builder) p l r := add_decision B p ABase l r false None None None.

Definition b_onesided (B : builder) (p : path) (l r : option diff) : res builder :=
  if negb (truthy l || truthy r) then Err AssertionError else
  if truthy l && truthy r then Err AssertionError else
  Ok (add_decision B p (if truthy l then ALocal else ARemote) l r false None None None).

Definition b_local_then_remote (B : builder) p l r (conflict : bool) : res builder :=
  if truthy l && truthy r then Ok (add_decision B p ALocalThenRemote l r conflict None None None)
  else Err AssertionError.

Definition b_remote_then_local (B : builder) p l r (conflict : bool) : res builder :=
  if truthy l && truthy r then Ok (add_decision B p ARemoteThenLocal l r conflict None None None)
  else Err AssertionError.

Definition b_agreement (B : builder) p l r : res builder :=
  if negb (truthy l && truthy r) then Err AssertionError else
  if negb (odiff_pyeqb l r) then Err AssertionError else
  Ok (add_decision B p AEither l r false None None None).

Definition b_local (B : builder) p l r : res builder :=
  if truthy l then Ok (add_decision B p ALocal l r false None None None) else Err AssertionError.

Definition b_remote (B : builder) p l r : res builder :=
  if truthy r then Ok (add_decision B p ARemote l r false None None None) else Err AssertionError.

Definition b_custom (B : builder) p l r (custom : option diff) (conflict : bool) (strategy : option pystr)
  : builder := add_decision B p ACustom l r conflict strategy custom None.

Definition s_use_local := of_ascii "use-local".
Definition s_use_remote := of_ascii "use-remote".
Definition s_use_base := of_ascii "use-base".
Definition s_union := of_ascii "union".
Definition s_clear := of_ascii "clear".
Definition s_take_max := of_ascii "take-max".
Definition s_fail := of_ascii "fail".
Definition s_mergetool := of_ascii "mergetool".

(* `if not strategy`: None and "" *)
Definition strategy_set (s : option pystr) : bool :=
  match s with Some (_ :: _) => true | _ => false end.

(* tryresolve: returns the builder and whether an action was taken *)
Definition b_tryresolve (cs : bool) (B : builder) p (l r : option diff) (strategy : option pystr)
  : res (builder * bool) :=
  match strategy with
  | None | Some [] => Ok (B, false)
  | Some s =>
      if negb (truthy l && truthy r) then Err AssertionError else
      if conflict_args_eqb cs l r then Err AssertionError else
      let act :=
        if str_eqb s s_use_local then Ok (Some ALocal)
        else if str_eqb s s_use_remote then Ok (Some ARemote)
        else if str_eqb s s_use_base then Ok (Some ABase)
        else if str_eqb s s_union then Ok (Some ALocalThenRemote)
        else if str_eqb s s_clear then Ok (Some AClear)
        else if str_eqb s s_take_max then Ok (Some ATakeMax)
        else if str_eqb s s_fail then Err RuntimeError
        else Ok None in
      do a <- act;
      match a with
      | Some a => Ok (add_decision B p a l r false strategy None None, true)
      | None => Ok (B, false)
      end
  end.

Definition b_conflict_gen (cs : bool) (similar : option diff) (B : builder) p (l r : option diff)
           (strategy : option pystr) : res builder :=
  if negb (truthy l && truthy r) then Err AssertionError else
  if conflict_args_eqb cs l r then Err AssertionError else
  do t <- b_tryresolve cs B p l r strategy;
  let '(B', taken) := t in
  if taken then Ok B' else Ok (add_decision B' p ABase l r true None None similar).

Definition b_conflict (cs : bool) := b_conflict_gen cs None.
Definition b_similar_insert (cs : bool) (B : builder) p l r (insert_diff : diff) strategy :=
  b_conflict_gen cs (Some insert_diff) B p l r strategy.

Definition has_conflicted (B : builder) : bool := existsb d_conflict B.

(* validated(): drop the strategy field, sorted(key=_sort_key, reverse=True) *)
Definition drop_strategy (d : decision) : decision :=
  mkDec (d_path d) (d_action d) (d_conflict d) (d_local d) (d_remote d) (d_custom d) None (d_similar d).

Definition validated (B : builder) : list decision :=
  sort_desc (fun d => sort_key (d_path d)) (map drop_strategy B).

(* push_patch_decision(decision, prefix) *)
Definition wrap_truthy (k : key) (d : option diff) : option diff :=
  match d with Some (x :: r) => Some [DPatch k (x :: r)] | _ => Some [] end.

Fixpoint push_patch_decision_go (rprefix : list key) (d : decision) : res decision :=
  match rprefix with
  | [] => Ok d
  | k :: r =>
      match rev (d_path d) with
      | [] => Err ValueError
      | last :: rinit =>
          if negb (key_eqb last k) then Err AssertionError else
          push_patch_decision_go r
            (mkDec (rev rinit) (d_action d) (d_conflict d)
                   (wrap_truthy k (d_local d)) (wrap_truthy k (d_remote d))
                   (match d_action d with ACustom => wrap_truthy k (d_custom d) | _ => d_custom d end)
                   (d_strategy d) (d_similar d))
      end
  end.
Definition push_patch_decision (d : decision) (prefix : list key) : res decision :=
  push_patch_decision_go (rev prefix) d.

(* ---------- action names (the strings nbdime stores in decision.action) ---------- *)
Definition action_name (a : action) : pystr :=
  match a with
  | ABase => of_ascii "base" | ALocal => of_ascii "local" | ARemote => of_ascii "remote"
  | AEither => of_ascii "either" | ACustom => of_ascii "custom"
  | ALocalThenRemote => of_ascii "local_then_remote"
  | ARemoteThenLocal => of_ascii "remote_then_local"
  | AClear => of_ascii "clear" | ARemove => of_ascii "remove"
  | AClearAll => of_ascii "clear_all" | ATakeMax => of_ascii "take_max"
  | AOther s => s
  end.

Definition known_actions : list action :=
  [ABase; ALocal; ARemote; AEither; ACustom; ALocalThenRemote; ARemoteThenLocal; AClear; ARemove; AClearAll; ATakeMax].

Definition action_of_name (s : pystr) : action :=
  match find (fun a => str_eqb (action_name a) s) known_actions with
  | Some a => a
  | None => AOther s
  end.

Definition set_action (d : decision) (a : action) (conflict : bool) : decision :=
  mkDec (d_path d) a conflict (d_local d) (d_remote d) (d_custom d) (d_strategy d) (d_similar d).
