(* C05, one-sided adoption for OBJECT documents of any depth (notebooks are objects): for every well-formed JSON object
   base and every diff d that is well-formed for it (Diff/Wf.v wf_diff, what the differ provably emits, C11) -- nested
   patches into objects, lists and strings to any depth included -- the one-sided merge produces conflict-free decisions
   and applying them gives exactly patch(base, d).  Decisions are pushed down singleton patch chains (ensure_common_path),
   sorted (validated), and applied path group by path group (apply_decisions, split_string_path, set_at): all followed. *)
From Coq Require Import String.
From Coq Require Import List NArith ZArith Bool Lia Permutation.
From NB Require Import Base.Res Base.Json Base.PyStr Diff.DiffFormat Diff.Patch Diff.GenericDiff Diff.Codec Diff.Wf
     Diff.DictProofs Diff.DictWf Diff.MasterProofs Diff.SpecProofs
     Merge.SortKey Merge.Chunks Merge.Decisions Merge.Apply Merge.MergeGeneric Gen.MergeFacts
     Merge.MergeProofs Merge.MergeApplyProofs Merge.SortKeyProofs.
Import ListNotations.

(* ---------- fuel of wf_diff: monotone, and depth(base)+1 is enough ---------- *)
Lemma swf_ok_mono n vl (ok1 ok2 : nat -> list dentry -> bool) :
  (forall k dd, ok1 k dd = true -> ok2 k dd = true) ->
  forall d c a, swf n vl ok1 c a d = true -> swf n vl ok2 c a d = true.
Proof.
  intros Hok. induction d as [|e r IH]; intros c a Hs; [reflexivity|]. cbn [swf] in *.
  destruct e as [[?|?] ?|[?|?]|[?|?] ?|[k|?] vs|[k|?] len|[k|?] dd]; try discriminate.
  - apply andb_true_iff in Hs as [H1 H2]. rewrite H1. cbn [andb]. apply IH. exact H2.
  - apply andb_true_iff in Hs as [H1 H2]. rewrite H1. cbn [andb]. apply IH. exact H2.
  - apply andb_true_iff in Hs as [H1 H2]. apply andb_true_iff in H1 as [H1 H3]. rewrite H1, (Hok _ _ H3). cbn [andb]. apply IH. exact H2.
Qed.

Lemma wf_map_mono (r1 r2 : json -> list dentry -> bool) kv :
  (forall x dd, r1 x dd = true -> r2 x dd = true) ->
  forall d prev, wf_map_of r1 kv prev d = true -> wf_map_of r2 kv prev d = true.
Proof.
  intros Hr. induction d as [|e r IH]; intros prev Hw; [reflexivity|]. cbn [wf_map_of] in *.
  destruct (dkey e) as [|k]; [discriminate|].
  apply andb_true_iff in Hw as [H1 H3]. apply andb_true_iff in H1 as [H1 H2]. rewrite H1, (IH _ H3). cbn [andb]. rewrite andb_true_r.
  destruct e; try exact H2. destruct (obj_get k kv) as [x|]; [|discriminate].
  apply andb_true_iff in H2 as [H2 H4]. rewrite H2, (Hr _ _ H4). reflexivity.
Qed.

Lemma wf_diff_mono : forall f f' a d, f <= f' -> wf_diff f a d = true -> wf_diff f' a d = true.
Proof.
  induction f as [|f IH]; intros f' a d Hle Hw; [discriminate|].
  destruct f' as [|f']; [lia|]. assert (Hle' : f <= f') by lia.
  destruct a as [| | | |s|items|kv]; try discriminate.
  - exact Hw.
  - cbn [wf_diff] in *. eapply swf_ok_mono; [|exact Hw]. intros k dd. cbv beta.
    destruct (nth_error items k) as [x|]; [|discriminate]. intros Hx.
    apply andb_true_iff in Hx as [H1 H2]. rewrite H1. apply (IH f' x dd Hle' H2).
  - rewrite wf_diff_obj in *. eapply wf_map_mono; [|exact Hw]. intros x dd. apply IH. exact Hle'.
Qed.

Lemma wf_diff_lower : forall f a d, wf_diff f a d = true -> wf_diff (S (depth a)) a d = true.
Proof.
  induction f as [|f IH]; intros a d Hw; [discriminate|].
  destruct a as [| | | |s|items|kv]; try discriminate.
  - exact Hw.
  - cbn [wf_diff] in *. eapply swf_ok_mono; [|exact Hw]. intros k dd. cbv beta.
    destruct (nth_error items k) as [x|] eqn:Ex; [|discriminate]. intros Hx.
    apply andb_true_iff in Hx as [H1 H2]. rewrite H1. cbn [andb].
    apply (wf_diff_mono (S (depth x))); [|apply (IH x dd H2)].
    apply (depth_in_arr items x). eapply nth_error_In. exact Ex.
  - rewrite wf_diff_obj in *.
    assert (G : forall d prev, wf_map_of (wf_diff f) kv prev d = true -> wf_map_of (wf_diff (depth (JObj kv))) kv prev d = true).
    { clear d Hw. induction d as [|e r IHd]; intros prev Hw; [reflexivity|]. cbn [wf_map_of] in *.
      destruct (dkey e) as [|k]; [discriminate|].
      apply andb_true_iff in Hw as [H1 H3]. apply andb_true_iff in H1 as [H1 H2]. rewrite H1, (IHd _ H3). cbn [andb]. rewrite andb_true_r.
      destruct e; try exact H2. destruct (obj_get k kv) as [x|] eqn:Ex; [|discriminate].
      apply andb_true_iff in H2 as [H2 H4]. rewrite H2. cbn [andb].
      apply (wf_diff_mono (S (depth x))); [|apply (IH x _ H4)]. apply (depth_in_obj kv k x Ex). }
    apply G. exact Hw.
Qed.

Definition wfd (a : json) (d : diff) : Prop := wf_diff (S (depth a)) a d = true.
Definition sp (a : json) (d : diff) : json := spec_patch (S (depth a)) a d.

Lemma patch_sp a d m : wfj a = true -> wfd a d -> depth a < m -> patch m a d = Ok (sp a d).
Proof. intros Ha Hw Hm. apply (patch_is_spec (S (depth a)) a d Ha Hw m). lia. Qed.

Lemma ok_inj {A} (a b : A) : Ok a = Ok b -> a = b.
Proof. intros E. inversion E. reflexivity. Qed.

(* ---------- a singleton patch is an update in place ---------- *)
Lemma single_patch_obj rec kv ks inner y p :
  keys_sorted kv = true -> obj_get ks kv = Some y -> rec y inner = Ok p ->
  patch_dict rec kv [DPatch (KS ks) inner] = Ok (obj_set ks p kv).
Proof.
  intros Hs Hy Hp.
  destruct (patch_dict_spec rec kv [DPatch (KS ks) inner]) as (r & R1 & R2 & R3).
  { constructor; [|constructor]. cbn [entry_ok]. exists y, p. split; assumption. }
  { cbn. constructor; [intros [] | constructor]. }
  rewrite R1. f_equal. apply sorted_ext; [exact R2 | apply obj_set_sorted; exact Hs|].
  intros k. rewrite R3, obj_get_set. unfold dmeaning. cbn [find_entry dkey].
  destruct (str_eqb k ks) eqn:E; [|reflexivity].
  cbn [set_of]. rewrite Hy, Hp. reflexivity.
Qed.

Lemma list_set_split {A} (p : A) : forall l i y, nth_error l i = Some y -> list_set l i p = firstn i l ++ p :: skipn (S i) l.
Proof.
  induction l as [|x r IH]; intros i y Hn; [destruct i; discriminate|].
  destruct i as [|i]; [reflexivity|]. cbn [nth_error] in Hn. cbn [list_set firstn skipn app]. f_equal. apply (IH i y Hn).
Qed.

Lemma single_patch_list rec l i inner y p :
  nth_error l i = Some y -> rec y inner = Ok p ->
  patch_list rec l [DPatch (KI i) inner] = Ok (list_set l i p).
Proof.
  intros Hy Hp. unfold patch_list. cbn [patch_list_go dkey]. unfold nth_res. rewrite Hy. cbn [bind]. rewrite Hp. cbn [bind].
  rewrite (list_set_split p l i y Hy). unfold slice. cbn [app skipn]. rewrite Nat.sub_0_r.
  replace (Nat.max 0 (i + 1)) with (S i) by lia. rewrite <- app_assoc. reflexivity.
Qed.

Lemma wfd_single_obj kv k inner :
  wfd (JObj kv) [DPatch k inner] ->
  exists ks y, k = KS ks /\ obj_get ks kv = Some y /\ is_container y = true /\ wfd y inner.
Proof.
  unfold wfd. rewrite wf_diff_obj. cbn [wf_map_of dkey]. destruct k as [i|ks]; [discriminate|].
  cbn [andb]. rewrite andb_true_r. destruct (obj_get ks kv) as [y|] eqn:Ey; [|discriminate].
  intros Hw. apply andb_true_iff in Hw as [H1 H2]. apply andb_true_iff in H1 as [H1 _].
  exists ks, y. split; [reflexivity|]. split; [exact Ey|]. split; [exact H1|]. apply (wf_diff_lower _ _ _ H2).
Qed.

Lemma wfd_single_arr l k inner :
  wfd (JArr l) [DPatch k inner] ->
  exists i y, k = KI i /\ nth_error l i = Some y /\ is_container y = true /\ wfd y inner.
Proof.
  unfold wfd. cbn [wf_diff swf]. destruct k as [i|ks]; [|discriminate].
  intros Hw. apply andb_true_iff in Hw as [H1 _]. apply andb_true_iff in H1 as [_ H1].
  destruct (nth_error l i) as [y|] eqn:Ey; [|discriminate].
  apply andb_true_iff in H1 as [H1 H2]. apply andb_true_iff in H1 as [H1 _].
  exists i, y. split; [reflexivity|]. split; [exact Ey|]. split; [exact H1|]. apply (wf_diff_lower _ _ _ H2).
Qed.

Lemma sp_single_obj kv ks inner y :
  wfj (JObj kv) = true -> wfd (JObj kv) [DPatch (KS ks) inner] -> obj_get ks kv = Some y -> wfd y inner ->
  sp (JObj kv) [DPatch (KS ks) inner] = JObj (obj_set ks (sp y inner) kv).
Proof.
  intros Hw Hd Hy Hi.
  pose proof (patch_sp (JObj kv) _ (S (depth (JObj kv))) Hw Hd (Nat.lt_succ_diag_r _)) as P.
  cbn [patch] in P.
  rewrite (single_patch_obj _ kv ks inner y (sp y inner) (wfj_obj_sorted kv Hw) Hy) in P.
  - cbn [bind] in P. symmetry. apply ok_inj. exact P.
  - apply patch_sp; [eapply wfj_in_obj; eassumption | exact Hi | apply (depth_in_obj kv ks y Hy)].
Qed.

Lemma sp_single_arr l i inner y :
  wfj (JArr l) = true -> wfd (JArr l) [DPatch (KI i) inner] -> nth_error l i = Some y -> wfd y inner ->
  sp (JArr l) [DPatch (KI i) inner] = JArr (list_set l i (sp y inner)).
Proof.
  intros Hw Hd Hy Hi.
  pose proof (patch_sp (JArr l) _ (S (depth (JArr l))) Hw Hd (Nat.lt_succ_diag_r _)) as P.
  cbn [patch] in P.
  rewrite (single_patch_list _ l i inner y (sp y inner) Hy) in P.
  - cbn [bind] in P. symmetry. apply ok_inj. exact P.
  - apply patch_sp; [eapply wfj_in_arr; [exact Hw | eapply nth_error_In; exact Hy] | exact Hi |].
    apply (depth_in_arr l y). eapply nth_error_In. exact Hy.
Qed.

(* ---------- a decision pushed down a path: patching at the (string-split) path = patching the wrapped diff at the root ---------- *)
Lemma at_path : forall q m x, wfj m = true -> wfd m (push_path q x) ->
  exists q1 line r, split_string_path m q = Ok (q1, line) /\ get_path m q1 = Ok r /\ wfj r = true
     /\ wfd r (push_path line x)
     /\ set_at m q1 (sp r (push_path line x)) = Ok (sp m (push_path q x))
     /\ (forall k q', q = k :: q' -> (exists s, m = JStr s) \/ exists q1', q1 = k :: q1').
Proof.
  induction q as [|k q IH]; intros m x Hw Hd.
  - exists [], [], m. cbn [split_string_path get_path push_path fold_right set_at] in *. repeat split; try assumption. intros k q' E. discriminate.
  - change (push_path (k :: q) x) with [DPatch k (push_path q x)] in *.
    destruct m as [| | | |s|l|kv]; try (unfold wfd in Hd; cbn in Hd; discriminate).
    + (* string: the rest of the path stays in the diff *)
      exists [], (k :: q), (JStr s). cbn [split_string_path get_path set_at]. repeat split; try assumption.
      intros k0 q' _. left. eexists. reflexivity.
    + destruct (wfd_single_arr l k _ Hd) as (i & y & -> & Hy & Hc & Hi).
      assert (Hwy : wfj y = true) by (eapply wfj_in_arr; [exact Hw | eapply nth_error_In; exact Hy]).
      destruct (IH y x Hwy Hi) as (q1 & line & r & S1 & S2 & S3 & S4 & S5 & _).
      exists (KI i :: q1), line, r. cbn [split_string_path get_item get_path]. unfold nth_res. rewrite Hy. cbn [bind]. rewrite S1. cbn [bind fst snd].
      split; [reflexivity|]. split; [exact S2|]. split; [exact S3|]. split; [exact S4|]. split.
      * cbn [set_at get_item]. unfold nth_res. rewrite Hy. cbn [bind]. rewrite S5. cbn [bind set_item].
        assert (Hlt : i < length l) by (apply nth_error_Some; congruence).
        replace (Nat.ltb i (length l)) with true by (symmetry; apply Nat.ltb_lt; exact Hlt).
        rewrite (sp_single_arr l i _ y Hw Hd Hy Hi). reflexivity.
      * intros k0 q' E. inversion E; subst. right. eexists. reflexivity.
    + destruct (wfd_single_obj kv k _ Hd) as (ks & y & -> & Hy & Hc & Hi).
      assert (Hwy : wfj y = true) by (eapply wfj_in_obj; eassumption).
      destruct (IH y x Hwy Hi) as (q1 & line & r & S1 & S2 & S3 & S4 & S5 & _).
      exists (KS ks :: q1), line, r. cbn [split_string_path get_item get_path]. rewrite Hy. cbn [bind]. rewrite S1. cbn [bind fst snd].
      split; [reflexivity|]. split; [exact S2|]. split; [exact S3|]. split; [exact S4|]. split.
      * cbn [set_at get_item]. rewrite Hy. cbn [bind]. rewrite S5. cbn [bind set_item].
        rewrite (sp_single_obj kv ks _ y Hw Hd Hy Hi). reflexivity.
      * intros k0 q' E. inversion E; subst. right. eexists. reflexivity.
Qed.

(* ---------- ensure_common_path on a one-sided decision ---------- *)
Lemma ecp_spec_l : forall fuel p x,
  exists ks x', ensure_common_path fuel p [Some x; None; None] = (p ++ ks, [Some x'; None; None]) /\ push_path ks x' = x
                /\ (forall k dd f', x = [DPatch k dd] -> fuel = S f' -> exists ks', ks = k :: ks').
Proof.
  induction fuel as [|f IH]; intros p x.
  - exists [], x. rewrite app_nil_r. repeat split. intros; discriminate.
  - cbn [ensure_common_path]. unfold pop_path.
    destruct x as [|e r].
    + exists [], []. rewrite app_nil_r. cbn [pop_path_go rev app]. repeat split. intros; discriminate.
    + assert (NP : forall y, (forall k dd, y <> [DPatch k dd]) -> y <> [] ->
                   exists ks x', (match match pop_path_go [Some y; None; None] None [] with Some (Some k, ds) => Some (k, ds) | _ => None end with
                                  | Some (k, ds) => ensure_common_path f (p ++ [k]) ds | None => (p, [Some y; None; None]) end)
                                 = (p ++ ks, [Some x'; None; None]) /\ push_path ks x' = y
                                 /\ (forall k dd f', y = [DPatch k dd] -> S f = S f' -> exists ks', ks = k :: ks')).
      { intros y Hy Hne. exists [], y. rewrite app_nil_r.
        assert (E : pop_path_go [Some y; None; None] None [] = None).
        { cbn [pop_path_go]. destruct y as [|e0 r0]; [congruence|]. destruct e0; try reflexivity. destruct r0; [|reflexivity]. exfalso. eapply Hy. reflexivity. }
        rewrite E. repeat split. intros k dd f' E0. exfalso. eapply Hy. exact E0. }
      destruct e as [k v|k|k v|k vs|k len|k dd]; try (apply NP; [intros; discriminate | discriminate]).
      destruct r as [|e2 r2]; [|apply NP; [intros; discriminate | discriminate]].
      cbn [pop_path_go rev app]. destruct (IH (p ++ [k]) dd) as (ks & x' & E & P & _).
      exists (k :: ks), x'. rewrite <- app_assoc in E. split; [exact E|]. split; [cbn [push_path fold_right]; fold (push_path ks x'); rewrite P; reflexivity|].
      intros k0 dd0 f' E0 _. inversion E0; subst. eexists. reflexivity.
Qed.

Lemma ecp_spec_r : forall fuel p x,
  exists ks x', ensure_common_path fuel p [None; Some x; None] = (p ++ ks, [None; Some x'; None]) /\ push_path ks x' = x
                /\ (forall k dd f', x = [DPatch k dd] -> fuel = S f' -> exists ks', ks = k :: ks').
Proof.
  induction fuel as [|f IH]; intros p x.
  - exists [], x. rewrite app_nil_r. repeat split. intros; discriminate.
  - cbn [ensure_common_path]. unfold pop_path.
    destruct x as [|e r].
    + exists [], []. rewrite app_nil_r. cbn [pop_path_go rev app]. repeat split. intros; discriminate.
    + assert (NP : forall y, (forall k dd, y <> [DPatch k dd]) -> y <> [] ->
                   exists ks x', (match match pop_path_go [None; Some y; None] None [] with Some (Some k, ds) => Some (k, ds) | _ => None end with
                                  | Some (k, ds) => ensure_common_path f (p ++ [k]) ds | None => (p, [None; Some y; None]) end)
                                 = (p ++ ks, [None; Some x'; None]) /\ push_path ks x' = y
                                 /\ (forall k dd f', y = [DPatch k dd] -> S f = S f' -> exists ks', ks = k :: ks')).
      { intros y Hy Hne. exists [], y. rewrite app_nil_r.
        assert (E : pop_path_go [None; Some y; None] None [] = None).
        { cbn [pop_path_go]. destruct y as [|e0 r0]; [congruence|]. destruct e0; try reflexivity. destruct r0; [|reflexivity]. exfalso. eapply Hy. reflexivity. }
        rewrite E. repeat split. intros k dd f' E0. exfalso. eapply Hy. exact E0. }
      destruct e as [k v|k|k v|k vs|k len|k dd]; try (apply NP; [intros; discriminate | discriminate]).
      destruct r as [|e2 r2]; [|apply NP; [intros; discriminate | discriminate]].
      cbn [pop_path_go rev app]. destruct (IH (p ++ [k]) dd) as (ks & x' & E & P & _).
      exists (k :: ks), x'. rewrite <- app_assoc in E. split; [exact E|]. split; [cbn [push_path fold_right]; fold (push_path ks x'); rewrite P; reflexivity|].
      intros k0 dd0 f' E0 _. inversion E0; subst. eexists. reflexivity.
Qed.

Lemma ecp_spec_b : forall fuel p x,
  exists ks x', ensure_common_path fuel p [Some x; Some x; None] = (p ++ ks, [Some x'; Some x'; None]) /\ push_path ks x' = x
                /\ (forall k dd f', x = [DPatch k dd] -> fuel = S f' -> exists ks', ks = k :: ks').
Proof.
  induction fuel as [|f IH]; intros p x.
  - exists [], x. rewrite app_nil_r. repeat split. intros; discriminate.
  - cbn [ensure_common_path]. unfold pop_path.
    destruct x as [|e r].
    + exists [], []. rewrite app_nil_r. cbn [pop_path_go rev app]. repeat split. intros; discriminate.
    + assert (NP : forall y, (forall k dd, y <> [DPatch k dd]) -> y <> [] ->
                   exists ks x', (match match pop_path_go [Some y; Some y; None] None [] with Some (Some k, ds) => Some (k, ds) | _ => None end with
                                  | Some (k, ds) => ensure_common_path f (p ++ [k]) ds | None => (p, [Some y; Some y; None]) end)
                                 = (p ++ ks, [Some x'; Some x'; None]) /\ push_path ks x' = y
                                 /\ (forall k dd f', y = [DPatch k dd] -> S f = S f' -> exists ks', ks = k :: ks')).
      { intros y Hy Hne. exists [], y. rewrite app_nil_r.
        assert (E : pop_path_go [Some y; Some y; None] None [] = None).
        { cbn [pop_path_go]. destruct y as [|e0 r0]; [congruence|]. destruct e0; try reflexivity. destruct r0; [|reflexivity]. exfalso. eapply Hy. reflexivity. }
        rewrite E. repeat split. intros k dd f' E0. exfalso. eapply Hy. exact E0. }
      destruct e as [k v|k|k v|k vs|k len|k dd]; try (apply NP; [intros; discriminate | discriminate]).
      destruct r as [|e2 r2]; [|apply NP; [intros; discriminate | discriminate]].
      cbn [pop_path_go]. rewrite key_eqb_refl. cbn [pop_path_go rev app]. destruct (IH (p ++ [k]) dd) as (ks & x' & E & P & _).
      exists (k :: ks), x'. rewrite <- app_assoc in E. split; [exact E|]. split; [cbn [push_path fold_right]; fold (push_path ks x'); rewrite P; reflexivity|].
      intros k0 dd0 f' E0 _. inversion E0; subst. eexists. reflexivity.
Qed.

Inductive mode := ML | MR | MB.      (* who made the change: local only, remote only, both (the same change) *)
Definition of_side (side : bool) : mode := if side then ML else MR.

Definition slots (m : mode) (x : diff) : list (option diff) :=
  match m with ML => [Some x; None; None] | MR => [None; Some x; None] | MB => [Some x; Some x; None] end.

Lemma ecp_spec m : forall fuel p x,
  exists ks x', ensure_common_path fuel p (slots m x) = (p ++ ks, slots m x') /\ push_path ks x' = x
                /\ (forall k dd f', x = [DPatch k dd] -> fuel = S f' -> exists ks', ks = k :: ks').
Proof. destruct m; [exact ecp_spec_l | exact ecp_spec_r | exact ecp_spec_b]. Qed.

Definition ldec (m : mode) (q : path) (x : diff) : decision :=
  match m with
  | ML => mkDec q ALocal false (Some x) None None None None
  | MR => mkDec q ARemote false None (Some x) None None None
  | MB => mkDec q AEither false (Some x) (Some x) None None None
  end.

Lemma ldec_path m q x : d_path (ldec m q x) = q.
Proof. destruct m; reflexivity. Qed.
Lemma ldec_resolve m r q x : resolve_action r (ldec m q x) = Ok x.
Proof. destruct m; reflexivity. Qed.
Lemma ldec_clear m q x : is_clear_all (d_action (ldec m q x)) = false.
Proof. destruct m; reflexivity. Qed.
Lemma ldec_conf m q x : d_conflict (ldec m q x) = false.
Proof. destruct m; reflexivity. Qed.
Lemma ldec_drop m q x : drop_strategy (ldec m q x) = ldec m q x.
Proof. destruct m; reflexivity. Qed.

Definition m_action (m : mode) : action := match m with ML => ALocal | MR => ARemote | MB => AEither end.
Definition m_local (m : mode) (e : dentry) : option diff := match m with MR => None | _ => Some [e] end.
Definition m_remote (m : mode) (e : dentry) : option diff := match m with ML => None | _ => Some [e] end.

Lemma add_decision_local (m : mode) B p (e : dentry) :
  exists ks x', add_decision B p (m_action m) (m_local m e) (m_remote m e) false None None None = B ++ [ldec m (p ++ ks) x']
                /\ push_path ks x' = [e] /\ (forall k dd, e = DPatch k dd -> exists ks', ks = k :: ks').
Proof.
  unfold add_decision. destruct m; cbn [odepth m_local m_remote m_action].
  - destruct (ecp_spec ML (S (ddepth [e] + 0 + 0)) p [e]) as (ks & x' & E & P & Q). cbn [slots] in E.
    exists ks, x'. split; [|split; [exact P|]].
    + match goal with |- context [ensure_common_path ?f ?pp ?l] => set (T := ensure_common_path f pp l) end.
      assert (ET : T = (p ++ ks, [Some x'; None; None])) by exact E. rewrite ET. reflexivity.
    + intros k dd ->. apply (Q k dd _ eq_refl eq_refl).
  - destruct (ecp_spec MR (S (0 + ddepth [e] + 0)) p [e]) as (ks & x' & E & P & Q). cbn [slots] in E.
    exists ks, x'. split; [|split; [exact P|]].
    + match goal with |- context [ensure_common_path ?f ?pp ?l] => set (T := ensure_common_path f pp l) end.
      assert (ET : T = (p ++ ks, [None; Some x'; None])) by exact E. rewrite ET. reflexivity.
    + intros k dd ->. apply (Q k dd _ eq_refl eq_refl).
  - destruct (ecp_spec MB (S (ddepth [e] + ddepth [e] + 0)) p [e]) as (ks & x' & E & P & Q). cbn [slots] in E.
    exists ks, x'. split; [|split; [exact P|]].
    + match goal with |- context [ensure_common_path ?f ?pp ?l] => set (T := ensure_common_path f pp l) end.
      assert (ET : T = (p ++ ks, [Some x'; Some x'; None])) by exact E. rewrite ET. reflexivity.
    + intros k dd ->. apply (Q k dd _ eq_refl eq_refl).
Qed.

(* a decision and the diff entry it carries *)
Definition carries (m : mode) (p : path) (e : dentry) (dec : decision) : Prop :=
  exists ks x', dec = ldec m (p ++ ks) x' /\ push_path ks x' = [e] /\ (forall k dd, e = DPatch k dd -> exists ks', ks = k :: ks').

Lemma onesided_fold_gen (side : bool) p L : forall l B,
  Forall (fun kv => dict_get (fst kv) L = Some (snd kv)) l ->
  exists decs,
    fold_left (fun (acc : res builder) kv =>
                 do B <- acc;
                 b_onesided B p (option_map (fun e => [e]) (dict_get (fst kv) (if side then L else [])))
                                (option_map (fun e => [e]) (dict_get (fst kv) (if side then [] else L)))) l (Ok B)
    = Ok (B ++ decs) /\ Forall2 (carries (of_side side) p) (map snd l) decs.
Proof.
  induction l as [|[k e] r IH]; intros B Hl; cbn [fold_left map].
  - exists []. rewrite app_nil_r. split; [reflexivity | constructor].
  - inversion Hl as [|? ? Hk Hr]; subst. cbn [fst snd] in Hk. cbn [bind fst snd].
    destruct (add_decision_local (of_side side) B p e) as (ks & x' & E & P & Q).
    destruct (IH (B ++ [ldec (of_side side) (p ++ ks) x']) Hr) as (decs & F1 & F2).
    exists (ldec (of_side side) (p ++ ks) x' :: decs). split; [|constructor; [exists ks, x'; repeat split; assumption | exact F2]].
    rewrite <- app_assoc in F1. cbn [app] in F1. rewrite <- F1. f_equal.
    destruct side; rewrite Hk; cbn [option_map dict_get]; unfold b_onesided; cbn [truthy orb andb negb]; f_equal; exact E.
Qed.

Section AgreeFold.
  Variable St : strat.
  Variable strict cstrict : bool.

  Lemma merge_key_same M rec base p B k e :
    merge_key St strict cstrict M rec base p B k e e = Ok (add_decision B p AEither (Some [e]) (Some [e]) false None None None).
  Proof.
    assert (A : b_agreement B p (Some [e]) (Some [e]) = Ok (add_decision B p AEither (Some [e]) (Some [e]) false None None None)).
    { unfold b_agreement. cbn [truthy andb negb odiff_pyeqb]. rewrite diff_pyeqb_refl. reflexivity. }
    unfold merge_key, one. destruct (is_remove e); cbn [orb andb].
    - exact A.
    - rewrite opk_eqb_refl. cbn [negb]. rewrite same_entry_refl. exact A.
  Qed.

  Lemma agree_fold_gen M rec base p L : forall l B,
    Forall (fun kv => dict_get (fst kv) L = Some (snd kv)) l ->
    exists decs,
      fold_left (fun (acc : res builder) kv =>
                   do B <- acc;
                   match dict_get (fst kv) L with
                   | Some rd => merge_key St strict cstrict M rec base p B (fst kv) (snd kv) rd
                   | None => Ok B
                   end) l (Ok B)
      = Ok (B ++ decs) /\ Forall2 (carries MB p) (map snd l) decs.
  Proof.
    induction l as [|[k e] r IH]; intros B Hl; cbn [fold_left map].
    - exists []. rewrite app_nil_r. split; [reflexivity | constructor].
    - inversion Hl as [|? ? Hk Hr]; subst. cbn [fst snd] in Hk. cbn [bind fst snd]. rewrite Hk.
      destruct (add_decision_local MB B p e) as (ks & x' & E & P & Q). cbn [m_action m_local m_remote] in E.
      destruct (IH (B ++ [ldec MB (p ++ ks) x']) Hr) as (decs & F1 & F2).
      exists (ldec MB (p ++ ks) x' :: decs). split; [|constructor; [exists ks, x'; repeat split; assumption | exact F2]].
      rewrite <- app_assoc in F1. cbn [app] in F1. rewrite <- F1. f_equal.
      rewrite merge_key_same. f_equal. exact E.
  Qed.
End AgreeFold.

(* ---------- sort_desc: the decisions at the root path come last, in their original order ---------- *)
Section SortSplit.
  Context {A : Type}.
  Variable f : A -> list skel.
  Definition isroot (x : A) : bool := match f x with [] => true | _ => false end.

  Lemma sort_desc_in l x : In x (sort_desc f l) -> In x l.
  Proof. intros Hin. eapply Permutation_in; [apply Permutation_sym; apply sort_desc_perm | exact Hin]. Qed.

  Lemma insert_root x : isroot x = true -> forall S Rt,
    (forall y, In y S -> isroot y = false) -> (forall y, In y Rt -> isroot y = true) ->
    insert_desc f x (S ++ Rt) = S ++ x :: Rt.
  Proof.
    intros Hx. unfold isroot in Hx. destruct (f x) eqn:Fx; [|discriminate].
    induction S as [|y S' IH]; intros Rt HS HR; cbn [app].
    - destruct Rt as [|z Rt']; [reflexivity|]. cbn [insert_desc]. rewrite Fx.
      specialize (HR z (or_introl eq_refl)). unfold isroot in HR. destruct (f z); [reflexivity | discriminate].
    - cbn [insert_desc]. rewrite Fx. pose proof (HS y (or_introl eq_refl)) as Hy. unfold isroot in Hy.
      destruct (f y) eqn:Fy; [discriminate|]. cbn [sk_cmp]. rewrite IH; [reflexivity | | exact HR].
      intros z Hz. apply HS. right. exact Hz.
  Qed.

  Lemma insert_nonroot x : isroot x = false -> forall S Rt,
    (forall y, In y Rt -> isroot y = true) ->
    insert_desc f x (S ++ Rt) = insert_desc f x S ++ Rt.
  Proof.
    intros Hx. unfold isroot in Hx. destruct (f x) eqn:Fx; [discriminate|].
    induction S as [|y S' IH]; intros Rt HR; cbn [app].
    - destruct Rt as [|z Rt']; [reflexivity|]. cbn [insert_desc]. rewrite Fx.
      specialize (HR z (or_introl eq_refl)). unfold isroot in HR. destruct (f z); [reflexivity | discriminate].
    - cbn [insert_desc]. rewrite Fx. destruct (sk_cmp (f y) (s :: l)); try reflexivity.
      cbn [app]. rewrite IH by exact HR. reflexivity.
  Qed.

  Lemma sort_desc_split l :
    sort_desc f l = sort_desc f (filter (fun x => negb (isroot x)) l) ++ filter isroot l.
  Proof.
    induction l as [|x r IH]; [reflexivity|].
    change (sort_desc f (x :: r)) with (insert_desc f x (sort_desc f r)). rewrite IH. cbn [filter].
    destruct (isroot x) eqn:Hx; cbn [negb].
    - apply insert_root; [exact Hx | |].
      + intros y Hy. apply sort_desc_in in Hy. apply filter_In in Hy as [_ Hy]. apply negb_true_iff. exact Hy.
      + intros y Hy. apply filter_In in Hy as [_ Hy]. exact Hy.
    - change (sort_desc f (x :: filter (fun x0 => negb (isroot x0)) r)) with (insert_desc f x (sort_desc f (filter (fun x0 => negb (isroot x0)) r))).
      apply insert_nonroot; [exact Hx|]. intros y Hy. apply filter_In in Hy as [_ Hy]. exact Hy.
  Qed.
End SortSplit.

(* ---------- facts about a well-formed object diff ---------- *)
Lemma wf_map_patch_in (r : json -> list dentry -> bool) kv : forall d prev k dd,
  wf_map_of r kv prev d = true -> In (DPatch (KS k) dd) d ->
  exists y, obj_get k kv = Some y /\ is_container y = true /\ r y dd = true.
Proof.
  induction d as [|e rest IH]; intros prev k dd Hw Hin; [destruct Hin|]. cbn [wf_map_of] in Hw.
  destruct (dkey e) as [|k0] eqn:Ek; [discriminate|].
  apply andb_true_iff in Hw as [H1 H3]. apply andb_true_iff in H1 as [_ H2].
  destruct Hin as [->|Hin]; [|apply (IH _ _ _ H3 Hin)].
  cbn [dkey] in Ek. inversion Ek; subst k0. destruct (obj_get k kv) as [y|]; [|discriminate].
  apply andb_true_iff in H2 as [H2 H4]. apply andb_true_iff in H2 as [H2 _]. exists y. repeat split; assumption.
Qed.

Lemma wf_map_add_in (r : json -> list dentry -> bool) kv : forall d prev k v,
  wf_map_of r kv prev d = true -> In (DAdd (KS k) v) d -> obj_has k kv = false.
Proof.
  induction d as [|e rest IH]; intros prev k v Hw Hin; [destruct Hin|]. cbn [wf_map_of] in Hw.
  destruct (dkey e) as [|k0] eqn:Ek; [discriminate|].
  apply andb_true_iff in Hw as [H1 H3]. apply andb_true_iff in H1 as [_ H2].
  destruct Hin as [->|Hin]; [|apply (IH _ _ _ H3 Hin)].
  cbn [dkey] in Ek. inversion Ek; subst k0. apply negb_true_iff. exact H2.
Qed.

Lemma wf_map_skeys (r : json -> list dentry -> bool) kv : forall d prev, wf_map_of r kv prev d = true -> skeys_lt prev d.
Proof.
  induction d as [|e rest IH]; intros prev Hw; [exact I|]. cbn [wf_map_of] in Hw. cbn [skeys_lt].
  destruct (dkey e) as [|k0]; [discriminate|].
  apply andb_true_iff in Hw as [H1 H3]. apply andb_true_iff in H1 as [H1 _].
  split; [destruct prev; [exact H1 | exact I] | apply IH; exact H3].
Qed.

Lemma wf_map_shapes (r : json -> list dentry -> bool) kv : forall d prev, wf_map_of r kv prev d = true ->
  Forall (fun e => exists k, dkey e = KS k /\ match e with DAddRange _ _ | DRemoveRange _ _ => False | _ => True end) d.
Proof.
  induction d as [|e rest IH]; intros prev Hw; [constructor|]. cbn [wf_map_of] in Hw.
  destruct (dkey e) as [|k0] eqn:Ek; [discriminate|].
  apply andb_true_iff in Hw as [H1 H3]. apply andb_true_iff in H1 as [_ H2].
  constructor; [|eapply IH; exact H3]. exists k0. split; [exact Ek|]. destruct e; try exact I; discriminate.
Qed.

Lemma find_entry_nodup k : forall d e, NoDup (dkeys d) -> In e d -> dkey e = KS k -> find_entry k d = Some e.
Proof.
  induction d as [|x r IH]; intros e Hnd Hin Hk; [destruct Hin|]. cbn [dkeys map] in Hnd. inversion Hnd as [|? ? Hni Hnd']; subst.
  cbn [find_entry]. destruct Hin as [->|Hin].
  - rewrite Hk, str_eqb_refl. reflexivity.
  - destruct (dkey x) as [|kx] eqn:Ex; [apply IH; assumption|].
    destruct (str_eqb k kx) eqn:E; [|apply IH; assumption].
    apply str_eqb_eq in E. subst kx. exfalso. apply Hni. unfold key_str. rewrite Ex.
    apply in_map_iff. exists e. split; [unfold key_str; rewrite Hk; reflexivity | exact Hin].
Qed.

Lemma push_path_nil_or line (x : diff) : match line with [] => x | _ => push_path line x end = push_path line x.
Proof. destruct line; reflexivity. Qed.

Lemma skeys_lt_filter (P : dentry -> bool) : forall d prev, skeys_lt prev d -> skeys_lt prev (filter P d).
Proof.
  induction d as [|e r IH]; intros prev Hs; [exact I|]. cbn [skeys_lt] in Hs. destruct (dkey e) as [|k] eqn:Ek; [contradiction|].
  destruct Hs as [H1 H2]. cbn [filter]. destruct (P e).
  - cbn [skeys_lt]. rewrite Ek. split; [exact H1 | apply IH; exact H2].
  - apply IH. destruct prev as [p|]; [eapply skeys_lt_weaken; eassumption|].
    clear -H2. destruct r as [|x q]; [exact I|]. cbn [skeys_lt] in *. destruct (dkey x); [exact H2|]. tauto.
Qed.

(* ---------- the application loop ---------- *)
Definition firstkey (dec : decision) : pystr := match d_path dec with KS k :: _ => k | _ => [] end.

Lemma firstkey_ldec (side : mode) k ks x : firstkey (ldec side (KS k :: ks) x) = k.
Proof. unfold firstkey. rewrite ldec_path. reflexivity. Qed.

Section Loop.
  Variable tag : pystr -> mode.      (* which side each key's change comes from *)
  Variable kv : list (pystr * json).
  Variable d : diff.
  Hypothesis Hw : wfj (JObj kv) = true.
  Hypothesis Hd : wfd (JObj kv) d.

  Let base := JObj kv.
  Let rec0 := patch (depth base).

  Lemma Hmap : wf_map_of (wf_diff (depth base)) kv None d = true.
  Proof. exact Hd. Qed.

  Lemma entries_ok : Forall (entry_ok rec0 kv) d /\ NoDup (dkeys d).
  Proof.
    destruct (wf_map_entries (wf_diff (depth base)) rec0 (spec_patch (depth base)) kv) with (d := d) (prev := @None pystr) as (H1 & H2 & _); [|exact Hmap|].
    - intros k x dd Ex Hx. apply (patch_is_spec (depth base) x dd (wfj_in_obj kv k x Hw Ex) Hx (depth base) (le_n _)).
    - split; [|exact H2]. rewrite Forall_forall in *. intros e He. apply entry_spec_entry_ok with (sub := spec_patch (depth base)). apply H1. exact He.
  Qed.

  Lemma target : exists tv, sp base d = JObj tv /\ keys_sorted tv = true /\ forall k, obj_get k tv = dmeaning rec0 kv d k.
  Proof.
    destruct entries_ok as [E1 E2]. destruct (patch_dict_spec rec0 kv d E1 E2) as (r & R1 & R2 & R3).
    exists r. split; [|split; assumption].
    pose proof (patch_sp base d (S (depth base)) Hw Hd (Nat.lt_succ_diag_r _)) as P.
    cbn [patch base] in P. fold base in P. fold rec0 in P. rewrite R1 in P. cbn [bind] in P. symmetry. apply ok_inj. exact P.
  Qed.

  Lemma patch_entry k dd : In (DPatch (KS k) dd) d ->
    exists y, obj_get k kv = Some y /\ wfj y = true /\ wfd y dd /\ rec0 y dd = Ok (sp y dd).
  Proof.
    intros Hin. destruct (wf_map_patch_in _ kv d None k dd Hmap Hin) as (y & Y1 & Y2 & Y3).
    exists y. split; [exact Y1|]. assert (Wy : wfj y = true) by (eapply wfj_in_obj; eassumption).
    split; [exact Wy|]. split; [apply (wf_diff_lower _ _ _ Y3)|].
    apply patch_sp; [exact Wy | apply (wf_diff_lower _ _ _ Y3) | apply (depth_in_obj kv k y Y1)].
  Qed.

  Variable tv : list (pystr * json).
  Hypothesis Htv : forall k, obj_get k tv = dmeaning rec0 kv d k.

  Definition KW (S : list pystr) (ms : list (pystr * json)) : Prop :=
    forall k, obj_get k ms = if existsb (str_eqb k) S then obj_get k tv else obj_get k kv.

  Definition Inv (st : astate) (S : list pystr) : Prop :=
    exists ms0 S0 ms,
      a_merged st = JObj ms0 /\ a_clear_all st = false /\ KW S0 ms0 /\ incl S0 S
      /\ flush st = Ok (JObj ms) /\ keys_sorted ms = true /\ KW S ms
      /\ (a_prev st = None \/ exists k' q', a_prev st = Some (KS k' :: q') /\ In k' S).

  Definition nr_ok (dec : decision) : Prop :=
    exists k ks' x' dd, dec = ldec (tag k) (KS k :: ks') x' /\ push_path ks' x' = dd /\ In (DPatch (KS k) dd) d.

  Lemma not_in_existsb k S : ~ In k S -> existsb (str_eqb k) S = false.
  Proof.
    intros Hn. destruct (existsb (str_eqb k) S) eqn:E; [|reflexivity]. apply existsb_exists in E as (x & Hx & Ex).
    apply str_eqb_eq in Ex. subst. contradiction.
  Qed.

  Lemma step_nonroot st S dec :
    Inv st S -> nr_ok dec -> ~ In (firstkey dec) S ->
    exists st', apply_step st dec = Ok st' /\ Inv st' (firstkey dec :: S).
  Proof.
    intros (ms0 & S0 & ms & I1 & I2 & I3 & I4 & I5 & I6 & I7 & I8) (k & ks' & x' & dd & -> & Hp & Hin) Hni.
    rewrite firstkey_ldec in *.
    destruct (patch_entry k dd Hin) as (y & Y1 & Y2 & Y3 & Y4).
    assert (G0 : obj_get k ms0 = Some y).
    { rewrite I3. rewrite not_in_existsb; [exact Y1|]. intros X. apply Hni. apply I4. exact X. }
    assert (G1 : obj_get k ms = Some y) by (rewrite I7, (not_in_existsb k S Hni); exact Y1).
    rewrite <- Hp in Y3.
    destruct (at_path ks' y x' Y2 Y3) as (q1 & line & r & S1 & S2 & S3 & S4 & S5 & _).
    unfold apply_step. rewrite I1, ldec_path. cbn [split_string_path get_item]. rewrite G0. cbn [bind]. rewrite S1. cbn [bind fst snd].
    assert (Hneq : opath_eqb (KS k :: q1) (a_prev st) = false).
    { destruct I8 as [->|(k' & q' & -> & Hk')]; [reflexivity|]. cbn [opath_eqb path_eqb key_eqb].
      destruct (str_eqb k k') eqn:E; [|reflexivity]. apply str_eqb_eq in E. subst k'. contradiction. }
    rewrite Hneq, I5. cbn [bind get_path get_item]. rewrite G1. cbn [bind]. rewrite S2. cbn [bind].
    rewrite ldec_resolve, ldec_clear. cbn [bind]. rewrite push_path_nil_or.
    eexists. split; [reflexivity|].
    exists ms, S, (obj_set k (sp y dd) ms). cbn [a_merged a_clear_all a_prev].
    split; [reflexivity|]. split; [reflexivity|]. split; [exact I7|]. split; [intros z Hz; right; exact Hz|]. split.
    - unfold flush. cbn [a_prev a_resolved a_diffs a_merged].
      rewrite (patch_sp r _ _ S3 S4) by (unfold pfuel; lia). cbn [bind set_at get_item]. rewrite G1. cbn [bind].
      rewrite S5. cbn [bind set_item]. rewrite Hp. reflexivity.
    - split; [apply obj_set_sorted; exact I6|]. split.
      + intros k0. rewrite obj_get_set. cbn [existsb]. destruct (str_eqb k0 k) eqn:E.
        * apply str_eqb_eq in E. subst k0. cbn [orb]. rewrite Htv. unfold dmeaning.
          destruct entries_ok as [_ Nd]. rewrite (find_entry_nodup k d _ Nd Hin eq_refl). cbn [DictProofs.is_remove set_of].
          rewrite Y1. rewrite Y4. reflexivity.
        * cbn [orb]. apply I7.
      + right. exists k, q1. split; [reflexivity | left; reflexivity].
  Qed.

  Lemma loop_nonroot : forall N st S,
    Forall nr_ok N -> NoDup (map firstkey N) -> (forall dec, In dec N -> ~ In (firstkey dec) S) -> Inv st S ->
    exists st', apply_loop st N = Ok st' /\ Inv st' (rev (map firstkey N) ++ S).
  Proof.
    induction N as [|dec N IH]; intros st S HF Hnd Hni HI; cbn [apply_loop map rev app].
    - exists st. split; [reflexivity | exact HI].
    - inversion HF as [|? ? H1 H2]; subst. cbn [map] in Hnd. inversion Hnd as [|? ? Hn1 Hn2]; subst.
      destruct (step_nonroot st S dec HI H1 (Hni dec (or_introl eq_refl))) as (st1 & E1 & I1). rewrite E1. cbn [bind].
      destruct (IH st1 (firstkey dec :: S) H2 Hn2) as (st2 & E2 & I2); [|exact I1|].
      + intros dec' Hin [E|X]; [apply Hn1; rewrite E; apply in_map; exact Hin | apply (Hni dec' (or_intror Hin)); exact X].
      + exists st2. split; [exact E2|]. rewrite <- app_assoc. exact I2.
  Qed.
End Loop.

Lemma apply_loop_app : forall a b st, apply_loop st (a ++ b) = do st' <- apply_loop st a; apply_loop st' b.
Proof.
  induction a as [|x a IH]; intros b st; cbn [app apply_loop bind]; [reflexivity|].
  destruct (apply_step st x) as [st1|]; cbn [bind]; [apply IH | reflexivity].
Qed.

Lemma NoDup_map_filter' {A B} (f : A -> B) (p : A -> bool) (l : list A) :
  NoDup (map f l) -> NoDup (map f (filter p l)).
Proof.
  induction l as [|x l IH]; intros Hn; [constructor|]. cbn [map] in Hn. inversion Hn as [|? ? Hni Hnd]; subst.
  cbn [filter]. destruct (p x); [|apply IH; exact Hnd]. cbn [map]. constructor; [|apply IH; exact Hnd].
  intros Hin. apply Hni. apply in_map_iff in Hin as (y & Ey & Hy). apply filter_In in Hy as [Hy _].
  apply in_map_iff. exists y. split; assumption.
Qed.

Lemma find_entry_filter (P : dentry -> bool) k : forall d,
  NoDup (dkeys d) -> Forall (fun e => exists s, dkey e = KS s) d ->
  find_entry k (filter P d) = match find_entry k d with Some e => if P e then Some e else None | None => None end.
Proof.
  induction d as [|x r IH]; intros Hnd Hk; [reflexivity|].
  cbn [dkeys map] in Hnd. inversion Hnd as [|? ? Hni Hnd']; subst. inversion Hk as [|? ? (s & Es) Hk']; subst.
  cbn [filter find_entry]. rewrite Es. destruct (P x) eqn:Px.
  - cbn [find_entry]. rewrite Es. destruct (str_eqb k s); [rewrite Px; reflexivity | apply IH; assumption].
  - rewrite (IH Hnd' Hk'). destruct (str_eqb k s) eqn:E; [|reflexivity]. rewrite Px.
    apply str_eqb_eq in E. subst s.
    destruct (find_entry k r) as [e|] eqn:Fe; [|reflexivity]. exfalso. apply Hni. unfold key_str. rewrite Es.
    eapply find_entry_in_keys. exact Fe.
Qed.

Lemma nonpatch_set_of rec1 a1 rec2 a2 e : is_patch e = false -> set_of rec1 a1 e = set_of rec2 a2 e.
Proof. destruct e; try discriminate; reflexivity. Qed.

Lemma ldec_root_ok (side : mode) M e : root_dec_ok M (ldec side [] [e]) [e].
Proof. unfold root_dec_ok. rewrite ldec_path, ldec_resolve, ldec_clear. repeat split. Qed.

Section Final.
  Variable tag : pystr -> mode.
  Variable O : oracles.
  Variable cfg : config.
  Variable St : strat.
  Variable H : hooks.
  Variable gk : guard_kind.
  Variable strict : bool.
  Variable cstrict : bool.

  Variable kv : list (pystr * json).
  Variable d : diff.
  Hypothesis Hw : wfj (JObj kv) = true.
  Hypothesis Hd : wfd (JObj kv) d.
  Variable tv : list (pystr * json).
  Hypothesis Htv : forall k, obj_get k tv = dmeaning (patch (depth (JObj kv))) kv d k.
  Hypothesis Stv : keys_sorted tv = true.

  Let rec0 := patch (depth (JObj kv)).
  Let nonpatch := fun e => negb (is_patch e).
  Let F := filter nonpatch d.

  Lemma shapes : Forall (fun e => exists k, dkey e = KS k /\ match e with DAddRange _ _ | DRemoveRange _ _ => False | _ => True end) d.
  Proof. exact (wf_map_shapes _ kv d None (Hmap kv d Hd)). Qed.

  Lemma keysKS : Forall (fun e => exists s, dkey e = KS s) d.
  Proof. eapply Forall_impl; [|exact shapes]. intros e (k & E & _). exists k. exact E. Qed.

  Lemma Nd : NoDup (dkeys d).
  Proof. exact (proj2 (entries_ok kv d Hw Hd)). Qed.

  Definition Spatch (S : list pystr) : Prop := forall k, In k S <-> exists dd, In (DPatch (KS k) dd) d.

  Lemma root_patch rec' ms S :
    KW kv tv S ms -> keys_sorted ms = true -> Spatch S -> patch_dict rec' ms F = Ok tv.
  Proof.
    intros HK Hs HS.
    assert (HinF : forall e, In e F -> In e d /\ is_patch e = false).
    { intros e He. apply filter_In in He as [H1 H2]. split; [exact H1 | apply negb_true_iff; exact H2]. }
    assert (Hok : Forall (entry_ok rec' ms) F).
    { apply Forall_forall. intros e He. destruct (HinF e He) as [Hin Hnp].
      pose proof shapes as Sh. rewrite Forall_forall in Sh. destruct (Sh e Hin) as (k & Ek & Hsh).
      destruct e as [[?|k1] v|[?|k1]|[?|k1] v|[?|k1] vs|[?|k1] len|[?|k1] dd]; cbn [dkey] in Ek; try discriminate; try contradiction;
        cbn [entry_ok]; try exact I.
      unfold obj_has. rewrite HK.
      assert (NS : ~ In k1 S).
      { intros X. apply HS in X as (dd & X). pose proof (find_entry_nodup k1 d _ Nd X eq_refl) as F1.
        pose proof (find_entry_nodup k1 d _ Nd Hin eq_refl) as F2. congruence. }
      rewrite (not_in_existsb k1 S NS).
      pose proof (wf_map_add_in _ kv d None k1 v (Hmap kv d Hd) Hin) as A. unfold obj_has in A. exact A. }
    assert (HndF : NoDup (dkeys F)) by (apply NoDup_map_filter'; exact Nd).
    destruct (patch_dict_spec rec' ms F Hok HndF) as (r & R1 & R2 & R3). rewrite R1. f_equal.
    apply sorted_ext; [exact R2 | exact Stv|]. intros k. rewrite R3, Htv. unfold dmeaning.
    unfold F. rewrite (find_entry_filter nonpatch k d Nd keysKS).
    destruct (find_entry k d) as [e|] eqn:Fe.
    - unfold nonpatch. destruct (is_patch e) eqn:Pe; cbn [negb].
      + (* a patch entry: already applied by its own decision *)
        destruct e as [| | | | |k1 dd]; try discriminate.
        pose proof (fe_in_obj := find_entry_key k d _ Fe). unfold key_str in fe_in_obj.
        assert (Hin : In (DPatch k1 dd) d).
        { clear -Fe. induction d as [|x r IHr]; [discriminate|]. cbn [find_entry] in Fe. destruct (dkey x); [right; apply IHr; exact Fe|].
          destruct (str_eqb k s); [inversion Fe; left; reflexivity | right; apply IHr; exact Fe]. }
        pose proof keysKS as KK. rewrite Forall_forall in KK. destruct (KK _ Hin) as (s & Es). cbn [dkey] in Es. subst k1.
        cbn [dkey] in fe_in_obj. subst s.
        assert (InS : In k S) by (apply HS; exists dd; exact Hin).
        rewrite HK. replace (existsb (str_eqb k) S) with true; [rewrite Htv; unfold dmeaning; rewrite Fe; reflexivity|].
        symmetry. apply existsb_exists. exists k. split; [exact InS | apply str_eqb_refl].
      + rewrite (nonpatch_set_of rec' ms rec0 kv e Pe). reflexivity.
    - assert (NS : ~ In k S).
      { intros X. apply HS in X as (dd & X). rewrite (find_entry_nodup k d _ Nd X eq_refl) in Fe. discriminate. }
      rewrite HK, (not_in_existsb k S NS). reflexivity.
  Qed.

  Lemma root_phase st S :
    Inv kv tv st S -> Spatch S ->
    exists st', apply_loop st (map (fun e => ldec (tag (key_str e)) [] [e]) F) = Ok st' /\ flush st' = Ok (JObj tv).
  Proof.
    intros (ms0 & S0 & ms & I1 & I2 & I3 & I4 & I5 & I6 & I7 & I8) HS.
    destruct F as [|e1 rest] eqn:EF.
    - exists st. split; [reflexivity|]. rewrite I5. f_equal. f_equal.
      pose proof (root_patch (patch 0) ms S I7 I6 HS) as P. rewrite EF in P.
      rewrite (patch_dict_nil _ ms I6) in P. apply ok_inj. exact P.
    - cbn [map apply_loop]. unfold apply_step at 1. rewrite I1, ldec_path. cbn [split_string_path bind].
      assert (Hneq : opath_eqb [] (a_prev st) = false) by (destruct I8 as [->|(k' & q' & -> & _)]; reflexivity).
      rewrite Hneq, I5. cbn [bind get_path]. rewrite ldec_resolve, ldec_clear. cbn [bind].
      assert (FF : flat (e1 :: rest) /\ skeys_lt None (e1 :: rest)).
      { rewrite <- EF. split.
        - unfold flat, F. apply Forall_forall. intros e He. apply filter_In in He as [_ He]. apply negb_true_iff. exact He.
        - unfold F. apply skeys_lt_filter. exact (wf_map_skeys _ kv d None (Hmap kv d Hd)). }
      destruct FF as [Ff Fs].
      exists (mkA (JObj ms) (Some []) (JObj ms) (e1 :: rest) false). split.
      + apply (apply_loop_root_gen (JObj ms) _ (map single rest) [e1] (e1 :: rest)).
        * clear. induction rest as [|x r IH]; cbn [map]; constructor; [apply ldec_root_ok | exact IH].
        * apply (acc_diffs_flat_sorted rest [e1]); [discriminate | exact Ff | exact Fs].
      + unfold flush. cbn [a_prev a_resolved a_diffs a_merged].
        unfold pfuel. replace (ddepth (e1 :: rest) + depth (JObj ms) + 4) with (Datatypes.S (ddepth (e1 :: rest) + depth (JObj ms) + 3)) by lia.
        cbn [patch]. pose proof (root_patch (patch (ddepth (e1 :: rest) + depth (JObj ms) + 3)) ms S I7 I6 HS) as P. rewrite EF in P.
        rewrite P. reflexivity.
  Qed.
End Final.

(* ---------- which decisions the one-sided object merge makes ---------- *)
Definition pkey (dec : decision) : list skel := sort_key (d_path dec).

Lemma isroot_path dec : isroot pkey dec = match d_path dec with [] => true | _ => false end.
Proof. unfold isroot, pkey, sort_key. destruct (d_path dec); reflexivity. Qed.

Lemma classify (tag : pystr -> mode) d0 : forall d' B,
  Forall2 (fun e dec => carries (tag (key_str e)) [] e dec) d' B -> (forall e, In e d' -> In e d0) ->
  Forall (fun e => exists k, dkey e = KS k /\ match e with DAddRange _ _ | DRemoveRange _ _ => False | _ => True end) d' ->
  filter (isroot pkey) B = map (fun e => ldec (tag (key_str e)) [] [e]) (filter (fun e => negb (is_patch e)) d')
  /\ Forall (nr_ok tag d0) (filter (fun x => negb (isroot pkey x)) B)
  /\ map firstkey (filter (fun x => negb (isroot pkey x)) B) = map key_str (filter is_patch d')
  /\ Forall (fun dec => d_conflict dec = false /\ drop_strategy dec = dec) B.
Proof.
  induction 1 as [|e dec d' B (ks & x' & -> & P & Q) HF IH]; intros Hin Hsh.
  - repeat split; constructor.
  - inversion Hsh as [|? ? (k & Ek & Sh) Hsh']; subst.
    destruct (IH (fun e0 He0 => Hin e0 (or_intror He0)) Hsh') as (A1 & A2 & A3 & A4).
    cbn [app] in *. cbn [filter]. rewrite isroot_path, ldec_path.
    destruct ks as [|k0 ks'].
    + (* stays at the root: not a patch entry *)
      cbn [push_path fold_right] in P. subst x'.
      assert (Np : is_patch e = false).
      { destruct e; try reflexivity. destruct (Q _ _ eq_refl) as (? & X). discriminate. }
      rewrite Np. cbn [negb map]. rewrite A1. repeat split; try assumption. constructor; [split; [apply ldec_conf | apply ldec_drop] | exact A4].
    + cbn [push_path fold_right] in P. fold (push_path ks' x') in P. inversion P as [Pe]. 
      rewrite <- Pe in Ek. cbn [dkey] in Ek. subst k0.
      cbn [is_patch negb map]. rewrite firstkey_ldec. split; [exact A1|]. split; [|split].
      * constructor; [|exact A2]. exists k, ks', x', (push_path ks' x'). split; [reflexivity|]. split; [reflexivity|].
        apply Hin. left. symmetry. exact Pe.
      * rewrite A3. unfold key_str. cbn [dkey]. reflexivity.
      * constructor; [split; [apply ldec_conf | apply ldec_drop] | exact A4].
Qed.

Section MainThm.
  Variable O : oracles.
  Variable cfg : config.
  Variable St : strat.
  Variable H : hooks.
  Variable gk : guard_kind.
  Variable strict : bool.
  Variable cstrict : bool.

  Definition m_ld (m : mode) (d : diff) : diff := match m with MR => [] | _ => d end.
  Definition m_rd (m : mode) (d : diff) : diff := match m with ML => [] | _ => d end.

  Lemma merge_dicts_onesided_gen (m : mode) M rec base p d :
    skeys_lt None d ->
    exists decs, merge_dicts St H strict cstrict M rec base p (m_ld m d) (m_rd m d) = Ok decs
                 /\ Forall2 (carries m p) d decs.
  Proof.
    intros Hs. unfold merge_dicts.
    pose proof (sorted_lookup _ (as_dict_sorted d [] _ I (as_dict_ok d Hs))) as Hlook.
    assert (NCof : forall mm decs, Forall2 (carries mm p) d decs -> no_conf decs).
    { intros mm decs F2. unfold no_conf. clear -F2. induction F2 as [|e dec d' B (ks & x' & -> & _) _ IH]; constructor; [apply ldec_conf | exact IH]. }
    destruct m; cbn [m_ld m_rd].
    - destruct (onesided_fold_gen true p (map pair_of d) (map pair_of d) [] Hlook) as (decs & F1 & F2).
      rewrite map_map in F2. cbn [snd pair_of] in F2. rewrite map_id in F2. cbn [of_side] in F2.
      exists decs. split; [|exact F2].
      rewrite (as_dict_ok d Hs). cbn [bind as_dict_based_diff].
      cbn [filter fold_left]. rewrite filter_absent_nil.
      match goal with |- bind ?X _ = _ => replace X with (Ok ([] ++ decs) : res builder) by (symmetry; exact F1) end.
      cbn [bind app]. rewrite second_fold_nil. cbn [bind].
      apply resolve_conflicted_dict_no_conf. exact (NCof _ _ F2).
    - destruct (onesided_fold_gen false p (map pair_of d) (map pair_of d) [] Hlook) as (decs & F1 & F2).
      rewrite map_map in F2. cbn [snd pair_of] in F2. rewrite map_id in F2. cbn [of_side] in F2.
      exists decs. split; [|exact F2].
      cbn [as_dict_based_diff bind]. rewrite (as_dict_ok d Hs). cbn [bind].
      cbn [filter]. rewrite filter_absent_nil.
      pose proof (rebuild_sorted d [] Hs) as HR. cbn [map app] in HR. rewrite HR.
      match goal with |- bind ?X _ = _ => replace X with (Ok ([] ++ decs) : res builder) by (symmetry; exact F1) end.
      cbn [bind app fold_left].
      apply resolve_conflicted_dict_no_conf. exact (NCof _ _ F2).
    - destruct (agree_fold_gen St strict cstrict M rec base p (map pair_of d) (map pair_of d) [] Hlook) as (decs & F1 & F2).
      rewrite map_map in F2. cbn [snd pair_of] in F2. rewrite map_id in F2.
      exists decs. split; [|exact F2].
      rewrite (as_dict_ok d Hs). cbn [bind].
      assert (HN : filter (fun kv : pystr * dentry => match dict_get (fst kv) (map pair_of d) with None => true | Some _ => false end)
                          (map pair_of d) = []).
      { apply filter_all_false. intros kv Hin. rewrite Forall_forall in Hlook. rewrite (Hlook kv Hin). reflexivity. }
      rewrite HN. cbn [fold_left bind].
      match goal with |- bind ?X _ = _ => replace X with (Ok ([] ++ decs) : res builder) by (symmetry; exact F1) end.
      cbn [bind app].
      apply resolve_conflicted_dict_no_conf. exact (NCof _ _ F2).
  Qed.

  (* whatever produced them: decisions that carry the entries of a well-formed object diff apply to patch(base, d) *)
  Theorem carried_decisions_apply (tag : pystr -> mode) kv d B :
    wfj (JObj kv) = true -> wfd (JObj kv) d ->
    Forall2 (fun e dec => carries (tag (key_str e)) [] e dec) d B ->
    no_conf B /\ no_conf (validated B)
    /\ forall m, depth (JObj kv) < m -> apply_decisions (JObj kv) (validated B) = patch m (JObj kv) d.
  Proof.
    intros Hw Hd M2.
    destruct (target kv d Hw Hd) as (tv & T1 & T2 & T3).
    destruct (classify tag d d B M2 (fun e He => He) (shapes kv d Hd)) as (C1 & C2 & C3 & C4).
    assert (NC : no_conf B) by (unfold no_conf; eapply Forall_impl; [|exact C4]; intros dec [X _]; exact X).
    split; [exact NC|].
    assert (ED : map drop_strategy B = B).
    { clear -C4. induction C4 as [|dec B' [_ X] _ IH]; [reflexivity|]. cbn [map]. rewrite X, IH. reflexivity. }
    unfold validated. rewrite ED. fold pkey. rewrite (sort_desc_split pkey B).
    set (N := sort_desc pkey (filter (fun x => negb (isroot pkey x)) B)).
    assert (PN : Permutation (filter (fun x => negb (isroot pkey x)) B) N) by apply sort_desc_perm.
    split.
    { unfold no_conf. apply Forall_app. split.
      - eapply Permutation_Forall; [exact PN|]. apply Forall_forall. intros dec Hin. apply filter_In in Hin as [Hin _].
        rewrite Forall_forall in C4. apply (C4 dec Hin).
      - apply Forall_forall. intros dec Hin. apply filter_In in Hin as [Hin _]. rewrite Forall_forall in C4. apply (C4 dec Hin). }
    intros m Hm. rewrite (patch_sp (JObj kv) d m Hw Hd Hm), T1.
    unfold apply_decisions. rewrite apply_loop_app.
    pose proof (Nd kv d Hw Hd) as HNd.
    assert (NdK : NoDup (map firstkey N)).
    { eapply Permutation_NoDup; [apply Permutation_map; exact PN|]. rewrite C3. apply NoDup_map_filter'. exact HNd. }
    assert (I0 : Inv kv tv (mkA (JObj kv) None (JObj kv) [] false) []).
    { exists kv, [], kv. cbn [a_merged a_clear_all a_prev flush]. repeat split; try reflexivity.
      - intros z Hz. exact Hz.
      - exact (wfj_obj_sorted kv Hw).
      - left. reflexivity. }
    destruct (loop_nonroot tag kv d Hw Hd tv T3 N _ [] (Permutation_Forall PN C2) NdK (fun _ _ X => X) I0) as (st1 & L1 & L2).
    rewrite L1. cbn [bind]. rewrite app_nil_r in L2.
    assert (HS : Spatch d (rev (map firstkey N))).
    { intros k. rewrite <- in_rev. split.
      - intros Hin. eapply Permutation_in in Hin; [|apply Permutation_sym; apply Permutation_map; exact PN].
        rewrite C3 in Hin. apply in_map_iff in Hin as (e & Ee & He). apply filter_In in He as [He Pe].
        destruct e as [| | | | |k1 dd]; try discriminate. unfold key_str in Ee.
        pose proof (keysKS kv d Hd) as KK. rewrite Forall_forall in KK. destruct (KK _ He) as (s & Es). cbn [dkey] in Es, Ee. subst k1 s.
        exists dd. exact He.
      - intros (dd & Hin). eapply Permutation_in; [apply Permutation_map; exact PN|]. rewrite C3.
        apply in_map_iff. exists (DPatch (KS k) dd). split; [reflexivity|]. apply filter_In. split; [exact Hin | reflexivity]. }
    rewrite C1.
    destruct (root_phase tag kv d Hw Hd tv T3 T2 st1 _ L2 HS) as (st2 & R1 & R2).
    rewrite R1. cbn [bind]. exact R2.
  Qed.

  Theorem onesided_object (side : mode) kv d f :
    wfj (JObj kv) = true -> wf_diff f (JObj kv) d = true ->
    exists decs,
      decide_merge_with_diff O cfg St H gk strict cstrict (JObj kv) (m_ld side d) (m_rd side d) = Ok decs
      /\ no_conf decs
      /\ forall m, depth (JObj kv) < m -> apply_decisions (JObj kv) decs = patch m (JObj kv) d.
  Proof.
    intros Hw Hf. pose proof (wf_diff_lower _ _ _ Hf) as Hd. fold (wfd (JObj kv) d) in Hd.
    pose proof (wf_map_skeys _ kv d None (Hmap kv d Hd)) as Hs.
    unfold decide_merge_with_diff, mfuel.
    replace (depth (JObj kv) + 3) with (S (depth (JObj kv) + 2)) by lia. cbn [merge].
    destruct (merge_dicts_onesided_gen side (merge O cfg St H gk strict cstrict (depth (JObj kv) + 2)) false kv [] d Hs) as (B & M1 & M2).
    rewrite M1. cbn [bind].
    destruct (carried_decisions_apply (fun _ => side) kv d B Hw Hd M2) as (NC & NV & AP).
    rewrite resolve_strategy_generic_no_conf by exact NC.
    eexists. split; [reflexivity|]. split; [exact NV | exact AP].
  Qed.
End MainThm.
Print Assumptions onesided_object.

(* with the differ's guarantee (Diff/NbGood.v: the diff patches a into b and is well-formed for a) the merged document is b *)
From NB Require Import Diff.NbGood.

Corollary merge_of_good_diff O cfg St H gk strict cstrict (side : mode) ka b d :
  wfj (JObj ka) = true -> Good (JObj ka) b d ->
  exists decs,
    decide_merge_with_diff O cfg St H gk strict cstrict (JObj ka) (m_ld side d) (m_rd side d) = Ok decs
    /\ no_conf decs /\ apply_decisions (JObj ka) decs = Ok b.
Proof.
  intros Hw (_ & _ & Hp & Hf).
  destruct (onesided_object O cfg St H gk strict cstrict side ka d (S (depth (JObj ka))) Hw (Hf _ (Nat.lt_succ_diag_r _))) as (decs & D1 & D2 & D3).
  exists decs. split; [exact D1|]. split; [exact D2|]. rewrite (D3 _ (Nat.lt_succ_diag_r _)). apply Hp. apply Nat.lt_succ_diag_r.
Qed.

(* the hypotheses are satisfiable on a nested document: a line edit inside cells[0].source, a replaced and an added key *)
Definition exo_s (x : string) := of_ascii x.
Definition exo_base : json :=
  JObj [(exo_s "cells", JArr [JObj [(exo_s "source", JStr (exo_s "ab"%string ++ [10%N] ++ exo_s "cd"%string ++ [10%N]))]]);
        (exo_s "m", JInt 1)].
Definition exo_diff : diff :=
  [DPatch (KS (exo_s "cells")) [DPatch (KI 0) [DPatch (KS (exo_s "source"))
      [DAddRange (KI 1) (VList [JStr (exo_s "xy"%string ++ [10%N])]); DRemoveRange (KI 1) 1]]];
   DReplace (KS (exo_s "m")) (JInt 2); DAdd (KS (exo_s "z")) JNull].
Example onesided_object_example :
  wfj exo_base = true /\ wf_diff 6 exo_base exo_diff = true
  /\ exists decs, decide_merge_with_diff O0 cfg0 no_strategies no_hooks GuardListTruthy false false exo_base exo_diff [] = Ok decs
       /\ length decs = 3
       /\ apply_decisions exo_base decs
          = Ok (JObj [(exo_s "cells", JArr [JObj [(exo_s "source", JStr (exo_s "ab"%string ++ [10%N] ++ exo_s "xy"%string ++ [10%N]))]]);
                      (exo_s "m", JInt 2); (exo_s "z", JNull)]).
Proof. split; [vm_compute; reflexivity|]. split; [vm_compute; reflexivity|]. eexists. split; [vm_compute; reflexivity|]. split; vm_compute; reflexivity. Qed.
Print Assumptions merge_of_good_diff.
