(* nbdime/merging/chunks.py, function by function.
   Cursors: the Python code walks `boundaries` with an index b that only moves forward; the model
   carries the suffix boundaries[b:] instead (b = length boundaries - length suffix).  Likewise
   make_chunks' per-diff cursors i_diffs[m] are carried as the not-yet-consumed suffix of each diff.
   Python exceptions are explicit [Err] results.  Keys of sequence diffs must be ints: a str key makes
   Python raise TypeError (str + int, or sorted() over a mixed set); the model says so up front. *)
From Coq Require Import List NArith ZArith Bool Lia.
From NB Require Import Base.Res.
From NB Require Import Base.Json.
From NB Require Import Diff.DiffFormat.
From NB Require Import Diff.Patch.
From NB Require Import Gen.MergeFacts.
Import ListNotations.

(* a Python set of ints that is later sorted: kept as a strictly increasing list *)
Fixpoint set_add (x : nat) (s : list nat) : list nat :=
  match s with
  | [] => [x]
  | y :: r => if Nat.ltb x y then x :: s else if Nat.eqb x y then s else y :: set_add x r
  end.

Definition key_int (e : dentry) : res nat :=
  match dkey e with KI i => Ok i | KS _ => Err TypeError end.

(* get_section_boundaries, accumulating into the union set *)
Fixpoint get_section_boundaries (diffs : diff) (acc : list nat) : res (list nat) :=
  match diffs with
  | [] => Ok acc
  | e :: r =>
      do j <- key_int e;
      let acc := set_add j acc in
      let acc := match e with
                 | DRemoveRange _ len => set_add (j + len) acc
                 | DPatch _ _ => set_add (j + 1) acc
                 | _ => acc
                 end in
      get_section_boundaries r acc
  end.

(* while boundaries[b] < e.key: b += 1 *)
Fixpoint skip_lt (bs : list nat) (k : nat) : res (list nat) :=
  match bs with
  | [] => Err IndexError
  | x :: r => if Nat.ltb x k then skip_lt r k else Ok bs
  end.

(* while b < len(boundaries)-1 and boundaries[b+1] <= e.key + e.length:
       newdiffs.removerange(boundaries[b], boundaries[b+1] - boundaries[b]); b += 1 *)
Fixpoint split_rr (bs : list nat) (stop : nat) (nd : diff) : list nat * diff :=
  match bs with
  | x :: r =>
      match r with
      | y :: _ => if Nat.leb y stop then split_rr r stop (b_removerange nd x (y - x)) else (bs, nd)
      | [] => (bs, nd)
      end
  | [] => (bs, nd)
  end.

Fixpoint split_diffs_go (diffs : diff) (bs : list nat) (nd : diff) : res diff :=
  match diffs with
  | [] => Ok nd
  | e :: r =>
      match e with
      | DAddRange _ _ | DPatch _ _ => split_diffs_go r bs (seq_append nd e)
      | DRemoveRange _ len =>
          do k <- key_int e;
          do bs1 <- skip_lt bs k;
          match bs1 with
          | x :: _ =>
              if Nat.eqb x k then
                let '(bs2, nd2) := split_rr bs1 (k + len) nd in split_diffs_go r bs2 nd2
              else Err AssertionError            (* key not found in boundaries *)
          | [] => Err IndexError
          end
      | _ => Err ValueError                      (* Unhandled diff entry op *)
      end
  end.

Definition split_diffs_on_boundaries (diffs : diff) (bs : list nat) : res diff :=
  split_diffs_go diffs bs [].

(* while i_diffs[m] < len(d) and d[i_diffs[m]].key == j *)
Fixpoint take_key (d : diff) (j : nat) : diff * diff :=
  match d with
  | e :: r => if Nat.eqb (knat e) j then let '(t, r') := take_key r j in (e :: t, r') else ([], d)
  | [] => ([], [])
  end.

Definition chunk := (nat * nat * diff * diff)%type.     (* (j, k, d0, d1) *)

Definition nonempty {A} (l : list A) : bool := match l with [] => false | _ => true end.

Fixpoint make_chunks (bs : list nat) (d0 d1 : diff) : list chunk :=
  match bs with
  | [] => []
  | j :: r =>
      let k := match r with y :: _ => y | [] => j end in
      let '(s0, d0') := take_key d0 j in
      let '(s1, d1') := take_key d1 j in
      let rest := make_chunks r d0' d1' in
      if Nat.ltb j k || nonempty s0 || nonempty s1 then (j, k, s0, s1) :: rest else rest
  end.

(* make_merge_chunks(base, d0, d1) (single_item is never passed by the merge code);
   [n] = len(base).  [gk] is the generated source fact for the guard of the sanity asserts. *)
Definition make_merge_chunks_with (gk : guard_kind) (n : nat) (d0 d1 : diff) : res (list chunk) :=
  do b0 <- get_section_boundaries d0 (set_add n [0]);
  do bs <- get_section_boundaries d1 b0;
  do s0 <- split_diffs_on_boundaries d0 bs;
  do s1 <- split_diffs_on_boundaries d1 bs;
  let chunks := make_chunks bs s0 s1 in
  let guard := Nat.ltb 0 n || match gk with
                              | GuardListTruthy => true               (* bool([s0, s1]) *)
                              | GuardAnyDiff => nonempty s0 || nonempty s1
                              end in
  if guard then
    match chunks with
    | [] => Err AssertionError                                 (* no merge chunks produced *)
    | (j0, _, _, _) :: _ =>
        if negb (Nat.eqb j0 0) then Err AssertionError else
        match last chunks (0, 0, [], []) with
        | (_, kn, _, _) => if Nat.eqb kn n then Ok chunks else Err AssertionError
        end
    end
  else Ok chunks.

Definition make_merge_chunks := make_merge_chunks_with chunks_guard.

(* chunk_typename: two strings over the letters A a P R r c *)
Definition ch_A : N := 65%N.  Definition ch_a : N := 97%N.  Definition ch_P : N := 80%N.
Definition ch_R : N := 82%N.  Definition ch_r : N := 114%N. Definition ch_c : N := 99%N.
Definition ch_slash : N := 47%N.

Fixpoint chunk_typename (d : diff) : pystr * pystr :=
  match d with
  | [] => ([], [])
  | e :: r =>
      let '(an, pn) := chunk_typename r in
      match e with
      | DAddRange _ _ => (ch_A :: an, pn)
      | DAdd _ _ => (ch_a :: an, pn)
      | DPatch _ _ => (an, ch_P :: pn)
      | DRemoveRange _ _ => (an, ch_R :: pn)
      | DRemove _ => (an, ch_r :: pn)
      | DReplace _ _ => (an, ch_c :: pn)
      end
  end.
