(* Proofs about the strategy layer:
   (1) the hand-written dispatchers of the merge core ARE the generated if/elif chains (source tie by proof);
   (2) totality of the dispatch layer (what can and cannot raise);
   (3) C10: resolving with use-X equals relabelling the open conflicts to X -- at the leaf (tryresolve / conflict),
       at every level that delegates to resolve_strategy_generic, and at the root including validated() and
       apply_decisions. *)
From Coq Require Import List Arith NArith ZArith Bool String Lia.
From NB Require Import Base.Res.
From NB Require Import Base.Json.
From NB Require Import Diff.DiffFormat.
From NB Require Import Diff.Codec.
From NB Require Import Diff.GenericDiff.
From NB Require Import Merge.SortKey.
From NB Require Import Merge.Decisions.
From NB Require Import Merge.Apply.
From NB Require Import Merge.MergeGeneric.
From NB Require Import Merge.StrategyBase.
From NB Require Import Gen.Strategies.
From NB Require Import Merge.StrategyTable.
From NB Require Import Merge.Strategies.
Import ListNotations.

(* ------------------------------------------------------------------ helpers *)
Lemma starts_with_agree p s : GenericDiff.starts_with p s = StrategyBase.starts_with p s.
Proof.
  unfold GenericDiff.starts_with. revert s. induction p as [|a p IH]; intros s.
  - destruct s; reflexivity.
  - destruct s as [|b s]; simpl.
    + reflexivity.
    + rewrite IH. rewrite N.eqb_sym. reflexivity.
Qed.

Lemma str_eqb_true_eq a b : str_eqb a b = true -> a = b.
Proof. apply str_eqb_eq. Qed.

(* ------------------------------------------------------------------ (1) source tie *)
Theorem tryresolve_follows_source cs B p l r st : b_tryresolve cs B p l r st = tryresolve_src cs B p l r st.
Proof.
  unfold b_tryresolve, tryresolve_src. destruct st as [s|]; [|reflexivity].
  destruct s as [|c s']; [reflexivity|]. set (s := c :: s').
  destruct (negb (truthy l && truthy r)); [reflexivity|].
  destruct (conflict_args_eqb cs l r); [reflexivity|].
  unfold src_try_action, src_tryresolve. cbn [d_chain d_else select_arm stest_matches].
  unfold s_use_local, s_use_remote, s_use_base, s_union, s_clear, s_take_max, s_fail.
  repeat match goal with
         | |- context [str_eqb s ?c] => destruct (str_eqb s c); [reflexivity|]
         end.
  reflexivity.
Qed.

Lemma guard_generic_agree B st : resolve_guard B st = guard_src src_resolve_strategy_generic B st.
Proof.
  unfold resolve_guard, guard_src, src_resolve_strategy_generic. cbn [d_skip d_needs_conflict].
  destruct st as [s|]; [|reflexivity]. unfold ostr_eqb, str_in. cbn [existsb].
  rewrite orb_false_r. reflexivity.
Qed.

Theorem generic_follows_source B st : resolve_strategy_generic B st = generic_src B st.
Proof.
  unfold resolve_strategy_generic, generic_src. rewrite guard_generic_agree.
  destruct (negb (guard_src src_resolve_strategy_generic B st)); [reflexivity|].
  destruct st as [s|]; [|reflexivity].
  unfold src_resolve_strategy_generic. cbn [d_chain d_else select_arm stest_matches].
  rewrite starts_with_agree. unfold s_use_dash.
  destruct (StrategyBase.starts_with (of_ascii "use-") s); reflexivity.
Qed.

Lemma guard_strings_agree B st : resolve_guard B st = guard_src src_resolve_conflicted_decisions_strings B st.
Proof.
  unfold resolve_guard, guard_src, src_resolve_conflicted_decisions_strings. cbn [d_skip d_needs_conflict].
  destruct st as [s|]; [|reflexivity]. unfold ostr_eqb, str_in. cbn [existsb].
  rewrite orb_false_r. reflexivity.
Qed.

Theorem strings_follows_source B st : resolve_conflicted_strings B st = strings_src B st.
Proof.
  unfold resolve_conflicted_strings, strings_src. rewrite guard_strings_agree.
  destruct (negb (guard_src src_resolve_conflicted_decisions_strings B st)); [reflexivity|].
  destruct st as [s|]; [|reflexivity].
  unfold src_resolve_conflicted_decisions_strings. cbn [d_chain d_else select_arm stest_matches].
  unfold s_clear, s_inline_source.
  destruct (str_eqb s (of_ascii "clear")); [reflexivity|].
  destruct (str_eqb s (of_ascii "inline-source")); [reflexivity|].
  apply generic_follows_source.
Qed.

(* ------------------------------------------------------------------ (2) totality of the dispatch layer *)
Theorem tryresolve_total cs B p l r s :
  truthy l = true -> truthy r = true -> conflict_args_eqb cs l r = false -> s <> of_ascii "fail" ->
  exists B' taken, b_tryresolve cs B p l r (Some s) = Ok (B', taken).
Proof.
  intros Hl Hr Hne Hs. unfold b_tryresolve. destruct s as [|c s']; [eauto|]. set (s := c :: s') in *.
  rewrite Hl, Hr, Hne. cbn [andb negb].
  unfold s_use_local, s_use_remote, s_use_base, s_union, s_clear, s_take_max, s_fail.
  repeat match goal with
         | |- context [str_eqb s ?c] => destruct (str_eqb s c) eqn:?; [cbn; eauto|]
         end.
  - exfalso. apply Hs. apply str_eqb_true_eq. assumption.
  - cbn. eauto.
Qed.

(* the only RuntimeError of the layer: strategy "fail" *)
Theorem tryresolve_fail_raises cs B p l r :
  truthy l = true -> truthy r = true -> conflict_args_eqb cs l r = false ->
  b_tryresolve cs B p l r (Some (of_ascii "fail")) = Err RuntimeError.
Proof. intros Hl Hr Hne. unfold b_tryresolve. cbn [of_ascii]. rewrite Hl, Hr, Hne. reflexivity. Qed.

Theorem conflict_total cs B p l r s :
  truthy l = true -> truthy r = true -> conflict_args_eqb cs l r = false -> s <> Some (of_ascii "fail") ->
  exists B', b_conflict cs B p l r s = Ok B'.
Proof.
  intros Hl Hr Hne Hs. unfold b_conflict, b_conflict_gen. rewrite Hl, Hr, Hne. cbn [andb negb].
  destruct s as [s|].
  - destruct (tryresolve_total cs B p l r s Hl Hr Hne) as [B' [t E]].
    + intros ->. apply Hs. reflexivity.
    + rewrite E. cbn. destruct t; eauto.
  - cbn. eauto.
Qed.

(* ------------------------------------------------------------------ (3) C10 *)
Lemma use_strategy_nonempty side : use_strategy side <> [].
Proof. unfold use_strategy, use_. cbn. discriminate. Qed.

Definition is_side (side : pystr) : Prop :=
  side = of_ascii "base" \/ side = of_ascii "local" \/ side = of_ascii "remote".

Lemma sides_is_side side : In side sides <-> is_side side.
Proof.
  unfold sides, is_side. cbn [In]. split.
  - intros [H|[H|[H|[]]]]; subst; auto.
  - intros [H|[H|H]]; subst; auto.
Qed.

(* leaf: in `decisions.conflict(path, ld, rd, strategy)` the decisions appended under use-X are the decisions appended by
   the open run ("mergetool": tryresolve does not know it, the conflict is registered), relabelled to X *)
Theorem use_side_equiv_leaf cs B p l r side :
  is_side side -> truthy l = true -> truthy r = true -> conflict_args_eqb cs l r = false ->
  exists Bopen Bside,
    b_conflict cs B p l r (Some (of_ascii "mergetool")) = Ok Bopen /\
    b_conflict cs B p l r (Some (use_strategy side)) = Ok Bside /\
    map drop_strategy Bside =
      map drop_strategy B ++ relabel_conflicts (side_action side) (skipn (List.length B) (map drop_strategy Bopen)) /\
    (List.length Bopen = S (List.length B) -> skipn (List.length B) (map d_conflict Bopen) = [true]
                                              /\ skipn (List.length B) (map d_conflict Bside) = [false]).
Proof.
  intros Hs Hl Hr Hne.
  assert (E : forall st, b_conflict cs B p l r (Some st) =
                         do t <- b_tryresolve cs B p l r (Some st);
                         let '(B', taken) := t in
                         if taken then Ok B' else Ok (add_decision B' p ABase l r true None None None)).
  { intros st. unfold b_conflict, b_conflict_gen. rewrite Hl, Hr, Hne. reflexivity. }
  assert (T : forall st, b_tryresolve cs B p l r (Some st) =
              match st with
              | [] => Ok (B, false)
              | s =>
              do a <- (if str_eqb s s_use_local then Ok (Some ALocal)
                       else if str_eqb s s_use_remote then Ok (Some ARemote)
                       else if str_eqb s s_use_base then Ok (Some ABase)
                       else if str_eqb s s_union then Ok (Some ALocalThenRemote)
                       else if str_eqb s s_clear then Ok (Some AClear)
                       else if str_eqb s s_take_max then Ok (Some ATakeMax)
                       else if str_eqb s s_fail then Err RuntimeError
                       else Ok None);
              match a with
              | Some a => Ok (add_decision B p a l r false (Some s) None None, true)
              | None => Ok (B, false)
              end end).
  { intros st. unfold b_tryresolve. destruct st; [reflexivity|]. rewrite Hl, Hr, Hne. reflexivity. }
  assert (G : forall a st,
     let Bo := add_decision B p ABase l r true None None None in
     let Bs := add_decision B p a l r false st None None in
     map drop_strategy Bs = map drop_strategy B ++ relabel_conflicts a (skipn (List.length B) (map drop_strategy Bo)) /\
     (List.length Bo = S (List.length B) -> skipn (List.length B) (map d_conflict Bo) = [true]
                                            /\ skipn (List.length B) (map d_conflict Bs) = [false])).
  { intros a st. cbv zeta. unfold add_decision.
    destruct (ensure_common_path (S (odepth l + odepth r + odepth None)) p [l; r; None]) as [p' ds].
    assert (K : skipn (List.length B) (map drop_strategy B) = []).
    { rewrite <- (map_length drop_strategy B). apply skipn_all. }
    assert (K2 : forall (f : decision -> bool) x, skipn (List.length B) (map f (B ++ [x])) = [f x]).
    { intros f x. rewrite map_app. rewrite <- (map_length f B). rewrite skipn_app. rewrite skipn_all.
      rewrite Nat.sub_diag. reflexivity. }
    destruct ds as [|x1 [|x2 [|x3 [|x4 ds]]]];
      try (split; [rewrite K; cbn; rewrite app_nil_r; reflexivity | intros HL; exfalso; lia]).
    split.
    - rewrite !map_app. rewrite <- (map_length drop_strategy B). rewrite skipn_app, skipn_all, Nat.sub_diag.
      cbn. reflexivity.
    - intros _. split; apply K2. }
  exists (add_decision B p ABase l r true None None None).
  destruct Hs as [-> | [-> | ->]].
  - exists (add_decision B p ABase l r false (Some (use_strategy (of_ascii "base"))) None None).
    split; [rewrite E, T; reflexivity|]. split; [rewrite E, T; reflexivity|]. apply (G ABase).
  - exists (add_decision B p ALocal l r false (Some (use_strategy (of_ascii "local"))) None None).
    split; [rewrite E, T; reflexivity|]. split; [rewrite E, T; reflexivity|]. apply (G ALocal).
  - exists (add_decision B p ARemote l r false (Some (use_strategy (of_ascii "remote"))) None None).
    split; [rewrite E, T; reflexivity|]. split; [rewrite E, T; reflexivity|]. apply (G ARemote).
Qed.

(* non-vacuity of the leaf theorem: two different one-entry diffs *)
Example use_side_equiv_leaf_inhabited :
  let l := Some [DReplace (KS (of_ascii "k")) (JInt 1%Z)] in
  let r := Some [DReplace (KS (of_ascii "k")) (JInt 2%Z)] in
  truthy l = true /\ truthy r = true /\ conflict_args_eqb false l r = false /\
  b_conflict false [] [KS (of_ascii "metadata")] l r (Some (use_strategy (of_ascii "local")))
    = Ok [mkDec [KS (of_ascii "metadata")] ALocal false l r None (Some (of_ascii "use-local")) None].
Proof. vm_compute. repeat split; reflexivity. Qed.

(* ---------- resolve_strategy_generic with use-X is relabel_open ---------- *)
Lemma relabel_open_no_conflict a B : has_conflicted B = false -> relabel_open a B = B.
Proof.
  unfold has_conflicted, relabel_open. induction B as [|d B IH]; cbn; [reflexivity|].
  intros H. apply orb_false_elim in H. destruct H as [H1 H2]. rewrite H1. cbn. rewrite IH by exact H2. reflexivity.
Qed.

Theorem generic_use_side_is_relabel B side :
  is_side side -> resolve_strategy_generic B (Some (use_strategy side)) = relabel_open (side_action side) B.
Proof.
  intros Hs. unfold resolve_strategy_generic, resolve_guard.
  destruct (has_conflicted B) eqn:HC.
  - destruct Hs as [-> | [-> | ->]]; reflexivity.
  - rewrite relabel_open_no_conflict by exact HC.
    destruct Hs as [-> | [-> | ->]]; cbn; rewrite ?andb_false_r; reflexivity.
Qed.

Theorem generic_mergetool_is_identity B : resolve_strategy_generic B (Some (of_ascii "mergetool")) = B.
Proof. unfold resolve_strategy_generic, resolve_guard. cbn. reflexivity. Qed.

(* the three level dispatchers delegate use-X to the same relabelling *)
Theorem strings_use_side_is_relabel B side :
  is_side side -> resolve_conflicted_strings B (Some (use_strategy side)) = relabel_open (side_action side) B.
Proof.
  intros Hs. rewrite <- (generic_use_side_is_relabel B side Hs).
  unfold resolve_conflicted_strings. destruct (negb (resolve_guard B (Some (use_strategy side)))) eqn:G.
  - unfold resolve_strategy_generic. rewrite G. reflexivity.
  - destruct Hs as [-> | [-> | ->]]; reflexivity.
Qed.

Theorem list_use_side_is_relabel H p base B side :
  is_side side -> resolve_conflicted_list H p base B (Some (use_strategy side)) = Ok (relabel_open (side_action side) B).
Proof.
  intros Hs. rewrite <- (generic_use_side_is_relabel B side Hs).
  unfold resolve_conflicted_list. destruct (negb (resolve_guard B (Some (use_strategy side)))) eqn:G.
  - unfold resolve_strategy_generic. rewrite G. reflexivity.
  - destruct Hs as [-> | [-> | ->]]; reflexivity.
Qed.

Theorem dict_use_side_is_relabel H p base B side :
  is_side side -> resolve_conflicted_dict H p base B (Some (use_strategy side)) = Ok (relabel_open (side_action side) B).
Proof.
  intros Hs. rewrite <- (generic_use_side_is_relabel B side Hs).
  unfold resolve_conflicted_dict. destruct (negb (resolve_guard B (Some (use_strategy side)))) eqn:G.
  - unfold resolve_strategy_generic. rewrite G. reflexivity.
  - destruct Hs as [-> | [-> | ->]]; reflexivity.
Qed.

(* ---------- the root: validated() and apply_decisions ---------- *)
Section SortMap.
  Context {A : Type}.
  Variable f : A -> list skel.
  Variable g : A -> A.
  Hypothesis fg : forall x, f (g x) = f x.

  Lemma insert_desc_map x l : insert_desc f (g x) (map g l) = map g (insert_desc f x l).
  Proof.
    induction l as [|y l IH]; cbn; [reflexivity|].
    rewrite !fg. destruct (sk_cmp (f y) (f x)); cbn; try reflexivity. rewrite IH. reflexivity.
  Qed.

  Lemma sort_desc_map l : sort_desc f (map g l) = map g (sort_desc f l).
  Proof.
    unfold sort_desc. induction l as [|x l IH]; cbn; [reflexivity|].
    rewrite IH. apply insert_desc_map.
  Qed.
End SortMap.

Lemma drop_relabel_open a B :
  all_conflicts_open B -> map drop_strategy (relabel_open a B) = relabel_conflicts a (map drop_strategy B).
Proof.
  unfold relabel_open, relabel_conflicts. intros HO. rewrite !map_map. apply map_ext_in. intros d Hd.
  destruct (d_conflict d) eqn:C; cbn.
  - rewrite (HO d Hd C). cbn. rewrite C. reflexivity.
  - rewrite C. reflexivity.
Qed.

Theorem validated_relabel a B :
  all_conflicts_open B -> validated (relabel_open a B) = relabel_conflicts a (validated B).
Proof.
  intros HO. unfold validated. rewrite (drop_relabel_open a B HO). unfold relabel_conflicts.
  apply sort_desc_map. intros d. destruct (d_conflict d); reflexivity.
Qed.

(* C10 at the root: given the same decisions before the root resolution, the use-X merge's decision list is the open
   merge's decision list with every conflict relabelled to X ... *)
Theorem use_side_equiv_root B side :
  is_side side -> all_conflicts_open B ->
  validated (resolve_strategy_generic B (Some (use_strategy side)))
  = relabel_conflicts (side_action side) (validated (resolve_strategy_generic B (Some (of_ascii "mergetool")))).
Proof.
  intros Hs HO. rewrite generic_use_side_is_relabel by exact Hs. rewrite generic_mergetool_is_identity.
  apply validated_relabel. exact HO.
Qed.

(* ... hence the merged notebooks are equal ... *)
Corollary use_side_equiv_root_merged base B side :
  is_side side -> all_conflicts_open B ->
  apply_decisions base (validated (resolve_strategy_generic B (Some (use_strategy side))))
  = apply_decisions base (relabel_conflicts (side_action side)
                            (validated (resolve_strategy_generic B (Some (of_ascii "mergetool"))))).
Proof. intros Hs HO. rewrite (use_side_equiv_root B side Hs HO). reflexivity. Qed.

(* ... and no conflict is left *)
Lemma relabel_conflicts_no_conflict a ds : Forall (fun d => d_conflict d = false) (relabel_conflicts a ds).
Proof.
  unfold relabel_conflicts. induction ds as [|d ds IH]; cbn; constructor; [|exact IH].
  destruct (d_conflict d) eqn:C; [reflexivity | exact C].
Qed.

Theorem use_side_root_no_conflict B side :
  is_side side -> all_conflicts_open B ->
  Forall (fun d => d_conflict d = false) (validated (resolve_strategy_generic B (Some (use_strategy side)))).
Proof.
  intros Hs HO. rewrite (use_side_equiv_root B side Hs HO). apply relabel_conflicts_no_conflict.
Qed.

(* non-vacuity: a builder with one open conflict and one resolved decision *)
Example use_side_equiv_root_inhabited :
  let l := Some [DReplace (KS (of_ascii "k")) (JInt 1%Z)] in
  let r := Some [DReplace (KS (of_ascii "k")) (JInt 2%Z)] in
  let B := [mkDec [KS (of_ascii "metadata")] ABase true l r None None None;
            mkDec [KS (of_ascii "cells")] ALocal false l None None None None] in
  all_conflicts_open B /\ has_conflicted B = true /\
  validated (resolve_strategy_generic B (Some (use_strategy (of_ascii "remote")))) <> validated B.
Proof.
  cbv zeta. split; [|split].
  - intros d [<-|[<-|[]]]; cbn; intros; try reflexivity; discriminate.
  - reflexivity.
  - vm_compute. discriminate.
Qed.

(* ------------------------------------------------------------------ (1, continued) list and dict dispatchers *)
Lemma guard_list_agree B st : resolve_guard B st = guard_src src_resolve_conflicted_decisions_list B st.
Proof.
  unfold resolve_guard, guard_src, src_resolve_conflicted_decisions_list. cbn [d_skip d_needs_conflict].
  destruct st as [s|]; [|reflexivity]. unfold ostr_eqb, str_in. cbn [existsb].
  rewrite orb_false_r. reflexivity.
Qed.

Lemma guard_dict_agree B st : resolve_guard B st = guard_src src_resolve_conflicted_decisions_dict B st.
Proof.
  unfold resolve_guard, guard_src, src_resolve_conflicted_decisions_dict. cbn [d_skip d_needs_conflict].
  destruct st as [s|]; [|reflexivity]. unfold ostr_eqb, str_in. cbn [existsb].
  rewrite orb_false_r. reflexivity.
Qed.

Ltac split_tests s :=
  repeat match goal with
         | |- context [str_eqb s ?c] => let E := fresh "E" in destruct (str_eqb s c) eqn:E
         end.

Ltac absurd_tests s :=
  exfalso;
  match goal with
  | H : str_eqb s _ = true |- _ => apply str_eqb_true_eq in H; subst s
  end;
  match goal with
  | H : str_eqb _ _ = true |- _ => vm_compute in H; discriminate
  | H : str_eqb _ _ = false |- _ => vm_compute in H; discriminate
  end.

Theorem list_follows_source H p base B st : resolve_conflicted_list H p base B st = list_src H p base B st.
Proof.
  unfold resolve_conflicted_list, list_src. rewrite guard_list_agree.
  destruct (negb (guard_src src_resolve_conflicted_decisions_list B st)); [reflexivity|].
  destruct st as [s|]; [|reflexivity].
  unfold src_resolve_conflicted_decisions_list. cbn [d_chain d_else select_arm stest_matches].
  unfold s_inline_outputs, s_inline_cells, s_remove, s_clear_all, s_union, s_clear.
  split_tests s; cbn [orb interp_container_arm interp_plain_arm];
    try reflexivity; try (rewrite generic_follows_source; reflexivity); try absurd_tests s.
Qed.

Theorem dict_follows_source H p base B st : resolve_conflicted_dict H p base B st = dict_src H p base B st.
Proof.
  unfold resolve_conflicted_dict, dict_src. rewrite guard_dict_agree.
  destruct (negb (guard_src src_resolve_conflicted_decisions_dict B st)); [reflexivity|].
  destruct st as [s|]; [|reflexivity].
  unfold src_resolve_conflicted_decisions_dict. cbn [d_chain d_else select_arm stest_matches].
  unfold s_record_conflict, s_inline_attachments, s_union.
  split_tests s; cbn [orb interp_container_arm interp_plain_arm];
    try reflexivity; try (rewrite generic_follows_source; reflexivity); try absurd_tests s.
Qed.

(* ------------------------------------------------------------------ (4) the clear-all arm: collect_diffs *)
(* Witnesses taken from real runs (harness/c03_common.corpus_triples: output-metadata+append and the three-outputs case):
   a conflict on the outputs list plus (a) a one-sided decision one level below whose opposite diff is None,
   (b) a strategy-marked conflict two levels below with string keys. *)
Definition w_path : path := [KS (of_ascii "cells"); KI 0; KS (of_ascii "outputs")].
Definition w_base : list json := [JObj []; JObj []].
Definition w_conflict : decision :=
  mkDec w_path ABase true (Some [DAddRange (KI 1) (VList [JInt 1%Z])]) (Some [DAddRange (KI 1) (VList [JInt 2%Z])]) None None None.
Definition w_none : builder :=
  [w_conflict;
   mkDec (w_path ++ [KI 0]) ARemote false None (Some [DReplace (KS (of_ascii "a")) (JInt 3%Z)]) None None None].
Definition w_mixed : builder :=
  [w_conflict;
   mkDec (w_path ++ [KI 0; KS (of_ascii "metadata")]) ACustom true
         (Some [DReplace (KS (of_ascii "a")) (JInt 2%Z)]) (Some [DReplace (KS (of_ascii "a")) (JInt 3%Z)])
         (Some [DAdd (KS (of_ascii "nbdime-conflicts")) (JObj [])]) (Some (of_ascii "record-conflict")) None].

Theorem clear_all_refuted_pinned :
  clear_all_arm APLPinned w_path w_base w_none = Err TypeError /\
  clear_all_arm APLPinned w_path w_base w_mixed = Err TypeError.
Proof. split; vm_compute; reflexivity. Qed.

Theorem clear_all_witnesses_pass_fixed :
  is_ok (clear_all_arm APLFixed w_path w_base w_none) = true /\
  is_ok (clear_all_arm APLFixed w_path w_base w_mixed) = true.
Proof. split; vm_compute; reflexivity. Qed.

Definition clear_all_status (v : apl_variant) : Prop :=
  match v with
  | APLPinned => exists p base B, has_conflicted B = true /\ clear_all_arm v p base B = Err TypeError
  | APLFixed => is_ok (clear_all_arm v w_path w_base w_none) = true /\ is_ok (clear_all_arm v w_path w_base w_mixed) = true
  | APLOther => True           (* no claim; the executed correspondence fails instead *)
  end.

Lemma clear_all_status_all v : clear_all_status v.
Proof.
  destruct v; cbn [clear_all_status].
  - exists w_path, w_base, w_none. split; [reflexivity | apply clear_all_refuted_pinned].
  - apply clear_all_witnesses_pass_fixed.
  - exact I.
Qed.

(* what holds for the source as it is now (the generated constant): refuted while pinned, witnesses pass once repaired *)
Theorem clear_all_follows_source : clear_all_status adjust_patch_level_variant.
Proof. apply clear_all_status_all. Qed.

(* ------------------------------------------------------------------ (3, continued) the other places a use-X acts *)
(* whatever action the open run proposed for the conflict (base, local_then_remote, remote_then_local), the decision
   registered by the use-X run is that decision relabelled *)
Lemma add_decision_relabel B p a0 a l r st :
  map drop_strategy (add_decision B p a l r false st None None)
  = map drop_strategy B ++ relabel_conflicts a
      (skipn (List.length B) (map drop_strategy (add_decision B p a0 l r true None None None))).
Proof.
  unfold add_decision.
  destruct (ensure_common_path (S (odepth l + odepth r + odepth None)) p [l; r; None]) as [p' ds].
  assert (K : skipn (List.length B) (map drop_strategy B) = []).
  { rewrite <- (map_length drop_strategy B). apply skipn_all. }
  destruct ds as [|x1 [|x2 [|x3 [|x4 ds]]]]; try (rewrite K; cbn; rewrite app_nil_r; reflexivity).
  rewrite !map_app. rewrite <- (map_length drop_strategy B). rewrite skipn_app, skipn_all, Nat.sub_diag.
  cbn. reflexivity.
Qed.

(* _merge_lists, P/R and R/P chunks (generic.py 574-582 vs 599): `list_strategy == "use-X"` calls decisions.X(path, p0, p1);
   the open run registers decisions.conflict(path, p0, p1, item_strategy) with no item strategy *)
Theorem use_side_equiv_pr_arm cs B p l r :
  truthy l = true -> truthy r = true -> conflict_args_eqb cs l r = false ->
  exists Bopen, b_conflict cs B p l r None = Ok Bopen /\
    map drop_strategy (b_base B p l r)
      = map drop_strategy B ++ relabel_conflicts ABase (skipn (List.length B) (map drop_strategy Bopen)) /\
    (exists Bl, b_local B p l r = Ok Bl /\
       map drop_strategy Bl = map drop_strategy B ++ relabel_conflicts ALocal (skipn (List.length B) (map drop_strategy Bopen))) /\
    (exists Br, b_remote B p l r = Ok Br /\
       map drop_strategy Br = map drop_strategy B ++ relabel_conflicts ARemote (skipn (List.length B) (map drop_strategy Bopen))).
Proof.
  intros Hl Hr Hne. exists (add_decision B p ABase l r true None None None).
  split.
  { unfold b_conflict, b_conflict_gen. rewrite Hl, Hr, Hne. reflexivity. }
  split; [apply add_decision_relabel|]. split.
  - exists (add_decision B p ALocal l r false None None None). split.
    + unfold b_local. rewrite Hl. reflexivity.
    + apply add_decision_relabel.
  - exists (add_decision B p ARemote l r false None None None). split.
    + unfold b_remote. rewrite Hr. reflexivity.
    + apply add_decision_relabel.
Qed.

(* _merge_lists, A/P, A/R (and P/A, R/A) chunks (generic.py 603-610): tryresolve with the item strategy, else
   local_then_remote / remote_then_local flagged as conflict *)
Theorem use_side_equiv_insert_arm cs B p l r side :
  is_side side -> truthy l = true -> truthy r = true -> conflict_args_eqb cs l r = false ->
  exists Bside,
    b_tryresolve cs B p l r (Some (use_strategy side)) = Ok (Bside, true) /\
    b_tryresolve cs B p l r (Some (of_ascii "mergetool")) = Ok (B, false) /\
    (forall Bopen, b_local_then_remote B p l r true = Ok Bopen ->
       map drop_strategy Bside = map drop_strategy B ++
         relabel_conflicts (side_action side) (skipn (List.length B) (map drop_strategy Bopen))) /\
    (forall Bopen, b_remote_then_local B p l r true = Ok Bopen ->
       map drop_strategy Bside = map drop_strategy B ++
         relabel_conflicts (side_action side) (skipn (List.length B) (map drop_strategy Bopen))).
Proof.
  intros Hs Hl Hr Hne.
  assert (M : b_tryresolve cs B p l r (Some (of_ascii "mergetool")) = Ok (B, false)).
  { unfold b_tryresolve. cbn [of_ascii]. rewrite Hl, Hr, Hne. reflexivity. }
  assert (T : forall a st, (forall Bopen, b_local_then_remote B p l r true = Ok Bopen ->
       map drop_strategy (add_decision B p a l r false st None None) = map drop_strategy B ++
         relabel_conflicts a (skipn (List.length B) (map drop_strategy Bopen))) /\
       (forall Bopen, b_remote_then_local B p l r true = Ok Bopen ->
       map drop_strategy (add_decision B p a l r false st None None) = map drop_strategy B ++
         relabel_conflicts a (skipn (List.length B) (map drop_strategy Bopen)))).
  { intros a st. unfold b_local_then_remote, b_remote_then_local. rewrite Hl, Hr. cbn [andb].
    split; intros Bopen E; injection E as <-; apply add_decision_relabel. }
  destruct Hs as [-> | [-> | ->]].
  - exists (add_decision B p ABase l r false (Some (use_strategy (of_ascii "base"))) None None).
    split; [unfold b_tryresolve; cbn [use_strategy use_ of_ascii app]; rewrite Hl, Hr, Hne; reflexivity|].
    split; [exact M|]. apply (T ABase).
  - exists (add_decision B p ALocal l r false (Some (use_strategy (of_ascii "local"))) None None).
    split; [unfold b_tryresolve; cbn [use_strategy use_ of_ascii app]; rewrite Hl, Hr, Hne; reflexivity|].
    split; [exact M|]. apply (T ALocal).
  - exists (add_decision B p ARemote l r false (Some (use_strategy (of_ascii "remote"))) None None).
    split; [unfold b_tryresolve; cbn [use_strategy use_ of_ascii app]; rewrite Hl, Hr, Hne; reflexivity|].
    split; [exact M|]. apply (T ARemote).
Qed.

(* ------------------------------------------------------------------ (2, continued) level dispatchers: total modulo the hooks *)
(* the list-level dispatcher either returns normally or IS the call of the inline-family hook; the only other possible
   failure is the union arm's base lookup, and "union" is in no table (strategy_dispatch_total) *)
Theorem list_dispatch_total_modulo_hooks H p base B s :
  s <> of_ascii "union" ->
  (exists B', resolve_conflicted_list H p base B (Some s) = Ok B') \/
  resolve_conflicted_list H p base B (Some s) = hk_list H p base B s.
Proof.
  intros Hu. unfold resolve_conflicted_list.
  destruct (negb (resolve_guard B (Some s))); [left; eauto|].
  destruct (str_eqb s s_inline_outputs || str_eqb s s_inline_cells || str_eqb s s_remove || str_eqb s s_clear_all);
    [right; reflexivity|].
  destruct (str_eqb s s_union) eqn:E.
  - exfalso. apply Hu. apply str_eqb_true_eq. exact E.
  - destruct (str_eqb s s_clear); left; eauto.
Qed.

Theorem dict_dispatch_total_modulo_hooks H p base B s :
  (exists B', resolve_conflicted_dict H p base B (Some s) = Ok B') \/
  resolve_conflicted_dict H p base B (Some s) = hk_dict H p base B s.
Proof.
  unfold resolve_conflicted_dict.
  destruct (negb (resolve_guard B (Some s))); [left; eauto|].
  destruct (str_eqb s s_record_conflict || str_eqb s s_inline_attachments); [right; reflexivity|].
  destruct (str_eqb s s_union); left; eauto.
Qed.

(* "union" is indeed placed nowhere by any accepted configuration *)
Lemma union_in_no_table :
  forallb (fun c => forallb (fun e => match snd e with Some s => negb (str_eqb s (of_ascii "union")) | None => true end)
                            (cfg_table c)) all_configs = true.
Proof. vm_compute. reflexivity. Qed.

Theorem union_never_placed c p s : In c all_configs -> In (p, Some s) (cfg_table c) -> s <> of_ascii "union".
Proof.
  intros Hc Hin. pose proof union_in_no_table as U. rewrite forallb_forall in U. specialize (U c Hc).
  rewrite forallb_forall in U. specialize (U (p, Some s) Hin). cbn in U.
  intros ->. vm_compute in U. discriminate.
Qed.
