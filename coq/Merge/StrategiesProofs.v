(* Proofs about the strategy layer:
   (1) the hand-written dispatchers of the merge core ARE the generated if/elif chains (source tie by proof);
   (2) totality of the dispatch layer (what can and cannot raise);
   (3) C10: resolving with use-X equals relabelling the open conflicts to X -- at the leaf (tryresolve / conflict),
       at every level that delegates to resolve_strategy_generic, and at the root including validated() and
       apply_decisions. *)
From Coq Require Import List Arith NArith ZArith Bool String Lia.
From NB Require Import Base.Res.
From NB Require Import Base.Json.
From NB Require Import Diff.DiffFormat.
From NB Require Import Diff.Codec.
From NB Require Import Diff.GenericDiff.
From NB Require Import Merge.SortKey.
From NB Require Import Merge.Decisions.
From NB Require Import Merge.Apply.
From NB Require Import Merge.MergeGeneric.
From NB Require Import Merge.StrategyBase.
From NB Require Import Gen.Strategies.
From NB Require Import Merge.StrategyTable.
From NB Require Import Merge.Strategies.
Import ListNotations.

(* ------------------------------------------------------------------ helpers *)
Lemma starts_with_agree p s : GenericDiff.starts_with p s = StrategyBase.starts_with p s.
Proof.
  unfold GenericDiff.starts_with. revert s. induction p as [|a p IH]; intros s.
  - destruct s; reflexivity.
  - destruct s as [|b s]; simpl.
    + reflexivity.
    + rewrite IH. rewrite N.eqb_sym. reflexivity.
Qed.

Lemma str_eqb_true_eq a b : str_eqb a b = true -> a = b.
Proof. apply str_eqb_eq. Qed.

(* ------------------------------------------------------------------ (1) source tie *)
Theorem tryresolve_follows_source cs B p l r st : b_tryresolve cs B p l r st = tryresolve_src cs B p l r st.
Proof.
  unfold b_tryresolve, tryresolve_src. destruct st as [s|]; [|reflexivity].
  destruct s as [|c s']; [reflexivity|]. set (s := c :: s').
  destruct (negb (truthy l && truthy r)); [reflexivity|].
  destruct (conflict_args_eqb cs l r); [reflexivity|].
  unfold src_try_action, src_tryresolve. cbn [d_chain d_else select_arm stest_matches].
  unfold s_use_local, s_use_remote, s_use_base, s_union, s_clear, s_take_max, s_fail.
  repeat match goal with
         | |- context [str_eqb s ?c] => destruct (str_eqb s c); [reflexivity|]
         end.
  reflexivity.
Qed.

Lemma guard_generic_agree B st : resolve_guard B st = guard_src src_resolve_strategy_generic B st.
Proof.
  unfold resolve_guard, guard_src, src_resolve_strategy_generic. cbn [d_skip d_needs_conflict].
  destruct st as [s|]; [|reflexivity]. unfold ostr_eqb, str_in. cbn [existsb].
  rewrite orb_false_r. reflexivity.
Qed.

Theorem generic_follows_source B st : resolve_strategy_generic B st = generic_src B st.
Proof.
  unfold resolve_strategy_generic, generic_src. rewrite guard_generic_agree.
  destruct (negb (guard_src src_resolve_strategy_generic B st)); [reflexivity|].
  destruct st as [s|]; [|reflexivity].
  unfold src_resolve_strategy_generic. cbn [d_chain d_else select_arm stest_matches].
  rewrite starts_with_agree. unfold s_use_dash.
  destruct (StrategyBase.starts_with (of_ascii "use-") s); reflexivity.
Qed.

Lemma guard_strings_agree B st : resolve_guard B st = guard_src src_resolve_conflicted_decisions_strings B st.
Proof.
  unfold resolve_guard, guard_src, src_resolve_conflicted_decisions_strings. cbn [d_skip d_needs_conflict].
  destruct st as [s|]; [|reflexivity]. unfold ostr_eqb, str_in. cbn [existsb].
  rewrite orb_false_r. reflexivity.
Qed.

Theorem strings_follows_source B st : resolve_conflicted_strings B st = strings_src B st.
Proof.
  unfold resolve_conflicted_strings, strings_src. rewrite guard_strings_agree.
  destruct (negb (guard_src src_resolve_conflicted_decisions_strings B st)); [reflexivity|].
  destruct st as [s|]; [|reflexivity].
  unfold src_resolve_conflicted_decisions_strings. cbn [d_chain d_else select_arm stest_matches].
  unfold s_clear, s_inline_source.
  destruct (str_eqb s (of_ascii "clear")); [reflexivity|].
  destruct (str_eqb s (of_ascii "inline-source")); [reflexivity|].
  apply generic_follows_source.
Qed.

(* ------------------------------------------------------------------ (2) totality of the dispatch layer *)
Theorem tryresolve_total cs B p l r s :
  truthy l = true -> truthy r = true -> conflict_args_eqb cs l r = false -> s <> of_ascii "fail" ->
  exists B' taken, b_tryresolve cs B p l r (Some s) = Ok (B', taken).
Proof.
  intros Hl Hr Hne Hs. unfold b_tryresolve. destruct s as [|c s']; [eauto|]. set (s := c :: s') in *.
  rewrite Hl, Hr, Hne. cbn [andb negb].
  unfold s_use_local, s_use_remote, s_use_base, s_union, s_clear, s_take_max, s_fail.
  repeat match goal with
         | |- context [str_eqb s ?c] => destruct (str_eqb s c) eqn:?; [cbn; eauto|]
         end.
  - exfalso. apply Hs. apply str_eqb_true_eq. assumption.
  - cbn. eauto.
Qed.

(* the only RuntimeError of the layer: strategy "fail" *)
Theorem tryresolve_fail_raises cs B p l r :
  truthy l = true -> truthy r = true -> conflict_args_eqb cs l r = false ->
  b_tryresolve cs B p l r (Some (of_ascii "fail")) = Err RuntimeError.
Proof. intros Hl Hr Hne. unfold b_tryresolve. cbn [of_ascii]. rewrite Hl, Hr, Hne. reflexivity. Qed.

Theorem conflict_total cs B p l r s :
  truthy l = true -> truthy r = true -> conflict_args_eqb cs l r = false -> s <> Some (of_ascii "fail") ->
  exists B', b_conflict cs B p l r s = Ok B'.
Proof.
  intros Hl Hr Hne Hs. unfold b_conflict, b_conflict_gen. rewrite Hl, Hr, Hne. cbn [andb negb].
  destruct s as [s|].
  - destruct (tryresolve_total cs B p l r s Hl Hr Hne) as [B' [t E]].
    + intros ->. apply Hs. reflexivity.
    + rewrite E. cbn. destruct t; eauto.
  - cbn. eauto.
Qed.

(* ------------------------------------------------------------------ (3) C10 *)
Lemma use_strategy_nonempty side : use_strategy side <> [].
Proof. unfold use_strategy, use_. cbn. discriminate. Qed.

Definition is_side (side : pystr) : Prop :=
  side = of_ascii "base" \/ side = of_ascii "local" \/ side = of_ascii "remote".

Lemma sides_is_side side : In side sides <-> is_side side.
Proof.
  unfold sides, is_side. cbn [In]. split.
  - intros [H|[H|[H|[]]]]; subst; auto.
  - intros [H|[H|H]]; subst; auto.
Qed.

(* leaf: in `decisions.conflict(path, ld, rd, strategy)` the decisions appended under use-X are the decisions appended by
   the open run ("mergetool": tryresolve does not know it, the conflict is registered), relabelled to X *)
Theorem use_side_equiv_leaf cs B p l r side :
  is_side side -> truthy l = true -> truthy r = true -> conflict_args_eqb cs l r = false ->
  exists Bopen Bside,
    b_conflict cs B p l r (Some (of_ascii "mergetool")) = Ok Bopen /\
    b_conflict cs B p l r (Some (use_strategy side)) = Ok Bside /\
    map drop_strategy Bside =
      map drop_strategy B ++ relabel_conflicts (side_action side) (skipn (List.length B) (map drop_strategy Bopen)) /\
    (List.length Bopen = S (List.length B) -> skipn (List.length B) (map d_conflict Bopen) = [true]
                                              /\ skipn (List.length B) (map d_conflict Bside) = [false]).
Proof.
  intros Hs Hl Hr Hne.
  assert (E : forall st, b_conflict cs B p l r (Some st) =
                         do t <- b_tryresolve cs B p l r (Some st);
                         let '(B', taken) := t in
                         if taken then Ok B' else Ok (add_decision B' p ABase l r true None None None)).
  { intros st. unfold b_conflict, b_conflict_gen. rewrite Hl, Hr, Hne. reflexivity. }
  assert (T : forall st, b_tryresolve cs B p l r (Some st) =
              match st with
              | [] => Ok (B, false)
              | s =>
              do a <- (if str_eqb s s_use_local then Ok (Some ALocal)
                       else if str_eqb s s_use_remote then Ok (Some ARemote)
                       else if str_eqb s s_use_base then Ok (Some ABase)
                       else if str_eqb s s_union then Ok (Some ALocalThenRemote)
                       else if str_eqb s s_clear then Ok (Some AClear)
                       else if str_eqb s s_take_max then Ok (Some ATakeMax)
                       else if str_eqb s s_fail then Err RuntimeError
                       else Ok None);
              match a with
              | Some a => Ok (add_decision B p a l r false (Some s) None None, true)
              | None => Ok (B, false)
              end end).
  { intros st. unfold b_tryresolve. destruct st; [reflexivity|]. rewrite Hl, Hr, Hne. reflexivity. }
  assert (G : forall a st,
     let Bo := add_decision B p ABase l r true None None None in
     let Bs := add_decision B p a l r false st None None in
     map drop_strategy Bs = map drop_strategy B ++ relabel_conflicts a (skipn (List.length B) (map drop_strategy Bo)) /\
     (List.length Bo = S (List.length B) -> skipn (List.length B) (map d_conflict Bo) = [true]
                                            /\ skipn (List.length B) (map d_conflict Bs) = [false])).
  { intros a st. cbv zeta. unfold add_decision.
    destruct (ensure_common_path (S (odepth l + odepth r + odepth None)) p [l; r; None]) as [p' ds].
    assert (K : skipn (List.length B) (map drop_strategy B) = []).
    { rewrite <- (map_length drop_strategy B). apply skipn_all. }
    assert (K2 : forall (f : decision -> bool) x, skipn (List.length B) (map f (B ++ [x])) = [f x]).
    { intros f x. rewrite map_app. rewrite <- (map_length f B). rewrite skipn_app. rewrite skipn_all.
      rewrite Nat.sub_diag. reflexivity. }
    destruct ds as [|x1 [|x2 [|x3 [|x4 ds]]]];
      try (split; [rewrite K; cbn; rewrite app_nil_r; reflexivity | intros HL; exfalso; lia]).
    split.
    - rewrite !map_app. rewrite <- (map_length drop_strategy B). rewrite skipn_app, skipn_all, Nat.sub_diag.
      cbn. reflexivity.
    - intros _. split; apply K2. }
  exists (add_decision B p ABase l r true None None None).
  destruct Hs as [-> | [-> | ->]].
  - exists (add_decision B p ABase l r false (Some (use_strategy (of_ascii "base"))) None None).
    split; [rewrite E, T; reflexivity|]. split; [rewrite E, T; reflexivity|]. apply (G ABase).
  - exists (add_decision B p ALocal l r false (Some (use_strategy (of_ascii "local"))) None None).
    split; [rewrite E, T; reflexivity|]. split; [rewrite E, T; reflexivity|]. apply (G ALocal).
  - exists (add_decision B p ARemote l r false (Some (use_strategy (of_ascii "remote"))) None None).
    split; [rewrite E, T; reflexivity|]. split; [rewrite E, T; reflexivity|]. apply (G ARemote).
Qed.

(* non-vacuity of the leaf theorem: two different one-entry diffs *)
Example use_side_equiv_leaf_inhabited :
  let l := Some [DReplace (KS (of_ascii "k")) (JInt 1%Z)] in
  let r := Some [DReplace (KS (of_ascii "k")) (JInt 2%Z)] in
  truthy l = true /\ truthy r = true /\ conflict_args_eqb false l r = false /\
  b_conflict false [] [KS (of_ascii "metadata")] l r (Some (use_strategy (of_ascii "local")))
    = Ok [mkDec [KS (of_ascii "metadata")] ALocal false l r None (Some (of_ascii "use-local")) None].
Proof. vm_compute. repeat split; reflexivity. Qed.

(* ---------- resolve_strategy_generic with use-X is relabel_open ---------- *)
Lemma relabel_open_no_conflict a B : has_conflicted B = false -> relabel_open a B = B.
Proof.
  unfold has_conflicted, relabel_open. induction B as [|d B IH]; cbn; [reflexivity|].
  intros H. apply orb_false_elim in H. destruct H as [H1 H2]. rewrite H1. cbn. rewrite IH by exact H2. reflexivity.
Qed.

Theorem generic_use_side_is_relabel B side :
  is_side side -> resolve_strategy_generic B (Some (use_strategy side)) = relabel_open (side_action side) B.
Proof.
  intros Hs. unfold resolve_strategy_generic, resolve_guard.
  destruct (has_conflicted B) eqn:HC.
  - destruct Hs as [-> | [-> | ->]]; reflexivity.
  - rewrite relabel_open_no_conflict by exact HC.
    destruct Hs as [-> | [-> | ->]]; cbn; rewrite ?andb_false_r; reflexivity.
Qed.

Theorem generic_mergetool_is_identity B : resolve_strategy_generic B (Some (of_ascii "mergetool")) = B.
Proof. unfold resolve_strategy_generic, resolve_guard. cbn. reflexivity. Qed.

(* the three level dispatchers delegate use-X to the same relabelling *)
Theorem strings_use_side_is_relabel B side :
  is_side side -> resolve_conflicted_strings B (Some (use_strategy side)) = relabel_open (side_action side) B.
Proof.
  intros Hs. rewrite <- (generic_use_side_is_relabel B side Hs).
  unfold resolve_conflicted_strings. destruct (negb (resolve_guard B (Some (use_strategy side)))) eqn:G.
  - unfold resolve_strategy_generic. rewrite G. reflexivity.
  - destruct Hs as [-> | [-> | ->]]; reflexivity.
Qed.

Theorem list_use_side_is_relabel H p base B side :
  is_side side -> resolve_conflicted_list H p base B (Some (use_strategy side)) = Ok (relabel_open (side_action side) B).
Proof.
  intros Hs. rewrite <- (generic_use_side_is_relabel B side Hs).
  unfold resolve_conflicted_list. destruct (negb (resolve_guard B (Some (use_strategy side)))) eqn:G.
  - unfold resolve_strategy_generic. rewrite G. reflexivity.
  - destruct Hs as [-> | [-> | ->]]; reflexivity.
Qed.

Theorem dict_use_side_is_relabel H p base B side :
  is_side side -> resolve_conflicted_dict H p base B (Some (use_strategy side)) = Ok (relabel_open (side_action side) B).
Proof.
  intros Hs. rewrite <- (generic_use_side_is_relabel B side Hs).
  unfold resolve_conflicted_dict. destruct (negb (resolve_guard B (Some (use_strategy side)))) eqn:G.
  - unfold resolve_strategy_generic. rewrite G. reflexivity.
  - destruct Hs as [-> | [-> | ->]]; reflexivity.
Qed.

(* ---------- the root: validated() and apply_decisions ---------- *)
Section SortMap.
  Context {A : Type}.
  Variable f : A -> list skel.
  Variable g : A -> A.
  Hypothesis fg : forall x, f (g x) = f x.

  Lemma insert_desc_map x l : insert_desc f (g x) (map g l) = map g (insert_desc f x l).
  Proof.
    induction l as [|y l IH]; cbn; [reflexivity|].
    rewrite !fg. destruct (sk_cmp (f y) (f x)); cbn; try reflexivity. rewrite IH. reflexivity.
  Qed.

  Lemma sort_desc_map l : sort_desc f (map g l) = map g (sort_desc f l).
  Proof.
    unfold sort_desc. induction l as [|x l IH]; cbn; [reflexivity|].
    rewrite IH. apply insert_desc_map.
  Qed.
End SortMap.

Lemma drop_relabel_open a B :
  all_conflicts_open B -> map drop_strategy (relabel_open a B) = relabel_conflicts a (map drop_strategy B).
Proof.
  unfold relabel_open, relabel_conflicts. intros HO. rewrite !map_map. apply map_ext_in. intros d Hd.
  destruct (d_conflict d) eqn:C; cbn.
  - rewrite (HO d Hd C). cbn. rewrite C. reflexivity.
  - rewrite C. reflexivity.
Qed.

Theorem validated_relabel a B :
  all_conflicts_open B -> validated (relabel_open a B) = relabel_conflicts a (validated B).
Proof.
  intros HO. unfold validated. rewrite (drop_relabel_open a B HO). unfold relabel_conflicts.
  apply sort_desc_map. intros d. destruct (d_conflict d); reflexivity.
Qed.

(* C10 at the root: given the same decisions before the root resolution, the use-X merge's decision list is the open
   merge's decision list with every conflict relabelled to X ... *)
Theorem use_side_equiv_root B side :
  is_side side -> all_conflicts_open B ->
  validated (resolve_strategy_generic B (Some (use_strategy side)))
  = relabel_conflicts (side_action side) (validated (resolve_strategy_generic B (Some (of_ascii "mergetool")))).
Proof.
  intros Hs HO. rewrite generic_use_side_is_relabel by exact Hs. rewrite generic_mergetool_is_identity.
  apply validated_relabel. exact HO.
Qed.

(* ... hence the merged notebooks are equal ... *)
Corollary use_side_equiv_root_merged base B side :
  is_side side -> all_conflicts_open B ->
  apply_decisions base (validated (resolve_strategy_generic B (Some (use_strategy side))))
  = apply_decisions base (relabel_conflicts (side_action side)
                            (validated (resolve_strategy_generic B (Some (of_ascii "mergetool"))))).
Proof. intros Hs HO. rewrite (use_side_equiv_root B side Hs HO). reflexivity. Qed.

(* ... and no conflict is left *)
Lemma relabel_conflicts_no_conflict a ds : Forall (fun d => d_conflict d = false) (relabel_conflicts a ds).
Proof.
  unfold relabel_conflicts. induction ds as [|d ds IH]; cbn; constructor; [|exact IH].
  destruct (d_conflict d) eqn:C; [reflexivity | exact C].
Qed.

Theorem use_side_root_no_conflict B side :
  is_side side -> all_conflicts_open B ->
  Forall (fun d => d_conflict d = false) (validated (resolve_strategy_generic B (Some (use_strategy side)))).
Proof.
  intros Hs HO. rewrite (use_side_equiv_root B side Hs HO). apply relabel_conflicts_no_conflict.
Qed.

(* non-vacuity: a builder with one open conflict and one resolved decision *)
Example use_side_equiv_root_inhabited :
  let l := Some [DReplace (KS (of_ascii "k")) (JInt 1%Z)] in
  let r := Some [DReplace (KS (of_ascii "k")) (JInt 2%Z)] in
  let B := [mkDec [KS (of_ascii "metadata")] ABase true l r None None None;
            mkDec [KS (of_ascii "cells")] ALocal false l None None None None] in
  all_conflicts_open B /\ has_conflicted B = true /\
  validated (resolve_strategy_generic B (Some (use_strategy (of_ascii "remote")))) <> validated B.
Proof.
  cbv zeta. split; [|split].
  - intros d [<-|[<-|[]]]; cbn; intros; try reflexivity; discriminate.
  - reflexivity.
  - vm_compute. discriminate.
Qed.
