(* The merged-document half of side symmetry without a side condition (Merge/MergeDictSym.v leaves the hypothesis
   "every agreement decision has JSON-identical sides"): when nbdime tests agreement by JSON identity (source fact
   entry_eq_strict = true) every decision the merge records for a document in which the sides meet only inside objects
   is side-neutral -- one-sided / conflict decisions by their action, agreement decisions because entry_eqb is equality
   (entry_eqb_true) and ensure_common_path keeps identical sides identical (add_decision_same). *)
From Coq Require Import String.
From Coq Require Import List NArith ZArith Bool Lia.
Import ListNotations.
From NB Require Import Base.Res.
From NB Require Import Base.Json.
From NB Require Import Base.PyStr.
From NB Require Import Diff.DiffFormat.
From NB Require Import Diff.Patch.
From NB Require Import Merge.SortKey.
From NB Require Import Merge.Decisions.
From NB Require Import Merge.Apply.
From NB Require Import Merge.MergeGeneric.
From NB Require Import Merge.MergeProofs.
From NB Require Import Merge.SortKeyProofs.
From Coq Require Import Permutation.
From NB Require Import Merge.MergeKeySym.
From NB Require Import Merge.MergeDictSym.

(* JSON identity on diff entries is equality *)
Lemma vlist_eqb_true a b : vlist_eqb a b = true -> a = b.
Proof.
  destruct a, b; simpl; try discriminate; intros E.
  - apply (json_eqb_eq (JArr l) (JArr l0)) in E. congruence.
  - apply str_eqb_eq in E. congruence.
Qed.

Fixpoint entry_eqb_true (a : dentry) : forall b, entry_eqb a b = true -> a = b.
Proof.
  destruct a; intros b; destruct b; simpl; try discriminate; intros E;
    apply andb_true_iff in E || idtac.
  - destruct E as [E1 E2]. apply key_eqb_true in E1. apply json_eqb_eq in E2. congruence.
  - apply key_eqb_true in E. congruence.
  - destruct E as [E1 E2]. apply key_eqb_true in E1. apply json_eqb_eq in E2. congruence.
  - destruct E as [E1 E2]. apply key_eqb_true in E1. apply vlist_eqb_true in E2. congruence.
  - destruct E as [E1 E2]. apply key_eqb_true in E1. apply Nat.eqb_eq in E2. congruence.
  - destruct E as [E1 E2]. apply key_eqb_true in E1. subst. f_equal.
    revert d0 E2. induction d as [|x xs IH]; intros [|y ys] E2; try discriminate; [reflexivity|].
    apply andb_true_iff in E2 as [Ex Er]. apply entry_eqb_true in Ex. apply IH in Er. congruence.
Qed.

(* a decision recorded for two identical sides has identical sides *)
Lemma add_decision_same B p a x c s cu sim :
  exists B', add_decision B p a x x c s cu sim = B ++ B' /\ Forall (fun d => d_local d = d_remote d /\ d_action d = a) B'.
Proof.
  unfold add_decision.
  pose proof (ensure_common_path_swap (S (odepth x + odepth x + odepth cu)) p x x cu) as Hs.
  destruct (ensure_common_path (S (odepth x + odepth x + odepth cu)) p [x; x; cu]) as [p' ds] eqn:E.
  cbn [fst snd] in Hs. inversion Hs as [Hd].
  destruct ds as [|l' [|r' [|c' [|y ds]]]]; try (exists []; split; [rewrite app_nil_r; reflexivity | constructor]).
  cbn [swap2] in Hd. inversion Hd; subst.
  eexists. split; [reflexivity|]. constructor; [split; reflexivity | constructor].
Qed.

Lemma add_decision_action B p a l r c s cu sim :
  exists B', add_decision B p a l r c s cu sim = B ++ B' /\ Forall (fun d => d_action d = a) B'.
Proof.
  unfold add_decision.
  destruct (ensure_common_path _ p [l; r; cu]) as [p' ds].
  destruct ds as [|l' [|r' [|c' [|y ds]]]]; try (exists []; split; [rewrite app_nil_r; reflexivity | constructor]).
  eexists. split; [reflexivity|]. constructor; [reflexivity | constructor].
Qed.

Definition neutral_action (a : action) : Prop :=
  match a with ABase | ALocal | ARemote | ACustom | ALocalThenRemote | ARemoteThenLocal | AClearAll => True | _ => False end.

Lemma neutral_by_action B p a l r c s cu sim :
  neutral_action a -> Forall side_neutral B -> Forall side_neutral (add_decision B p a l r c s cu sim).
Proof.
  intros Ha HB. destruct (add_decision_action B p a l r c s cu sim) as (B' & -> & HF).
  apply Forall_app. split; [exact HB|]. eapply Forall_impl; [|exact HF].
  intros d Hd. unfold side_neutral. rewrite Hd. destruct a; try contradiction; exact I.
Qed.

Lemma neutral_same B p x c s cu sim :
  Forall side_neutral B -> Forall side_neutral (add_decision B p AEither x x c s cu sim).
Proof.
  intros HB. destruct (add_decision_same B p AEither x c s cu sim) as (B' & -> & HF).
  apply Forall_app. split; [exact HB|]. eapply Forall_impl; [|exact HF].
  intros d [Hd Ha]. unfold side_neutral. rewrite Ha. exact Hd.
Qed.

Section Neutral.
  Variable St : strat.
  Variable cstrict : bool.
  Variable M : merge_fn.
  Variable rec : bool.
  Variable base : list (pystr * json).
  Variable p : path.

  Lemma b_agreement_neutral B l r B' : Forall side_neutral B -> l = r -> b_agreement B p l r = Ok B' -> Forall side_neutral B'.
  Proof.
    intros HB -> E. unfold b_agreement in E.
    destruct (negb (truthy r && truthy r)); [discriminate|]. destruct (negb (odiff_pyeqb r r)); [discriminate|].
    inversion E; subst. apply neutral_same. exact HB.
  Qed.

  Lemma b_conflict_neutral B l r B' : Forall side_neutral B -> b_conflict cstrict B p l r None = Ok B' -> Forall side_neutral B'.
  Proof.
    intros HB E. unfold b_conflict, b_conflict_gen, b_tryresolve in E.
    destruct (negb (truthy l && truthy r)); [discriminate|]. destruct (conflict_args_eqb cstrict l r); [discriminate|].
    cbn [bind] in E. inversion E; subst. apply neutral_by_action; [exact I | exact HB].
  Qed.

  Lemma merge_key_neutral B key ld rd B' :
    strat_get St (dspath p ++ 47%N :: key) = None ->
    (forall k1 dl k2 dr bv sub, ld = DPatch k1 dl -> rd = DPatch k2 dr -> obj_get key base = Some bv ->
       M rec bv dl dr (p ++ [KS key]) = Ok sub -> Forall side_neutral sub) ->
    Forall side_neutral B ->
    merge_key St true cstrict M rec base p B key ld rd = Ok B' -> Forall side_neutral B'.
  Proof.
    intros Hs HM HB E. unfold merge_key in E. rewrite Hs in E. unfold one in E.
    destruct (is_remove ld) eqn:Rl, (is_remove rd) eqn:Rr; cbn [orb andb] in E.
    - (* both remove: the assert of agreement() makes them the same entry *)
      destruct ld, rd; try discriminate Rl; try discriminate Rr.
      unfold b_agreement in E. cbn [truthy andb negb] in E.
      destruct (odiff_pyeqb (Some [DRemove k]) (Some [DRemove k0])) eqn:Ep; cbn [negb] in E; [|discriminate].
      cbn in Ep. rewrite andb_true_r in Ep. apply key_eqb_true in Ep. subst k0.
      inversion E; subst. apply neutral_same. exact HB.
    - destruct (is_diff_all_transients St [rd] p).
      + unfold b_local in E. destruct (truthy (Some [ld])); [|discriminate]. inversion E; subst.
        apply neutral_by_action; [exact I | exact HB].
      + eapply b_conflict_neutral; eassumption.
    - destruct (is_diff_all_transients St [ld] p).
      + unfold b_remote in E. destruct (truthy (Some [rd])); [|discriminate]. inversion E; subst.
        apply neutral_by_action; [exact I | exact HB].
      + eapply b_conflict_neutral; eassumption.
    - destruct (opk_eqb (op_of ld) (op_of rd)) eqn:Eo; cbn [negb] in E; [|eapply b_conflict_neutral; eassumption].
      destruct (same_entry true ld rd) eqn:Es.
      + unfold same_entry in Es. apply entry_eqb_true in Es. subst rd.
        eapply b_agreement_neutral; [exact HB | reflexivity | exact E].
      + destruct ld, rd; try discriminate Eo; try discriminate E; try (eapply b_conflict_neutral; eassumption).
        destruct (obj_get key base) as [bv|] eqn:Eb; [|discriminate].
        destruct (M rec bv d d0 (p ++ [KS key])) as [sub|e] eqn:EM; [|discriminate]. cbn [bind] in E. inversion E; subst.
        apply Forall_app. split; [exact HB|]. exact (HM k d k0 d0 bv sub eq_refl eq_refl eq_refl EM).
  Qed.
End Neutral.

Lemma fold_res_inv {X} (P : builder -> Prop) (g : builder -> X -> res builder) (l : list X) :
  (forall B x B', In x l -> P B -> g B x = Ok B' -> P B') ->
  forall acc B', (forall B0, acc = Ok B0 -> P B0) ->
    fold_left (fun (acc : res builder) x => do B <- acc; g B x) l acc = Ok B' -> P B'.
Proof.
  induction l as [|x r IH]; intros Hg acc B' Hacc E; cbn [fold_left] in E; [apply Hacc; exact E|].
  apply (IH (fun B y B'' Hin => Hg B y B'' (or_intror Hin)) (do B <- acc; g B x) B'); [|exact E].
  intros B0 E0. destruct acc as [Ba|e]; [|discriminate]. cbn [bind] in E0.
  exact (Hg Ba x B0 (or_introl eq_refl) (Hacc Ba eq_refl) E0).
Qed.

Section NeutralDicts.
  Variable St : strat.
  Variable H : hooks.
  Variable cstrict : bool.
  Variable M : merge_fn.
  Variable rec : bool.
  Variable base : list (pystr * json).
  Variable p : path.
  Hypothesis Hkeys : forall key, strat_get St (dspath p ++ 47%N :: key) = None.
  Hypothesis Hdict : strat_get St (dspath p) = None.

  Theorem merge_dicts_neutral ld rd B' :
    (forall key dl dr bv sub, In (DPatch (KS key) dl) ld -> In (DPatch (KS key) dr) rd -> obj_get key base = Some bv ->
       M rec bv dl dr (p ++ [KS key]) = Ok sub -> Forall side_neutral sub) ->
    merge_dicts St H true cstrict M rec base p ld rd = Ok B' -> Forall side_neutral B'.
  Proof.
    intros HMd E. unfold merge_dicts in E.
    destruct (as_dict_based_diff ld []) as [L|eL] eqn:EL; [|discriminate].
    destruct (as_dict_based_diff rd []) as [R|eR] eqn:ER; [|discriminate]. cbn [bind] in E.
    match type of E with (do B <- ?F1; _) = _ => destruct F1 as [B1|e1] eqn:E1; [|discriminate] end. cbn [bind] in E.
    match type of E with (do B <- ?F2; _) = _ => destruct F2 as [B2|e2] eqn:E2; [|discriminate] end. cbn [bind] in E.
    unfold dict_strategy in E. rewrite Hdict in E. unfold resolve_conflicted_dict in E.
    assert (B' = B2) by (destruct (negb (resolve_guard B2 None)); inversion E; reflexivity). subst B'. clear E.
    assert (N1 : Forall side_neutral B1).
    { revert E1. apply (fold_res_inv (Forall side_neutral)).
      - intros B kv B0 _ HB Eo. unfold b_onesided in Eo.
        destruct (negb (truthy _ || truthy _)); [discriminate|]. destruct (truthy _ && truthy _); [discriminate|].
        inversion Eo; subst. apply neutral_by_action; [|exact HB]. destruct (truthy _); exact I.
      - intros B0 E0. inversion E0; subst. constructor. }
    revert E2. apply (fold_res_inv (Forall side_neutral)).
    - intros B kv B0 Hin HB Ek.
      destruct (dict_get (fst kv) R) as [rde|] eqn:EgR; [|inversion Ek; subst; exact HB].
      eapply (merge_key_neutral St cstrict M rec base p B (fst kv) (snd kv) rde B0 (Hkeys _)); [|exact HB|exact Ek].
      intros k1 dl k2 dr bv sub E1' E2' Eb EM.
      destruct kv as [k e]. cbn [fst snd] in *.
      destruct (as_dict_members ld [] L EL k e Hin) as [[]|[I1 K1]].
      apply MergeDisjointFlat.dict_get_in in EgR.
      destruct (as_dict_members rd [] R ER k rde EgR) as [[]|[I2 K2]].
      subst e rde. cbn [dkey] in K1, K2. subst k1 k2. exact (HMd k dl dr bv sub I1 I2 Eb EM).
    - intros B0 E0. inversion E0; subst. exact N1.
  Qed.
End NeutralDicts.

(* with JSON-identity agreement tests (source fact entry_eq_strict = true) every decision of a merge in which the sides
   meet only inside objects can be applied with either side called local *)
Theorem merge_objmeet_neutral O cfg St H gk cstrict : st_table St = [] ->
  forall n rec base ld rd p B, objmeet base ld rd ->
    merge O cfg St H gk true cstrict n rec base ld rd p = Ok B -> Forall side_neutral B.
Proof.
  intros Hst. induction n as [|n IH]; intros rec base ld rd p B Hm E; [discriminate|].
  destruct Hm as [kv ld rd Hsub]. cbn [merge] in E.
  eapply merge_dicts_neutral; [| |exact (fun key dl dr bv sub I1 I2 Eb EM => IH _ _ _ _ _ _ (Hsub key dl dr bv I1 I2 Eb) EM) | exact E].
  - intros key. apply strat_get_empty. exact Hst.
  - apply strat_get_empty. exact Hst.
Qed.


Lemma validated_neutral B : Forall side_neutral B -> Forall side_neutral (validated B).
Proof.
  intros HB. unfold validated.
  assert (Hm : Forall side_neutral (map drop_strategy B)).
  { apply Forall_forall. intros d Hd. apply in_map_iff in Hd as (d0 & <- & Hin).
    rewrite Forall_forall in HB. specialize (HB d0 Hin). destruct d0; exact HB. }
  apply Forall_forall. intros d Hd.
  rewrite Forall_forall in Hm. apply Hm.
  eapply Permutation_in; [apply Permutation_sym; apply sort_desc_perm | exact Hd].
Qed.

(* THE SYMMETRY CLAUSE IN FULL for documents in which the sides meet only inside objects, following the generated source
   fact: when agreement is tested by JSON identity (entry_eq_strict = true, the repaired source) the merge with the sides
   exchanged has the same verdict AND builds the same merged document, with no side condition. *)
Definition symmetry_full_statement O cfg St H gk (strict cstrict : bool) : Prop :=
  if strict then
    forall base ld rd D, st_table St = [] -> objmeet base ld rd ->
      decide_merge_with_diff O cfg St H gk strict cstrict base ld rd = Ok D ->
      exists D', decide_merge_with_diff O cfg St H gk strict cstrict base rd ld = Ok D'
                 /\ has_conflicted D' = has_conflicted D
                 /\ apply_decisions base D' = apply_decisions base D
  else True.

Theorem symmetry_full_by_fact O cfg St H gk strict cstrict : symmetry_full_statement O cfg St H gk strict cstrict.
Proof.
  unfold symmetry_full_statement. destruct strict; [|exact I].
  intros base ld rd D Hst Hm HD.
  destruct (decide_apply_objmeet_swap O cfg St H gk true cstrict base ld rd D Hst Hm HD) as (D' & E' & -> & Hc & Ha).
  exists (map swap_dec D). split; [exact E'|]. split; [exact Hc|]. apply Ha.
  unfold decide_merge_with_diff in HD.
  destruct (merge O cfg St H gk true cstrict (mfuel base) false base ld rd []) as [B|e] eqn:EB; [|discriminate].
  cbn [bind] in HD. rewrite (strat_get_empty St _ Hst) in HD. inversion HD; subst.
  apply validated_neutral. unfold resolve_strategy_generic.
  pose proof (merge_objmeet_neutral O cfg St H gk cstrict Hst _ _ _ _ _ _ _ Hm EB) as HN.
  destruct (negb (resolve_guard B None)); exact HN.
Qed.
