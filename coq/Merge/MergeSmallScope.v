(* C05 on exhaustively enumerated finite domains, decided inside Coq by vm_compute on the executable model
   (the model's own differ produces the diffs; no oracle is consulted for lists of ints and flat objects) and
   lifted to Prop with forallb_forall.  Complements the general theorems of MergeProofs.v, which do not yet cover
   "merged = X" and the symmetry clause for all inputs. *)
From Coq Require Import String.
From Coq Require Import List NArith ZArith Bool Lia.
From NB Require Import Base.Res.
From NB Require Import Base.Json.
From NB Require Import Diff.DiffFormat.
From NB Require Import Diff.Patch.
From NB Require Import Diff.GenericDiff.
From NB Require Import Merge.SortKey.
From NB Require Import Merge.Chunks.
From NB Require Import Merge.Decisions.
From NB Require Import Merge.Apply.
From NB Require Import Merge.MergeGeneric.
From NB Require Import Gen.MergeFacts.
From NB Require Import Merge.MergeProofs.
Import ListNotations.

(* ---------- exhaustive small scope, decided inside Coq on the model (differ included) ---------- *)
Definition sym3 : list json := [JInt 1; JInt 2; JInt 3].

Fixpoint lists_upto (n : nat) : list (list json) :=
  match n with
  | 0 => [[]]
  | S m => [] :: flat_map (fun l => map (fun a => a :: l) sym3) (lists_upto m)
  end.
Definition small_lists (n : nat) : list json := map JArr (nodup (list_eq_dec json_eq_dec) (lists_upto n)).

Definition kx : pystr := [120%N]. Definition ky : pystr := [121%N]. Definition kz : pystr := [122%N].
Definition small_objects : list json :=
  flat_map (fun vx => flat_map (fun vy => map (fun vz =>
     JObj ((match vx with Some v => [(kx, v)] | None => [] end) ++ (match vy with Some v => [(ky, v)] | None => [] end)
           ++ (match vz with Some v => [(kz, v)] | None => [] end)))
     (None :: map Some sym3)) (None :: map Some sym3)) (None :: map Some sym3).

Definition mdiff (a b : json) : res diff := diff_default O0 cfg0 (4 * (depth a + depth b) + 8) a b.

Section Small.
  Variable gk : guard_kind.
  Variable strict cstrict : bool.
  Definition dec0 := decide_merge_with_diff O0 cfg0 no_strategies no_hooks gk strict cstrict.

  (* merged = expected and no conflicted decision *)
  Definition clean_to (base : json) (dl dr : diff) (expected : json) : bool :=
    match dec0 base dl dr with
    | Ok decs => negb (has_conflicted decs) &&
                 match apply_decisions base decs with Ok m => json_eqb m expected | Err _ => false end
    | Err _ => false
    end.

  Definition laws_hold (b x : json) : bool :=
    match mdiff b x with
    | Ok d => clean_to b d [] x && clean_to b [] d x && clean_to b d d x
    | Err _ => false
    end.

  Definition all_pairs (docs : list json) : bool :=
    forallb (fun b => forallb (fun x => if json_eqb b x then true else laws_hold b x) docs) docs.

  (* own walk: both sides insert at the same position *)
  Fixpoint same_pos (fuel : nat) (dl dr : diff) : bool :=
    match fuel with
    | 0 => true
    | S f =>
        existsb (fun e => match e with
                          | DAddRange k _ => existsb (fun e' => match e' with DAddRange k' _ => key_eqb k k' | _ => false end) dr
                          | DPatch k d => existsb (fun e' => match e' with DPatch k' d' => key_eqb k k' && same_pos f d d' | _ => false end) dr
                          | _ => false end) dl
    end.

  Definition verdict (base : json) (dl dr : diff) : option (bool * option json) :=
    match dec0 base dl dr with
    | Ok decs => Some (has_conflicted decs,
                       match apply_decisions base decs with Ok m => Some m | Err _ => None end)
    | Err _ => None
    end.

  Definition symmetric_on (b l r : json) : bool :=
    match mdiff b l, mdiff b r with
    | Ok dl, Ok dr =>
        if same_pos 8 dl dr then true else
        match verdict b dl dr, verdict b dr dl with
        | Some (c1, m1), Some (c2, m2) =>
            Bool.eqb c1 c2 && (c1 || match m1, m2 with Some x, Some y => json_eqb x y | _, _ => false end)
        | None, None => true
        | _, _ => false
        end
    | _, _ => false
    end.

  Definition all_triples (docs : list json) : bool :=
    forallb (fun b => forallb (fun l => forallb (fun r => symmetric_on b l r) docs) docs) docs.
End Small.

Lemma has_conflicted_false B : has_conflicted B = false -> no_conf B.
Proof.
  unfold has_conflicted, no_conf. induction B as [|d B IH]; simpl; intros E; [constructor|].
  apply orb_false_iff in E. destruct E as [E1 E2]. constructor; [exact E1 | apply IH; exact E2].
Qed.

(* Prop reading of the boolean deciders *)
Definition merges_cleanly_to gk strict cstrict (base : json) (dl dr : diff) (expected : json) : Prop :=
  exists decs, decide_merge_with_diff O0 cfg0 no_strategies no_hooks gk strict cstrict base dl dr = Ok decs
               /\ no_conf decs /\ apply_decisions base decs = Ok expected.

Lemma clean_to_spec gk strict cstrict base dl dr x :
  clean_to gk strict cstrict base dl dr x = true -> merges_cleanly_to gk strict cstrict base dl dr x.
Proof.
  unfold clean_to, merges_cleanly_to, dec0.
  destruct (decide_merge_with_diff _ _ _ _ _ _ _ base dl dr) as [decs|]; [|discriminate].
  intros E. apply andb_true_iff in E. destruct E as [E1 E2]. exists decs. split; [reflexivity|].
  split; [apply has_conflicted_false; apply negb_true_iff; exact E1|].
  destruct (apply_decisions base decs) as [m|]; [|discriminate]. apply json_eqb_eq in E2. congruence.
Qed.

(* the three laws for one (base, X), X reached through the model's own differ *)
Definition laws gk strict cstrict (b x : json) : Prop :=
  exists d, mdiff b x = Ok d
            /\ merges_cleanly_to gk strict cstrict b d [] x
            /\ merges_cleanly_to gk strict cstrict b [] d x
            /\ merges_cleanly_to gk strict cstrict b d d x.

Lemma all_pairs_spec gk strict cstrict docs :
  all_pairs gk strict cstrict docs = true ->
  forall b x, In b docs -> In x docs -> b <> x -> laws gk strict cstrict b x.
Proof.
  unfold all_pairs. intros E b x Hb Hx Hne.
  rewrite forallb_forall in E. specialize (E b Hb). rewrite forallb_forall in E. specialize (E x Hx).
  destruct (json_eqb b x) eqn:Eq; [apply json_eqb_eq in Eq; contradiction|].
  unfold laws_hold in E. unfold laws. destruct (mdiff b x) as [d|]; [|discriminate].
  apply andb_true_iff in E. destruct E as [E12 E3]. apply andb_true_iff in E12. destruct E12 as [E1 E2].
  exists d. split; [reflexivity|]. repeat split; apply clean_to_spec; assumption.
Qed.

Example small_lists_count : length (small_lists 3) = 40 /\ length small_objects = 64.
Proof. split; vm_compute; reflexivity. Qed.

(* C05 on an exhaustively enumerated finite domain, merged document included: every pair of distinct lists of length <= 3
   over {1,2,3} and every pair of distinct objects over keys x,y,z with values in {1,2,3} *)
Theorem laws_small_scope :
  (forall b x, In b (small_lists 3) -> In x (small_lists 3) -> b <> x ->
               laws chunks_guard entry_eq_strict conflict_assert_strict b x)
  /\ (forall b x, In b small_objects -> In x small_objects -> b <> x ->
                  laws chunks_guard entry_eq_strict conflict_assert_strict b x).
Proof. split; apply all_pairs_spec; vm_compute; reflexivity. Qed.

(* side symmetry on every triple of lists of length <= 2 over {1,2,3}, same-position inserts excluded *)
Theorem symmetry_small_scope :
  forall b l r, In b (small_lists 2) -> In l (small_lists 2) -> In r (small_lists 2) ->
                symmetric_on chunks_guard entry_eq_strict conflict_assert_strict b l r = true.
Proof.
  assert (E : all_triples chunks_guard entry_eq_strict conflict_assert_strict (small_lists 2) = true) by (vm_compute; reflexivity).
  intros b l r Hb Hl Hr. unfold all_triples in E.
  rewrite forallb_forall in E. specialize (E b Hb). rewrite forallb_forall in E. specialize (E l Hl).
  rewrite forallb_forall in E. exact (E r Hr).
Qed.

Definition small_objects2 : list json :=
  flat_map (fun vx => map (fun vy =>
     JObj ((match vx with Some v => [(kx, v)] | None => [] end) ++ (match vy with Some v => [(ky, v)] | None => [] end)))
     (None :: map Some sym3)) (None :: map Some sym3).

Theorem symmetry_small_scope_objects :
  forall b l r, In b small_objects2 -> In l small_objects2 -> In r small_objects2 ->
                symmetric_on chunks_guard entry_eq_strict conflict_assert_strict b l r = true.
Proof.
  assert (E : all_triples chunks_guard entry_eq_strict conflict_assert_strict small_objects2 = true) by (vm_compute; reflexivity).
  intros b l r Hb Hl Hr. unfold all_triples in E.
  rewrite forallb_forall in E. specialize (E b Hb). rewrite forallb_forall in E. specialize (E l Hl).
  rewrite forallb_forall in E. exact (E r Hr).
Qed.

(* ---------- two levels: the decisions are pushed down by ensure_common_path, sorted deeper-first and applied
   group by group ---------- *)
Definition sym2 : list json := [JInt 1; JInt 2].
Fixpoint lists_over (alpha : list json) (n : nat) : list (list json) :=
  match n with
  | 0 => [[]]
  | S m => [] :: flat_map (fun l => map (fun a => a :: l) alpha) (lists_over alpha m)
  end.
Definition inner_lists : list json := map JArr (nodup (list_eq_dec json_eq_dec) (lists_over sym2 2)).
Definition nested_lists : list json := map JArr (nodup (list_eq_dec json_eq_dec) (lists_over inner_lists 2)).
Definition nested_objects : list json :=
  flat_map (fun vx => map (fun vy =>
     JObj ((match vx with Some v => [(kx, v)] | None => [] end) ++ (match vy with Some v => [(ky, v)] | None => [] end)))
     (None :: map Some inner_lists)) (None :: map Some inner_lists).
Definition inner1 : list json := [JArr []; JArr [JInt 1]; JArr [JInt 2]].
Definition nested_objects1 : list json :=
  flat_map (fun vx => map (fun vy =>
     JObj ((match vx with Some v => [(kx, v)] | None => [] end) ++ (match vy with Some v => [(ky, v)] | None => [] end)))
     (None :: map Some inner1)) (None :: map Some inner1).

Example nested_counts : length nested_lists = 57 /\ length nested_objects = 64 /\ length nested_objects1 = 16.
Proof. repeat split; vm_compute; reflexivity. Qed.

Theorem laws_small_scope_nested :
  (forall b x, In b nested_lists -> In x nested_lists -> b <> x ->
               laws chunks_guard entry_eq_strict conflict_assert_strict b x)
  /\ (forall b x, In b nested_objects -> In x nested_objects -> b <> x ->
                  laws chunks_guard entry_eq_strict conflict_assert_strict b x).
Proof. split; apply all_pairs_spec; vm_compute; reflexivity. Qed.

Theorem symmetry_small_scope_nested :
  forall b l r, In b nested_objects1 -> In l nested_objects1 -> In r nested_objects1 ->
                symmetric_on chunks_guard entry_eq_strict conflict_assert_strict b l r = true.
Proof.
  assert (E : all_triples chunks_guard entry_eq_strict conflict_assert_strict nested_objects1 = true) by (vm_compute; reflexivity).
  intros b l r Hb Hl Hr. unfold all_triples in E.
  rewrite forallb_forall in E. specialize (E b Hb). rewrite forallb_forall in E. specialize (E l Hl).
  rewrite forallb_forall in E. exact (E r Hr).
Qed.

(* ---------- C06 on the same finite domains: separated changes merge into exactly both ---------- *)
From NB Require Import Diff.Wf.

Definition separatedb (gk : guard_kind) (base : json) (dl dr : diff) : bool :=
  match base with
  | JObj _ => forallb (fun e1 => forallb (fun e2 => negb (key_eqb (dkey e1) (dkey e2))) dr) dl
  | JArr l => match make_merge_chunks_with gk (length l) dl dr with
              | Ok cs => forallb (fun c => negb (nonempty (c_d0 c)) || negb (nonempty (c_d1 c))) cs
              | Err _ => false
              end
  | _ => false
  end.

(* expected result: the documented position-wise meaning of the union of the two diffs (no cursor, order-free) *)
Definition both_applied (base : json) (dl dr : diff) : json := spec_patch 8 base (dl ++ dr).

Definition disjoint_ok (gk : guard_kind) (strict cstrict : bool) (b l r : json) : bool :=
  match mdiff b l, mdiff b r with
  | Ok dl, Ok dr =>
      if separatedb gk b dl dr && nonempty dl && nonempty dr
      then clean_to gk strict cstrict b dl dr (both_applied b dl dr) else true
  | _, _ => false
  end.

Definition count_separated (gk : guard_kind) (docs : list json) : nat :=
  length (filter (fun t => match t with (b, l, r) =>
             match mdiff b l, mdiff b r with
             | Ok dl, Ok dr => separatedb gk b dl dr && nonempty dl && nonempty dr
             | _, _ => false end end)
          (flat_map (fun b => flat_map (fun l => map (fun r => (b, l, r)) docs) docs) docs)).

Theorem disjoint_small_scope :
  (forall b l r, In b (small_lists 3) -> In l (small_lists 2) -> In r (small_lists 2) ->
                 disjoint_ok chunks_guard entry_eq_strict conflict_assert_strict b l r = true)
  /\ (forall b l r, In b small_objects2 -> In l small_objects2 -> In r small_objects2 ->
                    disjoint_ok chunks_guard entry_eq_strict conflict_assert_strict b l r = true).
Proof.
  split.
  - assert (E : forallb (fun b => forallb (fun l => forallb (fun r =>
                  disjoint_ok chunks_guard entry_eq_strict conflict_assert_strict b l r) (small_lists 2)) (small_lists 2)) (small_lists 3) = true)
      by (vm_compute; reflexivity).
    intros b l r Hb Hl Hr.
    rewrite forallb_forall in E. specialize (E b Hb). rewrite forallb_forall in E. specialize (E l Hl).
    rewrite forallb_forall in E. exact (E r Hr).
  - assert (E : forallb (fun b => forallb (fun l => forallb (fun r =>
                  disjoint_ok chunks_guard entry_eq_strict conflict_assert_strict b l r) small_objects2) small_objects2) small_objects2 = true)
      by (vm_compute; reflexivity).
    intros b l r Hb Hl Hr.
    rewrite forallb_forall in E. specialize (E b Hb). rewrite forallb_forall in E. specialize (E l Hl).
    rewrite forallb_forall in E. exact (E r Hr).
Qed.

(* how many of those triples actually have both sides changing, separated (non-vacuity, measured) *)
Example disjoint_small_scope_counts :
  count_separated chunks_guard small_objects2 = 288 /\ count_separated chunks_guard (small_lists 2) = 252.
Proof. split; vm_compute; reflexivity. Qed.
