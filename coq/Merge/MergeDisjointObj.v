(* C06 on object documents of any depth: when the two sides change DIFFERENT top-level keys of an object (say one edits
   metadata, the other edits cells -- each change nested to any depth), with diffs that are well-formed for the base (C11),
   the merge returns, no decision is conflicted, and applying the decisions gives the document obtained by applying the two
   diffs one after the other, in either order. *)
From Coq Require Import String.
From Coq Require Import List NArith ZArith Bool Lia Permutation.
From NB Require Import Base.Res Base.Json Base.PyStr Diff.DiffFormat Diff.Patch Diff.GenericDiff Diff.Codec Diff.Wf
     Diff.DictProofs Diff.DictWf Diff.MasterProofs Diff.SpecProofs
     Merge.SortKey Merge.Chunks Merge.Decisions Merge.Apply Merge.MergeGeneric Gen.MergeFacts
     Merge.MergeProofs Merge.MergeApplyProofs Merge.SortKeyProofs Merge.MergeDisjointFlat Merge.MergeOnesidedObj.
Import ListNotations.

(* ---------- wf_map_of, entry by entry ---------- *)
Definition entry_cond (r : json -> list dentry -> bool) (kv : list (pystr * json)) (e : dentry) : bool :=
  match dkey e with
  | KI _ => false
  | KS k =>
      match e with
      | DAdd _ _ => negb (obj_has k kv)
      | DRemove _ => obj_has k kv
      | DReplace _ _ => obj_has k kv
      | DPatch _ dd => match obj_get k kv with
                       | Some x => is_container x && negb (Nat.eqb (length dd) 0) && r x dd
                       | None => false end
      | _ => false
      end
  end.

Lemma wf_map_elim r kv : forall d prev, wf_map_of r kv prev d = true -> Forall (fun e => entry_cond r kv e = true) d.
Proof.
  induction d as [|e rest IH]; intros prev Hw; [constructor|]. cbn [wf_map_of] in Hw.
  destruct (dkey e) as [|k] eqn:Ek; [discriminate|].
  apply andb_true_iff in Hw as [H1 H3]. apply andb_true_iff in H1 as [_ H2].
  constructor; [unfold entry_cond; rewrite Ek; exact H2 | eapply IH; exact H3].
Qed.

Lemma wf_map_intro r kv : forall d prev, skeys_lt prev d -> Forall (fun e => entry_cond r kv e = true) d -> wf_map_of r kv prev d = true.
Proof.
  induction d as [|e rest IH]; intros prev Hs Hc; [reflexivity|]. cbn [wf_map_of]. cbn [skeys_lt] in Hs.
  inversion Hc as [|? ? He Hc']; subst. unfold entry_cond in He.
  destruct (dkey e) as [|k] eqn:Ek; [contradiction|]. destruct Hs as [H1 H2].
  rewrite He, (IH _ H2 Hc'). destruct prev; [rewrite H1|]; reflexivity.
Qed.

(* ---------- applying two key-disjoint object diffs one after the other = applying their union ---------- *)
Lemma go_entries rec a : forall d no del r, patch_dict_go rec a d no del = Ok r -> Forall (entry_ok rec a) d.
Proof.
  induction d as [|e d IH]; intros no del r E; [constructor|]. cbn [patch_dict_go] in E.
  destruct (dkey e) as [|k] eqn:Ek; [discriminate|].
  destruct (obj_has k no); [discriminate|].
  destruct e as [[?|k1] v|[?|k1]|[?|k1] v|[?|k1] vs|[?|k1] len|[?|k1] dd]; cbn [dkey] in Ek; try discriminate; inversion Ek; subst k1.
  - destruct (obj_has k a) eqn:Ha; [discriminate|]. constructor; [exact Ha | eapply IH; eassumption].
  - constructor; [exact I | eapply IH; eassumption].
  - destruct (existsb (str_eqb k) del); [discriminate|]. constructor; [exact I | eapply IH; eassumption].
  - destruct (existsb (str_eqb k) del); [discriminate|]. destruct (obj_get k a) as [x|] eqn:Ex; [|discriminate].
    destruct (rec x dd) as [p|] eqn:Ep; [cbn [bind] in E|discriminate].
    constructor; [cbn [entry_ok]; exists x, p; split; assumption | eapply IH; eassumption].
Qed.

Section BothKeptGen.
  Variable rec : json -> diff -> res json.
  Variables d1 d2 m : diff.
  Hypothesis Nm : NoDup (dkeys m).
  Hypothesis Min : forall e, In e m -> In e d1 \/ In e d2.
  Hypothesis Mfind : forall k, find_entry k m = match find_entry k d2 with Some e => Some e | None => find_entry k d1 end.
  Hypothesis Dis : forall k e, find_entry k d2 = Some e -> find_entry k d1 = None.
  Hypothesis N1 : NoDup (dkeys d1).
  Hypothesis N2 : NoDup (dkeys d2).
  Hypothesis K2 : Forall (fun e => dkey e = KS (key_str_of e)) d2.

  Theorem sequential_is_union_gen kv kx ky :
    patch_dict rec kv d1 = Ok kx -> patch_dict rec kx d2 = Ok ky -> patch_dict rec kv m = Ok ky.
  Proof.
    intros P1 P2.
    assert (E1 : Forall (entry_ok rec kv) d1).
    { unfold patch_dict in P1. destruct (patch_dict_go rec kv d1 [] []) eqn:G; [|discriminate]. eapply go_entries; eassumption. }
    assert (E2 : Forall (entry_ok rec kx) d2).
    { unfold patch_dict in P2. destruct (patch_dict_go rec kx d2 [] []) eqn:G; [|discriminate]. eapply go_entries; eassumption. }
    destruct (patch_dict_spec rec kv d1 E1 N1) as (r1 & R1 & S1 & G1). rewrite P1 in R1. inversion R1; subst r1.
    destruct (patch_dict_spec rec kx d2 E2 N2) as (r2 & R2 & S2 & G2). rewrite P2 in R2. inversion R2; subst r2.
    assert (Same : forall e, In e d2 -> obj_get (key_str_of e) kx = obj_get (key_str_of e) kv).
    { intros e He. pose proof (fe_self d2 K2 e He) as Hs. destruct (find_entry (key_str_of e) d2) as [e'|] eqn:Fe; [|congruence].
      rewrite G1. unfold dmeaning. rewrite (Dis _ _ Fe). reflexivity. }
    assert (SetOf : forall e, In e d2 -> set_of rec kv e = set_of rec kx e /\ (entry_ok rec kx e -> entry_ok rec kv e)).
    { intros e He. pose proof (Same e He) as Sm. rewrite Forall_forall in K2. pose proof (K2 e He) as Ke.
      destruct e as [[?|k] v|[?|k]|[?|k] v|[?|k] vs|[?|k] len|[?|k] dd]; cbn [dkey key_str_of] in Ke; try discriminate;
        unfold key_str_of in Sm; cbn [dkey] in Sm; cbn [set_of entry_ok]; try (split; [reflexivity | tauto]).
      - split; [reflexivity|]. unfold obj_has. rewrite Sm. tauto.
      - rewrite Sm. split; [reflexivity|]. tauto. }
    assert (E3 : Forall (entry_ok rec kv) m).
    { apply Forall_forall. intros e He. destruct (Min e He) as [H1|H2'].
      - rewrite Forall_forall in E1. apply E1. exact H1.
      - rewrite Forall_forall in E2. apply (proj2 (SetOf e H2')). apply E2. exact H2'. }
    destruct (patch_dict_spec rec kv m E3 Nm) as (r3 & R3 & S3 & G3). rewrite R3. f_equal.
    apply sorted_ext; [exact S3 | exact S2|]. intros k. rewrite G3, G2. unfold dmeaning. rewrite Mfind.
    destruct (find_entry k d2) as [e|] eqn:Fe.
    - pose proof (fe_in k d2 e Fe) as He. rewrite (proj1 (SetOf e He)). reflexivity.
    - rewrite G1. unfold dmeaning. reflexivity.
  Qed.
End BothKeptGen.

(* ---------- the decisions of a merge whose sides name different keys ---------- *)
Section Mixed.
  Variables dl dr : diff.
  Hypothesis Sl : skeys_lt None dl.
  Hypothesis Sr : skeys_lt None dr.
  Hypothesis Dj : disjoint_keys dl dr.

  Let L := map pair_of dl.
  Let R := map pair_of dr.
  Definition tag_of (k : pystr) : mode := match dict_get k L with Some _ => ML | None => MR end.

  Definition side_ok' (kv : pystr * dentry) : Prop :=
    (dict_get (fst kv) L = Some (snd kv) /\ dict_get (fst kv) R = None)
    \/ (dict_get (fst kv) L = None /\ dict_get (fst kv) R = Some (snd kv)).

  Lemma union_side_ok' : Forall side_ok' (union_pairs dl dr).
  Proof.
    pose proof (sorted_lookup _ (union_sorted dl dr Sl)) as Hl. rewrite Forall_forall in *. intros kv Hin.
    specialize (Hl kv Hin). rewrite (union_get dl dr Sr) in Hl. fold R in Hl. unfold side_ok'.
    destruct (dict_get (fst kv) R) as [e|] eqn:GR.
    - right. inversion Hl; subst. split; [|reflexivity]. destruct (not_both dl dr Dj (fst kv)) as [X|X]; [exact X | fold R in X; congruence].
    - left. split; [exact Hl | reflexivity].
  Qed.

  Lemma mixed_fold_gen p : forall l B, Forall side_ok' l ->
    exists decs,
      fold_left (fun (acc : res builder) kv =>
                   do B <- acc;
                   b_onesided B p (option_map (fun e => [e]) (dict_get (fst kv) L))
                                  (option_map (fun e => [e]) (dict_get (fst kv) R))) l (Ok B)
      = Ok (B ++ decs) /\ Forall2 (fun kv dec => carries (tag_of (fst kv)) p (snd kv) dec) l decs.
  Proof.
    induction l as [|[k e] r IH]; intros B Hl; cbn [fold_left].
    - exists []. rewrite app_nil_r. split; [reflexivity | constructor].
    - inversion Hl as [|? ? Hk Hr]; subst. unfold side_ok' in Hk. cbn [fst snd] in Hk. cbn [bind fst snd].
      destruct Hk as [[G1 G2]|[G1 G2]].
      + assert (T : tag_of k = ML) by (unfold tag_of; fold L; rewrite G1; reflexivity).
        destruct (add_decision_local ML B p e) as (ks & x' & E & P & Q). cbn [m_action m_local m_remote] in E.
        destruct (IH (B ++ [ldec ML (p ++ ks) x']) Hr) as (decs & F1 & F2).
        exists (ldec ML (p ++ ks) x' :: decs). split; [|constructor; [cbn [fst snd]; rewrite T; exists ks, x'; repeat split; assumption | exact F2]].
        rewrite <- app_assoc in F1. cbn [app] in F1. rewrite <- F1. f_equal.
        rewrite G1, G2. cbn [option_map]. unfold b_onesided. cbn [truthy orb andb negb]. f_equal. exact E.
      + assert (T : tag_of k = MR) by (unfold tag_of; fold L; rewrite G1; reflexivity).
        destruct (add_decision_local MR B p e) as (ks & x' & E & P & Q). cbn [m_action m_local m_remote] in E.
        destruct (IH (B ++ [ldec MR (p ++ ks) x']) Hr) as (decs & F1 & F2).
        exists (ldec MR (p ++ ks) x' :: decs). split; [|constructor; [cbn [fst snd]; rewrite T; exists ks, x'; repeat split; assumption | exact F2]].
        rewrite <- app_assoc in F1. cbn [app] in F1. rewrite <- F1. f_equal.
        rewrite G1, G2. cbn [option_map]. unfold b_onesided. cbn [truthy orb andb negb]. f_equal. exact E.
  Qed.
End Mixed.

Section DisjointObj.
  Variable O : oracles.
  Variable cfg : config.
  Variable St : strat.
  Variable H : hooks.
  Variable gk : guard_kind.
  Variable strict : bool.
  Variable cstrict : bool.

  Theorem disjoint_object_both_kept kv dl dr f :
    wfj (JObj kv) = true -> wf_diff f (JObj kv) dl = true -> wf_diff f (JObj kv) dr = true -> disjoint_keys dl dr ->
    exists decs,
      decide_merge_with_diff O cfg St H gk strict cstrict (JObj kv) dl dr = Ok decs
      /\ no_conf decs
      /\ (forall m, depth (JObj kv) < m -> apply_decisions (JObj kv) decs = patch m (JObj kv) (union_diff dl dr))
      /\ (forall m x y, depth (JObj kv) < m -> patch m (JObj kv) dl = Ok x -> patch m x dr = Ok y -> apply_decisions (JObj kv) decs = Ok y)
      /\ (forall m x y, depth (JObj kv) < m -> patch m (JObj kv) dr = Ok x -> patch m x dl = Ok y -> apply_decisions (JObj kv) decs = Ok y).
  Proof.
    intros Hw Hfl Hfr Dj.
    pose proof (wf_diff_lower _ _ _ Hfl) as Hdl. pose proof (wf_diff_lower _ _ _ Hfr) as Hdr.
    fold (wfd (JObj kv) dl) in Hdl. fold (wfd (JObj kv) dr) in Hdr.
    pose proof (wf_map_skeys _ kv dl None (Hmap kv dl Hdl)) as Sl. pose proof (wf_map_skeys _ kv dr None (Hmap kv dr Hdr)) as Sr.
    set (u := union_diff dl dr).
    assert (Hdu : wfd (JObj kv) u).
    { unfold wfd. rewrite wf_diff_obj. apply wf_map_intro; [exact (union_skeys dl dr Sl Sr)|].
      apply Forall_forall. intros e He. destruct (union_mem dl dr e He) as [X|X].
      - pose proof (wf_map_elim _ kv dl None (Hmap kv dl Hdl)) as A. rewrite Forall_forall in A. apply A. exact X.
      - pose proof (wf_map_elim _ kv dr None (Hmap kv dr Hdr)) as A. rewrite Forall_forall in A. apply A. exact X. }
    (* the decisions *)
    unfold decide_merge_with_diff, mfuel.
    replace (depth (JObj kv) + 3) with (S (depth (JObj kv) + 2)) by lia. cbn [merge].
    unfold merge_dicts. rewrite (as_dict_ok dl Sl), (as_dict_ok dr Sr). cbn [bind].
    rewrite (filter_all_true _ (map pair_of dr)) by (intros x Hin; rewrite (R_not_in_L dl dr Sr Dj x Hin); reflexivity).
    rewrite (filter_all_true _ (map pair_of dl)) by (intros x Hin; rewrite (L_not_in_R dl dr Sl Dj x Hin); reflexivity).
    change (fold_left (fun acc x => dict_set (fst x) (snd x) acc) (map pair_of dr) (map pair_of dl)) with (union_pairs dl dr).
    destruct (mixed_fold_gen dl dr [] (union_pairs dl dr) [] (union_side_ok' dl dr Sl Sr Dj)) as (B & F1 & F2).
    match goal with |- context [bind (bind ?X _) _] => replace X with (Ok ([] ++ B) : res builder) by (symmetry; exact F1) end.
    cbn [bind app].
    match goal with |- context [bind (bind ?X _) _] =>
      replace X with (Ok B : res builder)
        by (symmetry; apply (common_fold_none St strict cstrict dr _ false kv [] (map pair_of dl) B (L_not_in_R dl dr Sl Dj))) end.
    cbn [bind].
    assert (M2 : Forall2 (fun e dec => carries (tag_of dl (key_str e)) [] e dec) u B).
    { unfold u, union_diff. pose proof (union_keys dl dr Sl Sr) as UK. revert UK F2. generalize (union_pairs dl dr). clear.
      intros l UK F2. induction F2 as [|[k e] dec l' B' Hc _ IH]; cbn [map]; [constructor|].
      inversion UK as [|? ? Hk UK']; subst. cbn [fst snd] in *. constructor; [|apply IH; exact UK'].
      unfold key_str. rewrite Hk. exact Hc. }
    destruct (carried_decisions_apply (tag_of dl) kv u B Hw Hdu M2) as (NC & NV & AP).
    rewrite (resolve_conflicted_dict_no_conf H [] kv B _ NC). cbn [bind].
    rewrite resolve_strategy_generic_no_conf by exact NC.
    eexists. split; [reflexivity|]. split; [exact NV|]. split; [exact AP|].
    pose proof (proj1 (skeys_nodup _ _ (union_skeys dl dr Sl Sr))) as Nm.
    pose proof (proj1 (skeys_nodup _ _ Sl)) as Nl. pose proof (proj1 (skeys_nodup _ _ Sr)) as Nr.
    split; intros m x y Hm P1 P2; rewrite (AP m Hm); destruct m as [|m']; try lia; cbn [patch] in P1 |- *.
    - apply bind_ok in P1 as (kx & P1 & E). inversion E; subst x. cbn [patch] in P2. apply bind_ok in P2 as (ky & P2 & E'). inversion E'; subst y.
      fold u.
      rewrite (sequential_is_union_gen (patch m') dl dr u Nm (union_mem dl dr) (union_find dl dr Sl Sr) (find_not_both dl dr Sl Sr Dj) Nl Nr
                 (skeys_keys _ _ Sr) kv kx ky P1 P2).
      reflexivity.
    - apply bind_ok in P1 as (kx & P1 & E). inversion E; subst x. cbn [patch] in P2. apply bind_ok in P2 as (ky & P2 & E'). inversion E'; subst y.
      fold u.
      assert (Mf : forall k, find_entry k u = match find_entry k dl with Some e => Some e | None => find_entry k dr end).
      { intros k. unfold u. rewrite (union_find dl dr Sl Sr). destruct (find_entry k dr) as [e|] eqn:Fe.
        - rewrite (find_not_both dl dr Sl Sr Dj k e Fe). reflexivity.
        - destruct (find_entry k dl); reflexivity. }
      assert (Dis' : forall k e, find_entry k dl = Some e -> find_entry k dr = None).
      { intros k e Fe. destruct (find_entry k dr) as [e'|] eqn:Fr'; [|reflexivity]. rewrite (find_not_both dl dr Sl Sr Dj k e' Fr') in Fe. discriminate. }
      assert (Mem' : forall e, In e u -> In e dr \/ In e dl) by (intros e He; destruct (union_mem dl dr e He); auto).
      rewrite (sequential_is_union_gen (patch m') dr dl u Nm Mem' Mf Dis' Nr Nl (skeys_keys _ _ Sl) kv kx ky P1 P2).
      reflexivity.
  Qed.
End DisjointObj.
Print Assumptions disjoint_object_both_kept.
