(* Which dispatcher sees the strategy string placed at which notebook path, and what it does with it.
   Everything here is computed from the GENERATED data of Gen/Strategies.v (the tables built by the real
   notebook_merge_strategies for all command-line combinations + the web tool, the if/elif chains read off
   the AST, the schema kinds), so the finite theorems of StrategyTableProofs.v are re-decided whenever the source moves. *)
From Coq Require Import List NArith Bool String.
From NB Require Import Base.Json Base.Res Diff.Codec Merge.StrategyBase Gen.Strategies.
Import ListNotations.

(* kind of the value at a star path: atomic paths of the differ are never patched, hence leaves for the merge *)
Definition kind_of_path (p : pystr) : option pkind :=
  if str_in p atomic_paths then Some PLeaf else assoc p schema_kinds.

(* the guard `if not (strategy and strategy != "mergetool" and ...)`: None = returns without effect.
   The empty string is falsy in Python. *)
Definition dispatch (d : dispatcher_src) (s : pystr) : option arm :=
  match s with
  | [] => None
  | _ => if str_in s (d_skip d) then None else Some (select_arm (d_chain d) (d_else d) s)
  end.

(* ... following the delegation `else: resolve_strategy_generic(path, decisions, strategy)` *)
Definition final_arm (d : dispatcher_src) (s : pystr) : option arm :=
  match dispatch d s with
  | Some ArmGeneric => dispatch src_resolve_strategy_generic s
  | x => x
  end.

(* "unknown strategy": the error arm of resolve_strategy_generic / dict-union, an exception, or an unresolved delegation *)
Definition arm_unknown (oa : option arm) : bool :=
  match oa with
  | Some ArmLogError | Some (ArmRaise _) | Some ArmGeneric => true
  | _ => false
  end.

Definition arm_raises (oa : option arm) : bool :=
  match oa with Some (ArmRaise _) => true | _ => false end.

(* the strategy changes decisions (or is deliberately left to an earlier stage: ArmPass) *)
Definition arm_effective (oa : option arm) : bool :=
  match oa with
  | Some (ArmAction _) | Some (ArmSetAction _ _ _) | Some (ArmUseSide _ _) | Some (ArmCall _) => true
  | _ => false
  end.

Definition root_path : pystr := of_ascii "/".

(* The container-level dispatchers that receive strategies.get(p) when generic._merge reaches a value of kind k at p:
   _merge_dicts -> resolve_conflicted_decisions_dict (and decide_merge_with_diff -> resolve_strategy_generic at the root);
   _merge_lists -> resolve_conflicted_decisions_list;
   _merge_strings -> unless the pre-switch takes the strategy: _merge_lists on the line list with the SAME path, hence
   resolve_conflicted_decisions_list, and then resolve_conflicted_decisions_strings. *)
Definition container_dispatchers (k : pkind) (p s : pystr) : list dispatcher_src :=
  match k with
  | PDict => src_resolve_conflicted_decisions_dict ::
             (if str_eqb p root_path then [src_resolve_strategy_generic] else [])
  | PList => [src_resolve_conflicted_decisions_list]
  | PString => match assoc s src_merge_strings_switch with
               | Some _ => [src_resolve_conflicted_decisions_strings]
               | None => [src_resolve_conflicted_decisions_list; src_resolve_conflicted_decisions_strings]
               end
  | PLeaf | PMixed => []
  end.

(* Paths whose values cannot be in conflict for valid v4 notebooks: nbformat is 4 on all three sides; cells of
   different cell_type are never aligned by the differ (first test of every cell predicate).  The code places the
   deliberately raising strategy "fail" there ("These fields should never conflict, that would be an internal error"). *)
Definition never_conflict_paths : list pystr := [of_ascii "/nbformat"; of_ascii "/cells/*/cell_type"].

(* one table entry: strategy s placed at path p *)
Definition entry_ok (p s : pystr) : bool :=
  match kind_of_path p with
  | None => false
  | Some k =>
      negb (pkind_eqb k PMixed)
      && forallb (fun d => negb (arm_unknown (final_arm d s))) (container_dispatchers k p s)
      (* as the item strategy of its parent it goes through MergeDecisionBuilder.tryresolve *)
      && match final_arm src_tryresolve s with
         | Some (ArmRaise _) => str_in p never_conflict_paths && pkind_eqb k PLeaf
         | Some ArmLogError | Some ArmGeneric => false
         | _ => true
         end
  end.

Definition config_ok (c : config) : bool :=
  forallb (fun e => match snd e with None => true | Some s => entry_ok (fst e) s end) (cfg_table c).

(* container strategies are not merely tolerated but act: some dispatcher at that level has an effective arm, or the
   _merge_strings pre-switch takes the strategy, or the guard deliberately leaves the decisions alone ("mergetool") *)
Definition acts_or_skips (d : dispatcher_src) (s : pystr) : bool :=
  arm_effective (final_arm d s) || match final_arm d s with None => true | _ => false end.

Definition entry_effective (p s : pystr) : bool :=
  match kind_of_path p with
  | Some PLeaf => true
  | Some PString =>
      match assoc s src_merge_strings_switch with
      | Some _ => true
      | None => existsb (fun d => acts_or_skips d s) (container_dispatchers PString p s)
      end
  | Some k => existsb (fun d => acts_or_skips d s) (container_dispatchers k p s)
  | None => false
  end.

Definition config_effective (c : config) : bool :=
  forallb (fun e => match snd e with None => true | Some s => entry_effective (fst e) s end) (cfg_table c).

(* leaf strategies: tryresolve is the only place they can act *)
Definition id_path : pystr := of_ascii "/cells/*/id".
Definition leaf_entry_handled (p s : pystr) : bool :=
  match kind_of_path p with
  | Some PLeaf =>
      match final_arm src_tryresolve s with
      | Some (ArmAction _) | Some (ArmRaise _) => true
      | _ => str_eqb p id_path && str_eqb s (of_ascii "remove")
      end
  | _ => true
  end.
Definition config_leaves_handled (c : config) : bool :=
  forallb (fun e => match snd e with None => true | Some s => leaf_entry_handled (fst e) s end) (cfg_table c).

(* use-base / use-local / use-remote at every level *)
Definition sides : list pystr := [of_ascii "base"; of_ascii "local"; of_ascii "remote"].
Definition use_ (side : pystr) : pystr := of_ascii "use-" ++ side.

Definition use_side_accepted (side : pystr) : bool :=
  let s := use_ side in
  (match final_arm src_tryresolve s with Some (ArmAction a) => str_eqb a side | _ => false end)
  && forallb (fun d => match final_arm d s with
                       | Some (ArmUseSide pre skip) => str_eqb pre (of_ascii "use-") && skip
                       | _ => false end)
       [src_resolve_strategy_generic; src_resolve_conflicted_decisions_list;
        src_resolve_conflicted_decisions_dict; src_resolve_conflicted_decisions_strings]
  && (match assoc s src_merge_lists_pr_arm with Some m => str_eqb m side | None => false end)
  && (match assoc s src_merge_strings_switch with None => true | Some _ => false end).

(* shape of the enumeration itself *)
Definition expected_config_count : nat :=
  List.length cli_merge_strategy_choices * S (List.length cli_input_strategy_choices)
  * S (List.length cli_output_strategy_choices) * 2.

Definition cfg_name_eqb (a b : config) : bool :=
  str_eqb (cfg_merge a) (cfg_merge b)
  && match cfg_input a, cfg_input b with Some x, Some y => str_eqb x y | None, None => true | _, _ => false end
  && match cfg_output a, cfg_output b with Some x, Some y => str_eqb x y | None, None => true | _, _ => false end
  && Bool.eqb (cfg_ignore_transients a) (cfg_ignore_transients b).

Fixpoint nodup_cfg (l : list config) : bool :=
  match l with
  | [] => true
  | c :: rest => negb (existsb (cfg_name_eqb c) rest) && nodup_cfg rest
  end.

Definition opt_in (o : option pystr) (l : list pystr) : bool :=
  match o with None => true | Some s => str_in s l end.

Definition cfg_in_cli (c : config) : bool :=
  str_in (cfg_merge c) cli_merge_strategy_choices
  && opt_in (cfg_input c) cli_input_strategy_choices
  && opt_in (cfg_output c) cli_output_strategy_choices.

Fixpoint table_eqb (a b : list (pystr * option pystr)) : bool :=
  match a, b with
  | [], [] => true
  | (k, v) :: a', (k', v') :: b' =>
      str_eqb k k' && match v, v' with Some x, Some y => str_eqb x y | None, None => true | _, _ => false end
      && table_eqb a' b'
  | _, _ => false
  end.

(* merge_notebooks(b, l, r) without args behaves as the command-line default *)
Definition noargs_is_default : bool :=
  existsb (fun c => cfg_name_eqb c noargs_config && table_eqb (cfg_table c) (cfg_table noargs_config)
                    && forallb (fun t => str_in t (cfg_transients noargs_config)) (cfg_transients c)
                    && forallb (fun t => str_in t (cfg_transients c)) (cfg_transients noargs_config)) cli_configs.
