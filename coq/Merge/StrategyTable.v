(* Which dispatcher sees the strategy string placed at which notebook path, and what it does with it.
   Everything here is computed from the GENERATED data of Gen/Strategies.v (the tables built by the real
   notebook_merge_strategies for all command-line combinations + the web tool, the if/elif chains read off
   the AST, the schema kinds), so the finite theorems of StrategyTableProofs.v are re-decided whenever the source moves. *)
From Coq Require Import List NArith Bool String.
From NB Require Import Base.Json Base.Res Diff.Codec Merge.StrategyBase Gen.Strategies.
Import ListNotations.

(* kind of the value at a star path: atomic paths of the differ are never patched, hence leaves for the merge *)
Definition kind_of_path (p : pystr) : option pkind :=
  if str_in p atomic_paths then Some PLeaf else assoc p schema_kinds.

(* the guard `if not (strategy and strategy != "mergetool" and ...)`: None = returns without effect.
   The empty string is falsy in Python. *)
Definition dispatch (d : dispatcher_src) (s : pystr) : option arm :=
  match s with
  | [] => None
  | _ => if str_in s (d_skip d) then None else Some (select_arm (d_chain d) (d_else d) s)
  end.

(* ... following the delegation `else: resolve_strategy_generic(path, decisions, strategy)` *)
Definition final_arm (d : dispatcher_src) (s : pystr) : option arm :=
  match dispatch d s with
  | Some ArmGeneric => dispatch src_resolve_strategy_generic s
  | x => x
  end.

(* "unknown strategy": the error arm of resolve_strategy_generic / dict-union, an exception, or an unresolved delegation *)
Definition arm_unknown (oa : option arm) : bool :=
  match oa with
  | Some ArmLogError | Some (ArmRaise _) | Some ArmGeneric => true
  | _ => false
  end.

Definition arm_raises (oa : option arm) : bool :=
  match oa with Some (ArmRaise _) => true | _ => false end.

(* the strategy changes decisions (or is deliberately left to an earlier stage: ArmPass) *)
Definition arm_effective (oa : option arm) : bool :=
  match oa with
  | Some (ArmAction _) | Some (ArmSetAction _ _ _) | Some (ArmUseSide _ _) | Some (ArmCall _) => true
  | _ => false
  end.

Definition root_path : pystr := of_ascii "/".

(* The container-level dispatchers that receive strategies.get(p) when generic._merge reaches a value of kind k at p:
   _merge_dicts -> resolve_conflicted_decisions_dict (and decide_merge_with_diff -> resolve_strategy_generic at the root);
   _merge_lists -> resolve_conflicted_decisions_list;
   _merge_strings -> unless the pre-switch takes the strategy: _merge_lists on the line list with the SAME path, hence
   resolve_conflicted_decisions_list, and then resolve_conflicted_decisions_strings. *)
Definition container_dispatchers (k : pkind) (p s : pystr) : list dispatcher_src :=
  match k with
  | PDict => src_resolve_conflicted_decisions_dict ::
             (if str_eqb p root_path then [src_resolve_strategy_generic] else [])
  | PList => [src_resolve_conflicted_decisions_list]
  | PString => match assoc s src_merge_strings_switch with
               | Some _ => [src_resolve_conflicted_decisions_strings]
               | None => [src_resolve_conflicted_decisions_list; src_resolve_conflicted_decisions_strings]
               end
  | PLeaf | PMixed => []
  end.

(* Paths whose values cannot be in conflict for valid v4 notebooks: nbformat is 4 on all three sides; cells of
   different cell_type are never aligned by the differ (first test of every cell predicate).  The code places the
   deliberately raising strategy "fail" there ("These fields should never conflict, that would be an internal error"). *)
Definition never_conflict_paths : list pystr := [of_ascii "/nbformat"; of_ascii "/cells/*/cell_type"].

(* one table entry: strategy s placed at path p *)
Definition entry_ok (p s : pystr) : bool :=
  match kind_of_path p with
  | None => false
  | Some k =>
      negb (pkind_eqb k PMixed)
      && forallb (fun d => negb (arm_unknown (final_arm d s))) (container_dispatchers k p s)
      (* as the item strategy of its parent it goes through MergeDecisionBuilder.tryresolve *)
      && match final_arm src_tryresolve s with
         | Some (ArmRaise _) => str_in p never_conflict_paths && pkind_eqb k PLeaf
         | Some ArmLogError | Some ArmGeneric => false
         | _ => true
         end
  end.

Definition config_ok (c : config) : bool :=
  forallb (fun e => match snd e with None => true | Some s => entry_ok (fst e) s end) (cfg_table c).

(* container strategies are not merely tolerated but act: some dispatcher at that level has an effective arm, or the
   _merge_strings pre-switch takes the strategy, or the guard deliberately leaves the decisions alone ("mergetool") *)
Definition acts_or_skips (d : dispatcher_src) (s : pystr) : bool :=
  arm_effective (final_arm d s) || match final_arm d s with None => true | _ => false end.

Definition entry_effective (p s : pystr) : bool :=
  match kind_of_path p with
  | Some PLeaf => true
  | Some PString =>
      match assoc s src_merge_strings_switch with
      | Some _ => true
      | None => existsb (fun d => acts_or_skips d s) (container_dispatchers PString p s)
      end
  | Some k => existsb (fun d => acts_or_skips d s) (container_dispatchers k p s)
  | None => false
  end.

Definition config_effective (c : config) : bool :=
  forallb (fun e => match snd e with None => true | Some s => entry_effective (fst e) s end) (cfg_table c).

(* leaf strategies: tryresolve is the only place they can act *)
Definition id_path : pystr := of_ascii "/cells/*/id".
Definition leaf_entry_handled (p s : pystr) : bool :=
  match kind_of_path p with
  | Some PLeaf =>
      match final_arm src_tryresolve s with
      | Some (ArmAction _) | Some (ArmRaise _) => true
      | _ => str_eqb p id_path && str_eqb s (of_ascii "remove")
      end
  | _ => true
  end.
Definition config_leaves_handled (c : config) : bool :=
  forallb (fun e => match snd e with None => true | Some s => leaf_entry_handled (fst e) s end) (cfg_table c).

(* use-base / use-local / use-remote at every level *)
Definition sides : list pystr := [of_ascii "base"; of_ascii "local"; of_ascii "remote"].
Definition use_ (side : pystr) : pystr := of_ascii "use-" ++ side.

Definition use_side_accepted (side : pystr) : bool :=
  let s := use_ side in
  (match final_arm src_tryresolve s with Some (ArmAction a) => str_eqb a side | _ => false end)
  && forallb (fun d => match final_arm d s with
                       | Some (ArmUseSide pre skip) => str_eqb pre (of_ascii "use-") && skip
                       | _ => false end)
       [src_resolve_strategy_generic; src_resolve_conflicted_decisions_list;
        src_resolve_conflicted_decisions_dict; src_resolve_conflicted_decisions_strings]
  && (match assoc s src_merge_lists_pr_arm with Some m => str_eqb m side | None => false end)
  && (match assoc s src_merge_strings_switch with None => true | Some _ => false end).

(* shape of the enumeration itself *)
Definition expected_config_count : nat :=
  List.length cli_merge_strategy_choices * S (List.length cli_input_strategy_choices)
  * S (List.length cli_output_strategy_choices) * 2.

Definition cfg_name_eqb (a b : config) : bool :=
  str_eqb (cfg_merge a) (cfg_merge b)
  && match cfg_input a, cfg_input b with Some x, Some y => str_eqb x y | None, None => true | _, _ => false end
  && match cfg_output a, cfg_output b with Some x, Some y => str_eqb x y | None, None => true | _, _ => false end
  && Bool.eqb (cfg_ignore_transients a) (cfg_ignore_transients b).

Fixpoint nodup_cfg (l : list config) : bool :=
  match l with
  | [] => true
  | c :: rest => negb (existsb (cfg_name_eqb c) rest) && nodup_cfg rest
  end.

Definition opt_in (o : option pystr) (l : list pystr) : bool :=
  match o with None => true | Some s => str_in s l end.

Definition cfg_in_cli (c : config) : bool :=
  str_in (cfg_merge c) cli_merge_strategy_choices
  && opt_in (cfg_input c) cli_input_strategy_choices
  && opt_in (cfg_output c) cli_output_strategy_choices.

Fixpoint table_eqb (a b : list (pystr * option pystr)) : bool :=
  match a, b with
  | [], [] => true
  | (k, v) :: a', (k', v') :: b' =>
      str_eqb k k' && match v, v' with Some x, Some y => str_eqb x y | None, None => true | _, _ => false end
      && table_eqb a' b'
  | _, _ => false
  end.

(* merge_notebooks(b, l, r) without args behaves as the command-line default *)
Definition noargs_is_default : bool :=
  existsb (fun c => cfg_name_eqb c noargs_config && table_eqb (cfg_table c) (cfg_table noargs_config)
                    && forallb (fun t => str_in t (cfg_transients noargs_config)) (cfg_transients c)
                    && forallb (fun t => str_in t (cfg_transients c)) (cfg_transients noargs_config)) cli_configs.

(* ---------------------------------------------------------------------------------------------------------
   Executable prediction used by the correspondence check (harness/c03_common.py: dispatcher_correspondence).
   The real dispatcher is run on a builder holding three conflicted decisions
       plain   : action "base", no strategy mark, value at its path is not a dict
       marked  : action "custom", carries a strategy mark
       dictval : action "base", no mark, its path points at a dict item
   with the resolve_strategy_* callees and nbdime.log replaced by recorders.  [probe_expected] says what must be observed
   for the arm that the generated chain selects. *)
Record probe_obs := {
  po_ret : option pystr;                 (* tryresolve's return value *)
  po_raise : option pystr;               (* exception class name *)
  po_events : list pystr;                (* "called:<function>", "error", "warning"; duplicates removed, sorted by the harness *)
  po_decs : list (pystr * bool)          (* (action, conflict) of every decision afterwards *)
}.

Definition err_name (e : err) : pystr :=
  match e with
  | AssertionError => of_ascii "AssertionError" | KeyError => of_ascii "KeyError" | IndexError => of_ascii "IndexError"
  | RuntimeError => of_ascii "RuntimeError" | NBDiffFormatError => of_ascii "NBDiffFormatError"
  | ValueError => of_ascii "ValueError" | TypeError => of_ascii "TypeError" | OutOfFuel => of_ascii "OutOfFuel"
  end.

Definition probe_initial : list (pystr * bool) :=
  [(of_ascii "base", true); (of_ascii "custom", true); (of_ascii "base", true)].

(* str.replace(prefix, "") for a strategy that starts with the prefix and does not contain it again *)
Definition strip_prefix (pre s : pystr) : pystr := skipn (List.length pre) s.

Definition probe_set (a : pystr) (skip_marked unless_dict : bool) : list (pystr * bool) :=
  [(a, false);
   (if skip_marked then (of_ascii "custom", true) else (a, false));
   (if unless_dict then (of_ascii "base", true) else (a, false))].

Definition probe_expected (is_try : bool) (oa : option arm) (s : pystr) : probe_obs :=
  let same := {| po_ret := None; po_raise := None; po_events := []; po_decs := probe_initial |} in
  match oa with
  | None => same
  | Some (ArmAction a) =>
      {| po_ret := Some a; po_raise := None; po_events := []; po_decs := probe_initial ++ [(a, false)] |}
  | Some (ArmSetAction a skip ud) =>
      {| po_ret := None; po_raise := None; po_events := []; po_decs := probe_set a skip ud |}
  | Some (ArmUseSide pre skip) =>
      {| po_ret := None; po_raise := None; po_events := []; po_decs := probe_set (strip_prefix pre s) skip false |}
  | Some (ArmRaise e) =>
      {| po_ret := None; po_raise := Some (err_name e); po_events := [of_ascii "error"]; po_decs := probe_initial |}
  | Some ArmPass => same
  | Some (ArmCall f) =>
      if str_eqb f (of_ascii "inline:clear-all")
      then {| po_ret := None; po_raise := None; po_events := []; po_decs := [(of_ascii "custom", false)] |}
      else {| po_ret := None; po_raise := None; po_events := [of_ascii "called:" ++ f]; po_decs := probe_initial |}
  | Some ArmLogError =>
      {| po_ret := None; po_raise := None; po_events := [of_ascii "error"]; po_decs := probe_initial |}
  | Some ArmWarn =>
      {| po_ret := None; po_raise := None; po_events := [of_ascii "warning"]; po_decs := probe_initial |}
  | Some ArmGeneric => same
  end.

Definition opt_str_eqb (a b : option pystr) : bool :=
  match a, b with Some x, Some y => str_eqb x y | None, None => true | _, _ => false end.

Fixpoint strs_eqb (a b : list pystr) : bool :=
  match a, b with
  | [], [] => true
  | x :: a', y :: b' => str_eqb x y && strs_eqb a' b'
  | _, _ => false
  end.

Fixpoint decs_eqb (a b : list (pystr * bool)) : bool :=
  match a, b with
  | [], [] => true
  | (x, c) :: a', (y, d) :: b' => str_eqb x y && Bool.eqb c d && decs_eqb a' b'
  | _, _ => false
  end.

Definition probe_obs_eqb (a b : probe_obs) : bool :=
  opt_str_eqb (po_ret a) (po_ret b) && opt_str_eqb (po_raise a) (po_raise b)
  && strs_eqb (po_events a) (po_events b) && decs_eqb (po_decs a) (po_decs b).

Definition dispatcher_by_index (i : nat) : dispatcher_src :=
  match i with
  | 0 => src_tryresolve
  | 1 => src_resolve_strategy_generic
  | 2 => src_resolve_conflicted_decisions_list
  | 3 => src_resolve_conflicted_decisions_dict
  | _ => src_resolve_conflicted_decisions_strings
  end.

(* indices of the cases where the implementation's observation differs from the prediction *)
Fixpoint probe_mismatches (i : nat) (cases : list (nat * pystr * probe_obs)) : list nat :=
  match cases with
  | [] => []
  | (d, s, o) :: rest =>
      let e := probe_expected (Nat.eqb d 0) (final_arm (dispatcher_by_index d) s) s in
      (if probe_obs_eqb e o then [] else [i]) ++ probe_mismatches (S i) rest
  end.
