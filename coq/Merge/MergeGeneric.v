(* nbdime/merging/generic.py: decide_merge_with_diff, _merge, _merge_dicts, _merge_lists (the chunk
   switch), _merge_strings (recursion flag as an explicit argument), _split_addrange,
   _merge_concurrent_inserts, is_diff_all_transients, will_diff_counter_parent_deletion, and the
   generic part of strategies.py (resolve_strategy_generic and the guards / generic arms of
   resolve_conflicted_decisions_{list,dict,strings}).

   Parameters of the model:
     O, cfg   oracles and notebook_config for the differ called by _split_addrange
     S        the Strategies table (path -> strategy) with its transients
     H        hooks for the notebook-specific strategy family of strategies.py (inline-*, remove,
              clear-all, record-conflict, inline-attachments) -- owned by the strategy-layer model;
              [no_hooks] answers Err NBDiffFormatError ("not modelled here")
     gk, strict, cstrict   generated source facts (Gen/MergeFacts.v)

   Not represented: the ParentDeleted sentinel and the internal "parent_deleted" op; they only arise
   below will_diff_counter_parent_deletion = True, which is delegated to [hk_counter].
   The arm `isinstance(base, str) and chunktype == "AP/AP"` of _merge_lists is unreachable (the
   function starts with `assert isinstance(base, list)`) and is omitted. *)
From Coq Require Import String.
From Coq Require Import List NArith ZArith Bool Lia.

From NB Require Import Base.Res.
From NB Require Import Base.Json.
From NB Require Import Base.PyStr.
From NB Require Import Diff.DiffFormat.
From NB Require Import Diff.Patch.
From NB Require Import Diff.GenericDiff.
From NB Require Import Diff.Codec.
From NB Require Import Merge.SortKey.
From NB Require Import Merge.Chunks.
From NB Require Import Merge.Decisions.
From NB Require Import Merge.Apply.
From NB Require Import Gen.MergeFacts.
Import ListNotations.

Definition merge_fn := bool -> json -> diff -> diff -> path -> res builder.

Record hooks := {
  (* resolve_conflicted_decisions_list for strategy in inline-outputs, inline-cells, remove, clear-all *)
  hk_list : path -> list json -> builder -> pystr -> res builder;
  (* resolve_conflicted_decisions_dict for strategy in record-conflict, inline-attachments *)
  hk_dict : path -> list (pystr * json) -> builder -> pystr -> res builder;
  (* resolve_strategy_inline_source(path, base, local_diff, remote_diff), neither side ParentDeleted *)
  hk_inline_source : path -> pystr -> diff -> diff -> res builder;
  (* P/R or R/P chunk with will_diff_counter_parent_deletion: create_parent_deletion_counter_diff and
     the recursive _merge; arguments: the recursive merge, base[key], local_removed?, thediff, item_path *)
  hk_counter : merge_fn -> json -> bool -> diff -> path -> res builder;
}.

Definition unsupported {A} : res A := Err NBDiffFormatError.
Definition no_hooks : hooks :=
  {| hk_list := fun _ _ _ _ => unsupported; hk_dict := fun _ _ _ _ => unsupported;
     hk_inline_source := fun _ _ _ _ => unsupported; hk_counter := fun _ _ _ _ _ => unsupported |}.

Definition s_inline_source := of_ascii "inline-source".
Definition s_inline_outputs := of_ascii "inline-outputs".
Definition s_inline_cells := of_ascii "inline-cells".
Definition s_remove := of_ascii "remove".
Definition s_clear_all := of_ascii "clear-all".
Definition s_record_conflict := of_ascii "record-conflict".
Definition s_inline_attachments := of_ascii "inline-attachments".
Definition s_use_dash := of_ascii "use-".

Definition ostr_eqb (s : option pystr) (t : pystr) : bool :=
  match s with Some x => str_eqb x t | None => false end.

(* str.replace(pat, "") *)
Fixpoint remove_all_sub (fuel : nat) (pat s : pystr) : pystr :=
  match fuel with
  | 0 => s
  | S f =>
      match s with
      | [] => []
      | c :: r => if starts_with pat s then remove_all_sub f pat (skipn (length pat) s)
                  else c :: remove_all_sub f pat r
      end
  end.

(* the common guard: strategy and strategy != "mergetool" and decisions.has_conflicted() *)
Definition resolve_guard (B : builder) (strategy : option pystr) : bool :=
  strategy_set strategy && negb (ostr_eqb strategy s_mergetool) && has_conflicted B.

(* strategies.resolve_strategy_generic *)
Definition resolve_strategy_generic (B : builder) (strategy : option pystr) : builder :=
  if negb (resolve_guard B strategy) then B else
  match strategy with
  | Some s =>
      if starts_with s_use_dash s then
        let a := action_of_name (remove_all_sub (S (length s)) s_use_dash s) in
        map (fun d => if d_conflict d && negb (strategy_set (d_strategy d)) then set_action d a false else d) B
      else B                                       (* logs "Unexpected strategy" *)
  | None => B
  end.

Definition is_removerange (e : dentry) : bool := match e with DRemoveRange _ _ => true | _ => false end.
Definition is_patch (e : dentry) : bool := match e with DPatch _ _ => true | _ => false end.
Definition is_remove (e : dentry) : bool := match e with DRemove _ => true | _ => false end.

Definition vlist_items (v : vlist) : res (list json) :=
  match v with VList l => Ok l | VStr _ => Err TypeError end.   (* char-level valuelists never reach the merge *)

Section Merge.
  Variable O : oracles.
  Variable cfg : config.
  Variable St : strat.
  Variable H : hooks.
  Variable gk : guard_kind.
  Variable strict : bool.
  Variable cstrict : bool.        (* source fact conflict_assert_strict *)

  Definition same_entry (a b : dentry) : bool := if strict then entry_eqb a b else entry_pyeqb a b.
  Definition same_diff (a b : diff) : bool := if strict then diff_eqb a b else diff_pyeqb a b.

  (* ---------- is_diff_all_transients / will_diff_counter_parent_deletion ---------- *)
  Fixpoint entry_all_transients (e : dentry) (p : path) {struct e} : bool :=
    let sub := p ++ [dkey e] in
    let in_t := in_transients St (star_path sub) in
    match e with
    | DPatch _ dd =>
        if in_t then true
        else (fix go (l : list dentry) : bool :=
                match l with [] => true | x :: xs => entry_all_transients x sub && go xs end) dd
    | _ => in_t
    end.
  Definition is_diff_all_transients (d : diff) (p : path) : bool :=
    forallb (fun e => entry_all_transients e p) d.

  Fixpoint entry_counters (e : dentry) (p : path) {struct e} : bool :=
    let sub := p ++ [dkey e] in
    if ostr_eqb (strat_get St (star_path sub)) s_inline_source then true else
    match e with
    | DPatch _ dd =>
        (fix go (l : list dentry) : bool :=
           match l with [] => false | x :: xs => entry_counters x sub || go xs end) dd
    | _ => false
    end.
  Definition will_diff_counter_parent_deletion (d : diff) (p : path) : bool :=
    existsb (fun e => entry_counters e p) d.

  (* ---------- _split_addrange ---------- *)
  Section SplitAddrange.
    Variable akey : key.
    Variables local remote : list json.
    Variable p : path.
    Variable item_strategy : option pystr.

    Definition addr (l : list json) : option diff := Some [DAddRange akey (VList l)].

    Fixpoint sa_loop (idiff : diff) (taken : nat) (offset : Z) (B : builder) {struct idiff}
      : res (builder * nat) :=
      match idiff with
      | [] => Ok (B, taken)
      | d :: rest =>
          do dk <- key_int d;                         (* assert d.key >= taken *)
          if Nat.ltb dk taken then Err AssertionError else
          do Bt <- (if Nat.ltb taken dk
                    then (do B1 <- b_agreement B p (addr (slice local taken dk)) (addr (slice local taken dk));
                          Ok (B1, dk))
                    else Ok (B, taken));
          let '(B, taken) := Bt in
          let normal := fun (_ : unit) =>
            match d with
            | DReplace _ v =>
                do lv <- nth_res local dk;
                do B1 <- b_conflict cstrict B p (addr [lv]) (addr [v]) item_strategy;
                sa_loop rest (taken + 1) offset B1
            | DRemove _ =>
                do lv <- nth_res local dk;
                do B1 <- b_onesided B p (addr [lv]) (Some []);
                sa_loop rest (taken + 1) (offset - 1)%Z B1
            | DRemoveRange _ len =>
                let vl := slice local dk (dk + len) in
                do B1 <- b_onesided B p (addr vl) (Some []);
                sa_loop rest (taken + length vl) (offset - Z.of_nat (length vl))%Z B1
            | DAdd _ v =>
                do B1 <- b_onesided B p None (addr [v]);
                sa_loop rest taken (offset + 1)%Z B1
            | DAddRange _ vl =>
                do B1 <- b_onesided B p None (Some [DAddRange akey vl]);
                sa_loop rest taken (offset + Z.of_nat (vlen vl))%Z B1
            | DPatch _ _ =>
                do lv <- nth_res local dk;
                let idx := (Z.of_nat dk + offset)%Z in
                do rv <- (if Z.leb 0 idx then nth_res remote (Z.to_nat idx)
                          else if Z.leb (- idx) (Z.of_nat (length remote))
                               then nth_res remote (Z.to_nat (Z.of_nat (length remote) + idx))
                               else Err IndexError);
                do B1 <- b_similar_insert cstrict B p (addr [lv]) (addr [rv]) [d] item_strategy;
                sa_loop rest (taken + 1) offset B1
            end in
          match rest with
          | DRemoveRange k2 local_len :: rest' =>
              if key_eqb k2 (KI dk) then
                match d with
                | DAddRange _ vl =>
                    do B1 <- b_conflict cstrict B p (addr (slice local dk (dk + local_len)))
                                        (Some [DAddRange akey vl]) item_strategy;
                    sa_loop rest' (taken + local_len)
                            (offset + Z.of_nat (vlen vl) - Z.of_nat local_len)%Z B1
                | _ => Err KeyError                    (* d.valuelist *)
                end
              else normal tt
          | _ => normal tt
          end
      end.

    Definition split_addrange : res builder :=
      let a := JArr local in let b := JArr remote in
      do idiff <- diff_ O cfg (4 * (depth a + depth b) + 8) (star_path p) a b;
      do r <- sa_loop idiff 0 0%Z [];
      let '(B, taken) := r in
      if Nat.ltb taken (length local) then
        let local_items := skipn taken local in
        let start := (Z.of_nat taken - Z.of_nat (length local) + Z.of_nat (length remote))%Z in
        let start := if Z.ltb start 0 then Z.max 0 (Z.of_nat (length remote) + start) else start in
        let remote_items := skipn (Z.to_nat start) remote in
        if list_pyeqb local_items remote_items
        then b_agreement B p (addr local_items) (addr local_items)
        else Err AssertionError
      else Ok B.
  End SplitAddrange.

  (* ---------- _merge_concurrent_inserts ---------- *)
  Definition merge_concurrent_inserts (ldiff rdiff : diff) (p : path) (item_strategy : option pystr)
    : res builder :=
    match ldiff, rdiff with
    | DAddRange lk lvl :: lrest, DAddRange _ rvl :: rrest =>
        let ok_rest := fun (r : diff) => match r with [] => true | [DRemoveRange _ _] => true | _ => false end in
        if negb (ok_rest lrest && ok_rest rrest) then Err AssertionError else
        do ll <- vlist_items lvl;
        do rl <- vlist_items rvl;
        do sub <- split_addrange lk ll rl p item_strategy;
        if has_conflicted sub && (nonempty lrest || nonempty rrest) then
          b_conflict cstrict [] p (Some ldiff) (Some rdiff) item_strategy
        else
          match lrest, rrest with
          | [DRemoveRange _ n1], [DRemoveRange _ n2] =>
              if Nat.eqb n1 n2 then b_agreement sub p (Some lrest) (Some rrest) else Err AssertionError
          | [], [] => Ok sub
          | _, _ => b_onesided sub p (Some lrest) (Some rrest)
          end
    | _, _ => Err AssertionError
    end.

  (* ---------- generic arms of resolve_conflicted_decisions_* ---------- *)
  Definition resolve_conflicted_list (p : path) (base : list json) (B : builder) (strategy : option pystr)
    : res builder :=
    if negb (resolve_guard B strategy) then Ok B else
    match strategy with
    | None => Ok B
    | Some s =>
        if str_eqb s s_inline_outputs || str_eqb s s_inline_cells || str_eqb s s_remove
           || str_eqb s s_clear_all then hk_list H p base B s
        else if str_eqb s s_union then
          mapM (fun d =>
                  if d_conflict d then
                    do v <- get_path (JArr base) (skipn (length p) (d_path d));
                    match v with
                    | JObj _ => Ok d
                    | _ => Ok (set_action d ALocalThenRemote false)
                    end
                  else Ok d) B
        else if str_eqb s s_clear then Ok B
        else Ok (resolve_strategy_generic B strategy)
    end.

  Definition resolve_conflicted_dict (p : path) (base : list (pystr * json)) (B : builder)
             (strategy : option pystr) : res builder :=
    if negb (resolve_guard B strategy) then Ok B else
    match strategy with
    | None => Ok B
    | Some s =>
        if str_eqb s s_record_conflict || str_eqb s s_inline_attachments then hk_dict H p base B s
        else if str_eqb s s_union then Ok B
        else Ok (resolve_strategy_generic B strategy)
    end.

  Definition resolve_conflicted_strings (B : builder) (strategy : option pystr) : builder :=
    if negb (resolve_guard B strategy) then B else
    match strategy with
    | None => B
    | Some s =>
        if str_eqb s s_clear then
          map (fun d => if d_conflict d && negb (strategy_set (d_strategy d)) then set_action d AClear false else d) B
        else if str_eqb s s_inline_source then B
        else resolve_strategy_generic B strategy
    end.

  (* ---------- _merge_lists ---------- *)
  Definition cat3 (a : pystr) (b : pystr) : pystr := a ++ ch_slash :: b.
  Definition ct (s : string) : pystr := of_ascii s.
  Definition one_of (x : pystr) (l : list pystr) : bool := existsb (str_eqb x) l.

  Section MergeLists.
    Variable M : merge_fn.
    Variable rec : bool.
    Variable base : list json.
    Variable p : path.

    Definition spath := star_path p.
    Definition item_spath := spath ++ 47%N :: s_star.
    Definition list_strategy := strat_get St spath.
    Definition item_strategy := strat_get St item_spath.

    Definition first_patch_diff (d : diff) : res diff :=
      match d with DPatch _ dd :: _ => Ok dd | _ => Err KeyError end.

    Definition merge_chunk (B : builder) (c : chunk) : res builder :=
      let '(key, chunk_end, d0, d1) := c in
      let item_path := p ++ [KI key] in
      let a0 := filter is_addrange d0 in
      let p0 := filter (fun e => negb (is_addrange e)) d0 in
      let a1 := filter is_addrange d1 in
      let p1 := filter (fun e => negb (is_addrange e)) d1 in
      let '(laname, lpname) := chunk_typename d0 in
      let '(raname, rpname) := chunk_typename d1 in
      let lname := laname ++ lpname in
      let rname := raname ++ rpname in
      let achunktype := cat3 laname raname in
      let pchunktype := cat3 lpname rpname in
      let chunktype := cat3 lname rname in
      if str_eqb chunktype (ct "/") then Ok B
      else if negb (nonempty d0 && nonempty d1) then b_onesided B p (Some d0) (Some d1)
      else if same_diff d0 d1 then b_agreement B p (Some d0) (Some d1)
      else if str_eqb chunktype (ct "R/R") then Ok B           (* logs an error *)
      else if one_of pchunktype [ct "P/P"; ct "P/R"; ct "R/P"] then
        do B <- (if str_eqb achunktype (ct "A/A") then
                   do sub <- merge_concurrent_inserts a0 a1 p item_strategy; Ok (B ++ sub)
                 else if one_of achunktype [ct "A/"; ct "/A"] then b_onesided B p (Some a0) (Some a1)
                 else Ok B);
        if same_diff p0 p1 then b_agreement B p (Some p0) (Some p1)
        else if str_eqb pchunktype (ct "P/P") then
          do bv <- nth_res base key;
          do ld <- first_patch_diff p0;
          do rd <- first_patch_diff p1;
          do sub <- M rec bv ld rd item_path;
          Ok (B ++ sub)
        else
          match p0, p1 with
          | e0 :: _, e1 :: _ =>
              do thediff <- (match e0, e1 with
                             | DPatch _ dd, _ => Ok dd
                             | _, DPatch _ dd => Ok dd
                             | _, _ => Err TypeError      (* thediff unbound *)
                             end);
              let len1 := fun e => match e with DRemoveRange _ n => Nat.eqb n 1 | _ => true end in
              if negb (len1 e0 && len1 e1) then Err AssertionError else
              let is_transient := is_diff_all_transients thediff item_path in
              if is_removerange e0 && is_transient then b_local B p (Some p0) (Some p1)
              else if is_removerange e1 && is_transient then b_remote B p (Some p0) (Some p1)
              else if ostr_eqb list_strategy s_use_base then Ok (b_base B p (Some p0) (Some p1))
              else if ostr_eqb list_strategy s_use_local then b_local B p (Some p0) (Some p1)
              else if ostr_eqb list_strategy s_use_remote then b_remote B p (Some p0) (Some p1)
              else if will_diff_counter_parent_deletion thediff item_path then
                do bv <- nth_res base key;
                do sub <- hk_counter H M bv (is_removerange e0) thediff item_path;
                Ok (B ++ sub)
              else b_conflict cstrict B p (Some p0) (Some p1) item_strategy
          | _, _ => Err IndexError
          end
      else if one_of chunktype [ct "A/P"; ct "A/R"] then
        do t <- b_tryresolve cstrict B p (Some d0) (Some d1) item_strategy;
        let '(B1, taken) := t in
        if taken then Ok B1 else b_local_then_remote B1 p (Some d0) (Some d1) true
      else if one_of chunktype [ct "P/A"; ct "R/A"] then
        do t <- b_tryresolve cstrict B p (Some d0) (Some d1) item_strategy;
        let '(B1, taken) := t in
        if taken then Ok B1 else b_remote_then_local B1 p (Some d0) (Some d1) true
      else if one_of chunktype [ct "A/AP"; ct "AP/A"] then
        do sub <- merge_concurrent_inserts a0 a1 p item_strategy;
        b_onesided (B ++ sub) p (Some p0) (Some p1)
      else if one_of chunktype [ct "AR/R"; ct "R/AR"] then
        do B1 <- b_onesided B p (Some a0) (Some a1);
        b_agreement B1 p (Some p0) (Some p1)
      else if one_of chunktype [ct "AR/A"; ct "A/AR"; ct "A/A"; ct "AR/AR"] then
        do sub <- merge_concurrent_inserts d0 d1 p item_strategy;
        Ok (B ++ sub)
      else Err AssertionError.                              (* assert nbdime.log.error(...) *)

    Fixpoint merge_chunks (B : builder) (cs : list chunk) : res builder :=
      match cs with
      | [] => Ok B
      | c :: r => do B1 <- merge_chunk B c; merge_chunks B1 r
      end.

    Definition merge_lists (ld rd : diff) : res builder :=
      do chunks <- make_merge_chunks_with gk (length base) ld rd;
      do B <- merge_chunks [] chunks;
      resolve_conflicted_list p base B list_strategy.
  End MergeLists.

  (* ---------- _merge_strings ---------- *)
  Definition merge_strings (M : merge_fn) (rec : bool) (base : pystr) (ld rd : diff) (p : path)
    : res builder :=
    if rec then
      match rev p with
      | [] => Err IndexError
      | linenumber :: rinit =>
          let parent := rev rinit in
          let strategy := strat_get St (star_path parent) in
          b_conflict cstrict [] parent (Some [DPatch linenumber ld]) (Some [DPatch linenumber rd]) strategy
      end
    else
      let strategy := strat_get St (star_path p) in
      do B <- (if ostr_eqb strategy s_inline_source then hk_inline_source H p base ld rd
               else if ostr_eqb strategy s_union then b_local_then_remote [] p (Some ld) (Some rd) false
               else merge_lists M true (map JStr (splitlines base)) p ld rd);
      Ok (resolve_conflicted_strings B strategy).

  (* ---------- _merge_dicts ---------- *)
  Fixpoint dict_set (k : pystr) (e : dentry) (l : list (pystr * dentry)) : list (pystr * dentry) :=
    match l with
    | [] => [(k, e)]
    | (k', e') :: r =>
        match str_cmp k k' with
        | Lt => (k, e) :: l
        | Eq => (k, e) :: r
        | Gt => (k', e') :: dict_set k e r
        end
    end.

  (* as_dict_based_diff: {e.key: e for e in di}, kept sorted by key *)
  Fixpoint as_dict_based_diff (d : diff) (acc : list (pystr * dentry)) : res (list (pystr * dentry)) :=
    match d with
    | [] => Ok acc
    | e :: r => match dkey e with
                | KS k => as_dict_based_diff r (dict_set k e acc)
                | KI _ => Err TypeError
                end
    end.

  Fixpoint dict_get (k : pystr) (l : list (pystr * dentry)) : option dentry :=
    match l with
    | [] => None
    | (k', e) :: r => if str_eqb k k' then Some e else dict_get k r
    end.

  Definition one (e : dentry) : option diff := Some [e].

  Section MergeDicts.
    Variable M : merge_fn.
    Variable rec : bool.
    Variable base : list (pystr * json).
    Variable p : path.

    Definition dspath := star_path p.
    Definition dict_strategy := strat_get St dspath.

    Definition merge_key (B : builder) (key : pystr) (ld rd : dentry) : res builder :=
      let item_path := p ++ [KS key] in
      let item_strategy := strat_get St (dspath ++ 47%N :: key) in
      if is_remove ld || is_remove rd then
        if is_remove ld && is_remove rd then b_agreement B p (one ld) (one rd)
        else if is_remove ld && is_diff_all_transients [rd] p then b_local B p (one ld) (one rd)
        else if is_remove rd && is_diff_all_transients [ld] p then b_remote B p (one ld) (one rd)
        else b_conflict cstrict B p (one ld) (one rd) item_strategy
      else if negb (opk_eqb (op_of ld) (op_of rd)) then b_conflict cstrict B p (one ld) (one rd) item_strategy
      else if same_entry ld rd then b_agreement B p (one ld) (one rd)
      else match ld, rd with
           | DAdd _ _, _ | DReplace _ _, _ => b_conflict cstrict B p (one ld) (one rd) item_strategy
           | DPatch _ dl, DPatch _ dr =>
               match obj_get key base with
               | Some bv => do sub <- M rec bv dl dr item_path; Ok (B ++ sub)
               | None => Err ValueError              (* _merge(Missing, ...) *)
               end
           | _, _ => Err ValueError                  (* Invalid diff ops *)
           end.

    Definition merge_dicts (ld rd : diff) : res builder :=
      do L <- as_dict_based_diff ld [];
      do R <- as_dict_based_diff rd [];
      (* (2)-(3): sorted(bldkeys ^ brdkeys) *)
      let only := fold_left (fun acc kv => dict_set (fst kv) (snd kv) acc)
                            (filter (fun kv => match dict_get (fst kv) L with None => true | _ => false end) R)
                            (filter (fun kv => match dict_get (fst kv) R with None => true | _ => false end) L) in
      do B <- fold_left (fun (acc : res builder) kv =>
                do B <- acc;
                b_onesided B p (option_map (fun e => [e]) (dict_get (fst kv) L))
                               (option_map (fun e => [e]) (dict_get (fst kv) R))) only (Ok []);
      (* (4)-(8): sorted(brdkeys & bldkeys) *)
      do B <- fold_left (fun (acc : res builder) kv =>
                do B <- acc;
                match dict_get (fst kv) R with
                | Some rd => merge_key B (fst kv) (snd kv) rd
                | None => Ok B
                end) L (Ok B);
      resolve_conflicted_dict p base B dict_strategy.
  End MergeDicts.

  (* ---------- _merge ---------- *)
  Fixpoint merge (n : nat) (rec : bool) (base : json) (ld rd : diff) (p : path) : res builder :=
    match n with
    | 0 => Err OutOfFuel
    | S n' =>
        match base with
        | JObj kv => merge_dicts (merge n') rec kv p ld rd
        | JArr l => merge_lists (merge n') rec l p ld rd
        | JStr s => merge_strings (merge n') rec s ld rd p
        | _ => Err ValueError
        end
    end.

  Definition mfuel (base : json) : nat := depth base + 3.

  (* decide_merge_with_diff (local and remote themselves are not used by the function) *)
  Definition decide_merge_with_diff (base : json) (ld rd : diff) : res (list decision) :=
    do B <- merge (mfuel base) false base ld rd [];
    let strategy := strat_get St s_slash in
    Ok (validated (resolve_strategy_generic B strategy)).
End Merge.
