(* C09, ordering clause: the list returned by MergeDecisionBuilder.validated() -- sorted(decisions, key=_sort_key,
   reverse=True), modelled in Merge/SortKey.v (sort_key, sk_cmp: Python's comparison of lists of the tuples ('', -i) /
   (s,), sort_desc: stable descending sort) -- never has a decision on an enclosing path before a decision on a deeper
   path.  Also the action-vocabulary facts about Gen/Actions.v. *)
From Coq Require Import String List NArith ZArith Bool Lia Sorting.Sorted.
From NB Require Import Base.Json Diff.DiffFormat Diff.Codec Merge.SortKey Gen.Actions Gen.NbSchemas.
Import ListNotations.

(* ---------- skel_cmp is a linear order ---------- *)
Lemma str_cmp_refl s : str_cmp s s = Eq.
Proof. apply str_cmp_eq. reflexivity. Qed.

Lemma skel_cmp_refl x : skel_cmp x x = Eq.
Proof. destruct x; simpl; [ apply Z.compare_refl | apply str_cmp_refl ]. Qed.

Lemma skel_cmp_eq x y : skel_cmp x y = Eq -> x = y.
Proof.
  destruct x, y; simpl; intros H.
  - apply Z.compare_eq in H. congruence.
  - destruct s; discriminate.
  - destruct s; discriminate.
  - apply str_cmp_eq in H. congruence.
Qed.

Lemma skel_cmp_antisym x y : skel_cmp y x = CompOpp (skel_cmp x y).
Proof.
  destruct x, y; simpl.
  - apply Z.compare_antisym.
  - destruct s; reflexivity.
  - destruct s; reflexivity.
  - apply str_cmp_antisym.
Qed.

Lemma str_cmp_nil_lt s : s <> [] -> str_cmp [] s = Lt.
Proof. destruct s; [ congruence | reflexivity ]. Qed.

Lemma str_cmp_lt_nonempty s t : str_cmp s t = Lt -> t <> [].
Proof. destruct s, t; simpl; try discriminate; congruence. Qed.

Lemma skel_cmp_lt_trans x y z : skel_cmp x y = Lt -> skel_cmp y z = Lt -> skel_cmp x z = Lt.
Proof.
  destruct x as [a|s], y as [b|t], z as [c|u]; simpl; intros H1 H2.
  - rewrite Z.compare_lt_iff in *. lia.
  - exact H2.
  - destruct t; discriminate.
  - destruct t; try discriminate. apply str_cmp_lt_nonempty in H2. destruct u; [ congruence | reflexivity ].
  - destruct s; try discriminate. reflexivity.
  - destruct s; try discriminate. destruct u; [ discriminate | reflexivity ].
  - destruct s as [|c0 s]; [ reflexivity | ]. destruct t; [ discriminate | discriminate ].
  - eapply str_cmp_trans; eauto.
Qed.

(* ---------- lifted to lists (Python list comparison) ---------- *)
Lemma sk_cmp_refl a : sk_cmp a a = Eq.
Proof. induction a as [|x a IH]; simpl; auto. rewrite skel_cmp_refl. exact IH. Qed.

Lemma sk_cmp_eq a b : sk_cmp a b = Eq -> a = b.
Proof.
  revert b; induction a as [|x a IH]; intros [|y b]; simpl; try discriminate; auto.
  destruct (skel_cmp x y) eqn:E; try discriminate. intros H. apply skel_cmp_eq in E. apply IH in H. congruence.
Qed.

Lemma sk_cmp_antisym a b : sk_cmp b a = CompOpp (sk_cmp a b).
Proof.
  revert b; induction a as [|x a IH]; intros [|y b]; simpl; auto.
  rewrite (skel_cmp_antisym x y). destruct (skel_cmp x y); simpl; auto.
Qed.

Lemma sk_cmp_lt_trans a b c : sk_cmp a b = Lt -> sk_cmp b c = Lt -> sk_cmp a c = Lt.
Proof.
  revert b c; induction a as [|x a IH]; intros [|y b] [|z c]; simpl; try discriminate; auto.
  destruct (skel_cmp x y) eqn:E1; try discriminate; destruct (skel_cmp y z) eqn:E2; try discriminate; intros H1 H2.
  - apply skel_cmp_eq in E1, E2. subst. rewrite skel_cmp_refl. eauto.
  - apply skel_cmp_eq in E1. subst. rewrite E2. reflexivity.
  - apply skel_cmp_eq in E2. subst. rewrite E1. reflexivity.
  - rewrite (skel_cmp_lt_trans _ _ _ E1 E2). reflexivity.
Qed.

Definition ge (a b : list skel) : Prop := sk_cmp a b <> Lt.

Lemma ge_trans a b c : ge a b -> ge b c -> ge a c.
Proof.
  unfold ge. intros H1 H2 H3.
  destruct (sk_cmp a b) eqn:E1; try congruence.
  - apply sk_cmp_eq in E1. subst. congruence.
  - assert (sk_cmp b a = Lt) by (rewrite sk_cmp_antisym, E1; reflexivity).
    apply H2. eapply sk_cmp_lt_trans; eauto.
Qed.

(* ---------- a strict prefix compares smaller ---------- *)
Definition strict_prefix {A} (p q : list A) : Prop := exists x r, q = p ++ x :: r.

Lemma sk_cmp_prefix_lt (p q : path) : strict_prefix p q -> sk_cmp (sort_key p) (sort_key q) = Lt.
Proof.
  intros (x & r & ->). unfold sort_key. rewrite map_app. simpl.
  induction (map sort_key_elt p) as [|y l IH]; simpl; auto.
  rewrite skel_cmp_refl. exact IH.
Qed.

(* ---------- the stable descending insertion sort produces a descending list ---------- *)
Section Sorted.
  Context {A : Type}.
  Variable f : A -> list skel.
  Definition geA (a b : A) : Prop := ge (f a) (f b).

  Lemma insert_desc_In x l z : In z (insert_desc f x l) -> z = x \/ In z l.
  Proof.
    induction l as [|y r IH]; simpl.
    - intros [<-|[]]; auto.
    - destruct (sk_cmp (f y) (f x)); simpl; intros [<-|H]; auto. apply IH in H as [->|H]; auto.
  Qed.

  Lemma insert_desc_sorted x l : StronglySorted geA l -> StronglySorted geA (insert_desc f x l).
  Proof.
    induction 1 as [|y r Hs IH Hy]; simpl.
    - repeat constructor.
    - destruct (sk_cmp (f y) (f x)) eqn:E.
      + constructor; [ constructor; auto | ].
        assert (Hxy : geA x y) by (unfold geA, ge; rewrite sk_cmp_antisym, E; discriminate).
        constructor; auto. rewrite Forall_forall in *. intros z Hz. eapply ge_trans; [ exact Hxy | apply Hy; auto ].
      + constructor; [ constructor; auto | ].
        assert (Hxy : geA x y) by (unfold geA, ge; rewrite sk_cmp_antisym, E; discriminate).
        constructor; auto. rewrite Forall_forall in *. intros z Hz. eapply ge_trans; [ exact Hxy | apply Hy; auto ].
      + constructor; auto. rewrite Forall_forall in *. intros z Hz.
        apply insert_desc_In in Hz as [->|Hz]; auto. unfold geA, ge. rewrite E. discriminate.
  Qed.

  Lemma sort_desc_sorted l : StronglySorted geA (sort_desc f l).
  Proof. induction l; simpl; [ constructor | apply insert_desc_sorted; auto ]. Qed.

  Lemma sorted_before a x b y c : StronglySorted geA (a ++ x :: b ++ y :: c) -> geA x y.
  Proof.
    induction a as [|z a IH]; simpl; intros H; inversion H; subst; auto.
    rewrite Forall_forall in *. apply H3. apply in_or_app. right. left. reflexivity.
  Qed.

  (* sort_desc permutes: nothing is lost or invented *)
  Lemma insert_desc_length x l : List.length (insert_desc f x l) = S (List.length l).
  Proof. induction l as [|y r IH]; simpl; auto. destruct (sk_cmp (f y) (f x)); simpl; auto. Qed.
  Lemma sort_desc_length l : List.length (sort_desc f l) = List.length l.
  Proof. induction l; simpl; auto. rewrite insert_desc_length. auto. Qed.
  Lemma insert_desc_In' x l z : z = x \/ In z l -> In z (insert_desc f x l).
  Proof.
    induction l as [|y r IH]; simpl.
    - intros [->|[]]; auto.
    - destruct (sk_cmp (f y) (f x)); simpl; intros [->|[->|H]]; auto.
  Qed.
  Lemma sort_desc_In l z : In z (sort_desc f l) <-> In z l.
  Proof.
    induction l as [|y r IH]; simpl; [ tauto | ]. split.
    - intros H. apply insert_desc_In in H as [->|H]; auto. right. apply IH. exact H.
    - intros [->|H]; apply insert_desc_In'; auto. right. apply IH. exact H.
  Qed.
End Sorted.

(* ---------- the ordering theorem ---------- *)
(* in sorted(decisions, key=_sort_key, reverse=True): whenever x comes before y, x's path is not a strict prefix of
   y's path -- every decision inside a sub-document precedes any decision on an enclosing path *)
Theorem order_deeper_first_gen {A} (pathof : A -> path) (l : list A) a x b y c :
  sort_desc (fun d => sort_key (pathof d)) l = a ++ x :: b ++ y :: c ->
  ~ strict_prefix (pathof x) (pathof y).
Proof.
  intros E Hp.
  pose proof (sort_desc_sorted (fun d => sort_key (pathof d)) l) as Hs. rewrite E in Hs.
  apply sorted_before in Hs. apply Hs. apply sk_cmp_prefix_lt. exact Hp.
Qed.

(* non-vacuity / sanity: a concrete unsorted builder comes out deeper-first *)
Example order_example :
  sort_desc (fun p : path => sort_key p)
    [[KS (of_ascii "cells"%string)]; [KS (of_ascii "cells"%string); KI 0; KS (of_ascii "source"%string)]; []; [KS (of_ascii "cells"%string); KI 2]; [KS (of_ascii "metadata"%string)]]
  = [[KS (of_ascii "metadata"%string)]; [KS (of_ascii "cells"%string); KI 0; KS (of_ascii "source"%string)]; [KS (of_ascii "cells"%string); KI 2]; [KS (of_ascii "cells"%string)]; []].
Proof. vm_compute. reflexivity. Qed.

(* ---------- action vocabulary (Gen/Actions.v: py_emitted from the AST of nbdime/merging/*.py, schema_actions from
   merge_format.schema.json; Gen/NbSchemas.v: merge_action_enum, the same enum read by the schema translator) ---------- *)
Definition mem (a : pystr) (l : list pystr) : bool := existsb (str_eqb a) l.
Definition subset (l m : list pystr) : bool := forallb (fun a => mem a m) l.
Definition s_take_max : pystr := of_ascii "take_max"%string.

Lemma enum_translators_agree : subset schema_actions merge_action_enum = true /\ subset merge_action_enum schema_actions = true.
Proof. split; vm_compute; reflexivity. Qed.

(* everything emitted is in the published enum except possibly take_max (true of the pinned schema and of the fixed one) *)
Lemma emitted_subset_schema_but_take_max : subset py_emitted (s_take_max :: schema_actions) = true.
Proof. vm_compute. reflexivity. Qed.

(* a failed inclusion has a witness *)
Lemma not_subset_witness l m : subset l m = false -> exists a, mem a l = true /\ mem a m = false.
Proof.
  unfold subset. induction l as [|x l IH]; simpl; [ discriminate | ].
  destruct (mem x m) eqn:E; simpl.
  - intros H. destruct (IH H) as (a & Ha & Hm). exists a. split; auto.
    unfold mem in *. simpl. rewrite Ha. apply orb_true_r.
  - intros _. exists x. split; auto. unfold mem. simpl. rewrite str_eqb_refl. reflexivity.
Qed.

(* whichever way the schema reads: the emitted vocabulary is inside the enum, or there is an emitted action outside it
   and take_max is the only such action *)
Definition vocabulary_statement : Prop :=
  if subset py_emitted schema_actions then subset py_emitted schema_actions = true
  else (exists a, mem a py_emitted = true /\ mem a schema_actions = false) /\ subset py_emitted (s_take_max :: schema_actions) = true.
Lemma vocabulary_holds : vocabulary_statement.
Proof.
  unfold vocabulary_statement. destruct (subset py_emitted schema_actions) eqn:E; [ reflexivity | ].
  split; [ apply not_subset_witness; exact E | exact emitted_subset_schema_but_take_max ].
Qed.
