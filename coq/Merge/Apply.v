(* decisions.resolve_action / split_string_path / apply_decisions and strategies.combine_patches.
   apply_decisions mutates `merged` through parent[last_key] = patch(resolved, diffs); the model writes
   the patched value back at the path ([set_at]).  The group of decisions sharing a path is flushed
   when the path changes, exactly as in the loop (so split_string_path sees the not-yet-flushed state). *)
From Coq Require Import List NArith ZArith Bool Lia.
From NB Require Import Base.Res.
From NB Require Import Base.Json.
From NB Require Import Base.PyStr.
From NB Require Import Diff.DiffFormat.
From NB Require Import Diff.Patch.
From NB Require Import Diff.Codec.
From NB Require Import Merge.SortKey.
From NB Require Import Merge.Decisions.
Import ListNotations.

(* ---------- item access ---------- *)
Definition get_item (j : json) (k : key) : res json :=
  match j, k with
  | JObj kv, KS s => match obj_get s kv with Some v => Ok v | None => Err KeyError end
  | JObj _, KI _ => Err KeyError
  | JArr l, KI i => nth_res l i
  | JArr _, KS _ => Err TypeError
  | JStr s, KI i => match nth_error s i with Some c => Ok (JStr [c]) | None => Err IndexError end
  | _, _ => Err TypeError
  end.

Fixpoint get_path (j : json) (p : path) : res json :=
  match p with
  | [] => Ok j
  | k :: r => do x <- get_item j k; get_path x r
  end.

Fixpoint list_set {A} (l : list A) (i : nat) (v : A) : list A :=
  match l, i with
  | [], _ => []
  | _ :: r, 0 => v :: r
  | x :: r, S i' => x :: list_set r i' v
  end.

Definition set_item (j : json) (k : key) (v : json) : res json :=
  match j, k with
  | JObj kv, KS s => Ok (JObj (obj_set s v kv))
  | JArr l, KI i => if Nat.ltb i (length l) then Ok (JArr (list_set l i v)) else Err IndexError
  | _, _ => Err TypeError
  end.

Fixpoint set_at (j : json) (p : path) (v : json) : res json :=
  match p with
  | [] => Ok v
  | k :: r => do x <- get_item j k; do x' <- set_at x r v; set_item j k x'
  end.

(* split_string_path(base, path) *)
Fixpoint split_string_path (base : json) (p : path) : res (path * path) :=
  match p with
  | [] => Ok ([], [])
  | k :: r =>
      match base with
      | JStr _ => Ok ([], p)
      | _ => do x <- get_item base k;
             do pr <- split_string_path x r;
             Ok (k :: fst pr, snd pr)
      end
  end.

(* ---------- combine_patches ---------- *)
Definition all_int_keys (d : diff) : bool := forallb (fun e => match dkey e with KI _ => true | _ => false end) d.
Definition all_str_keys (d : diff) : bool := forallb (fun e => match dkey e with KS _ => true | _ => false end) d.

Definition key_str_of (e : dentry) : pystr := match dkey e with KS s => s | KI _ => [] end.

Fixpoint insert_by_skey (e : dentry) (l : list dentry) : list dentry :=
  match l with
  | [] => [e]
  | x :: xs => if str_ltb (key_str_of e) (key_str_of x) then e :: l else x :: insert_by_skey e xs
  end.

(* sorted(newdiffs, key=lambda x: x.key): stable; mixed int/str keys cannot be ordered *)
Definition sort_diff_by_key (d : diff) : res diff :=
  if all_int_keys d then Ok (sort_by_key d)
  else if all_str_keys d then Ok (fold_left (fun acc e => insert_by_skey e acc) d [])
  else Err TypeError.

(* replace the diff of the first patch entry with key k (the object held in `patches[k]`) *)
Fixpoint update_patch (k : key) (f : diff -> diff) (l : list dentry) : list dentry :=
  match l with
  | [] => []
  | DPatch k' dd :: r => if key_eqb k k' then DPatch k' (f dd) :: r else DPatch k' dd :: update_patch k f r
  | x :: r => x :: update_patch k f r
  end.

Fixpoint find_patch (k : key) (l : list dentry) : option diff :=
  match l with
  | [] => None
  | DPatch k' dd :: r => if key_eqb k k' then Some dd else find_patch k r
  | _ :: r => find_patch k r
  end.

Fixpoint combine_patches (fuel : nat) (diffs : diff) : res diff :=
  match fuel with
  | 0 => Err OutOfFuel
  | S f =>
      do nd <- fold_left (fun (acc : res (list dentry)) (d : dentry) =>
                 do nd <- acc;
                 match d with
                 | DPatch k dd =>
                     match find_patch k nd with
                     | None => do c <- combine_patches f dd; Ok (nd ++ [DPatch k c])
                     | Some pd => do c <- combine_patches f (pd ++ dd);
                                  Ok (update_patch k (fun _ => c) nd)
                     end
                 | _ => Ok (nd ++ [d])
                 end) diffs (Ok []);
      sort_diff_by_key nd
  end.

(* ---------- resolve_action ---------- *)
Definition the_key (d : diff) : res key :=            (* key, = set(e.key for e in d) *)
  match d with
  | [] => Err ValueError
  | e :: r => if forallb (fun x => key_eqb (dkey x) (dkey e)) r then Ok (dkey e) else Err ValueError
  end.

Definition make_cleared_value (v : json) : json :=
  match v with JArr _ => JArr [] | JObj _ => JObj [] | JStr _ => JStr [] | _ => JNull end.

Definition odiff (d : option diff) : res diff :=       (* using None where a list is needed *)
  match d with Some x => Ok x | None => Err TypeError end.

(* x < y on numbers, through exact dyadic comparison; non-numbers cannot be ordered here *)
Definition num_ltb (x y : Z * Z) : bool :=
  let '(m, e) := x in let '(m', e') := y in
  if Z.leb e e' then Z.ltb m (m' * 2 ^ (e' - e)) else Z.ltb (m * 2 ^ (e - e')) m'.

Definition py_max3 (b l r : json) : res json :=
  match num_of b, num_of l, num_of r with
  | Some nb, Some nl, Some nr =>
      let m1 := if num_ltb nb nl then (l, nl) else (b, nb) in      (* max keeps the first maximal *)
      let m2 := if num_ltb (snd m1) nr then r else fst m1 in
      Ok m2
  | _, _, _ => Err TypeError
  end.

Definition entry_value (e : dentry) : res json :=
  match e with DAdd _ v | DReplace _ v => Ok v | _ => Err KeyError end.

Definition side_value (d : option diff) (bval : json) : res json :=
  match d with
  | Some (e :: _) => entry_value e
  | _ => Ok bval
  end.

Definition resolve_action (base : json) (d : decision) : res diff :=
  match d_action d with
  | ABase => Ok []
  | ALocal | AEither => odiff (d_local d)       (* copy.copy(None) is None: the patch that follows fails *)
  | ARemote => odiff (d_remote d)
  | ACustom => odiff (d_custom d)
  | ALocalThenRemote => do l <- odiff (d_local d); do r <- odiff (d_remote d); Ok (l ++ r)
  | ARemoteThenLocal => do l <- odiff (d_local d); do r <- odiff (d_remote d); Ok (r ++ l)
  | AClear =>
      do l <- odiff (d_local d); do r <- odiff (d_remote d);
      do k <- the_key (l ++ r);
      do v <- get_item base k;
      Ok [DReplace k (make_cleared_value v)]
  | ARemove =>
      do l <- odiff (d_local d); do r <- odiff (d_remote d);
      do k <- the_key (l ++ r);
      match base with
      | JArr _ | JStr _ => Ok [DRemoveRange k 1]
      | _ => Ok [DRemove k]
      end
  | AClearAll =>
      match base with
      | JObj kv => Ok (map (fun p => DRemove (KS (fst p))) kv)
      | JArr l => Ok [DRemoveRange (KI 0) (length l)]
      | JStr s => Ok [DRemoveRange (KI 0) (length s)]
      | _ => Err TypeError               (* returns None; the patch that follows fails *)
      end
  | ATakeMax =>
      do l <- odiff (d_local d); do r <- odiff (d_remote d);
      do k <- the_key (l ++ r);
      do bval <- get_item base k;
      do lval <- side_value (d_local d) bval;
      do rval <- side_value (d_remote d) bval;
      do m <- py_max3 bval lval rval;
      if py_eqb bval m then Ok [] else Ok [DReplace k m]
  | AOther _ => Err RuntimeError         (* NotImplementedError *)
  end.

(* ---------- apply_decisions ---------- *)
Record astate := mkA {
  a_merged : json;
  a_prev : option path;
  a_resolved : json;
  a_diffs : diff;
  a_clear_all : bool;
}.

Definition is_clear_all (a : action) : bool := match a with AClearAll => true | _ => false end.

Definition afuel (d : diff) : nat := S (ddepth d).
Definition pfuel (j : json) (d : diff) : nat := ddepth d + depth j + 4.

(* flush the pending group: merged = patch(resolved, diffs) at prev_path *)
Definition flush (st : astate) : res json :=
  match a_prev st with
  | None => Ok (a_merged st)
  | Some p =>
      do v <- patch (pfuel (a_resolved st) (a_diffs st)) (a_resolved st) (a_diffs st);
      set_at (a_merged st) p v
  end.

Definition opath_eqb (p : path) (q : option path) : bool :=
  match q with Some q' => path_eqb p q' | None => false end.

Definition apply_step (st : astate) (md : decision) : res astate :=
  do pl <- split_string_path (a_merged st) (d_path md);
  let '(p, line) := pl in
  if opath_eqb p (a_prev st) then
    if a_clear_all st then Ok st else
    let st1 := if is_clear_all (d_action md)
               then mkA (a_merged st) (a_prev st) (a_resolved st) [] true else st in
    do ad <- resolve_action (a_resolved st1) md;
    let ad := match line with [] => ad | _ => push_path line ad end in
    let all := a_diffs st1 ++ ad in
    do c <- combine_patches (afuel all) all;
    Ok (mkA (a_merged st1) (a_prev st1) (a_resolved st1) c (a_clear_all st1))
  else
    do m <- flush st;
    do resolved <- get_path m p;
    do ad <- resolve_action resolved md;
    let ad := match line with [] => ad | _ => push_path line ad end in
    Ok (mkA m (Some p) resolved ad (is_clear_all (d_action md))).

Fixpoint apply_loop (st : astate) (ds : list decision) : res astate :=
  match ds with
  | [] => Ok st
  | md :: r => do st' <- apply_step st md; apply_loop st' r
  end.

Definition apply_decisions (base : json) (ds : list decision) : res json :=
  do st <- apply_loop (mkA base None base [] false) ds;
  flush st.
