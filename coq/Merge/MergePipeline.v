(* differ + decision maker + applier, end to end, on notebook-shaped documents (C03 / C05): the notebook differ returns, the merge
   with that diff as the only change (or as both sides' change) returns, and applying its decisions returns the changed notebook. *)
From Coq Require Import List NArith ZArith Bool Lia.
From NB Require Import Base.Res Base.Json Diff.DiffFormat Diff.Patch Diff.GenericDiff Diff.Wf Diff.StringProofs Diff.C01Proofs
     Gen.NbConfig Gen.MergeFacts Merge.SortKey Merge.Decisions Merge.Apply Merge.MergeGeneric Merge.MergeProofs Merge.MergeOnesidedObj.
Import ListNotations.

Theorem notebook_pipeline_completes Od n Om cfg St H gk strict cstrict (who : mode) a b :
  opcodes_valid Od -> wfj a = true -> wfj b = true -> sources_are_strings a = true ->
  notebook_shaped a = true -> notebook_shaped b = true -> 4 * depth a + 4 <= n ->
  exists d decs,
    diff_ Od nb_config n [] a b = Ok d
    /\ decide_merge_with_diff Om cfg St H gk strict cstrict a (m_ld who d) (m_rd who d) = Ok decs
    /\ no_conf decs
    /\ apply_decisions a decs = Ok b.
Proof.
  intros Hop Hwa Hwb Hsrc Sa Sb Hn.
  destruct (nb_total Od n a b Hop Hwa Hwb Hsrc Sa Sb Hn) as (d & Hd & Hp & Hf & _).
  assert (Oa : exists ka, a = JObj ka).
  { unfold notebook_shaped in Sa. apply andb_true_iff in Sa as [Oa _]. destruct a; try discriminate. eexists. reflexivity. }
  destruct Oa as (ka & ->).
  destruct (onesided_object Om cfg St H gk strict cstrict who ka d _ Hwa (Hf _ (Nat.lt_succ_diag_r _))) as (decs & D1 & D2 & D3).
  exists d, decs. split; [exact Hd|]. split; [exact D1|]. split; [exact D2|].
  rewrite (D3 _ (Nat.lt_succ_diag_r _)). apply Hp. apply Nat.lt_succ_diag_r.
Qed.
Print Assumptions notebook_pipeline_completes.
