(* Partial-correctness machinery: from "the differ returned" to the hypotheses of the producer
   lemmas (SeqProofs / LoopProofs): a loop that returned has called the sub-differ successfully on
   every pair it visited, and those are exactly the pairs the producer lemmas ask about. *)
From Coq Require Import List NArith ZArith Bool Lia.
From NB Require Import Base.Res Base.Json Base.PyStr Diff.DiffFormat Diff.Patch Diff.Lcs Diff.GenericDiff
     Diff.Wf Diff.PatchProofs Diff.SeqProofs Diff.LoopProofs Diff.LcsProofs Diff.SnakesProofs Diff.DictProofs Diff.WfProofs Diff.MasterProofs.
Import ListNotations.

Definition sdiff := json -> json -> res (list dentry).

Section ListPartial.
  Variable rec : json -> diff -> res json.
  Variable sd : sdiff.
  Variables A B : list json.
  (* what the sub-differ returns on R-related items of A and B is right (R: what is known of the
     pairs the loop visits: nothing for snakes, equality for a strict LCS) *)
  Variable R : json -> json -> Prop.
  Hypothesis Hgood : forall x y cd, In x A -> In y B -> R x y -> sd x y = Ok cd ->
    match cd with [] => x = y | _ => rec x cd = Ok y end.

  Definition visR (i j n : nat) : Prop :=
    forall k x y, k < n -> nth_error A (i + k) = Some x -> nth_error B (j + k) = Some y -> R x y.

  Lemma patch_items_pairs_ok i j : forall n k di d,
    visR (i + k) (j + k) n ->
    patch_items sd A B i j k n di = Ok d -> pairs_ok rec sd A B (i + k) (j + k) n.
  Proof.
    induction n as [|n IH]; intros k di d HR H k' Hk'; [lia|]. cbn [patch_items] in H.
    apply bind_ok in H as (x & Hx & H). apply bind_ok in H as (y & Hy & H). apply bind_ok in H as (cd & Hcd & H).
    unfold nth_res in Hx, Hy.
    destruct (nth_error A (i + k)) as [x'|] eqn:Ex; [|discriminate]. inversion Hx; subst x'.
    destruct (nth_error B (j + k)) as [y'|] eqn:Ey; [|discriminate]. inversion Hy; subst y'.
    destruct k' as [|k''].
    - rewrite !Nat.add_0_r. exists x, y. split; [exact Ex|]. split; [exact Ey|].
      exists cd. split; [exact Hcd|]. apply Hgood; [eapply nth_error_In; exact Ex | eapply nth_error_In; exact Ey | | exact Hcd].
      apply (HR 0 x y); [lia | rewrite Nat.add_0_r; exact Ex | rewrite Nat.add_0_r; exact Ey].
    - assert (HR' : visR (i + S k) (j + S k) n).
      { intros q x0 y0 Hq E1 E2. apply (HR (S q) x0 y0); [lia| |].
        - replace (i + k + S q) with (i + S k + q) by lia. exact E1.
        - replace (j + k + S q) with (j + S k + q) by lia. exact E2. }
      specialize (IH (S k) _ _ HR' H k'' ltac:(lia)).
      replace (i + k + S k'') with (i + S k + k'') by lia. replace (j + k + S k'') with (j + S k + k'') by lia. exact IH.
  Qed.

  Lemma snakes_pairs_ok : (forall x y, R x y) -> forall snakes i0 j0 di d,
    diff_from_snakes sd A B snakes i0 j0 di = Ok d ->
    forall i j n, In (i, j, n) snakes -> pairs_ok rec sd A B i j n.
  Proof.
    intros HR. induction snakes as [|[[i1 j1] n1] rest IH]; intros i0 j0 di d H i j n Hin; [destruct Hin|].
    cbn [diff_from_snakes] in H. apply bind_ok in H as (di' & Hp & H).
    destruct Hin as [E|Hin].
    - inversion E; subst. pose proof (patch_items_pairs_ok i j n 0 _ _ ltac:(intros ? ? ? ? ? ?; apply HR) Hp) as P. rewrite !Nat.add_0_r in P. exact P.
    - eapply IH; eassumption.
  Qed.

  Theorem snakes_partial snakes d :
    (forall x y, R x y) ->
    vsn A B 0 0 snakes -> diff_from_snakes sd A B snakes 0 0 [] = Ok d -> patch_list rec A d = Ok B.
  Proof.
    intros HR Hv Hd.
    destruct (diff_from_snakes_ok rec sd A B snakes 0 0 [] Hv) as (d' & Hd' & Hp).
    - eapply snakes_pairs_ok; [exact HR | exact Hd].
    - exists 0, []. split; [reflexivity | apply Rec_init].
    - constructor.
    - rewrite Hd in Hd'. inversion Hd'; subst d'. exact Hp.
  Qed.

  (* the shallow script read by the loop: its shape does not depend on the sub-differ *)
  Lemma visR_of_pairs_ok sd0 i j n :
    (forall x y, pair_ok rec sd0 x y -> R x y) -> pairs_ok rec sd0 A B i j n -> visR i j n.
  Proof.
    intros H0 Hp k x y Hk Ex Ey. destruct (Hp k Hk) as (x' & y' & Ex' & Ey' & Hpo).
    rewrite Ex in Ex'. rewrite Ey in Ey'. inversion Ex'; inversion Ey'; subst. apply H0. exact Hpo.
  Qed.

  Lemma aligned_transfer sd0 : (forall x y, pair_ok rec sd0 x y -> R x y) -> forall tail i j amin,
    aligned rec sd0 A B i j amin tail ->
    forall di d, diff_lists_loop sd A B tail i j di = Ok d -> aligned rec sd A B i j amin tail.
  Proof.
    intros H0.
    assert (HV : forall i j n, pairs_ok rec sd0 A B i j n -> visR (i + 0) (j + 0) n)
      by (intros i j n Hp; rewrite !Nat.add_0_r; eapply visR_of_pairs_ok; eassumption).
    induction 1 as [i j amin H1 H2 H3 H4 | i j amin x m r H1 H2 H3 H4 H5 H6 H7 IH | i j amin x len r H1 H2 H3 H4 H5 H6 IH];
      intros di d Hd; cbn [diff_lists_loop] in Hd.
    - destruct (Nat.ltb (length A) i); [discriminate|]. destruct (negb _); [discriminate|].
      apply al_nil; auto. pose proof (patch_items_pairs_ok i j _ 0 _ _ (HV _ _ _ H4) Hd) as P. rewrite !Nat.add_0_r in P. exact P.
    - cbn [count_consumed bind knat dkey] in Hd. apply bind_ok in Hd as (di' & Hp & Hd).
      apply al_add; auto.
      + pose proof (patch_items_pairs_ok i j _ 0 _ _ (HV _ _ _ H6) Hp) as P. rewrite !Nat.add_0_r in P. exact P.
      + eapply IH. cbn [vlen] in Hd. rewrite slice_length in Hd by lia.
        replace (i + (x - i) + 0) with x in Hd by lia.
        replace (j + (x - i) + (j + (x - i) + m - (j + (x - i)))) with (j + (x - i) + m) in Hd by lia. exact Hd.
    - cbn [count_consumed bind knat dkey] in Hd. apply bind_ok in Hd as (di' & Hp & Hd).
      apply al_rem; auto.
      + pose proof (patch_items_pairs_ok i j _ 0 _ _ (HV _ _ _ H5) Hp) as P. rewrite !Nat.add_0_r in P. exact P.
      + eapply IH. replace (i + (x - i) + len) with (x + len) in Hd by lia.
        replace (j + (x - i) + 0) with (j + (x - i)) in Hd by lia. exact Hd.
  Qed.

  (* generic.diff_lists with one (strict) predicate: LCS pairs are equal items *)
  Theorem loop_partial ai bi d :
    (forall x y, pair_ok rec (fun _ _ => Ok []) x y -> R x y) ->
    valid_idx rec (fun _ _ => Ok []) A B 0 0 ai bi ->
    diff_lists_loop sd A B (diff_from_lcs_go B (length A) (length B) ai bi 0 0 []) 0 0 [] = Ok d ->
    patch_list rec A d = Ok B
    /\ aligned rec sd A B 0 0 0 (diff_from_lcs_go B (length A) (length B) ai bi 0 0 []).
  Proof.
    intros H0 Hv Hd.
    destruct (diff_from_lcs_aligned rec (fun _ _ => Ok []) A B ai bi 0 0 0 0 [] Hv) as (tail & Ht & Ha); auto.
    - intros k Hk. lia.
    - constructor.
    - rewrite Ht in *. cbn [app] in *. cbn in Ha.
      pose proof (aligned_transfer _ H0 tail 0 0 0 Ha [] d Hd) as Ha'.
      split; [|exact Ha'].
      destruct (diff_lists_loop_ok rec sd A B tail 0 0 0 [] Ha') as (d' & Hd' & Hp).
      + exists 0, []. split; [reflexivity | apply Rec_init].
      + constructor.
      + constructor.
      + lia.
      + rewrite Hd in Hd'. inversion Hd'; subst d'. exact Hp.
  Qed.
End ListPartial.

(* strict LCS indices are valid for the constant sub-differ *)
Lemma valid_idx_strict rec (A B : list json) ai bi :
  inc_idx (fun i j => cmp_at json_eqb A B i j = true) 0 0 ai bi ->
  valid_idx rec (fun _ _ => Ok []) A B 0 0 ai bi.
Proof.
  intros Hinc. eapply valid_idx_of_inc; [|exact Hinc|lia|lia].
  intros i j Hcmp. pose proof (cmp_at_bounds json_eqb A B i j Hcmp) as [Hi Hj].
  split; [exact Hi|]. split; [exact Hj|].
  intros k Hk0. replace k with 0 by lia. rewrite !Nat.add_0_r.
  unfold cmp_at in Hcmp. destruct (nth_error A i) as [x|] eqn:Ex; [|discriminate].
  destruct (nth_error B j) as [y|] eqn:Ey; [|discriminate].
  apply json_eqb_eq in Hcmp. subst y. exists x, x. split; [reflexivity|]. split; [reflexivity|].
  exists []. split; reflexivity.
Qed.

(* ---------- objects: complete a partial on_common by a replacement, which is always right ---------- *)
Definition ocdiff := pystr -> json -> json -> res (list dentry).
Definition cext (oc oc' : ocdiff) : Prop := forall k x y es, oc k x y = Ok es -> oc' k x y = Ok es.

Lemma dict_walk_ext oc oc' : cext oc oc' ->
  forall fuel a b d, dict_walk oc fuel a b = Ok d -> dict_walk oc' fuel a b = Ok d.
Proof.
  intros He. induction fuel as [|fuel IH]; intros a b d H; [discriminate|]. cbn [dict_walk] in *.
  destruct a as [|[ka va] a']; destruct b as [|[kb vb] b']; try exact H.
  - apply bind_ok in H as (r & Hr & H). rewrite (IH _ _ _ Hr). exact H.
  - apply bind_ok in H as (r & Hr & H). rewrite (IH _ _ _ Hr). exact H.
  - destruct (str_cmp ka kb).
    + apply bind_ok in H as (e & Hc & H). apply bind_ok in H as (r & Hr & H).
      rewrite (He _ _ _ _ Hc). cbn [bind]. rewrite (IH _ _ _ Hr). exact H.
    + apply bind_ok in H as (r & Hr & H). rewrite (IH _ _ _ Hr). exact H.
    + apply bind_ok in H as (r & Hr & H). rewrite (IH _ _ _ Hr). exact H.
Qed.

Definition octot (oc : ocdiff) : ocdiff :=
  fun k x y => match oc k x y with Ok es => Ok es | Err _ => Ok [DReplace (KS k) y] end.

Theorem dict_partial rec (oc : ocdiff) a b d :
  keys_sorted a = true -> keys_sorted b = true ->
  (forall k va vb es, obj_get k a = Some va -> obj_get k b = Some vb -> oc k va vb = Ok es ->
     (es = [] /\ va = vb) \/ (exists dd, es = [DPatch (KS k) dd] /\ rec va dd = Ok vb) \/ es = [DReplace (KS k) vb]) ->
  dict_diff oc a b = Ok d -> patch_dict rec a d = Ok b.
Proof.
  intros Sa Sb Hoc Hd.
  destruct (dict_diff_roundtrip rec (octot oc) a b Sa Sb) as (d' & Hd' & Hp).
  - intros k va vb Hva Hvb. unfold common_ok, octot. destruct (oc k va vb) as [es|e] eqn:E.
    + exists es. split; [reflexivity|]. eapply Hoc; eassumption.
    + eexists. split; [reflexivity|]. right. right. reflexivity.
  - unfold dict_diff in *. rewrite (dict_walk_ext oc (octot oc)) with (d := d) in Hd'.
    + inversion Hd'; subst d'. exact Hp.
    + intros k x y es H. unfold octot. rewrite H. reflexivity.
    + exact Hd.
Qed.
