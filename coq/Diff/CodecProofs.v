(* The JSON form of diffs loses nothing: decoding the encoding gives the diff back, so equality of the
   encoded model output with nbdime's JSON (the T1 comparison) is equality of diffs. *)
From Coq Require Import List NArith ZArith Bool Lia String Ascii.
From NB Require Import Base.Res Base.Json Diff.DiffFormat Diff.Codec.
Import ListNotations.

Lemma dec_enc_key k : dec_key (enc_key k) = Some k.
Proof.
  destruct k as [i|s]; cbn [enc_key dec_key]; [|reflexivity].
  replace (Z.leb 0 (Z.of_nat i)) with true by (symmetry; apply Z.leb_le; lia). rewrite Nat2Z.id. reflexivity.
Qed.

Lemma dec_enc_vlist v : dec_vlist (enc_vlist v) = Some v.
Proof. destruct v; reflexivity. Qed.

Definition go_enc := fix go (d : list dentry) : list json := match d with [] => [] | x :: xs => enc_entry x :: go xs end.
Definition go_dec (n : nat) := fix go (l : list json) : option (list dentry) :=
  match l with
  | [] => Some []
  | x :: xs => match dec_entry n x, go xs with Some e, Some es => Some (e :: es) | _, _ => None end
  end.

Lemma go_enc_map d : go_enc d = map enc_entry d.
Proof. induction d as [|x d IH]; [reflexivity|]. cbn [map]. rewrite <- IH. reflexivity. Qed.

Lemma ddepth_e_patch k d x : In x d -> ddepth_e x < ddepth_e (DPatch k d).
Proof.
  cbn [ddepth_e]. induction d as [|y d IH]; intros []; subst; [lia|]. specialize (IH H). lia.
Qed.

Lemma dec_enc_entry : forall n e, ddepth_e e < n -> dec_entry n (enc_entry e) = Some e.
Proof.
  induction n as [|n IH]; intros e Hn; [lia|].
  destruct e as [k v|k|k v|k vs|k len|k d]; cbn [enc_entry dec_entry].
  - cbn. rewrite dec_enc_key. reflexivity.
  - cbn. rewrite dec_enc_key. reflexivity.
  - cbn. rewrite dec_enc_key. reflexivity.
  - cbn. rewrite dec_enc_key, dec_enc_vlist. reflexivity.
  - cbn. rewrite dec_enc_key.
    replace (Z.leb 0 (Z.of_nat len)) with true by (symmetry; apply Z.leb_le; lia). rewrite Nat2Z.id. reflexivity.
  - fold (go_enc d).
    assert (Hgo : go_dec n (go_enc d) = Some d).
    { assert (Hall : forall x, In x d -> ddepth_e x < n) by (intros x Hx; pose proof (ddepth_e_patch k d x Hx); lia).
      clear Hn. induction d as [|x d IHd]; [reflexivity|]. cbn [go_enc go_dec].
      rewrite (IH x (Hall x (or_introl eq_refl))). fold (go_dec n). rewrite IHd; [reflexivity|].
      intros y Hy. apply Hall. right. exact Hy. }
    cbn. rewrite dec_enc_key. fold (go_dec n). rewrite Hgo. reflexivity.
Qed.

Theorem dec_enc_diff d n : ddepth d < n -> dec_diff n (enc_diff d) = Some d.
Proof.
  intros Hn. unfold dec_diff, enc_diff. fold (go_dec n).
  assert (Hall : forall x, In x d -> ddepth_e x < n).
  { intros x Hx. unfold ddepth in Hn. clear - Hn Hx. induction d as [|y d IH]; destruct Hx; subst; cbn [fold_right] in Hn; [lia|].
    apply IH; [lia | assumption]. }
  clear Hn. induction d as [|x d IH]; [reflexivity|]. cbn [map go_dec].
  rewrite (dec_enc_entry n x (Hall x (or_introl eq_refl))). fold (go_dec n). rewrite IH; [reflexivity|].
  intros y Hy. apply Hall. right. exact Hy.
Qed.

Corollary enc_diff_inj d1 d2 : enc_diff d1 = enc_diff d2 -> d1 = d2.
Proof.
  intros H. pose proof (dec_enc_diff d1 (S (Nat.max (ddepth d1) (ddepth d2))) ltac:(lia)) as H1.
  pose proof (dec_enc_diff d2 (S (Nat.max (ddepth d1) (ddepth d2))) ltac:(lia)) as H2.
  rewrite H in H1. congruence.
Qed.
