(* Totality of the notebook differ on notebook-shaped documents: with the tables of /repo it returns
   (no assert, no KeyError, no IndexError, no RuntimeError) on every pair of documents having the shape
   nbformat gives notebooks -- and then NbProofs says the result is right. *)
From Coq Require Import List NArith ZArith Bool Lia.
From NB Require Import Base.Res Base.Json Base.PyStr Diff.DiffFormat Diff.Patch Diff.Lcs Diff.GenericDiff
     Diff.Wf Diff.PatchProofs Diff.SeqProofs Diff.LoopProofs Diff.LcsProofs Diff.SnakesProofs Diff.DictProofs
     Diff.WfProofs Diff.DictWf Diff.StringProofs Diff.StringMaster Diff.MasterProofs Diff.NbPartial Diff.NbGood
     Diff.NbOutputs Diff.NbProofs.
Import ListNotations.

Definition p_outputs : pystr :=   (* "/cells/*/outputs" *)
  [47;99;101;108;108;115;47;42;47;111;117;116;112;117;116;115]%N.

Definition nonempty {T} (l : list T) : bool := match l with [] => false | _ => true end.
Definition is_poutput (p : pred) : bool := match p with POutput _ => true | _ => false end.
Definition place_ok (path : pystr) (d : differ) : bool :=
  match d with
  | DfSingleOutputs => str_eqb path p_outputs_item
  | DfAttachments => str_eqb path p_attachments
  | _ => true
  end.

(* what totality needs of the tables, beyond cfg_ok *)
Definition cfg_tot (cfg : config) : bool :=
  match c_pred_keys cfg with [] => true | _ => false end
  && nonempty (c_pred_default cfg) && forallb (fun p => nonempty (snd p)) (c_predicates cfg)
  && forallb (fun p => snd p) (c_atomic cfg)
  && c_mime_guard cfg
  && match c_differ_default cfg with DfSingleOutputs | DfAttachments => false | _ => true end
  && forallb (fun p => place_ok (fst p) (snd p)) (c_differs cfg)
  && forallb is_poutput (get_predicates cfg p_outputs).

Definition is_obj (x : json) : bool := match x with JObj _ => true | _ => false end.
Definition is_display (t : pystr) : bool := str_eqb t s_execute_result || str_eqb t s_display_data.
Definition is_single (d : differ) : bool := match d with DfSingleOutputs => true | _ => false end.

Section Shape.
  Variable cfg : config.

  Definition single_pred (path : pystr) : bool :=
    match get_predicates cfg (path_or_root path) with [_] => true | _ => false end.

  (* the shape a document must have at [path] for the differ installed there not to raise *)
  Fixpoint shape (path : pystr) (a : json) {struct a} : bool :=
    match a with
    | JStr _ => match get_differ cfg path with DfDiff | DfStringLines => true | _ => false end
    | JArr l =>
        match get_differ cfg path with
        | DfDiff => forallb (fun x => (single_pred path || is_obj x) && shape (subpath path star) x) l
        | DfSeqMultilevel => forallb (fun x => is_obj x && shape (subpath path star) x) l
        | _ => false
        end
    | JObj kv =>
        match get_differ cfg path with
        | DfDiff => forallb (fun p => negb (is_single (get_differ cfg (subpath path (fst p))))
                                      && shape (subpath path (fst p)) (snd p)) kv
        | DfAttachments => forallb (fun p => is_obj (snd p)) kv
        | DfSingleOutputs =>
            match obj_get s_output_type kv with
            | Some (JStr t) =>
                if is_display t
                then match obj_get s_data kv with Some (JObj _) => true | _ => false end
                     && forallb (fun p => str_eqb (fst p) s_data
                                          || (negb (is_single (get_differ cfg (subpath path (fst p))))
                                              && shape (subpath path (fst p)) (snd p))) kv
                else forallb (fun p => negb (is_single (get_differ cfg (subpath [] (fst p))))
                                       && shape (subpath [] (fst p)) (snd p)) kv
            | _ => false
            end
        | _ => false
        end
    | _ => true
    end.

  Lemma shape_unfold path a : shape path a =
    match a with
    | JStr _ => match get_differ cfg path with DfDiff | DfStringLines => true | _ => false end
    | JArr l =>
        match get_differ cfg path with
        | DfDiff => forallb (fun x => (single_pred path || is_obj x) && shape (subpath path star) x) l
        | DfSeqMultilevel => forallb (fun x => is_obj x && shape (subpath path star) x) l
        | _ => false
        end
    | JObj kv =>
        match get_differ cfg path with
        | DfDiff => forallb (fun p => negb (is_single (get_differ cfg (subpath path (fst p))))
                                      && shape (subpath path (fst p)) (snd p)) kv
        | DfAttachments => forallb (fun p => is_obj (snd p)) kv
        | DfSingleOutputs =>
            match obj_get s_output_type kv with
            | Some (JStr t) =>
                if is_display t
                then match obj_get s_data kv with Some (JObj _) => true | _ => false end
                     && forallb (fun p => str_eqb (fst p) s_data
                                          || (negb (is_single (get_differ cfg (subpath path (fst p))))
                                              && shape (subpath path (fst p)) (snd p))) kv
                else forallb (fun p => negb (is_single (get_differ cfg (subpath [] (fst p))))
                                       && shape (subpath [] (fst p)) (snd p)) kv
            | _ => false
            end
        | _ => false
        end
    | _ => true
    end.
  Proof. destruct a; reflexivity. Qed.
End Shape.

Section Total.
  Variable O : oracles.
  Variable cfg : config.
  Hypothesis Hops : opcodes_valid O.
  Hypothesis Hcfg : cfg_ok cfg = true.
  Hypothesis Htot : cfg_tot cfg = true.

  Notation shape := (shape cfg).

  (* ---------- facts from cfg_tot ---------- *)
  Lemma tot_pred_keys : c_pred_keys cfg = [].
  Proof. unfold cfg_tot in Htot. repeat (apply andb_true_iff in Htot as [Htot ?]). destruct (c_pred_keys cfg); [reflexivity | discriminate]. Qed.
  Lemma tot_preds_nonempty path : get_predicates cfg path <> [].
  Proof.
    unfold cfg_tot in Htot. repeat (apply andb_true_iff in Htot as [Htot ?]).
    unfold get_predicates. destruct (assoc path (c_predicates cfg)) as [p|] eqn:E.
    - destruct (assoc_in _ _ _ E) as (k' & Hin).
      match goal with H : forallb _ (c_predicates cfg) = true |- _ => rewrite forallb_forall in H; specialize (H _ Hin) end.
      destruct p; [discriminate | congruence].
    - destruct (c_pred_default cfg); [discriminate | congruence].
  Qed.
  Lemma tot_atomic x path : is_container x = false -> is_atomic cfg x path = true.
  Proof.
    intros Hc. unfold cfg_tot in Htot. repeat (apply andb_true_iff in Htot as [Htot ?]).
    unfold is_atomic. destruct (assoc path (c_atomic cfg)) as [b|] eqn:E; [|rewrite Hc; reflexivity].
    destruct (assoc_in _ _ _ E) as (k' & Hin).
    match goal with H : forallb _ (c_atomic cfg) = true |- _ => rewrite forallb_forall in H; exact (H _ Hin) end.
  Qed.
  Lemma tot_mime_guard : c_mime_guard cfg = true.
  Proof. unfold cfg_tot in Htot. repeat (apply andb_true_iff in Htot as [Htot ?]). assumption. Qed.
  Lemma tot_place path : place_ok path (get_differ cfg path) = true.
  Proof.
    unfold cfg_tot in Htot. repeat (apply andb_true_iff in Htot as [Htot ?]).
    unfold get_differ. destruct (assoc path (c_differs cfg)) as [d|] eqn:E.
    - assert (Hin : In (path, d) (c_differs cfg)).
      { clear - E. induction (c_differs cfg) as [|[k0 v0] l IH]; cbn [assoc] in E; [discriminate|].
        destruct (str_eqb path k0) eqn:Ek; [apply str_eqb_eq in Ek; subst; inversion E; left; reflexivity | right; apply IH; exact E]. }
      match goal with H : forallb _ (c_differs cfg) = true |- _ => rewrite forallb_forall in H; exact (H _ Hin) end.
    - destruct (c_differ_default cfg); try reflexivity; discriminate.
  Qed.
  Lemma tot_outputs_preds : forallb is_poutput (get_predicates cfg p_outputs) = true.
  Proof. unfold cfg_tot in Htot. repeat (apply andb_true_iff in Htot as [Htot ?]). assumption. Qed.

  Lemma subpath_star_inj p q : subpath p star = subpath q star -> p = q.
  Proof. unfold subpath. intros H. eapply app_inv_tail. exact H. Qed.

  (* the item differ of a list is diff_single_outputs only under "/cells/*/outputs", whose predicates all
     test the output type first *)
  Lemma outputs_preds path p :
    get_differ cfg (subpath path star) = DfSingleOutputs -> In p (get_predicates cfg (path_or_root path)) ->
    is_poutput p = true.
  Proof.
    intros Hd Hin. pose proof (tot_place (subpath path star)) as Hp. rewrite Hd in Hp. cbn [place_ok] in Hp.
    apply str_eqb_eq in Hp. change p_outputs_item with (subpath p_outputs star) in Hp. apply subpath_star_inj in Hp. subst path.
    pose proof tot_outputs_preds as H. rewrite forallb_forall in H. apply H. exact Hin.
  Qed.

  (* ---------- what is asked of a pair handed to a differ ---------- *)
  Definition compat (path : pystr) (x y : json) : Prop :=
    kind_of x = kind_of y /\ is_container x = true
    /\ (get_differ cfg path = DfSingleOutputs -> same_output_type x y = true).

  Definition items_ok (path : pystr) (l : list json) : bool :=
    forallb (fun x => (single_pred cfg path || is_obj x) && shape (subpath path star) x) l.
  Definition objs_ok (path : pystr) (l : list json) : bool :=
    forallb (fun x => is_obj x && shape (subpath path star) x) l.
  Definition kids_ok (path : pystr) (kv : list (pystr * json)) : bool :=
    forallb (fun p => negb (is_single (get_differ cfg (subpath path (fst p)))) && shape (subpath path (fst p)) (snd p)) kv.
  Definition shape_diff (path : pystr) (a : json) : bool :=
    match a with JArr l => items_ok path l | JObj kv => kids_ok path kv | _ => true end.

  Definition T_run n := forall path x y, wfj x = true -> wfj y = true -> lines_ok cfg path x = true ->
    shape path x = true -> shape path y = true -> compat path x y -> 4 * depth x + 5 <= n ->
    exists d, run O cfg n (get_differ cfg path) path x y = Ok d.
  Definition T_diff n := forall path x y, wfj x = true -> wfj y = true -> kids (lines_ok cfg) path x = true ->
    shape_diff path x = true -> shape_diff path y = true -> kind_of x = kind_of y -> is_container x = true ->
    4 * depth x + 4 <= n -> exists d, diff_ O cfg n path x y = Ok d.
  Definition T_lists n := forall path l m, wfj (JArr l) = true -> wfj (JArr m) = true ->
    kids (lines_ok cfg) path (JArr l) = true -> items_ok path l = true -> items_ok path m = true ->
    4 * depth (JArr l) + 3 <= n -> exists d, diff_lists O cfg n path l m = Ok d.
  Definition T_multi n := forall path l m, wfj (JArr l) = true -> wfj (JArr m) = true ->
    kids (lines_ok cfg) path (JArr l) = true -> objs_ok path l = true -> objs_ok path m = true ->
    4 * depth (JArr l) + 2 <= n -> exists d, diff_sequence_multilevel O cfg n path l m = Ok d.
  Definition T_dicts n := forall path ka kb, wfj (JObj ka) = true -> wfj (JObj kb) = true ->
    kids (lines_ok cfg) path (JObj ka) = true -> kids_ok path ka = true -> kids_ok path kb = true ->
    4 * depth (JObj ka) + 3 <= n -> exists d, diff_dicts O cfg n path ka kb = Ok d.
  Definition T n := T_run n /\ T_diff n /\ T_lists n /\ T_multi n /\ T_dicts n.

  (* the generic differ and the mime-bundle differ are total (MasterProofs) *)
  Lemma default_total n a b : wfj a = true -> wfj b = true -> kind_of a = kind_of b -> is_container a = true ->
    2 * depth a < n -> exists d, diff_default O cfg n a b = Ok d.
  Proof.
    intros Hwa Hwb Hk Hc Hn.
    destruct (diff_default_roundtrip O cfg (cfg_dict_strict cfg Hcfg) (cfg_generic_pred cfg Hcfg) (Hstr O cfg Hops) n a b Hn Hwa Hwb (conj Hk Hc))
      as (d & Hd & _). exists d. exact Hd.
  Qed.

  (* ---------- totality of the walks ---------- *)
  Lemma dict_walk_total (oc : ocdiff) : forall fuel a b,
    length a + length b < fuel ->
    (forall k va vb, In (k, va) a -> In (k, vb) b -> exists es, oc k va vb = Ok es) ->
    exists d, dict_walk oc fuel a b = Ok d.
  Proof.
    induction fuel as [|fuel IH]; intros a b Hf Hoc; [lia|]. cbn [dict_walk].
    destruct a as [|[ka va] a']; destruct b as [|[kb vb] b'].
    - eexists; reflexivity.
    - destruct (IH [] b') as (r & Hr); [cbn [length] in *; lia | intros k x y []|]. rewrite Hr. eexists; reflexivity.
    - destruct (IH a' []) as (r & Hr); [cbn [length] in *; lia | intros k x y _ []|]. rewrite Hr. eexists; reflexivity.
    - destruct (str_cmp ka kb) eqn:Ec.
      + apply str_cmp_eq in Ec. subst kb.
        destruct (Hoc ka va vb (or_introl eq_refl) (or_introl eq_refl)) as (es & Hes). rewrite Hes. cbn [bind].
        destruct (IH a' b') as (r & Hr); [cbn [length] in *; lia | intros k x y Hx Hy; apply (Hoc k x y); right; assumption|].
        rewrite Hr. eexists; reflexivity.
      + destruct (IH a' ((kb, vb) :: b')) as (r & Hr); [cbn [length] in *; lia | intros k x y Hx Hy; apply (Hoc k x y); [right|]; assumption|].
        rewrite Hr. eexists; reflexivity.
      + destruct (IH ((ka, va) :: a') b') as (r & Hr); [cbn [length] in *; lia | intros k x y Hx Hy; apply (Hoc k x y); [|right]; assumption|].
        rewrite Hr. eexists; reflexivity.
  Qed.

  Lemma dict_diff_total (oc : ocdiff) a b :
    (forall k va vb, In (k, va) a -> In (k, vb) b -> exists es, oc k va vb = Ok es) ->
    exists d, dict_diff oc a b = Ok d.
  Proof. intros H. unfold dict_diff. apply dict_walk_total; [lia | exact H]. Qed.

  Lemma map_insert_total k dd : forall l,
    (forall e, In e l -> key_str e <> k) -> exists r, map_insert (DPatch (KS k) dd) l = Ok r.
  Proof.
    induction l as [|x l IH]; intros H; cbn [map_insert]; [eexists; reflexivity|].
    change (key_str (DPatch (KS k) dd)) with k.
    destruct (str_cmp k (key_str x)) eqn:Ec.
    - apply str_cmp_eq in Ec. exfalso. apply (H x (or_introl eq_refl)). symmetry. exact Ec.
    - eexists; reflexivity.
    - destruct IH as (r & Hr); [intros e He; apply H; right; exact He|]. rewrite Hr. eexists; reflexivity.
  Qed.

  Lemma wfj_In kv k v : wfj (JObj kv) = true -> In (k, v) kv -> wfj v = true.
  Proof. cbn [wfj]. intros H Hin. apply andb_true_iff in H as [_ H]. rewrite forallb_forall in H. exact (H (k, v) Hin). Qed.

  Lemma depth_In kv k v : In (k, v) kv -> depth v < depth (JObj kv).
  Proof.
    cbn [depth]. induction kv as [|[k' v'] kv IH]; intros []; cbn [fold_right snd].
    - inversion H; subst. lia.
    - specialize (IH H). lia.
  Qed.

  Lemma wrap_total k (r : res (list dentry)) :
    (exists dd, r = Ok dd) ->
    exists es, (do dd <- r; match dd with [] => Ok [] | _ => Ok [DPatch (KS k) dd] end) = Ok es.
  Proof. intros (dd & ->). cbn [bind]. destruct dd; eexists; reflexivity. Qed.

  Lemma mime_total n ka kb : wfj (JObj ka) = true -> wfj (JObj kb) = true -> 2 * depth (JObj ka) <= n ->
    exists d, diff_mime_bundle O cfg n (JObj ka) (JObj kb) = Ok d.
  Proof.
    intros Hwa Hwb Hn. destruct n as [|n']; [cbn [depth] in Hn; lia|]. rewrite U_mime.
    apply dict_diff_total. intros k va vb Hva Hvb. unfold oc_mime. cbv zeta.
    pose proof (wfj_In _ _ _ Hwa Hva) as Hwva. pose proof (wfj_In _ _ _ Hwb Hvb) as Hwvb.
    pose proof (depth_In _ _ _ Hva) as Hdv.
    assert (Hdef : kind_of va = kind_of vb -> is_container va = true ->
              exists es, (do dd <- diff_default O cfg n' va vb;
                          match dd with [] => Ok [] | _ => Ok [DPatch (KS k) dd] end) = Ok es).
    { intros Hk Hc. apply wrap_total. apply default_total; auto. lia. }
    assert (Hother : exists es,
              (if existsb (fun tm => starts_with tm (lower k)) (c_split_mimes cfg)
                  && (negb (c_mime_guard cfg) || (kind_eqb (kind_of va) (kind_of vb) && is_container va))
               then (do dd <- diff_default O cfg n' va vb;
                     match dd with [] => Ok [] | _ => Ok [DPatch (KS k) dd] end)
               else if value_eqb (c_mime_strict cfg) va vb then Ok [] else Ok [DReplace (KS k) vb]) = Ok es).
    { rewrite tot_mime_guard. cbn [negb orb].
      destruct (existsb _ (c_split_mimes cfg) && (kind_eqb (kind_of va) (kind_of vb) && is_container va)) eqn:E.
      - apply andb_true_iff in E as [_ E]. apply andb_true_iff in E as [E1 E2]. apply kind_eqb_eq in E1. apply Hdef; assumption.
      - destruct (value_eqb _ va vb); eexists; reflexivity. }
    destruct va; try exact Hother. destruct vb; try exact Hother.
    destruct (str_eqb s s0); [eexists; reflexivity|].
    destruct (existsb _ (c_split_mimes cfg)); [apply Hdef; reflexivity | eexists; reflexivity].
  Qed.

  (* ---------- steps ---------- *)
  Lemma atomic_container x path : is_atomic cfg x path = false -> is_container x = true.
  Proof. intros H. destruct (is_container x) eqn:E; [reflexivity|]. rewrite (tot_atomic x path E) in H. discriminate. Qed.

  Lemma kids_lines_In path kv k v : kids (lines_ok cfg) path (JObj kv) = true -> In (k, v) kv ->
    lines_ok cfg (subpath path k) v = true.
  Proof. cbn [kids]. rewrite forallb_forall. intros H Hin. exact (H (k, v) Hin). Qed.

  Lemma step_T_dicts n : T n -> T_dicts (S n).
  Proof.
    intros (HTr & _) path ka kb Hwa Hwb Hl Ha Hb Hn. rewrite U_dicts.
    apply dict_diff_total. intros k va vb Hva Hvb. unfold oc_dicts. cbv zeta.
    unfold kids_ok in Ha, Hb. rewrite forallb_forall in Ha, Hb.
    specialize (Ha (k, va) Hva). specialize (Hb (k, vb) Hvb). cbn [fst snd] in Ha, Hb.
    apply andb_true_iff in Ha as [Hsa Ha]. apply andb_true_iff in Hb as [_ Hb].
    destruct (kind_eqb (kind_of va) (kind_of vb) && negb (is_atomic cfg va (subpath path k))) eqn:E.
    - apply andb_true_iff in E as [E1 E2]. apply kind_eqb_eq in E1. apply negb_true_iff in E2.
      apply wrap_total. apply HTr; auto.
      + exact (wfj_In _ _ _ Hwa Hva).
      + exact (wfj_In _ _ _ Hwb Hvb).
      + exact (kids_lines_In _ _ _ _ Hl Hva).
      + split; [exact E1|]. split; [eapply atomic_container; exact E2|].
        intros Hd. rewrite Hd in Hsa. discriminate.
      + pose proof (depth_In _ _ _ Hva). lia.
    - rewrite tot_pred_keys. cbn [existsb]. destruct (value_eqb _ va vb); eexists; reflexivity.
  Qed.

  Lemma step_T_diff n : T n -> T_diff (S n).
  Proof.
    intros (_ & _ & HTl & _ & HTd) path x y Hwx Hwy Hl Hx Hy Hk Hc Hn. rewrite U_diff.
    destruct x as [| | | |s|l|ka]; try discriminate; destruct y as [| | | |t|m0|kb]; try discriminate.
    - destruct (Hstr O cfg Hops n 2 s t ltac:(cbn [depth] in Hn; lia) ltac:(lia)) as (d & Hd & _). exists d. exact Hd.
    - apply HTl; auto. lia.
    - apply HTd; auto. lia.
  Qed.

  Lemma objs_In path l x : objs_ok path l = true -> In x l -> is_obj x = true /\ shape (subpath path star) x = true.
  Proof. unfold objs_ok. rewrite forallb_forall. intros H Hin. apply andb_true_iff. exact (H x Hin). Qed.

  Lemma obj_compat_kind x y : is_obj x = true -> is_obj y = true -> kind_of x = kind_of y /\ is_container x = true.
  Proof. destruct x; try discriminate. destruct y; try discriminate. split; reflexivity. Qed.

  Lemma good_pair_ok (sd : sdiff) l x y cd :
    In x l -> wfj x = true -> sd x y = Ok cd -> Good x y cd ->
    pair_ok (patch (depth (JArr l))) sd x y.
  Proof.
    intros Hin Hw Hcd Hg. exists cd. split; [exact Hcd|]. destruct cd as [|e cd'].
    - apply Good_nil; assumption.
    - destruct Hg as (_ & _ & Hp & _). apply Hp. apply depth_in_arr. exact Hin.
  Qed.

  Lemma step_T_multi n : T n -> T_multi (S n).
  Proof.
    intros (HTr & _) path l m0 Hwa Hwb Hl Ha Hb Hn.
    destruct (P_all O cfg Hops Hcfg n) as (HPr & _).
    rewrite U_multi. cbv zeta.
    destruct (get_predicates cfg (path_or_root path)) as [|c0 rest] eqn:Ep; [exfalso; eapply tot_preds_nonempty; exact Ep|].
    set (compares := c0 :: rest) in *.
    destruct (snakes_multilevel_ok (map (eval_pred O) compares) l m0 (length compares - 1) 0 0 (length l) (length m0))
      as (s & Hs & Hfv); try lia.
    rewrite Hs. cbn [bind].
    destruct (vsn_of_fv l m0 _ s 0 0 Hfv) as [Hv Hall].
    set (sp := subpath path star).
    destruct (diff_from_snakes_ok (patch (depth (JArr l))) (fun x y => run O cfg n (get_differ cfg sp) sp x y) l m0
                (s ++ [(length l, length m0, 0)]) 0 0 [] Hv) as (d & Hd & _).
    - intros i j nn Hin k Hk. destruct (Hall i j nn Hin) as (Bi & Bj & HP).
      destruct (nth_error l (i + k)) as [x|] eqn:Ex; [|apply nth_error_None in Ex; lia].
      destruct (nth_error m0 (j + k)) as [y|] eqn:Ey; [|apply nth_error_None in Ey; lia].
      exists x, y. split; [reflexivity|]. split; [reflexivity|].
      assert (Hinx : In x l) by (eapply nth_error_In; exact Ex).
      assert (Hiny : In y m0) by (eapply nth_error_In; exact Ey).
      destruct (objs_In path l x Ha Hinx) as [Ox Sx]. destruct (objs_In path m0 y Hb Hiny) as [Oy Sy].
      destruct (obj_compat_kind x y Ox Oy) as [Hk1 Hk2].
      pose proof (wfj_in_arr l x Hwa Hinx) as Hwx. pose proof (wfj_in_arr m0 y Hwb Hiny) as Hwy.
      pose proof (kids_arr cfg path l x Hl Hinx) as Hlx.
      destruct (HP k Hk) as (c & Hc & Hcmp). unfold cmp_at in Hcmp. rewrite Ex, Ey in Hcmp.
      apply in_map_iff in Hc as (p & <- & Hp).
      destruct (HTr sp x y Hwx Hwy Hlx Sx Sy) as (cd & Hcd).
      + split; [exact Hk1|]. split; [exact Hk2|]. intros Hdf.
        assert (Hpo : is_poutput p = true) by (apply (outputs_preds path p Hdf); rewrite Ep; exact Hp).
        destruct p; try discriminate. cbn [eval_pred] in Hcmp. apply andb_true_iff in Hcmp as [H1 _]. exact H1.
      + pose proof (depth_in_arr l x Hinx). lia.
      + eapply good_pair_ok; eauto.
    - exists 0, []. split; [reflexivity | apply Rec_init].
    - constructor.
    - exists d. exact Hd.
  Qed.

  Lemma shape_single_self p x : get_differ cfg p = DfSingleOutputs -> shape p x = true -> is_container x = true ->
    same_output_type x x = true.
  Proof.
    intros Hd Hs Hc. destruct x as [| | | |s|l|kv]; try discriminate; rewrite shape_unfold, Hd in Hs; try discriminate.
    cbn [same_output_type]. destruct (obj_get s_output_type kv) as [[| | | |t| |]|]; try discriminate.
    cbn [py_eqb num_of]. apply str_eqb_refl.
  Qed.

  Lemma step_T_lists n : T n -> T_lists (S n).
  Proof.
    intros (HTr & _ & _ & HTm & _) path l m0 Hwa Hwb Hl Ha Hb Hn.
    destruct (P_all O cfg Hops Hcfg n) as (HPr & _).
    rewrite U_lists. pose proof (cfg_preds cfg Hcfg (path_or_root path)) as Hp.
    destruct (get_predicates cfg (path_or_root path)) as [|c0 [|c1 rest]] eqn:Ep.
    - exfalso. eapply tot_preds_nonempty. exact Ep.
    - destruct c0; try discriminate. change (eval_pred O PStrictEq) with json_eqb. cbv zeta.
      unfold diff_sequence_bruteforce.
      destruct (lcs_indices_ok json_eqb l m0) as (ai & bi & Hli & Hinc). rewrite Hli. cbn [bind fst snd].
      unfold diff_from_lcs. rewrite (inc_idx_lengths _ _ _ _ _ Hinc), Nat.eqb_refl. cbn [bind].
      set (sp := subpath path star).
      destruct (diff_lists_from_indices_ok (patch (depth (JArr l)))
                  (fun x y => if is_atomic cfg x sp then Ok [] else run O cfg n (get_differ cfg sp) sp x y) l m0 ai bi) as (d & Hd & _).
      + eapply valid_idx_of_inc; [|exact Hinc|lia|lia].
        intros i j Hcmp. pose proof (cmp_at_bounds json_eqb l m0 i j Hcmp) as [Hi Hj].
        split; [exact Hi|]. split; [exact Hj|].
        intros k Hk0. replace k with 0 by lia. rewrite !Nat.add_0_r.
        unfold cmp_at in Hcmp. destruct (nth_error l i) as [x|] eqn:Ex; [|discriminate].
        destruct (nth_error m0 j) as [y|] eqn:Ey; [|discriminate].
        apply json_eqb_eq in Hcmp. subst y. exists x, x. split; [reflexivity|]. split; [reflexivity|].
        assert (Hinx : In x l) by (eapply nth_error_In; exact Ex).
        pose proof (wfj_in_arr l x Hwa Hinx) as Hwx. pose proof (kids_arr cfg path l x Hl Hinx) as Hlx.
        destruct (is_atomic cfg x sp) eqn:Eat.
        * exists []. cbv beta. rewrite Eat. split; reflexivity.
        * assert (Sx : shape sp x = true).
          { unfold items_ok in Ha. rewrite forallb_forall in Ha. specialize (Ha x Hinx). apply andb_true_iff in Ha as [_ Ha]. exact Ha. }
          pose proof (atomic_container x sp Eat) as Hcx.
          destruct (HTr sp x x Hwx Hwx Hlx Sx Sx) as (cd & Hcd).
          -- split; [reflexivity|]. split; [exact Hcx|]. intros Hdf. eapply shape_single_self; eassumption.
          -- pose proof (depth_in_arr l x Hinx). lia.
          -- eapply good_pair_ok; eauto. rewrite Eat. exact Hcd.
      + exists d. exact Hd.
    - apply HTm; auto; try lia.
      + unfold items_ok, objs_ok in *. rewrite forallb_forall in *. intros x Hx. specialize (Ha x Hx).
        unfold single_pred in Ha. rewrite Ep in Ha. exact Ha.
      + unfold items_ok, objs_ok in *. rewrite forallb_forall in *. intros x Hx. specialize (Hb x Hx).
        unfold single_pred in Hb. rewrite Ep in Hb. exact Hb.
  Qed.

  Lemma conj_kids_ok path kv :
    forallb (fun p => str_eqb (fst p) s_data
                      || (negb (is_single (get_differ cfg (subpath path (fst p)))) && shape (subpath path (fst p)) (snd p))) kv = true ->
    kids_ok path (filter (not_key s_data) kv) = true.
  Proof.
    unfold kids_ok. rewrite !forallb_forall. intros H p Hp. apply filter_In in Hp as [Hp Hf].
    specialize (H p Hp). unfold not_key in Hf. apply negb_true_iff in Hf. rewrite Hf in H. exact H.
  Qed.

  Lemma step_T_run n : T n -> T_run (S n).
  Proof.
    intros (_ & HTd & _ & HTm & _) path x y Hwx Hwy Hl Sx Sy (Hk & Hc & Hso) Hn.
    destruct (P_all O cfg Hops Hcfg n) as (_ & HPdiff & HPdef & _ & _ & _ & _ & HPmime).
    pose proof (cfg_differ cfg Hcfg path) as Hok. pose proof (tot_place path) as Hpl.
    rewrite U_run. rewrite shape_unfold in Sx, Sy.
    destruct (get_differ cfg path) eqn:Edf; try discriminate.
    - (* generic.diff *)
      apply HTd; auto; try lia.
      all: try (apply lines_ok_kids; exact Hl).
      all: try (destruct x; try reflexivity; exact Sx).
      all: try (destruct y; try reflexivity; exact Sy).
    - (* diff_string_lines *)
      destruct x as [| | | |s|l|ka]; try discriminate. destruct y as [| | | |t|m0|kb]; try discriminate.
      destruct (str_eqb s t); [eexists; reflexivity|].
      destruct (Hstr O cfg Hops n 2 s t ltac:(cbn [depth] in Hn; lia) ltac:(lia)) as (d & Hd & _). exists d. exact Hd.
    - (* diff_sequence_multilevel *)
      destruct x as [| | | |s|l|ka]; try discriminate. destruct y as [| | | |t|m0|kb]; try discriminate.
      apply HTm; auto; try lia. apply lines_ok_kids. exact Hl.
    - (* diff_single_outputs *)
      cbn [place_ok] in Hpl. rewrite Hpl. cbn [negb].
      destruct x as [| | | |s|l|ka]; try discriminate. destruct y as [| | | |t|m0|kb]; try discriminate.
      unfold single_outputs_body.
      destruct (obj_get s_output_type ka) as [[| | | |ta| |]|] eqn:Eta; try discriminate.
      destruct (obj_get s_output_type kb) as [[| | | |tb| |]|] eqn:Etb; try discriminate.
      specialize (Hso eq_refl). cbn [same_output_type] in Hso. rewrite Eta, Etb in Hso.
      cbn [py_eqb num_of] in Hso |- *. rewrite Hso. cbn [negb]. apply str_eqb_eq in Hso. subst tb.
      fold (is_display ta). destruct (lines_ok_single cfg path ka Edf Hl) as [Hk1 Hk2].
      destruct (is_display ta).
      + apply andb_true_iff in Sx as [Dx Sx]. apply andb_true_iff in Sy as [Dy Sy].
        destruct (obj_get s_data ka) as [[| | | | | |da]|] eqn:Eda; try discriminate.
        destruct (obj_get s_data kb) as [[| | | | | |db]|] eqn:Edb; try discriminate.
        cbv zeta. change (fun p : pystr * json => negb (str_eqb (fst p) s_data)) with (not_key s_data).
        pose proof (wfj_filter (not_key s_data) ka Hwx) as Hwac. pose proof (wfj_filter (not_key s_data) kb Hwy) as Hwbc.
        pose proof (depth_filter_le (not_key s_data) ka) as Hdf.
        assert (Hconj : exists dd_conj,
                  (if c_conj_cfg cfg then diff_ O cfg n path (JObj (filter (not_key s_data) ka)) (JObj (filter (not_key s_data) kb))
                   else diff_default O cfg n (JObj (filter (not_key s_data) ka)) (JObj (filter (not_key s_data) kb))) = Ok dd_conj
                  /\ Good (JObj (filter (not_key s_data) ka)) (JObj (filter (not_key s_data) kb)) dd_conj).
        { destruct (c_conj_cfg cfg).
          - destruct (HTd path (JObj (filter (not_key s_data) ka)) (JObj (filter (not_key s_data) kb))) as (dc & Hdc); auto; try lia.
            + apply kids_filter. exact Hk1.
            + apply conj_kids_ok. exact Sx.
            + apply conj_kids_ok. exact Sy.
            + exists dc. split; [exact Hdc|]. eapply HPdiff; [exact Hwac | exact Hwbc | apply kids_filter; exact Hk1 | exact Hdc].
          - destruct (default_total n (JObj (filter (not_key s_data) ka)) (JObj (filter (not_key s_data) kb))) as (dc & Hdc); auto; try lia.
            exists dc. split; [exact Hdc|]. eapply HPdef; eassumption. }
        destruct Hconj as (dd_conj & Hdc & Hg). rewrite Hdc. cbn [bind].
        pose proof (wfj_in_obj ka _ _ Hwx Eda) as Hwda. pose proof (wfj_in_obj kb _ _ Hwy Edb) as Hwdb.
        destruct (mime_total n da db Hwda Hwdb) as (dd & Hdd); [pose proof (depth_in_obj _ _ _ Eda); lia|].
        rewrite Hdd. cbn [bind]. destruct dd as [|e0 dd']; [eexists; reflexivity|].
        apply map_insert_total. intros e He Hke.
        destruct (conj_keys ka kb dd_conj Hwx Hg e He) as (ke & Eke & Ene).
        unfold key_str in Hke. rewrite Eke in Hke. subst ke. rewrite str_eqb_refl in Ene. discriminate.
      + apply HTd; auto; lia.
    - (* diff_attachments *)
      cbn [place_ok] in Hpl. rewrite Hpl. cbn [negb].
      destruct x as [| | | |s|l|ka]; try discriminate. destruct y as [| | | |t|m0|kb]; try discriminate.
      apply dict_diff_total. intros k va vb Hva Hvb. cbv beta. apply wrap_total.
      rewrite forallb_forall in Sx, Sy. specialize (Sx (k, va) Hva). specialize (Sy (k, vb) Hvb). cbn [snd] in Sx, Sy.
      destruct va; try discriminate. destruct vb; try discriminate.
      apply mime_total; [exact (wfj_In _ _ _ Hwx Hva) | exact (wfj_In _ _ _ Hwy Hvb) |].
      pose proof (depth_In _ _ _ Hva). lia.
  Qed.

  Lemma T_zero : T 0.
  Proof. repeat split; repeat intro; lia. Qed.

  Theorem T_all n : T n.
  Proof.
    induction n as [|n IH]; [exact T_zero|].
    split; [apply step_T_run; exact IH|]. split; [apply step_T_diff; exact IH|]. split; [apply step_T_lists; exact IH|].
    split; [apply step_T_multi; exact IH | apply step_T_dicts; exact IH].
  Qed.

  (* diff_notebooks returns on notebook-shaped documents, and what it returns is right *)
  Theorem nb_diff_total n a b :
    wfj a = true -> wfj b = true -> kids (lines_ok cfg) [] a = true ->
    shape_diff [] a = true -> shape_diff [] b = true -> kind_of a = kind_of b -> is_container a = true ->
    4 * depth a + 4 <= n ->
    exists d, diff_ O cfg n [] a b = Ok d /\ Good a b d.
  Proof.
    intros Hwa Hwb Hl Sa Sb Hk Hc Hn. destruct (T_all n) as (_ & HTd & _).
    destruct (HTd [] a b Hwa Hwb Hl Sa Sb Hk Hc Hn) as (d & Hd). exists d. split; [exact Hd|].
    eapply nb_diff_partial_correct; eassumption.
  Qed.
End Total.
