(* Strings: difflib opcodes -> character diff, the line-level diff, flatten_list_of_string_diff,
   and the round trip for diff_strings_linewise / patch_string. *)
From Coq Require Import List NArith ZArith Bool Lia.
From NB Require Import Base.Res Base.Json Base.PyStr Diff.DiffFormat Diff.Patch Diff.Lcs Diff.GenericDiff
     Diff.Wf Diff.PatchProofs Diff.SeqProofs Diff.LoopProofs Diff.SnakesProofs Diff.WfProofs.
Import ListNotations.

(* ---------- what is assumed of difflib.SequenceMatcher.get_opcodes ---------- *)
(* a contiguous cover of both strings by non-degenerate blocks, equal blocks equal, and no two
   consecutive non-equal blocks (difflib emits exactly one opcode between two matching blocks) *)
Fixpoint ops_ok (a b : pystr) (ia ib : nat) (may_edit : bool) (ops : list opcode) : Prop :=
  match ops with
  | [] => ia = length a /\ ib = length b
  | (tag, (a0, a1), (b0, b1)) :: r =>
      a0 = ia /\ b0 = ib /\ a0 <= a1 /\ a1 <= length a /\ b0 <= b1 /\ b1 <= length b /\
      match tag with
      | OpEqual => a0 < a1 /\ a1 - a0 = b1 - b0 /\ slice a a0 a1 = slice b b0 b1 /\ ops_ok a b a1 b1 true r
      | OpReplace => may_edit = true /\ a0 < a1 /\ b0 < b1 /\ ops_ok a b a1 b1 false r
      | OpInsert => may_edit = true /\ a0 = a1 /\ b0 < b1 /\ ops_ok a b a1 b1 false r
      | OpDelete => may_edit = true /\ a0 < a1 /\ b0 = b1 /\ ops_ok a b a1 b1 false r
      end
  end.

Definition opcodes_valid (O : oracles) : Prop :=
  forall a b, a <> b -> ops_ok a b 0 0 true (o_opcodes O a b).

(* ---------- generic gap shape ---------- *)
Lemma gap_shape_gen di x vs len :
  keys_lt x di ->
  b_addrange (b_removerange di x len) x vs
  = di ++ (if Nat.ltb 0 (vlen vs) then [DAddRange (KI x) vs] else [])
       ++ (if Nat.ltb 0 len then [DRemoveRange (KI x) len] else []).
Proof.
  intros Hk. unfold b_removerange, b_addrange.
  destruct (Nat.ltb_spec 0 len) as [Hl|Hl], (Nat.ltb_spec 0 (vlen vs)) as [Hv|Hv].
  - replace (Nat.eqb len 0) with false by (symmetry; apply Nat.eqb_neq; lia).
    replace (Nat.eqb (vlen vs) 0) with false by (symmetry; apply Nat.eqb_neq; lia).
    rewrite (seq_append_end_le di (DRemoveRange (KI x) len)); [|reflexivity | apply keys_lt_le; exact Hk].
    rewrite seq_append_add_before_remove by exact Hk. reflexivity.
  - replace (Nat.eqb len 0) with false by (symmetry; apply Nat.eqb_neq; lia).
    replace (Nat.eqb (vlen vs) 0) with true by (symmetry; apply Nat.eqb_eq; lia).
    rewrite (seq_append_end_le di (DRemoveRange (KI x) len)); [|reflexivity | apply keys_lt_le; exact Hk]. reflexivity.
  - replace (Nat.eqb len 0) with true by (symmetry; apply Nat.eqb_eq; lia).
    replace (Nat.eqb (vlen vs) 0) with false by (symmetry; apply Nat.eqb_neq; lia).
    rewrite seq_append_end_lt by exact Hk. rewrite app_nil_r. reflexivity.
  - replace (Nat.eqb len 0) with true by (symmetry; apply Nat.eqb_eq; lia).
    replace (Nat.eqb (vlen vs) 0) with true by (symmetry; apply Nat.eqb_eq; lia).
    rewrite app_nil_r. reflexivity.
Qed.

Lemma slice_map {X Y} (f : X -> Y) (l : list X) a b : slice (map f l) a b = map f (slice l a b).
Proof. unfold slice. rewrite skipn_map, firstn_map. reflexivity. Qed.

Lemma chars_length s : length (chars s) = length s.
Proof. apply map_length. Qed.

(* ---------- opcodes_to_diff ---------- *)
Section Opcodes.
  Variable rec : json -> diff -> res json.
  Variables a b : pystr.

  Notation CA := (chars a).
  Notation CB := (chars b).
  Notation WFB := (Wfb (length a) vl_is_str (fun _ _ => false)).
  Notation WFL := (Wfl (length a) vl_is_str (fun _ _ => false)).

  Lemma Built_keep di x y n :
    Built rec CA CB di x y -> slice CA x (x + n) = slice CB y (y + n) ->
    x + n <= length CA -> y + n <= length CB -> Built rec CA CB di (x + n) (y + n).
  Proof.
    intros (t & acc & Hp & (H1 & H2 & H3 & H4)) Hs Hx Hy. exists t, acc. split; [exact Hp|].
    unfold Rec. repeat split; try lia.
    rewrite <- (slice_app CA t x (x + n)) by lia. rewrite app_assoc, H4, Hs. apply firstn_slice.
  Qed.

  Lemma opcodes_to_diff_ok : forall ops ia ib may di,
    ops_ok a b ia ib may ops ->
    Built rec CA CB di ia ib -> WFL di ia -> (may = true -> WFB di ia) ->
    exists d, opcodes_to_diff b ops di = d
              /\ patch_list rec CA d = Ok CB
              /\ swf (length a) vl_is_str (fun _ _ => false) 0 true d = true.
  Proof.
    induction ops as [|[[tag [a0 a1]] [b0 b1]] ops IH]; intros ia ib may di Hok Hb Hwl Hwb.
    - cbn in Hok. destruct Hok as [-> ->]. exists di. split; [reflexivity|]. split.
      + destruct Hb as (t & acc & Hp & Hr). unfold patch_list. rewrite go_pst, Hp. cbn [bind fst snd].
        f_equal. apply (Rec_final CA CB t acc). rewrite !chars_length. exact Hr.
      + destruct Hwl as (c & a' & Hs & _). eapply swf_of_st; eauto.
    - cbn [ops_ok] in Hok. destruct Hok as (-> & -> & Ha01 & Ha1 & Hb01 & Hb1 & Hcase).
      cbn [opcodes_to_diff].
      assert (Hvit : vitems (VStr (slice b ib b1)) = slice CB ib b1) by (cbn [vitems]; unfold chars; rewrite slice_map; reflexivity).
      assert (Hvlen : vlen (VStr (slice b ib b1)) = b1 - ib) by (cbn [vlen]; apply slice_length; lia).
      destruct tag.
      + (* equal *)
        destruct Hcase as (Hlt & Hlen & Hsl & Hrest).
        apply (IH a1 b1 true di Hrest).
        * replace a1 with (ia + (a1 - ia)) by lia. replace b1 with (ib + (a1 - ia)) by lia.
          apply Built_keep; auto; rewrite ?chars_length; try lia.
          unfold chars. rewrite !slice_map.
          replace (ia + (a1 - ia)) with a1 by lia. replace (ib + (a1 - ia)) with b1 by lia. rewrite Hsl. reflexivity.
        * eapply Wfl_mono; [exact Hwl | lia].
        * intros _. eapply Wfl_lt_Wfb; [exact Hwl | lia].
      + (* replace *)
        destruct Hcase as (Hm & Hlta & Hltb & Hrest). specialize (Hwb Hm).
        pose proof (Wfb_keys_lt _ _ _ _ _ Hwb) as Hk.
        rewrite (gap_shape_gen di ia (VStr (slice b ib b1)) (a1 - ia) Hk). rewrite Hvlen.
        replace (Nat.ltb 0 (b1 - ib)) with true by (symmetry; apply Nat.ltb_lt; lia).
        replace (Nat.ltb 0 (a1 - ia)) with true by (symmetry; apply Nat.ltb_lt; lia).
        rewrite app_assoc.
        destruct (Wfb_addrange (length a) vl_is_str (fun _ _ => false) di ia (VStr (slice b ib b1)) ia Hwb) as (c & Hs & _); auto; try lia.
        assert (Hb1' : Built rec CA CB (di ++ [DAddRange (KI ia) (VStr (slice b ib b1))]) ia b1)
          by (apply (Built_addrange rec CA CB di ia ib b1); auto; rewrite ?chars_length; lia).
        assert (Hn : WFB ((di ++ [DAddRange (KI ia) (VStr (slice b ib b1))]) ++ [DRemoveRange (KI ia) (a1 - ia)]) a1).
        { replace a1 with (ia + (a1 - ia)) at 2 by lia. apply Wfb_removerange; try lia.
          exists ia, false. split; [exact Hs | lia]. }
        apply (IH a1 b1 false _ Hrest).
        * apply Built_removerange; auto; rewrite ?chars_length; lia.
        * apply Wfb_Wfl. exact Hn.
        * discriminate.
      + (* insert *)
        destruct Hcase as (Hm & Heq & Hltb & Hrest). subst a1. specialize (Hwb Hm).
        pose proof (Wfb_keys_lt _ _ _ _ _ Hwb) as Hk.
        unfold b_addrange. rewrite Hvlen.
        replace (Nat.eqb (b1 - ib) 0) with false by (symmetry; apply Nat.eqb_neq; lia).
        rewrite seq_append_end_lt by exact Hk.
        destruct (Wfb_addrange (length a) vl_is_str (fun _ _ => false) di ia (VStr (slice b ib b1)) ia Hwb) as (c & Hs & _); auto; try lia.
        apply (IH ia b1 false _ Hrest).
        * apply (Built_addrange rec CA CB di ia ib b1); auto; rewrite ?chars_length; lia.
        * exists ia, false. split; [exact Hs | lia].
        * discriminate.
      + (* delete *)
        destruct Hcase as (Hm & Hlta & Heq & Hrest). subst b1. specialize (Hwb Hm).
        pose proof (Wfb_keys_lt _ _ _ _ _ Hwb) as Hk.
        unfold b_removerange.
        replace (Nat.eqb (a1 - ia) 0) with false by (symmetry; apply Nat.eqb_neq; lia).
        rewrite seq_append_end_le; [|reflexivity | apply keys_lt_le; exact Hk].
        assert (Hn : WFB (di ++ [DRemoveRange (KI ia) (a1 - ia)]) a1).
        { replace a1 with (ia + (a1 - ia)) at 2 by lia. apply Wfb_removerange; try lia. apply Wfb_Wfl. exact Hwb. }
        apply (IH a1 ib false _ Hrest).
        * apply Built_removerange; auto; rewrite ?chars_length; lia.
        * apply Wfb_Wfl. exact Hn.
        * discriminate.
  Qed.
End Opcodes.

(* ---------- offsets of lines inside the joined string ---------- *)
Definition offk (lines : list pystr) (k : nat) : nat := length (concat (firstn k lines)).

Lemma accum_spec : forall (l : list nat) acc i, i < length l ->
  nth i (accum acc l) 0 = acc + fold_right Nat.add 0 (firstn (S i) l).
Proof.
  induction l as [|x l IH]; intros acc i Hi; [simpl in Hi; lia|].
  destruct i as [|i].
  - simpl. lia.
  - simpl in Hi. change (nth (S i) (accum acc (x :: l)) 0) with (nth i (accum (acc + x) l) 0).
    rewrite IH by lia. change (firstn (S (S i)) (x :: l)) with (x :: firstn (S i) l).
    cbn [fold_right]. lia.
Qed.

Lemma length_concat (ls : list pystr) : length (concat ls) = fold_right Nat.add 0 (map (@length N) ls).
Proof. induction ls as [|l ls IH]; [reflexivity|]. cbn [concat map fold_right]. rewrite app_length, IH. reflexivity. Qed.

Lemma line_to_char_nth lines k : k <= length lines -> nth_res (line_to_char lines) k = Ok (offk lines k).
Proof.
  unfold pystr in *. intros Hk. unfold nth_res, line_to_char, offk. destruct k as [|k]; [reflexivity|].
  cbn [nth_error].
  assert (Hlen : k < length (accum 0 (map (@length N) lines))).
  { assert (E : forall (l : list nat) a, length (accum a l) = length l)
      by (induction l; intros; simpl; [reflexivity | rewrite IHl; reflexivity]).
    rewrite E, map_length. apply Hk. }
  rewrite (nth_error_nth' _ 0 Hlen). f_equal.
  rewrite accum_spec by (rewrite map_length; lia).
  rewrite length_concat, firstn_map. reflexivity.
Qed.

Lemma line_to_char_overflow lines k : length lines < k -> nth_res (line_to_char lines) k = Err IndexError.
Proof.
  unfold pystr in *. intros Hk. unfold nth_res, line_to_char.
  assert (E : forall (l : list nat) a, length (accum a l) = length l)
    by (induction l; intros; simpl; [reflexivity | rewrite IHl; reflexivity]).
  destruct (nth_error (0 :: accum 0 (map (@length N) lines)) k) eqn:En; [|reflexivity].
  assert (k < length (0 :: accum 0 (map (@length N) lines))) by (apply nth_error_Some; congruence).
  simpl in H. rewrite E, map_length in H. lia.
Qed.

Lemma offk_mono lines k k' : k <= k' -> offk lines k <= offk lines k'.
Proof.
  unfold pystr in *. intros H. unfold offk. replace k' with (k + (k' - k)) by lia.
  rewrite firstn_add, concat_app, app_length. lia.
Qed.

Lemma offk_all lines : offk lines (length lines) = length (concat lines).
Proof. unfold offk. rewrite firstn_all. reflexivity. Qed.

Lemma concat_firstn_skipn (lines : list (list N)) k :
  concat lines = concat (firstn k lines) ++ concat (skipn k lines).
Proof. unfold pystr in *. rewrite <- concat_app, firstn_skipn. reflexivity. Qed.

(* the characters between two line offsets are the lines in between *)
Lemma slice_offsets lines t k : t <= k -> k <= length lines ->
  slice (concat lines) (offk lines t) (offk lines k) = concat (slice lines t k).
Proof.
  unfold pystr in *. intros Htk Hk. unfold slice, offk.
  rewrite (concat_firstn_skipn lines t) at 1.
  rewrite skipn_app, skipn_all, Nat.sub_diag. cbn [skipn app].
  replace k with (t + (k - t)) at 1 by lia.
  rewrite firstn_add, concat_app, app_length.
  rewrite (Nat.add_comm (length (concat (firstn t lines)))), Nat.add_sub.
  rewrite (concat_firstn_skipn (skipn t lines) (k - t)) at 1.
  rewrite firstn_app, firstn_all, Nat.sub_diag. cbn [firstn]. rewrite app_nil_r. reflexivity.
Qed.

Lemma skipn_nth_cons {T} (l : list T) k x : nth_error l k = Some x -> skipn k l = x :: skipn (S k) l.
Proof.
  revert k. induction l as [|y l IH]; intros [|k] Hk; simpl in *; try discriminate.
  - inversion Hk. reflexivity.
  - apply IH. exact Hk.
Qed.

Lemma slice_within_line (lines : list (list N)) k line u q :
  nth_error lines k = Some line -> u <= q -> q <= length line ->
  slice (concat lines) (offk lines k + u) (offk lines k + q) = slice line u q.
Proof.
  intros Hk Huq Hq. unfold slice, offk. unfold pystr in *.
  rewrite (concat_firstn_skipn lines k) at 1.
  rewrite skipn_app.
  rewrite (skipn_all2 (concat (firstn k lines))) by lia.
  rewrite (Nat.add_comm (length (concat (firstn k lines))) u), Nat.add_sub.
  cbn [app].
  rewrite (skipn_nth_cons lines k line Hk). cbn [concat]. rewrite skipn_app.
  replace (length (concat (firstn k lines)) + q - (u + length (concat (firstn k lines)))) with (q - u) by lia.
  rewrite firstn_app. rewrite skipn_length.
  replace (q - u - (length line - u)) with 0 by lia. cbn [firstn]. rewrite app_nil_r. reflexivity.
Qed.

Lemma offk_succ (lines : list (list N)) k line : nth_error lines k = Some line -> offk lines (S k) = offk lines k + length line.
Proof.
  intros Hk. unfold offk. unfold pystr in *. replace (S k) with (k + 1) by lia. rewrite firstn_add, concat_app, app_length. f_equal.
  rewrite (skipn_nth_cons lines k line Hk). cbn [firstn concat]. rewrite app_nil_r. reflexivity.
Qed.

(* ---------- sorted character-level diffs (global coordinates) ---------- *)
Fixpoint gs (c : nat) (l : list dentry) : Prop :=
  match l with
  | [] => True
  | DAddRange (KI k) (VStr _) :: r => c <= k /\ gs k r
  | DRemoveRange (KI k) len :: r => c <= k /\ 0 < len /\ gs (k + len) r
  | _ => False
  end.

Fixpoint gend (c : nat) (l : list dentry) : nat :=
  match l with
  | [] => c
  | DAddRange (KI k) _ :: r => gend k r
  | DRemoveRange (KI k) len :: r => gend (k + len) r
  | _ :: r => gend c r
  end.

Lemma gs_weaken l : forall c c', gs c l -> c' <= c -> gs c' l.
Proof.
  destruct l as [|e l]; intros c c' H Hc; [exact I|].
  destruct e as [k v|k|k v|[k|k] [vs|w]|[k|k] len|[k|k] dd]; cbn [gs] in *; try contradiction; intuition lia.
Qed.

Lemma gs_app l1 : forall l2 c, gs c (l1 ++ l2) <-> gs c l1 /\ gs (gend c l1) l2.
Proof.
  induction l1 as [|e l1 IH]; intros l2 c; [cbn; tauto|].
  destruct e as [k v|k|k v|[k|k] [vs|w]|[k|k] len|[k|k] dd]; cbn [app gs gend]; try tauto.
  - rewrite IH. tauto.
  - rewrite IH. tauto.
Qed.

Lemma gend_ge l : forall c, gs c l -> c <= gend c l.
Proof.
  induction l as [|e l IH]; intros c H; [cbn; lia|].
  destruct e as [k v|k|k v|[k|k] [vs|w]|[k|k] len|[k|k] dd]; cbn [gs gend] in *; try contradiction.
  - destruct H as [H1 H2]. specialize (IH _ H2). lia.
  - destruct H as (H1 & H2 & H3). specialize (IH _ H3). lia.
Qed.

(* sorting an already sorted diff by key changes nothing *)
Lemma insert_by_key_end e : forall l, keys_le (knat e) l -> insert_by_key e l = l ++ [e].
Proof.
  induction l as [|x l IH]; intros H; [reflexivity|].
  inversion H; subst. cbn [insert_by_key].
  replace (Nat.ltb (knat e) (knat x)) with false by (symmetry; apply Nat.ltb_ge; lia).
  rewrite IH by assumption. reflexivity.
Qed.

Lemma gs_keys l : forall c, gs c l -> Forall (fun e => c <= knat e) l.
Proof.
  induction l as [|e l IH]; intros c H; [constructor|].
  destruct e as [k v|k|k v|[k|k] [vs|w]|[k|k] len|[k|k] dd]; cbn [gs] in H; try contradiction.
  - destruct H as [H1 H2]. constructor; [cbn [knat dkey]; lia|].
    eapply Forall_impl; [|apply IH; exact H2]. cbn. intros. lia.
  - destruct H as (H1 & H2 & H3). constructor; [cbn [knat dkey]; lia|].
    eapply Forall_impl; [|apply IH; exact H3]. cbn. intros. lia.
Qed.

Lemma sort_sorted_aux : forall l acc c,
  gs c l -> keys_le c acc -> fold_left (fun acc e => insert_by_key e acc) l acc = acc ++ l.
Proof.
  induction l as [|e l IH]; intros acc c H Hacc; [cbn; rewrite app_nil_r; reflexivity|].
  cbn [fold_left].
  destruct e as [k v|k|k v|[k|k] [vs|w]|[k|k] len|[k|k] dd]; cbn [gs] in H; try contradiction.
  - destruct H as [H1 H2]. rewrite insert_by_key_end by (eapply Forall_impl; [|exact Hacc]; cbn [knat dkey]; intros; lia).
    rewrite (IH _ k H2).
    + rewrite <- app_assoc. reflexivity.
    + apply Forall_app. split; [eapply Forall_impl; [|exact Hacc]; cbn; intros; lia|]. repeat constructor.
  - destruct H as (H1 & H2 & H3). rewrite insert_by_key_end by (eapply Forall_impl; [|exact Hacc]; cbn [knat dkey]; intros; lia).
    rewrite (IH _ (k + len) H3).
    + rewrite <- app_assoc. reflexivity.
    + apply Forall_app. split; [eapply Forall_impl; [|exact Hacc]; cbn; intros; lia|]. repeat constructor. cbn [knat dkey]. lia.
Qed.

Lemma sort_sorted l c : gs c l -> sort_by_key l = l.
Proof. intros H. unfold sort_by_key. rewrite (sort_sorted_aux l [] c H); [reflexivity | constructor]. Qed.

(* ---------- _overlaps / _combine_ops on sorted character diffs preserve the meaning ---------- *)
Section Combine.
  Variable rec : json -> diff -> res json.
  Variable obj : list json.

  Lemma pst_two_addrange k w1 w2 tc acc :
    pst rec obj tc [DAddRange (KI k) (VStr w1); DAddRange (KI k) (VStr w2)] acc
    = pst rec obj tc [DAddRange (KI k) (VStr (w1 ++ w2))] acc.
  Proof.
    cbn [pst dkey vitems].
    replace (Nat.max (Nat.max tc k) k) with (Nat.max tc k) by lia.
    rewrite (slice_nil_ge obj (Nat.max tc k) k) by lia. rewrite app_nil_r, map_app, <- !app_assoc. reflexivity.
  Qed.

  Lemma pst_two_removerange k l1 l2 tc acc :
    pst rec obj tc [DRemoveRange (KI k) l1; DRemoveRange (KI (k + l1)) l2] acc
    = pst rec obj tc [DRemoveRange (KI k) (l1 + l2)] acc.
  Proof.
    cbn [pst dkey].
    replace (Nat.max (Nat.max tc (k + l1)) (k + l1 + l2)) with (Nat.max tc (k + (l1 + l2))) by lia.
    rewrite (slice_nil_ge obj (Nat.max tc (k + l1)) (k + l1)) by lia. rewrite app_nil_r. reflexivity.
  Qed.

  Lemma combine_go_ok : forall ch racc c0,
    gs c0 (rev racc ++ ch) ->
    exists comb, combine_go racc ch = Ok comb /\ gs c0 comb
                 /\ forall tc acc, pst rec obj tc comb acc = pst rec obj tc (rev racc ++ ch) acc.
  Proof.
    induction ch as [|e ch IH]; intros racc c0 Hg.
    - exists (rev racc). rewrite app_nil_r in *. repeat split; auto.
    - destruct racc as [|last rest].
      + cbn [combine_go]. apply (IH [e] c0). exact Hg.
      + cbn [combine_go]. cbn [rev] in Hg. rewrite <- app_assoc in Hg. cbn [app] in Hg.
        apply gs_app in Hg as [Hg1 Hg2]. set (c1 := gend c0 (rev rest)) in *.
        assert (Hnocomb : overlaps last e = Ok false ->
                  exists comb, (do o <- overlaps last e;
                                if o then (do c <- combine_ops last e; combine_go (c :: rest) ch)
                                else combine_go (e :: last :: rest) ch) = Ok comb /\ gs c0 comb
                               /\ forall tc acc, pst rec obj tc comb acc = pst rec obj tc (rev (last :: rest) ++ e :: ch) acc).
        { intros Ho. rewrite Ho. cbn [bind].
          destruct (IH (e :: last :: rest) c0) as (comb & Hc & Hgc & Hp).
          - cbn [rev]. rewrite <- !app_assoc. cbn [app]. apply gs_app. split; assumption.
          - exists comb. split; [exact Hc|]. split; [exact Hgc|]. intros tc acc. rewrite Hp.
            cbn [rev]. rewrite <- !app_assoc. reflexivity. }
        destruct last as [k1 v1|k1|k1 v1|[k1|k1] [vs1|w1]|[k1|k1] l1|[k1|k1] dd1]; cbn [gs] in Hg2; try contradiction.
        * (* last = addrange *)
          destruct Hg2 as [Hk1 Hg2].
          destruct e as [k2 v2|k2|k2 v2|[k2|k2] [vs2|w2]|[k2|k2] l2|[k2|k2] dd2]; cbn [gs] in Hg2; try contradiction.
          -- destruct Hg2 as [Hk2 Hg3].
             destruct (Nat.eq_dec k1 k2) as [E|E].
             ++ subst k2.
                assert (Ho : overlaps (DAddRange (KI k1) (VStr w1)) (DAddRange (KI k1) (VStr w2)) = Ok true)
                  by (cbn [overlaps op_of opk_eqb knat dkey]; rewrite Nat.eqb_refl; reflexivity).
                rewrite Ho. cbn [bind combine_ops is_addop vappend].
                destruct (IH (DAddRange (KI k1) (VStr (w1 ++ w2)) :: rest) c0) as (comb & Hc & Hgc & Hp).
                ** cbn [rev]. rewrite <- app_assoc. cbn [app]. apply gs_app. split; [exact Hg1|]. cbn [gs]. split; assumption.
                ** exists comb. split; [exact Hc|]. split; [exact Hgc|]. intros tc acc. rewrite Hp.
                   cbn [rev]. rewrite <- !app_assoc. cbn [app].
                   rewrite !(pst_app rec obj (rev rest)).
                   destruct (pst rec obj tc (rev rest) acc) as [[t' a']|]; [|reflexivity]. cbn [bind fst snd].
                   change (DAddRange (KI k1) (VStr (w1 ++ w2)) :: ch) with ([DAddRange (KI k1) (VStr (w1 ++ w2))] ++ ch).
                   change (DAddRange (KI k1) (VStr w1) :: DAddRange (KI k1) (VStr w2) :: ch)
                     with ([DAddRange (KI k1) (VStr w1); DAddRange (KI k1) (VStr w2)] ++ ch).
                   rewrite !(pst_app rec obj _ ch), pst_two_addrange. reflexivity.
             ++ apply Hnocomb. cbn [overlaps op_of opk_eqb knat dkey].
                replace (Nat.eqb k1 k2) with false by (symmetry; apply Nat.eqb_neq; exact E). reflexivity.
          -- apply Hnocomb. reflexivity.
        * (* last = removerange *)
          destruct Hg2 as (Hk1 & Hl1 & Hg2).
          destruct e as [k2 v2|k2|k2 v2|[k2|k2] [vs2|w2]|[k2|k2] l2|[k2|k2] dd2]; cbn [gs] in Hg2; try contradiction.
          -- apply Hnocomb. reflexivity.
          -- destruct Hg2 as (Hk2 & Hl2 & Hg3).
             destruct (Nat.le_gt_cases k2 (k1 + l1)) as [Hle|Hgt].
             ++ assert (k2 = k1 + l1) by lia. subst k2.
                assert (Ho : overlaps (DRemoveRange (KI k1) l1) (DRemoveRange (KI (k1 + l1)) l2) = Ok true).
                { cbn [overlaps op_of opk_eqb knat dkey].
                  replace (Nat.eqb k1 (k1 + l1)) with false by (symmetry; apply Nat.eqb_neq; lia).
                  rewrite Nat.leb_refl, Nat.eqb_refl. reflexivity. }
                rewrite Ho. cbn [bind combine_ops is_addop].
                destruct (IH (DRemoveRange (KI k1) (l1 + l2) :: rest) c0) as (comb & Hc & Hgc & Hp).
                ** cbn [rev]. rewrite <- app_assoc. cbn [app]. apply gs_app. split; [exact Hg1|]. cbn [gs].
                   split; [exact Hk1|]. split; [lia|]. replace (k1 + (l1 + l2)) with (k1 + l1 + l2) by lia. exact Hg3.
                ** exists comb. split; [exact Hc|]. split; [exact Hgc|]. intros tc acc. rewrite Hp.
                   cbn [rev]. rewrite <- !app_assoc. cbn [app].
                   rewrite !(pst_app rec obj (rev rest)).
                   destruct (pst rec obj tc (rev rest) acc) as [[t' a']|]; [|reflexivity]. cbn [bind fst snd].
                   change (DRemoveRange (KI k1) (l1 + l2) :: ch) with ([DRemoveRange (KI k1) (l1 + l2)] ++ ch).
                   change (DRemoveRange (KI k1) l1 :: DRemoveRange (KI (k1 + l1)) l2 :: ch)
                     with ([DRemoveRange (KI k1) l1; DRemoveRange (KI (k1 + l1)) l2] ++ ch).
                   rewrite !(pst_app rec obj _ ch), pst_two_removerange. reflexivity.
             ++ apply Hnocomb. cbn [overlaps op_of opk_eqb knat dkey].
                replace (Nat.eqb k1 k2) with false by (symmetry; apply Nat.eqb_neq; lia).
                replace (Nat.leb k2 (k1 + l1)) with false by (symmetry; apply Nat.leb_gt; lia). reflexivity.
  Qed.
End Combine.

(* ---------- flatten_list_of_string_diff: line-level and character-level patching agree ---------- *)
Lemma join_chars' s : join_strs (chars s) = Ok s.
Proof.
  unfold chars. induction s as [|c s IH]; [reflexivity|]. cbn [map char_json join_strs]. rewrite IH. reflexivity.
Qed.

Lemma concat_strs_app l1 l2 : concat_strs (l1 ++ l2) = concat_strs l1 ++ concat_strs l2.
Proof. unfold concat_strs. apply flat_map_app. Qed.

Lemma concat_strs_JStr (ls : list (list N)) : concat_strs (map JStr ls) = concat ls.
Proof. induction ls as [|l ls IH]; [reflexivity|]. cbn [map concat_strs flat_map concat]. fold (concat_strs (map JStr ls)). rewrite IH. reflexivity. Qed.

Lemma join_strs_all l : all_strs l = true -> join_strs l = Ok (concat_strs l).
Proof.
  induction l as [|x l IH]; intros H; [reflexivity|]. cbn [all_strs forallb] in H.
  apply andb_true_iff in H as [H1 H2]. destruct x; try discriminate.
  cbn [join_strs]. rewrite (IH H2). reflexivity.
Qed.

Lemma slice_chars line u q : slice (chars line) u q = chars (slice line u q).
Proof. unfold chars. apply slice_map. Qed.

Lemma skipn_chars n l : skipn n (chars l) = chars (skipn n l).
Proof. unfold chars. apply skipn_map. Qed.

Lemma chars_app s t : chars (s ++ t) = chars s ++ chars t.
Proof. unfold chars. apply map_app. Qed.

Lemma swf_st_of_swf n vl_ok patch_ok d : forall c a,
  swf n vl_ok patch_ok c a d = true -> exists st, swf_st n vl_ok patch_ok c a d = Some st.
Proof.
  induction d as [|e d IH]; intros c a H; [eexists; reflexivity|].
  destruct e as [k v|k|k v|[k|k] vs|[k|k] len|[k|k] dd]; cbn [swf swf_st] in *; try discriminate.
  - apply andb_true_iff in H as [H1 H2]. rewrite H1. apply IH. exact H2.
  - apply andb_true_iff in H as [H1 H2]. rewrite H1. apply IH. exact H2.
  - apply andb_true_iff in H as [H1 H2]. rewrite H1. apply IH. exact H2.
Qed.

Lemma swf_st_bound n vl_ok patch_ok d : forall c a c' a',
  swf_st n vl_ok patch_ok c a d = Some (c', a') -> c <= n -> c' <= n.
Proof.
  induction d as [|e d IH]; intros c a c' a' H Hc; [cbn in H; inversion H; subst; exact Hc|].
  destruct e as [k v|k|k v|[k|k] vs|[k|k] len|[k|k] dd]; cbn [swf_st] in H; try discriminate.
  - destruct (vl_ok vs && negb (Nat.eqb (vlen vs) 0) && Nat.leb k n && (Nat.ltb c k || Nat.eqb c k && a)) eqn:E; [|discriminate].
    apply andb_true_iff in E as [E _]. apply andb_true_iff in E as [_ E]. apply Nat.leb_le in E. eapply IH; eauto.
  - destruct (negb (Nat.eqb len 0) && Nat.leb c k && Nat.leb (k + len) n) eqn:E; [|discriminate].
    apply andb_true_iff in E as [_ E]. apply Nat.leb_le in E. eapply IH; eauto.
  - destruct (Nat.leb c k && Nat.ltb k n && patch_ok k dd) eqn:E; [|discriminate].
    apply andb_true_iff in E as [E _]. apply andb_true_iff in E as [_ E]. apply Nat.ltb_lt in E. eapply IH; eauto. lia.
Qed.

Lemma gend_app l1 : forall l2 c, gend c (l1 ++ l2) = gend (gend c l1) l2.
Proof.
  induction l1 as [|e l1 IH]; intros l2 c; [reflexivity|].
  destruct e as [k v|k|k v|[k|k] vs|[k|k] len|[k|k] dd]; cbn [app gend]; apply IH.
Qed.

Section FlattenSim.
  Variable rec_c : json -> diff -> res json.
  Variable lines : list (list N).
  Hypothesis Hne : Forall (fun l : list N => l <> []) lines.

  Notation C := (chars (concat lines)).
  Notation LJ := (map JStr lines).
  Definition nopatch : nat -> list dentry -> bool := fun _ _ => false.

  Definition line_rec (x : json) (dd : diff) : res json :=
    match x with
    | JStr u => do r <- patch_list rec_c (chars u) dd; do j <- join_strs r; Ok (JStr j)
    | _ => Err TypeError
    end.

  Lemma C_slice_line k line u q :
    nth_error lines k = Some line -> u <= q -> q <= length line ->
    slice C (offk lines k + u) (offk lines k + q) = slice (chars line) u q.
  Proof.
    intros Hk Hu Hq. unfold chars. rewrite !slice_map. f_equal. apply slice_within_line; assumption.
  Qed.

  Lemma within_line k line : nth_error lines k = Some line ->
    forall dd u au cu' au' wd tcg accg base0,
      swf_st (length line) vl_is_str nopatch u au dd = Some (cu', au') ->
      tcg <= offk lines k + u ->
      accg ++ slice C tcg (offk lines k + u) = base0 ++ chars wd ->
      exists wd' sdd tcg' accg',
        pst rec_c (chars line) u dd (chars wd) = Ok (cu', chars wd')
        /\ mapM (offset_entry (offk lines k)) dd = Ok sdd
        /\ pst rec_c C tcg sdd accg = Ok (tcg', accg')
        /\ tcg' <= offk lines k + cu'
        /\ accg' ++ slice C tcg' (offk lines k + cu') = base0 ++ chars wd'
        /\ gs (offk lines k + u) sdd /\ gend (offk lines k + u) sdd = offk lines k + cu'.
  Proof.
    intros Hk. set (ok := offk lines k).
    induction dd as [|e dd IH]; intros u au cu' au' wd tcg accg base0 Hwf Htc Hacc.
    - cbn in Hwf. inversion Hwf; subst. exists wd, [], tcg, accg. cbn [pst mapM gs gend]. repeat split; auto.
    - destruct e as [q v|q|q v|[q|q] [vs|w]|[q|q] len|[q|q] dd']; cbn [swf_st vl_is_str] in Hwf; try discriminate.
      + (* addrange q w *)
        cbn [andb] in Hwf.
        destruct (negb (Nat.eqb (vlen (VStr w)) 0) && Nat.leb q (length line) && (Nat.ltb u q || Nat.eqb u q && au)) eqn:E; [|discriminate].
        apply andb_true_iff in E as [E1 E3]. apply andb_true_iff in E1 as [E1 E2].
        apply Nat.leb_le in E2.
        assert (Huq : u <= q).
        { apply orb_true_iff in E3 as [E3|E3]; [apply Nat.ltb_lt in E3; lia|].
          apply andb_true_iff in E3 as [E3 _]. apply Nat.eqb_eq in E3. lia. }
        destruct (IH q false cu' au' (wd ++ slice line u q ++ w) (ok + q) (accg ++ slice C tcg (ok + q) ++ chars w) base0 Hwf)
          as (wd' & sdd & tcg' & accg' & H1 & H2 & H3 & H4 & H5 & H6 & H7).
        * lia.
        * pose proof (C_slice_line k line u q Hk Huq E2) as Hsl. fold ok in Hsl.
          transitivity ((accg ++ slice C tcg (ok + u)) ++ chars (slice line u q) ++ chars w).
          -- rewrite slice_same, app_nil_r.
             rewrite <- (slice_app C tcg (ok + u) (ok + q)) by lia.
             rewrite Hsl, (slice_chars line u q). rewrite <- !app_assoc. reflexivity.
          -- rewrite Hacc, !chars_app, <- !app_assoc. reflexivity.
        * exists wd', (DAddRange (KI (q + ok)) (VStr w) :: sdd), tcg', accg'.
          split; [|split; [|split; [|split; [exact H4|split; [exact H5|]]]]].
          -- cbn [pst dkey vitems]. replace (Nat.max u q) with q by lia.
             replace ((chars wd ++ slice (chars line) u q) ++ map char_json w) with (chars (wd ++ slice line u q ++ w)); [exact H1|].
             rewrite (slice_chars line u q), !chars_app, <- !app_assoc. reflexivity.
          -- cbn [mapM offset_entry dkey set_key bind]. fold ok. rewrite H2. reflexivity.
          -- cbn [pst dkey vitems]. replace (q + ok) with (ok + q) by lia.
             replace (Nat.max tcg (ok + q)) with (ok + q) by lia.
             rewrite <- app_assoc. exact H3.
          -- cbn [gs gend]. replace (q + ok) with (ok + q) by lia. split; [split; [lia | exact H6] | exact H7].
      + (* removerange q len *)
        destruct (negb (Nat.eqb len 0) && Nat.leb u q && Nat.leb (q + len) (length line)) eqn:E; [|discriminate].
        apply andb_true_iff in E as [E1 E3]. apply andb_true_iff in E1 as [E1 E2].
        apply negb_true_iff, Nat.eqb_neq in E1. apply Nat.leb_le in E2, E3.
        destruct (IH (q + len) true cu' au' (wd ++ slice line u q) (ok + (q + len)) (accg ++ slice C tcg (ok + q)) base0 Hwf)
          as (wd' & sdd & tcg' & accg' & H1 & H2 & H3 & H4 & H5 & H6 & H7).
        * lia.
        * pose proof (C_slice_line k line u q Hk E2 ltac:(lia)) as Hsl. fold ok in Hsl.
          transitivity ((accg ++ slice C tcg (ok + u)) ++ chars (slice line u q)).
          -- rewrite slice_same, app_nil_r.
             rewrite <- (slice_app C tcg (ok + u) (ok + q)) by lia.
             rewrite Hsl, (slice_chars line u q). rewrite <- !app_assoc. reflexivity.
          -- rewrite Hacc, !chars_app, <- !app_assoc. reflexivity.
        * exists wd', (DRemoveRange (KI (q + ok)) len :: sdd), tcg', accg'.
          split; [|split; [|split; [|split; [exact H4|split; [exact H5|]]]]].
          -- cbn [pst dkey]. replace (Nat.max u (q + len)) with (q + len) by lia.
             replace (chars wd ++ slice (chars line) u q) with (chars (wd ++ slice line u q)); [exact H1|].
             rewrite (slice_chars line u q), chars_app. reflexivity.
          -- cbn [mapM offset_entry dkey set_key bind]. fold ok. rewrite H2. reflexivity.
          -- cbn [pst dkey]. replace (q + ok) with (ok + q) by lia.
             replace (Nat.max tcg (ok + q + len)) with (ok + (q + len)) by lia. exact H3.
          -- cbn [gs gend]. replace (q + ok) with (ok + q) by lia.
             replace (ok + q + len) with (ok + (q + len)) by lia.
             split; [split; [lia | split; [lia | exact H6]] | exact H7].
      + (* patch inside a character diff is not well-formed *)
        cbn [nopatch] in Hwf. rewrite andb_false_r in Hwf. discriminate.
  Qed.

  Definition line_patch_ok (k : nat) (dd : list dentry) : bool :=
    match nth_error lines k with
    | Some line => negb (Nat.eqb (length dd) 0) && wf_chars (length line) dd
    | None => false
    end.

  Lemma offk_strict k k' : k < k' -> k' <= length lines -> offk lines k < offk lines k'.
  Proof.
    intros Hlt Hle. destruct (nth_error lines k) as [line|] eqn:E; [|apply nth_error_None in E; lia].
    assert (line <> []) by (rewrite Forall_forall in Hne; apply Hne; eapply nth_error_In; eauto).
    pose proof (offk_succ lines k line E). pose proof (offk_mono lines (S k) k' ltac:(lia)).
    destruct line; [congruence|]. simpl in *. lia.
  Qed.

  Lemma flatten_line_sim : forall d t a t' a' accL gc tc accC,
    swf_st (length lines) vl_is_lines line_patch_ok t a d = Some (t', a') ->
    t <= length lines -> tc <= offk lines t -> gc <= offk lines t ->
    accC ++ slice C tc (offk lines t) = chars (concat_strs accL) ->
    exists accL' ch tc' accC',
      pst line_rec LJ t d accL = Ok (t', accL')
      /\ flatten_entries (line_to_char lines) d = Ok ch
      /\ pst rec_c C tc ch accC = Ok (tc', accC')
      /\ t' <= length lines /\ tc' <= offk lines t'
      /\ accC' ++ slice C tc' (offk lines t') = chars (concat_strs accL')
      /\ gs gc ch /\ gend gc ch <= offk lines t'.
  Proof.
    induction d as [|e d IH]; intros t a t' a' accL gc tc accC Hwf Htn Htc Hgc Hacc.
    - cbn in Hwf. inversion Hwf; subst. exists accL, [], tc, accC. cbn [pst flatten_entries gs gend]. repeat split; auto.
    - assert (Hgap : forall k, t <= k -> k <= length lines ->
                accC ++ slice C tc (offk lines k) = chars (concat_strs (accL ++ slice LJ t k))).
      { intros k Htk Hk. rewrite <- (slice_app C tc (offk lines t) (offk lines k)); [|lia|apply offk_mono; lia].
        rewrite app_assoc, Hacc. unfold chars at 2. rewrite slice_map, slice_offsets by lia. fold (chars (concat (slice lines t k))).
        rewrite concat_strs_app, slice_map, concat_strs_JStr, chars_app. reflexivity. }
      destruct e as [k v|k|k v|[k|k] [vs|w]|[k|k] len|[k|k] dd]; cbn [swf_st vl_is_lines] in Hwf; try discriminate.
      + (* addrange k vs *)
        destruct (all_strs vs && negb (Nat.eqb (vlen (VList vs)) 0) && Nat.leb k (length lines) && (Nat.ltb t k || Nat.eqb t k && a)) eqn:E; [|discriminate].
        apply andb_true_iff in E as [E1 E4]. apply andb_true_iff in E1 as [E1 E3]. apply andb_true_iff in E1 as [E1 E2].
        apply Nat.leb_le in E3.
        assert (Htk : t <= k).
        { apply orb_true_iff in E4 as [E4|E4]; [apply Nat.ltb_lt in E4; lia|].
          apply andb_true_iff in E4 as [E4 _]. apply Nat.eqb_eq in E4. lia. }
        pose proof (offk_mono lines t k Htk) as Hmono.
        destruct (IH k false t' a' (accL ++ slice LJ t k ++ vs) (offk lines k) (offk lines k)
                     (accC ++ slice C tc (offk lines k) ++ chars (concat_strs vs)) Hwf)
          as (accL' & ch & tc' & accC' & H1 & H2 & H3 & H4 & H5 & H6 & H7 & H8); auto.
        * rewrite slice_same, app_nil_r. rewrite app_assoc, (Hgap k Htk E3).
          rewrite !concat_strs_app, !chars_app, <- !app_assoc. reflexivity.
        * exists accL', (DAddRange (KI (offk lines k)) (VStr (concat_strs vs)) :: ch), tc', accC'.
          split; [|split; [|split; [|split; [exact H4|split; [exact H5|split; [exact H6|]]]]]].
          -- cbn [pst dkey vitems]. replace (Nat.max t k) with k by lia. rewrite <- app_assoc. exact H1.
          -- cbn [flatten_entries flatten_entry dkey]. rewrite (line_to_char_nth lines k E3). cbn [bind join_vlist].
             rewrite (join_strs_all vs E1). cbn [bind]. rewrite H2. reflexivity.
          -- cbn [pst dkey vitems]. replace (Nat.max tc (offk lines k)) with (offk lines k) by lia.
             rewrite <- app_assoc. exact H3.
          -- cbn [gs gend]. split; [split; [lia | exact H7] | exact H8].
      + (* removerange k len *)
        destruct (negb (Nat.eqb len 0) && Nat.leb t k && Nat.leb (k + len) (length lines)) eqn:E; [|discriminate].
        apply andb_true_iff in E as [E1 E3]. apply andb_true_iff in E1 as [E1 E2].
        apply negb_true_iff, Nat.eqb_neq in E1. apply Nat.leb_le in E2, E3.
        pose proof (offk_mono lines t k E2) as Hmono.
        pose proof (offk_strict k (k + len) ltac:(lia) E3) as Hstrict.
        destruct (IH (k + len) true t' a' (accL ++ slice LJ t k) (offk lines (k + len)) (offk lines (k + len))
                     (accC ++ slice C tc (offk lines k)) Hwf)
          as (accL' & ch & tc' & accC' & H1 & H2 & H3 & H4 & H5 & H6 & H7 & H8); auto.
        * rewrite slice_same, app_nil_r. apply Hgap; lia.
        * exists accL', (DRemoveRange (KI (offk lines k)) (offk lines (k + len) - offk lines k) :: ch), tc', accC'.
          split; [|split; [|split; [|split; [exact H4|split; [exact H5|split; [exact H6|]]]]]].
          -- cbn [pst dkey]. replace (Nat.max t (k + len)) with (k + len) by lia. exact H1.
          -- cbn [flatten_entries flatten_entry dkey]. rewrite (line_to_char_nth lines k (Nat.le_trans _ _ _ (Nat.le_add_r k len) E3)). cbn [bind].
             rewrite (line_to_char_nth lines (k + len) E3). cbn [bind]. rewrite H2. reflexivity.
          -- cbn [pst dkey].
             replace (Nat.max tc (offk lines k + (offk lines (k + len) - offk lines k))) with (offk lines (k + len)) by lia.
             exact H3.
          -- cbn [gs gend].
             replace (offk lines k + (offk lines (k + len) - offk lines k)) with (offk lines (k + len)) by lia.
             split; [split; [lia | split; [lia | exact H7]] | exact H8].
      + (* patch k dd *)
        destruct (Nat.leb t k && Nat.ltb k (length lines) && line_patch_ok k dd) eqn:E; [|discriminate].
        apply andb_true_iff in E as [E1 E3]. apply andb_true_iff in E1 as [E1 E2].
        apply Nat.leb_le in E1. apply Nat.ltb_lt in E2.
        unfold line_patch_ok in E3. destruct (nth_error lines k) as [line|] eqn:Eline; [|discriminate].
        apply andb_true_iff in E3 as [E3 E4]. apply negb_true_iff, Nat.eqb_neq in E3.
        unfold wf_chars in E4.
        destruct (swf_st_of_swf (length line) vl_is_str (fun _ _ => false) dd 0 true E4) as ([cu' au'] & Hst).
        pose proof (offk_mono lines t k E1) as Hmono.
        destruct (within_line k line Eline dd 0 true cu' au' [] tc accC (chars (concat_strs (accL ++ slice LJ t k))) Hst)
          as (wd' & sdd & tcg' & accg' & W1 & W2 & W3 & W4 & W5 & W6 & W7).
        { lia. }
        { rewrite Nat.add_0_r. cbn [chars map]. rewrite app_nil_r. apply Hgap; lia. }
        assert (Hcu : cu' <= length line).
        { pose proof (swf_st_bound (length line) vl_is_str (fun _ _ => false) dd 0 true cu' au' Hst). lia. }
        pose proof (offk_succ lines k line Eline) as Hsucc.
        set (newline := wd' ++ skipn cu' line).
        destruct (IH (k + 1) true t' a' (accL ++ slice LJ t k ++ [JStr newline]) (offk lines k + cu') tcg' accg' Hwf)
          as (accL' & ch & tc' & accC' & H1 & H2 & H3 & H4 & H5 & H6 & H7 & H8); auto; try lia.
        * replace (k + 1) with (S k) by lia. lia.
        * replace (k + 1) with (S k) by lia. lia.
        * replace (k + 1) with (S k) by lia. rewrite Hsucc.
          rewrite <- (slice_app C tcg' (offk lines k + cu') (offk lines k + length line)) by lia.
          rewrite app_assoc, W5. rewrite (C_slice_line k line cu' (length line) Eline Hcu (le_n _)).
          rewrite (slice_chars line cu' (length line)), slice_to_end.
          rewrite (app_assoc accL), !concat_strs_app. cbn [concat_strs flat_map]. rewrite app_nil_r.
          unfold newline. rewrite !chars_app, <- !app_assoc. reflexivity.
        * exists accL', (sdd ++ ch), tc', accC'.
          split; [|split; [|split; [|split; [exact H4|split; [exact H5|split; [exact H6|]]]]]].
          -- cbn [pst dkey]. unfold nth_res. rewrite nth_error_map. unfold pystr in *. rewrite Eline. cbn [option_map bind line_rec].
             unfold patch_list. rewrite go_pst. change (@nil json) with (chars []). rewrite W1. cbn [bind fst snd].
             rewrite skipn_chars, <- chars_app, join_chars'. cbn [bind].
             replace (Nat.max t (k + 1)) with (k + 1) by lia. rewrite <- app_assoc. exact H1.
          -- cbn [flatten_entries flatten_entry dkey]. rewrite (line_to_char_nth lines k (Nat.lt_le_incl _ _ E2)). cbn [bind].
             rewrite W2. cbn [bind]. rewrite H2. reflexivity.
          -- rewrite pst_app, W3. cbn [bind fst snd]. exact H3.
          -- rewrite Nat.add_0_r in W6, W7.
             assert (Hg0 : gs gc sdd) by (eapply gs_weaken; [exact W6 | lia]).
             assert (He : gend gc sdd = offk lines k + cu').
             { rewrite <- W7. destruct dd as [|e0 dd0]; [cbn in E3; congruence|].
               destruct sdd as [|s0 sdd0]; [cbn [mapM] in W2; destruct (offset_entry (offk lines k) e0); cbn [bind] in W2;
                 [destruct (mapM (offset_entry (offk lines k)) dd0); discriminate | discriminate]|].
               destruct s0 as [? ?|?|? ?|[?|?] ?|[?|?] ?|[?|?] ?]; cbn [gs] in W6; try contradiction; reflexivity. }
             split; [apply gs_app; split; [exact Hg0 | rewrite He; exact H7]|].
             rewrite gend_app, He. exact H8.
  Qed.
End FlattenSim.
