(* Strings: difflib opcodes -> character diff, the line-level diff, flatten_list_of_string_diff,
   and the round trip for diff_strings_linewise / patch_string. *)
From Coq Require Import List NArith ZArith Bool Lia.
From NB Require Import Base.Res Base.Json Base.PyStr Diff.DiffFormat Diff.Patch Diff.Lcs Diff.GenericDiff
     Diff.Wf Diff.PatchProofs Diff.SeqProofs Diff.LoopProofs Diff.SnakesProofs Diff.WfProofs.
Import ListNotations.

(* ---------- what is assumed of difflib.SequenceMatcher.get_opcodes ---------- *)
(* a contiguous cover of both strings by non-degenerate blocks, equal blocks equal, and no two
   consecutive non-equal blocks (difflib emits exactly one opcode between two matching blocks) *)
Fixpoint ops_ok (a b : pystr) (ia ib : nat) (may_edit : bool) (ops : list opcode) : Prop :=
  match ops with
  | [] => ia = length a /\ ib = length b
  | (tag, (a0, a1), (b0, b1)) :: r =>
      a0 = ia /\ b0 = ib /\ a0 <= a1 /\ a1 <= length a /\ b0 <= b1 /\ b1 <= length b /\
      match tag with
      | OpEqual => a0 < a1 /\ a1 - a0 = b1 - b0 /\ slice a a0 a1 = slice b b0 b1 /\ ops_ok a b a1 b1 true r
      | OpReplace => may_edit = true /\ a0 < a1 /\ b0 < b1 /\ ops_ok a b a1 b1 false r
      | OpInsert => may_edit = true /\ a0 = a1 /\ b0 < b1 /\ ops_ok a b a1 b1 false r
      | OpDelete => may_edit = true /\ a0 < a1 /\ b0 = b1 /\ ops_ok a b a1 b1 false r
      end
  end.

Definition opcodes_valid (O : oracles) : Prop :=
  forall a b, a <> b -> ops_ok a b 0 0 true (o_opcodes O a b).

(* ---------- generic gap shape ---------- *)
Lemma gap_shape_gen di x vs len :
  keys_lt x di ->
  b_addrange (b_removerange di x len) x vs
  = di ++ (if Nat.ltb 0 (vlen vs) then [DAddRange (KI x) vs] else [])
       ++ (if Nat.ltb 0 len then [DRemoveRange (KI x) len] else []).
Proof.
  intros Hk. unfold b_removerange, b_addrange.
  destruct (Nat.ltb_spec 0 len) as [Hl|Hl], (Nat.ltb_spec 0 (vlen vs)) as [Hv|Hv].
  - replace (Nat.eqb len 0) with false by (symmetry; apply Nat.eqb_neq; lia).
    replace (Nat.eqb (vlen vs) 0) with false by (symmetry; apply Nat.eqb_neq; lia).
    rewrite (seq_append_end_le di (DRemoveRange (KI x) len)); [|reflexivity | apply keys_lt_le; exact Hk].
    rewrite seq_append_add_before_remove by exact Hk. reflexivity.
  - replace (Nat.eqb len 0) with false by (symmetry; apply Nat.eqb_neq; lia).
    replace (Nat.eqb (vlen vs) 0) with true by (symmetry; apply Nat.eqb_eq; lia).
    rewrite (seq_append_end_le di (DRemoveRange (KI x) len)); [|reflexivity | apply keys_lt_le; exact Hk]. reflexivity.
  - replace (Nat.eqb len 0) with true by (symmetry; apply Nat.eqb_eq; lia).
    replace (Nat.eqb (vlen vs) 0) with false by (symmetry; apply Nat.eqb_neq; lia).
    rewrite seq_append_end_lt by exact Hk. rewrite app_nil_r. reflexivity.
  - replace (Nat.eqb len 0) with true by (symmetry; apply Nat.eqb_eq; lia).
    replace (Nat.eqb (vlen vs) 0) with true by (symmetry; apply Nat.eqb_eq; lia).
    rewrite app_nil_r. reflexivity.
Qed.

Lemma slice_map {X Y} (f : X -> Y) (l : list X) a b : slice (map f l) a b = map f (slice l a b).
Proof. unfold slice. rewrite skipn_map, firstn_map. reflexivity. Qed.

Lemma chars_length s : length (chars s) = length s.
Proof. apply map_length. Qed.

(* ---------- opcodes_to_diff ---------- *)
Section Opcodes.
  Variable rec : json -> diff -> res json.
  Variables a b : pystr.

  Notation CA := (chars a).
  Notation CB := (chars b).
  Notation WFB := (Wfb (length a) vl_is_str (fun _ _ => false)).
  Notation WFL := (Wfl (length a) vl_is_str (fun _ _ => false)).

  Lemma Built_keep di x y n :
    Built rec CA CB di x y -> slice CA x (x + n) = slice CB y (y + n) ->
    x + n <= length CA -> y + n <= length CB -> Built rec CA CB di (x + n) (y + n).
  Proof.
    intros (t & acc & Hp & (H1 & H2 & H3 & H4)) Hs Hx Hy. exists t, acc. split; [exact Hp|].
    unfold Rec. repeat split; try lia.
    rewrite <- (slice_app CA t x (x + n)) by lia. rewrite app_assoc, H4, Hs. apply firstn_slice.
  Qed.

  Lemma opcodes_to_diff_ok : forall ops ia ib may di,
    ops_ok a b ia ib may ops ->
    Built rec CA CB di ia ib -> WFL di ia -> (may = true -> WFB di ia) ->
    exists d, opcodes_to_diff b ops di = d
              /\ patch_list rec CA d = Ok CB
              /\ swf (length a) vl_is_str (fun _ _ => false) 0 true d = true.
  Proof.
    induction ops as [|[[tag [a0 a1]] [b0 b1]] ops IH]; intros ia ib may di Hok Hb Hwl Hwb.
    - cbn in Hok. destruct Hok as [-> ->]. exists di. split; [reflexivity|]. split.
      + destruct Hb as (t & acc & Hp & Hr). unfold patch_list. rewrite go_pst, Hp. cbn [bind fst snd].
        f_equal. apply (Rec_final CA CB t acc). rewrite !chars_length. exact Hr.
      + destruct Hwl as (c & a' & Hs & _). eapply swf_of_st; eauto.
    - cbn [ops_ok] in Hok. destruct Hok as (-> & -> & Ha01 & Ha1 & Hb01 & Hb1 & Hcase).
      cbn [opcodes_to_diff].
      assert (Hvit : vitems (VStr (slice b ib b1)) = slice CB ib b1) by (cbn [vitems]; unfold chars; rewrite slice_map; reflexivity).
      assert (Hvlen : vlen (VStr (slice b ib b1)) = b1 - ib) by (cbn [vlen]; apply slice_length; lia).
      destruct tag.
      + (* equal *)
        destruct Hcase as (Hlt & Hlen & Hsl & Hrest).
        apply (IH a1 b1 true di Hrest).
        * replace a1 with (ia + (a1 - ia)) by lia. replace b1 with (ib + (a1 - ia)) by lia.
          apply Built_keep; auto; rewrite ?chars_length; try lia.
          unfold chars. rewrite !slice_map.
          replace (ia + (a1 - ia)) with a1 by lia. replace (ib + (a1 - ia)) with b1 by lia. rewrite Hsl. reflexivity.
        * eapply Wfl_mono; [exact Hwl | lia].
        * intros _. eapply Wfl_lt_Wfb; [exact Hwl | lia].
      + (* replace *)
        destruct Hcase as (Hm & Hlta & Hltb & Hrest). specialize (Hwb Hm).
        pose proof (Wfb_keys_lt _ _ _ _ _ Hwb) as Hk.
        rewrite (gap_shape_gen di ia (VStr (slice b ib b1)) (a1 - ia) Hk). rewrite Hvlen.
        replace (Nat.ltb 0 (b1 - ib)) with true by (symmetry; apply Nat.ltb_lt; lia).
        replace (Nat.ltb 0 (a1 - ia)) with true by (symmetry; apply Nat.ltb_lt; lia).
        rewrite app_assoc.
        destruct (Wfb_addrange (length a) vl_is_str (fun _ _ => false) di ia (VStr (slice b ib b1)) ia Hwb) as (c & Hs & _); auto; try lia.
        assert (Hb1' : Built rec CA CB (di ++ [DAddRange (KI ia) (VStr (slice b ib b1))]) ia b1)
          by (apply (Built_addrange rec CA CB di ia ib b1); auto; rewrite ?chars_length; lia).
        assert (Hn : WFB ((di ++ [DAddRange (KI ia) (VStr (slice b ib b1))]) ++ [DRemoveRange (KI ia) (a1 - ia)]) a1).
        { replace a1 with (ia + (a1 - ia)) at 2 by lia. apply Wfb_removerange; try lia.
          exists ia, false. split; [exact Hs | lia]. }
        apply (IH a1 b1 false _ Hrest).
        * apply Built_removerange; auto; rewrite ?chars_length; lia.
        * apply Wfb_Wfl. exact Hn.
        * discriminate.
      + (* insert *)
        destruct Hcase as (Hm & Heq & Hltb & Hrest). subst a1. specialize (Hwb Hm).
        pose proof (Wfb_keys_lt _ _ _ _ _ Hwb) as Hk.
        unfold b_addrange. rewrite Hvlen.
        replace (Nat.eqb (b1 - ib) 0) with false by (symmetry; apply Nat.eqb_neq; lia).
        rewrite seq_append_end_lt by exact Hk.
        destruct (Wfb_addrange (length a) vl_is_str (fun _ _ => false) di ia (VStr (slice b ib b1)) ia Hwb) as (c & Hs & _); auto; try lia.
        apply (IH ia b1 false _ Hrest).
        * apply (Built_addrange rec CA CB di ia ib b1); auto; rewrite ?chars_length; lia.
        * exists ia, false. split; [exact Hs | lia].
        * discriminate.
      + (* delete *)
        destruct Hcase as (Hm & Hlta & Heq & Hrest). subst b1. specialize (Hwb Hm).
        pose proof (Wfb_keys_lt _ _ _ _ _ Hwb) as Hk.
        unfold b_removerange.
        replace (Nat.eqb (a1 - ia) 0) with false by (symmetry; apply Nat.eqb_neq; lia).
        rewrite seq_append_end_le; [|reflexivity | apply keys_lt_le; exact Hk].
        assert (Hn : WFB (di ++ [DRemoveRange (KI ia) (a1 - ia)]) a1).
        { replace a1 with (ia + (a1 - ia)) at 2 by lia. apply Wfb_removerange; try lia. apply Wfb_Wfl. exact Hwb. }
        apply (IH a1 ib false _ Hrest).
        * apply Built_removerange; auto; rewrite ?chars_length; lia.
        * apply Wfb_Wfl. exact Hn.
        * discriminate.
  Qed.
End Opcodes.

(* ---------- offsets of lines inside the joined string ---------- *)
Definition offk (lines : list pystr) (k : nat) : nat := length (concat (firstn k lines)).

Lemma accum_spec : forall (l : list nat) acc i, i < length l ->
  nth i (accum acc l) 0 = acc + fold_right Nat.add 0 (firstn (S i) l).
Proof.
  induction l as [|x l IH]; intros acc i Hi; [simpl in Hi; lia|].
  destruct i as [|i].
  - simpl. lia.
  - simpl in Hi. change (nth (S i) (accum acc (x :: l)) 0) with (nth i (accum (acc + x) l) 0).
    rewrite IH by lia. change (firstn (S (S i)) (x :: l)) with (x :: firstn (S i) l).
    cbn [fold_right]. lia.
Qed.

Lemma length_concat (ls : list pystr) : length (concat ls) = fold_right Nat.add 0 (map (@length N) ls).
Proof. induction ls as [|l ls IH]; [reflexivity|]. cbn [concat map fold_right]. rewrite app_length, IH. reflexivity. Qed.

Lemma line_to_char_nth lines k : k <= length lines -> nth_res (line_to_char lines) k = Ok (offk lines k).
Proof.
  unfold pystr in *. intros Hk. unfold nth_res, line_to_char, offk. destruct k as [|k]; [reflexivity|].
  cbn [nth_error].
  assert (Hlen : k < length (accum 0 (map (@length N) lines))).
  { assert (E : forall (l : list nat) a, length (accum a l) = length l)
      by (induction l; intros; simpl; [reflexivity | rewrite IHl; reflexivity]).
    rewrite E, map_length. apply Hk. }
  rewrite (nth_error_nth' _ 0 Hlen). f_equal.
  rewrite accum_spec by (rewrite map_length; lia).
  rewrite length_concat, firstn_map. reflexivity.
Qed.

Lemma line_to_char_overflow lines k : length lines < k -> nth_res (line_to_char lines) k = Err IndexError.
Proof.
  unfold pystr in *. intros Hk. unfold nth_res, line_to_char.
  assert (E : forall (l : list nat) a, length (accum a l) = length l)
    by (induction l; intros; simpl; [reflexivity | rewrite IHl; reflexivity]).
  destruct (nth_error (0 :: accum 0 (map (@length N) lines)) k) eqn:En; [|reflexivity].
  assert (k < length (0 :: accum 0 (map (@length N) lines))) by (apply nth_error_Some; congruence).
  simpl in H. rewrite E, map_length in H. lia.
Qed.

Lemma offk_mono lines k k' : k <= k' -> offk lines k <= offk lines k'.
Proof.
  unfold pystr in *. intros H. unfold offk. replace k' with (k + (k' - k)) by lia.
  rewrite firstn_add, concat_app, app_length. lia.
Qed.

Lemma offk_all lines : offk lines (length lines) = length (concat lines).
Proof. unfold offk. rewrite firstn_all. reflexivity. Qed.

Lemma concat_firstn_skipn (lines : list (list N)) k :
  concat lines = concat (firstn k lines) ++ concat (skipn k lines).
Proof. unfold pystr in *. rewrite <- concat_app, firstn_skipn. reflexivity. Qed.

(* the characters between two line offsets are the lines in between *)
Lemma slice_offsets lines t k : t <= k -> k <= length lines ->
  slice (concat lines) (offk lines t) (offk lines k) = concat (slice lines t k).
Proof.
  unfold pystr in *. intros Htk Hk. unfold slice, offk.
  rewrite (concat_firstn_skipn lines t) at 1.
  rewrite skipn_app, skipn_all, Nat.sub_diag. cbn [skipn app].
  replace k with (t + (k - t)) at 1 by lia.
  rewrite firstn_add, concat_app, app_length.
  rewrite (Nat.add_comm (length (concat (firstn t lines)))), Nat.add_sub.
  rewrite (concat_firstn_skipn (skipn t lines) (k - t)) at 1.
  rewrite firstn_app, firstn_all, Nat.sub_diag. cbn [firstn]. rewrite app_nil_r. reflexivity.
Qed.

Lemma skipn_nth_cons {T} (l : list T) k x : nth_error l k = Some x -> skipn k l = x :: skipn (S k) l.
Proof.
  revert k. induction l as [|y l IH]; intros [|k] Hk; simpl in *; try discriminate.
  - inversion Hk. reflexivity.
  - apply IH. exact Hk.
Qed.

Lemma slice_within_line (lines : list (list N)) k line u q :
  nth_error lines k = Some line -> u <= q -> q <= length line ->
  slice (concat lines) (offk lines k + u) (offk lines k + q) = slice line u q.
Proof.
  intros Hk Huq Hq. unfold slice, offk. unfold pystr in *.
  rewrite (concat_firstn_skipn lines k) at 1.
  rewrite skipn_app.
  rewrite (skipn_all2 (concat (firstn k lines))) by lia.
  rewrite (Nat.add_comm (length (concat (firstn k lines))) u), Nat.add_sub.
  cbn [app].
  rewrite (skipn_nth_cons lines k line Hk). cbn [concat]. rewrite skipn_app.
  replace (length (concat (firstn k lines)) + q - (u + length (concat (firstn k lines)))) with (q - u) by lia.
  rewrite firstn_app. rewrite skipn_length.
  replace (q - u - (length line - u)) with 0 by lia. cbn [firstn]. rewrite app_nil_r. reflexivity.
Qed.

Lemma offk_succ (lines : list (list N)) k line : nth_error lines k = Some line -> offk lines (S k) = offk lines k + length line.
Proof.
  intros Hk. unfold offk. unfold pystr in *. replace (S k) with (k + 1) by lia. rewrite firstn_add, concat_app, app_length. f_equal.
  rewrite (skipn_nth_cons lines k line Hk). cbn [firstn concat]. rewrite app_nil_r. reflexivity.
Qed.
